#!/bin/bash
set -e
HERE="$(cd "$(dirname "$0")" && pwd)"
export GOFLAGS=-mod=mod GOPROXY=off GOSUMDB=off GOTOOLCHAIN=local
export PATH=/opt/veriftools/go1.26.8/bin:$PATH
unset GOWORK
mkdir -p "$HERE/bin" "$HERE/evidence"
cd "$HERE/fercheck" && go build -o "$HERE/bin/fercheck" .
echo "fercheck built"
