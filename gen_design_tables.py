#!/usr/bin/env python3
"""Fill the generated tables of DESIGN.md (between <!-- X:BEGIN --> / <!-- X:END --> markers) from
evidence/*.json, known_findings.json and seeded/*/meta.json."""
import json, glob, os, re
HERE = os.path.dirname(os.path.abspath(__file__))

def splice(text, tag, body):
    b, e = f"<!-- {tag}:BEGIN -->", f"<!-- {tag}:END -->"
    i, j = text.index(b) + len(b), text.index(e)
    return text[:i] + "\n" + body.rstrip() + "\n" + text[j:]

def rules():
    out = []
    for f in sorted(glob.glob(os.path.join(HERE, "evidence", "C*.json"))):
        ev = json.load(open(f))
        pid = ev["property_id"]
        out.append(f"**{pid}**\n")
        for rid, r in sorted(ev["coverage"].get("rules", {}).items(), key=lambda kv: (not kv[0].startswith(pid), kv[0])):
            ex = " (exhaustive)" if r.get("exhaustive") else ""
            out.append(f"* `{rid}` — {r['rule']} — n={r['ok']}/{r['obligations']}{ex}")
        kf = ev["coverage"].get("known_findings") or []
        if kf:
            out.append(f"* open findings reported on this run: {len(kf)}")
        out.append("")
    return "\n".join(out)

def ledger():
    kf = json.load(open(os.path.join(HERE, "known_findings.json")))["findings"]
    rows = ["| defect | property | rule / construct | outcome | what failed |", "|---|---|---|---|---|"]
    seen = set()
    def key(e):
        m = re.match(r"D-(\d+)(.*)", e.get("defect") or "D-99")
        return (int(m.group(1)) if m else 99, m.group(2) if m else "")
    for e in sorted(kf, key=key):
        d = e.get("defect", "-")
        if e["status"] == "open" and d in seen:
            continue
        seen.add(d)
        what = e["what"]
        what = re.sub(r"^fixed: property=\S+ \S+ ", "", what)
        outcome = f"fix `{e['commit']}`" if e["status"] == "fixed" else "open finding"
        k = e["key"].replace("|", "/")
        if len(k) > 110:
            k = k[:107] + "…"
        if len(what) > 230:
            what = what[:227] + "…"
        rows.append(f"| {d} | {e['property']} | {k} | {outcome} | {what.replace('|','/')} |")
    return "\n".join(rows)

def seeded():
    rows = ["| change | property | what it does | needs to manifest | demo (changed / clean) | caught by |", "|---|---|---|---|---|---|"]
    for f in sorted(glob.glob(os.path.join(HERE, "seeded", "*", "meta.json"))):
        m = json.load(open(f))
        caught = ", ".join(m.get("caught_by_rules", [])) or "**missed**"
        rows.append(f"| {m['id']} | {m['property']} | {m['title']} | {m['needs'][:200]} | exit {m['demo_changed_exit']} / exit {m['demo_clean_exit']} | {caught} |")
    return "\n".join(rows)

p = os.path.join(HERE, "DESIGN.md")
t = open(p).read()
t = splice(t, "RULES", rules())
t = splice(t, "LEDGER", ledger())
if glob.glob(os.path.join(HERE, "seeded", "*", "meta.json")):
    t = splice(t, "SEEDED", seeded())
open(p, "w").write(t)
print("DESIGN.md tables regenerated")
