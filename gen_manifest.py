#!/usr/bin/env python3
"""Regenerates MANIFEST.json from claims.json (kept by hand) — one check per claimed property."""
import json,sys
claims=json.load(open('/verif/claims.json'))
props=[json.loads(l) for l in open('/verif/properties.jsonl')]
checks=[];na=[]
for p in props:
    c=claims.get(p['id'])
    if c and c.get('claimed'):
        # the claim text follows the checker: the explanation the checker wrote into the evidence file of
        # its last run lists every rule it applies (claims.json's text is the fallback before a first run)
        try:
            ev=json.load(open('/verif/evidence/%s.json'%p['id']))
            expl=ev.get('coverage',{}).get('explanation','')
            if expl: c=dict(c,text=expl)
        except Exception:
            pass
        checks.append({
          "property_id":p['id'],
          "quick_cmd":"./check %s quick"%p['id'],
          "thorough_cmd":"./check %s thorough"%p['id'],
          "evidence_file":"/verif/evidence/%s.json"%p['id'],
          "engine":"fercheck",
          "level_claimed":{"category":"other","text":c['text'],"design_ref":"DESIGN.md §3 "+p['id']},
          "level_note":c['note'],
          "technique":c['technique']})
    else:
        na.append({"property_id":p['id'],"reason":(c or {}).get('reason',"no sound static rule implemented yet for this property; not claimed until one is (see DESIGN.md)")})
m={"version":1,
   "setup_cmd":"./setup.sh",
   "hooks":{"guard":"verif","enable":"none needed: checks analyse /repo's sources (go/packages + clang AST); no hook commits exist","baseline_off_cmd":"cd /repo && GOFLAGS=-mod=mod GOPROXY=off GOSUMDB=off GOTOOLCHAIN=local PATH=/opt/veriftools/go1.26.8/bin:$PATH go test -vet=off -count=1 ./...","source_commits":[],"add_only":True},
   "engines":[{"name":"fercheck","path":"/verif/fercheck","serves_properties":[c['property_id'] for c in checks],"kind_free_text":"repository-specific static analyser (go/packages, go/types, go/cfg, go/ssa, clang JSON AST); never executes code from /repo"}],
   "checks":checks,
   "notes":"All claims are level 'other': each check decides named structural necessary conditions of the property (DESIGN.md §3), not the behaviour itself. known_findings.json lists genuine defects recorded or fixed.",
   "not_applicable":na}
json.dump(m,open('/verif/MANIFEST.json','w'),indent=1)
print(len(checks),"claimed,",len(na),"not applicable")
