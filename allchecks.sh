#!/bin/bash
# usage: ./allchecks.sh [quick|thorough] — runs every property's check and prints only the ones that do not pass. Exit 1 if any fails.
cd "$(dirname "$0")"; T=${1:-quick}; bad=0
for p in 01 02 03 04 05 06 07 08 09 10 11 12 13 14 15 16 17 18 19 20; do
  out=$(./check C$p $T 2>&1); rc=$?
  if [ $rc -ne 0 ] || echo "$out" | grep -q "^VIOLATION"; then bad=1; echo "$out" | grep "^VIOLATION\|^property\|cannot build\|\.go:" | cut -c1-220 | head -6; fi
done
[ $bad = 0 ] && echo "all 20 pass ($T)"; exit $bad
