package main

import (
	"go/ast"
	"go/constant"
	"go/token"
	"go/types"
	"strings"

	"golang.org/x/tools/go/types/typeutil"
)

// callee resolves the function or method called by call (static or interface method), or nil.
func callee(info *types.Info, call *ast.CallExpr) *types.Func {
	f, _ := typeutil.Callee(info, call).(*types.Func)
	if f != nil {
		return f.Origin()
	}
	return nil
}

// isCallTo reports whether call resolves to one of the given function objects.
func isCallTo(info *types.Info, call *ast.CallExpr, fns ...*types.Func) bool {
	c := callee(info, call)
	if c == nil {
		return false
	}
	for _, f := range fns {
		if f != nil && c == f {
			return true
		}
	}
	return false
}

// pkgFunc tests that obj is function `name` of package path `pkg` (full import path).
func isPkgFunc(obj *types.Func, pkg, name string) bool {
	return obj != nil && obj.Pkg() != nil && obj.Pkg().Path() == pkg && obj.Name() == name && obj.Type().(*types.Signature).Recv() == nil
}

// isMethod tests that obj is method `name` on named type `typ` of package `pkg`.
func isMethod(obj *types.Func, pkg, typ, name string) bool {
	if obj == nil || obj.Name() != name || obj.Pkg() == nil || obj.Pkg().Path() != pkg {
		return false
	}
	sig := obj.Type().(*types.Signature)
	if sig.Recv() == nil {
		return false
	}
	t := sig.Recv().Type()
	if p, ok := t.(*types.Pointer); ok {
		t = p.Elem()
	}
	n, ok := t.(*types.Named)
	return ok && n.Obj().Name() == typ
}

// constOf returns the constant value of e if any.
func constOf(info *types.Info, e ast.Expr) constant.Value {
	if tv, ok := info.Types[e]; ok {
		return tv.Value
	}
	return nil
}

// constObj returns the *types.Const an identifier/selector denotes.
func constObj(info *types.Info, e ast.Expr) *types.Const {
	e = ast.Unparen(e)
	switch x := e.(type) {
	case *ast.Ident:
		c, _ := info.Uses[x].(*types.Const)
		return c
	case *ast.SelectorExpr:
		c, _ := info.Uses[x.Sel].(*types.Const)
		return c
	}
	return nil
}

// objOf returns the object an identifier/selector expression denotes (var, const, func, field).
func objOf(info *types.Info, e ast.Expr) types.Object {
	e = ast.Unparen(e)
	switch x := e.(type) {
	case *ast.Ident:
		if o := info.Uses[x]; o != nil {
			return o
		}
		return info.Defs[x]
	case *ast.SelectorExpr:
		if s := info.Selections[x]; s != nil {
			return s.Obj()
		}
		return info.Uses[x.Sel]
	}
	return nil
}

// fieldOf returns the struct field object selected by e (x.F), or nil.
func fieldOf(info *types.Info, e ast.Expr) *types.Var {
	if s, ok := ast.Unparen(e).(*ast.SelectorExpr); ok {
		if sel := info.Selections[s]; sel != nil && sel.Kind() == types.FieldVal {
			v, _ := sel.Obj().(*types.Var)
			return v
		}
	}
	return nil
}

// namedOf strips pointers and returns the named type (or nil).
func namedOf(t types.Type) *types.Named {
	for {
		switch x := t.(type) {
		case *types.Pointer:
			t = x.Elem()
		case *types.Alias:
			t = types.Unalias(x)
		case *types.Named:
			return x
		default:
			return nil
		}
	}
}

func isNamed(t types.Type, pkg, name string) bool {
	n := namedOf(t)
	return n != nil && n.Obj().Pkg() != nil && n.Obj().Pkg().Path() == pkg && n.Obj().Name() == name
}

// lookupType finds a named type in a package (module-relative path).
func (c *Ctx) lookupType(pkgRel, name string) *types.TypeName {
	p := c.ByPath[Mod+"/"+pkgRel]
	if p == nil {
		return nil
	}
	tn, _ := p.Types.Scope().Lookup(name).(*types.TypeName)
	return tn
}

func (c *Ctx) lookupObj(pkgRel, name string) types.Object {
	p := c.ByPath[Mod+"/"+pkgRel]
	if p == nil {
		return nil
	}
	return p.Types.Scope().Lookup(name)
}

// fieldObj finds field `field` of struct type `typ` in package pkgRel.
func (c *Ctx) fieldObj(pkgRel, typ, field string) *types.Var {
	tn := c.lookupType(pkgRel, typ)
	if tn == nil {
		return nil
	}
	st, _ := tn.Type().Underlying().(*types.Struct)
	if st == nil {
		return nil
	}
	for i := 0; i < st.NumFields(); i++ {
		if st.Field(i).Name() == field {
			return st.Field(i)
		}
	}
	return nil
}

// walkWithStack calls f for every node with the stack of its ancestors (outermost first, excluding n).
func walkWithStack(root ast.Node, f func(n ast.Node, stack []ast.Node) bool) {
	var stack []ast.Node
	ast.Inspect(root, func(n ast.Node) bool {
		if n == nil {
			stack = stack[:len(stack)-1]
			return true
		}
		if !f(n, stack) {
			return false
		}
		stack = append(stack, n)
		return true
	})
}

// calls lists every call expression in root (in source order), not descending into function literals
// unless intoLits is set.
func callsIn(root ast.Node, intoLits bool) []*ast.CallExpr {
	var out []*ast.CallExpr
	ast.Inspect(root, func(n ast.Node) bool {
		if _, ok := n.(*ast.FuncLit); ok && !intoLits {
			return false
		}
		if c, ok := n.(*ast.CallExpr); ok {
			out = append(out, c)
		}
		return true
	})
	return out
}

// exprStr renders an expression compactly.
func exprStr(e ast.Expr) string { return types.ExprString(e) }

// containsNode reports whether outer contains inner by position.
func containsNode(outer, inner ast.Node) bool {
	return outer != nil && inner != nil && outer.Pos() <= inner.Pos() && inner.End() <= outer.End()
}

// paramObj returns the i-th parameter object of fn.
func (f *Fn) Param(i int) *types.Var {
	sig := f.Obj.Type().(*types.Signature)
	if i < sig.Params().Len() {
		return sig.Params().At(i)
	}
	return nil
}

func (f *Fn) ParamNamed(name string) *types.Var {
	sig := f.Obj.Type().(*types.Signature)
	for i := 0; i < sig.Params().Len(); i++ {
		if sig.Params().At(i).Name() == name {
			return sig.Params().At(i)
		}
	}
	return nil
}

// usesVar: e is an identifier bound to v.
func usesVar(info *types.Info, e ast.Expr, v *types.Var) bool {
	id, ok := ast.Unparen(e).(*ast.Ident)
	return ok && v != nil && info.Uses[id] == v
}

// mentionsVar: expression tree mentions v anywhere.
func mentionsVar(info *types.Info, e ast.Node, v types.Object) bool {
	found := false
	ast.Inspect(e, func(n ast.Node) bool {
		if id, ok := n.(*ast.Ident); ok && info.Uses[id] == v {
			found = true
		}
		return !found
	})
	return found
}

// conjuncts splits a && b && c.
func conjuncts(e ast.Expr) []ast.Expr {
	e = ast.Unparen(e)
	if b, ok := e.(*ast.BinaryExpr); ok && b.Op == token.LAND {
		return append(conjuncts(b.X), conjuncts(b.Y)...)
	}
	return []ast.Expr{e}
}

func disjuncts(e ast.Expr) []ast.Expr {
	e = ast.Unparen(e)
	if b, ok := e.(*ast.BinaryExpr); ok && b.Op == token.LOR {
		return append(disjuncts(b.X), disjuncts(b.Y)...)
	}
	return []ast.Expr{e}
}

func relPkg(p *types.Package) string {
	if p == nil {
		return ""
	}
	return strings.TrimPrefix(strings.TrimPrefix(p.Path(), Mod+"/"), "internal/")
}

// caseClauses returns the case clauses of a switch / type switch body.
func caseClauses(body *ast.BlockStmt) []*ast.CaseClause {
	var out []*ast.CaseClause
	for _, s := range body.List {
		if cc, ok := s.(*ast.CaseClause); ok {
			out = append(out, cc)
		}
	}
	return out
}

// typeSwitchOn finds, in fn's body, the type switches whose subject is the variable v
// (switch x := v.(type) or switch v.(type)).
func typeSwitchesOn(info *types.Info, body ast.Node, v *types.Var) []*ast.TypeSwitchStmt {
	var out []*ast.TypeSwitchStmt
	ast.Inspect(body, func(n ast.Node) bool {
		ts, ok := n.(*ast.TypeSwitchStmt)
		if !ok {
			return true
		}
		var x ast.Expr
		switch a := ts.Assign.(type) {
		case *ast.AssignStmt:
			if ta, ok := a.Rhs[0].(*ast.TypeAssertExpr); ok {
				x = ta.X
			}
		case *ast.ExprStmt:
			if ta, ok := a.X.(*ast.TypeAssertExpr); ok {
				x = ta.X
			}
		}
		if x != nil && usesVar(info, x, v) {
			out = append(out, ts)
		}
		return true
	})
	return out
}

// caseTypes returns the types listed in a type-switch case clause.
func caseTypes(info *types.Info, cc *ast.CaseClause) []types.Type {
	var out []types.Type
	for _, e := range cc.List {
		if tv, ok := info.Types[e]; ok && tv.IsType() {
			out = append(out, tv.Type)
		}
	}
	return out
}

// implementers lists the concrete named types (pointer receivers allowed) declared in pkg that implement iface.
func implementers(pkg *types.Package, iface *types.Interface) []*types.Named {
	var out []*types.Named
	sc := pkg.Scope()
	for _, n := range sc.Names() {
		tn, ok := sc.Lookup(n).(*types.TypeName)
		if !ok || tn.IsAlias() {
			continue
		}
		named, ok := tn.Type().(*types.Named)
		if !ok {
			continue
		}
		if _, isIface := named.Underlying().(*types.Interface); isIface {
			continue
		}
		if types.Implements(named, iface) || types.Implements(types.NewPointer(named), iface) {
			out = append(out, named)
		}
	}
	return out
}
