package main

// Additions to the explanations of properties whose rule lists were extended in later files.
func init() {
	lateInits = append(lateInits, func() {
		add := func(id, text string) { props[id].Explanation += " " + text }
		add("C01", "Also: (R4) every compound-assignment lowering reads the target before it evaluates the right-hand side; (C06.R4) a declared name is bound only to a fresh allocation; (C05.R6) in match lowering no 'no pattern matched' edge targets the continuation block.")
		add("C02", "Also: (R4) every i32.const/i64.const immediate is written with the signed LEB128 encoder (reviewed block-tag sites excepted); (R5) the native string-data escapes are ones the assembler decodes to exactly the original byte.")
		add("C03", "Also: (R6) the then-context of `||` and the else-context of `&&` keep a narrowing only when both operands establish it.")
		add("C04", "Also (C02.R4): constant address offsets in the wasm back end are signed-LEB encoded.")
		add("C05", "Also: (R6) in the lowering of match the continuation block is only an arm exit; no-match edges go through the default-block variable.")
		add("C06", "Also: (R4) every binding of a symbol to a storage slot in mir/gen is a fresh allocation (no aliasing of a const or of a &T referent by copy elision).")
		add("C09", "Also: (R4) a cast folded by the constant evaluator (none today) must use width and signedness of the target; (C01.R3) 8/16-bit values are reduced to their width whether they stay in a register or pass through a variable.")
		add("C13", "Also: (R10) in the driver packages no error variable holding an unexamined result is overwritten by a possibly-nil value.")
		add("C15", "Also: (R6) call-target resolution uses the importing module's alias table and no program-wide table keyed by the alias text alone.")
	})
}
