package main

// Round-3 rules: invariants behind the third batch of seeded changes.

import (
	"fmt"
	"go/ast"
	"go/constant"
	"go/token"
	"go/types"
	"sort"
	"strings"

	"golang.org/x/tools/go/cfg"
)

func sortStrings(s []string) { sort.Strings(s) }

func init() {
	lateInits = append(lateInits, func() {
		props["C03"].Quick = append(props["C03"].Quick, c03R10)
		props["C03"].Explanation += " (R10) scope discipline of the symbol collector / resolver / type checker: the restore function of every Module.EnterScope is invoked, and a restore that is deferred inside a loop (it only runs at function exit, so the scope stays entered for later iterations) is accepted only when nothing but whole *ast.Block bodies — which open their own scope — is processed under it."
	})
}

// C03.R10: every EnterScope is restored; a scope that stays entered across loop iterations receives no declarations.
func c03R10(c *Ctx, r *Report) {
	const rule = "C03.R10"
	r.Describe(rule, "semantics/{collector,resolver,typechecker}: the restore func returned by Module.EnterScope is deferred or called; when it is deferred inside a for/range body every same-package call in that body that receives the module is handed a *ast.Block (a block opens its own scope), so no declaration lands in a scope that later iterations still see as an ancestor")
	var enter *types.Func
	if tn := c.lookupType("internal/context_v2", "Module"); tn != nil {
		if o, _, _ := types.LookupFieldOrMethod(types.NewPointer(tn.Type()), true, tn.Pkg(), "EnterScope"); o != nil {
			enter, _ = o.(*types.Func)
		}
	}
	if !r.Anchor(rule, enter != nil, "context_v2.(*Module).EnterScope") {
		return
	}
	sites := 0
	for _, pkg := range []string{"internal/semantics/collector", "internal/semantics/resolver", "internal/semantics/typechecker"} {
		for _, fn := range c.AllFns(pkg) {
			if fn.Decl == nil || fn.Decl.Body == nil {
				continue
			}
			info := fn.Info()
			walkWithStack(fn.Decl.Body, func(n ast.Node, stack []ast.Node) bool {
				call, ok := n.(*ast.CallExpr)
				if !ok || !isCallTo(info, call, enter) {
					return true
				}
				sites++
				key := "EnterScope(" + exprStr(call.Args[0]) + ")"
				// how is the result consumed?
				var parent, grand ast.Node
				if len(stack) >= 1 {
					parent = stack[len(stack)-1]
				}
				if len(stack) >= 2 {
					grand = stack[len(stack)-2]
				}
				deferred := false
				restored := false
				if pc, ok := parent.(*ast.CallExpr); ok && pc.Fun == call {
					if _, ok := grand.(*ast.DeferStmt); ok {
						deferred, restored = true, true
					}
				}
				if as, ok := parent.(*ast.AssignStmt); ok && len(as.Lhs) == 1 {
					if v, ok := objOf(info, as.Lhs[0]).(*types.Var); ok {
						// the variable must be invoked somewhere in the function
						ast.Inspect(fn.Decl.Body, func(x ast.Node) bool {
							if cl, ok := x.(*ast.CallExpr); ok {
								if id, ok := cl.Fun.(*ast.Ident); ok && info.Uses[id] == v {
									restored = true
								}
							}
							return true
						})
					}
				}
				r.Check(restored, rule, fn.Name(), key+" restored", c.pos(call.Pos()),
					"the function returned by EnterScope is neither deferred nor called: the module stays in the inner scope and later declarations and look-ups use the wrong scope")
				if !deferred {
					return true
				}
				// deferred: is it inside a loop of this function (not across a func literal)?
				var loopBody *ast.BlockStmt
				for i := len(stack) - 1; i >= 0; i-- {
					switch s := stack[i].(type) {
					case *ast.FuncLit:
						i = -1
					case *ast.ForStmt:
						loopBody = s.Body
						i = -1
					case *ast.RangeStmt:
						loopBody = s.Body
						i = -1
					}
				}
				if loopBody == nil {
					return true
				}
				modT := types.NewPointer(c.lookupType("internal/context_v2", "Module").Type())
				bad := ""
				for _, cl := range callsIn(loopBody, false) {
					f := callee(info, cl)
					if f == nil || f.Pkg() == nil || f.Pkg() != fn.Obj.Pkg() {
						continue
					}
					takesMod := false
					for _, a := range cl.Args {
						if tv, ok := info.Types[a]; ok && types.Identical(tv.Type, modT) {
							takesMod = true
						}
					}
					if !takesMod || len(cl.Args) == 0 {
						continue
					}
					last := cl.Args[len(cl.Args)-1]
					tv := info.Types[last]
					if p, ok := tv.Type.(*types.Pointer); ok {
						if nt := namedOf(p.Elem()); nt != nil && nt.Obj().Name() == "Block" && nt.Obj().Pkg() != nil && nt.Obj().Pkg().Name() == "ast" {
							continue
						}
					}
					bad = exprStr(cl)
				}
				r.Check(bad == "", rule, fn.Name(), key+" deferred in a loop: only block bodies are processed under it", c.pos(call.Pos()),
					"a restore deferred inside a loop runs at function exit, so the scope of one iteration stays an ancestor of the next; "+bad+" can declare into that scope and the names leak into the later iterations (a later match arm resolves a name declared only in an earlier arm)")
				return true
			})
		}
	}
	r.Floor(rule, sites, 20, "Module.EnterScope call sites in collector/resolver/typechecker")
}

// ---- aliases and small rules of round 3 ------------------------------------------------------------------

func init() {
	lateInits = append(lateInits, func() {
		// constant folding of / and % is part of the arithmetic a native program observes (C01)
		props["C01"].Quick = append(props["C01"].Quick, c09R1)
		// the element handed to ferret_array_append is what a later index of the new position yields (C08)
		props["C08"].Quick = append(props["C08"].Quick, c17R8)
		props["C02"].Quick = append(props["C02"].Quick, c02R6)
		props["C06"].Quick = append(props["C06"].Quick, c06R7)
		props["C01"].Quick = append(props["C01"].Quick, c06R7)
		props["C07"].Quick = append(props["C07"].Quick, c07R8)
		props["C02"].Explanation += " (R6) all sites that write a block-dispatch tag (the number a branch stores in the dispatch local and the number a block header compares it with) use one and the same encoder."
		props["C06"].Explanation += " (R7) a closure environment is only indexed with offsets taken from that environment's own capture table, and a nested closure receives the enclosing closure's box for a variable that closure captured itself."
		props["C07"].Explanation += " (R8) every name a declaration statement introduces is entered in the borrow checker's set of locals before any path leaves the iteration."
	})
}

// C02.R6: block-dispatch tags are written with one encoder.
func c02R6(c *Ctx, r *Report) {
	const rule = "C02.R6"
	r.Describe(rule, "wasm: every call that receives a block-dispatch tag (blockIndex[...] or a local defined from it) as its operand is a call of the same function, so the stored and the compared byte sequences agree for every block number")
	n := 0
	callees := map[string][]string{}
	var firstPos = map[string]string{}
	for _, fn := range c.AllFns(pkgWasm) {
		info := fn.Info()
		defs := localDefs(fn)
		isTagIndex := func(e ast.Expr) bool {
			ix, ok := ast.Unparen(e).(*ast.IndexExpr)
			if !ok {
				return false
			}
			m, ok := info.TypeOf(ix.X).Underlying().(*types.Map)
			if !ok {
				return false
			}
			kn := namedOf(m.Key())
			return kn != nil && kn.Obj().Name() == "BlockID"
		}
		var isTag func(e ast.Expr, depth int) bool
		isTag = func(e ast.Expr, depth int) bool {
			e = ast.Unparen(e)
			if isTagIndex(e) {
				return true
			}
			// conversions T(x)
			if cl, ok := e.(*ast.CallExpr); ok && len(cl.Args) == 1 {
				if tv, ok := info.Types[cl.Fun]; ok && tv.IsType() {
					return isTag(cl.Args[0], depth)
				}
			}
			if id, ok := e.(*ast.Ident); ok && depth < 2 {
				if o := info.Uses[id]; o != nil {
					for _, d := range defs[o] {
						if isTag(d, depth+1) {
							return true
						}
					}
				}
			}
			return false
		}
		ast.Inspect(fn.Decl.Body, func(x ast.Node) bool {
			cl, ok := x.(*ast.CallExpr)
			if !ok || len(cl.Args) != 1 {
				return true
			}
			if tv, ok := info.Types[cl.Fun]; ok && tv.IsType() {
				return true
			}
			f := callee(info, cl)
			if f == nil || !isTag(cl.Args[0], 0) {
				return true
			}
			n++
			k := funcKey(f)
			callees[k] = append(callees[k], fn.Name()+": "+exprStr(cl.Args[0]))
			if firstPos[k] == "" {
				firstPos[k] = c.pos(cl.Pos())
			}
			return true
		})
	}
	// the majority encoder is the reference; every other one is reported
	best, bestN := "", 0
	for k, v := range callees {
		if len(v) > bestN || (len(v) == bestN && k < best) {
			best, bestN = k, len(v)
		}
	}
	keys := make([]string, 0, len(callees))
	for k := range callees {
		keys = append(keys, k)
	}
	sortStrings(keys)
	for _, k := range keys {
		r.Check(k == best, rule, k, "block-dispatch tags encoded by "+k, firstPos[k],
			"block tags are written by more than one encoder ("+k+" at "+callees[k][0]+" vs "+best+"): for block numbers whose unsigned and signed LEB128 differ (64..127, 8192..16383) the tag a branch stores no longer equals the tag the block header compares with, no block matches and the function spins forever")
	}
	r.Floor(rule, n, 5, "block-dispatch tag encoding sites")
}

// C06.R7: closure environments are indexed with their own capture table.
func c06R7(c *Ctx, r *Report) {
	const rule = "C06.R7"
	r.Describe(rule, "mir/gen: emitPtrAdd on functionBuilder.closureEnv takes its offset from an entry of functionBuilder.captures; boxCapturedIdent consults captures (and returns the enclosing box) before it allocates a new box")
	ptrAdd := c.LookupFn(pkgMIRGen, "(*functionBuilder).emitPtrAdd")
	box := c.LookupFn(pkgMIRGen, "(*functionBuilder).boxCapturedIdent")
	envF := c.fieldObj(pkgMIRGen, "functionBuilder", "closureEnv")
	capF := c.fieldObj(pkgMIRGen, "functionBuilder", "captures")
	if !r.Anchor(rule, ptrAdd != nil && box != nil && envF != nil && capF != nil, "mir/gen emitPtrAdd / boxCapturedIdent / functionBuilder.closureEnv / .captures") {
		return
	}
	n := 0
	for _, fn := range c.AllFns(pkgMIRGen) {
		info := fn.Info()
		// variables bound from b.captures[...] (comma-ok, plain index) or ranging over b.captures
		fromCaptures := map[types.Object]bool{}
		ast.Inspect(fn.Decl.Body, func(x ast.Node) bool {
			switch s := x.(type) {
			case *ast.AssignStmt:
				if len(s.Rhs) == 1 {
					if ix, ok := ast.Unparen(s.Rhs[0]).(*ast.IndexExpr); ok && fieldOf(info, ix.X) == capF && len(s.Lhs) >= 1 {
						if o := objOf(info, s.Lhs[0]); o != nil {
							fromCaptures[o] = true
						}
					}
				}
			case *ast.RangeStmt:
				if fieldOf(info, s.X) == capF && s.Value != nil {
					if o := objOf(info, s.Value); o != nil {
						fromCaptures[o] = true
					}
				}
			}
			return true
		})
		ast.Inspect(fn.Decl.Body, func(x ast.Node) bool {
			cl, ok := x.(*ast.CallExpr)
			if !ok || !isCallTo(info, cl, ptrAdd.Obj) || len(cl.Args) < 2 || fieldOf(info, cl.Args[0]) != envF {
				return true
			}
			n++
			good := false
			if sel, ok := ast.Unparen(cl.Args[1]).(*ast.SelectorExpr); ok {
				if o := objOf(info, sel.X); o != nil && fromCaptures[o] {
					good = true
				}
			}
			r.Check(good, rule, fn.Name(), "closureEnv indexed with "+exprStr(cl.Args[1]), c.pos(cl.Pos()),
				"the enclosing closure's environment is indexed with an offset that does not come from its own capture table (functionBuilder.captures): capture lists are numbered per closure, so the field read belongs to another variable and a write through the nested closure lands in that variable — which can be a const, a loop index or a catch error variable")
			return true
		})
	}
	r.Floor(rule, n, 1, "emitPtrAdd(closureEnv, …) sites")
	// boxCapturedIdent: captures consulted before the allocation
	info := box.Info()
	var allocPos, consultPos token.Pos
	ast.Inspect(box.Decl.Body, func(x ast.Node) bool {
		switch s := x.(type) {
		case *ast.BasicLit:
			if v := constOf(info, s); v != nil {
				if str, ok := strOf(v); ok && str == "ferret_alloc" && allocPos == token.NoPos {
					allocPos = s.Pos()
				}
			}
		case *ast.IfStmt:
			mentions := false
			ast.Inspect(s.Cond, func(y ast.Node) bool {
				if e, ok := y.(ast.Expr); ok && fieldOf(info, e) == capF {
					mentions = true
				}
				return true
			})
			if s.Init != nil {
				ast.Inspect(s.Init, func(y ast.Node) bool {
					if e, ok := y.(ast.Expr); ok && fieldOf(info, e) == capF {
						mentions = true
					}
					return true
				})
			}
			hasRet := false
			ast.Inspect(s.Body, func(y ast.Node) bool {
				if _, ok := y.(*ast.ReturnStmt); ok {
					hasRet = true
				}
				return true
			})
			if mentions && hasRet && consultPos == token.NoPos {
				consultPos = s.Pos()
			}
		}
		return true
	})
	if r.Anchor(rule, allocPos != token.NoPos, "boxCapturedIdent: ferret_alloc call") {
		r.Check(consultPos != token.NoPos && consultPos < allocPos, rule, box.Name(), "captures consulted before a new box is allocated", c.pos(box.Decl.Pos()),
			"a variable the closure being lowered captured itself is given a fresh, uninitialised box when a nested closure captures it: the nested closure reads zero/garbage and its writes are lost (smoke_test/14_closure_nested.fer printed 11 instead of 14)")
	}
}

// C07.R8: every declared name is registered as a local before the iteration can be left.
func c07R8(c *Ctx, r *Report) {
	const rule = "C07.R8"
	r.Describe(rule, "hir/analysis borrowChecker.checkVarDecl: in the loop over the declared items the store into borrowChecker.locals (directly or as the first effect of a same-package helper) precedes every continue/return/break of the loop body, so names declared without an initializer are locals too")
	fn := c.LookupFn(pkgHIRAn, "(*borrowChecker).checkVarDecl")
	locF := c.fieldObj(pkgHIRAn, "borrowChecker", "locals")
	if !r.Anchor(rule, fn != nil && locF != nil, "hir/analysis (*borrowChecker).checkVarDecl / borrowChecker.locals") {
		return
	}
	storesLocals := func(info *types.Info, n ast.Node) bool {
		found := false
		ast.Inspect(n, func(x ast.Node) bool {
			if as, ok := x.(*ast.AssignStmt); ok {
				for _, l := range as.Lhs {
					if ix, ok := l.(*ast.IndexExpr); ok && fieldOf(info, ix.X) == locF {
						found = true
					}
				}
			}
			return !found
		})
		return found
	}
	leaves := func(n ast.Node) bool {
		found := false
		ast.Inspect(n, func(x ast.Node) bool {
			switch x.(type) {
			case *ast.FuncLit:
				return false
			case *ast.BranchStmt, *ast.ReturnStmt:
				found = true
			}
			return !found
		})
		return found
	}
	// does the statement list register the name before anything can leave it?
	var registersFirst func(f *Fn, list []ast.Stmt, depth int) bool
	registersFirst = func(f *Fn, list []ast.Stmt, depth int) bool {
		info := f.Info()
		for _, st := range list {
			if storesLocals(info, st) {
				// the store may sit under a nil guard of the name; nothing else may leave first
				if is, ok := st.(*ast.IfStmt); ok && leaves(is) {
					return false
				}
				return true
			}
			if depth < 1 {
				ok := false
				for _, cl := range callsIn(st, false) {
					if hf := c.FnOf(callee(info, cl)); hf != nil && hf.Decl != nil && hf.Decl.Body != nil && hf.Obj.Pkg() == f.Obj.Pkg() {
						if registersFirst(hf, hf.Decl.Body.List, depth+1) {
							ok = true
						}
					}
				}
				if ok && !leaves(st) {
					return true
				}
			}
			if leaves(st) {
				return false
			}
		}
		return false
	}
	n := 0
	ast.Inspect(fn.Decl.Body, func(x ast.Node) bool {
		rs, ok := x.(*ast.RangeStmt)
		if !ok {
			return true
		}
		if sel, ok := ast.Unparen(rs.X).(*ast.SelectorExpr); !ok || sel.Sel.Name != "Decls" {
			return true
		}
		n++
		r.Check(registersFirst(fn, rs.Body.List, 0), rule, fn.Name(), "declared name entered in locals before the iteration can be left", c.pos(rs.Pos()),
			"a path leaves the per-item iteration (continue/return) before the name is entered in borrowChecker.locals: a local declared without an initializer (`let a: i32;`) is unknown to checkReturnLifetime and `return &a` is accepted — the reference outlives its referent")
		return true
	})
	r.Floor(rule, n, 1, "loops over VarDecl.Decls in checkVarDecl")
}

// ---- C08.R5 ---------------------------------------------------------------------------------------------

func init() {
	lateInits = append(lateInits, func() {
		props["C08"].Quick = append(props["C08"].Quick, c08R5)
		props["C04"].Quick = append(props["C04"].Quick, c08R5)
		props["C08"].Explanation += " (R5) the index value is not narrowed before it is range-checked: call sites hand the lowered index expression to the checking wrapper unconverted, the wrapper converts it to indexCheckType(indexType) — which keeps u32/i64/u64 — and wide (128/256-bit) indices pass a range test that panics before they are narrowed."
	})
}

func c08R5(c *Ctx, r *Report) {
	const rule = "C08.R5"
	r.Describe(rule, "mir/gen: no bit of a run-time index is dropped before the bounds check — call sites pass the lowerExpr result unconverted; inside the checking wrapper the only conversion before emitBoundsCheckedIndex targets indexCheckType(indexType) (own type for u32/i64/u64); 128/256-bit indices go through a helper that compares against the i32 range and panics")
	bc := c.LookupFn(pkgMIRGen, "(*functionBuilder).emitBoundsCheckedIndex")
	cast := c.LookupFn(pkgMIRGen, "(*functionBuilder).castValue")
	ict := c.LookupFn(pkgMIRGen, "indexCheckType")
	lower := c.LookupFn(pkgMIRGen, "(*functionBuilder).lowerExpr")
	if !r.Anchor(rule, bc != nil && cast != nil && lower != nil, "mir/gen emitBoundsCheckedIndex / castValue / lowerExpr") {
		return
	}
	entries := boundsEntries(c, bc)
	isEntryFn := func(fn *Fn) bool {
		for _, e := range entries {
			if e.fn.Obj == fn.Obj {
				return true
			}
		}
		return false
	}
	n := 0
	for _, fn := range c.AllFns(pkgMIRGen) {
		info := fn.Info()
		defs := localDefs(fn)
		for _, call := range callsIn(fn.Decl.Body, false) {
			ent := isBoundsEntry(entries, info, call)
			if ent == nil || len(call.Args) <= ent.idxArg {
				continue
			}
			id, ok := ast.Unparen(call.Args[ent.idxArg]).(*ast.Ident)
			if !ok {
				continue
			}
			n++
			key := "index " + id.Name + " reaches " + ent.fn.Obj.Name()
			if !isEntryFn(fn) {
				// outside the wrappers: defs before the call must be lowerExpr results only
				bad := ""
				for _, d := range defs[info.Uses[id]] {
					if d.Pos() >= call.Pos() {
						continue
					}
					cl, isCall := ast.Unparen(d).(*ast.CallExpr)
					if isCall && (isCallTo(info, cl, lower.Obj) || isBoundsEntry(entries, info, cl) != nil) {
						continue
					}
					// a compile-time constant emitted as such has not been narrowed
					if ec := c.LookupFn(pkgMIRGen, "(*functionBuilder).emitConst"); isCall && ec != nil && isCallTo(info, cl, ec.Obj) {
						continue
					}
					bad = exprStr(d)
				}
				r.Check(bad == "", rule, fn.Name(), key+" unconverted", c.pos(call.Pos()),
					"the index is converted ("+bad+") before it is range-checked: a cast to i32 reduces a u32/i64/u64/wide index modulo 2^32, so a[4294967297] reads a[1] instead of panicking")
				continue
			}
			// inside a wrapper (the call is the one to emitBoundsCheckedIndex)
			if ent.fn.Obj != bc.Obj {
				continue
			}
			for _, d := range defs[info.Uses[id]] {
				if d.Pos() >= call.Pos() {
					continue
				}
				cl, isCall := ast.Unparen(d).(*ast.CallExpr)
				if !isCall {
					r.Fail(rule, fn.Name(), key+": "+exprStr(d), c.pos(d.Pos()), "index redefined by something that is not a conversion call")
					continue
				}
				if isCallTo(info, cl, cast.Obj) && len(cl.Args) >= 3 {
					// target type must be a variable defined by indexCheckType(...)
					good := false
					if tid, ok := ast.Unparen(cl.Args[2]).(*ast.Ident); ok {
						for _, td := range defs[info.Uses[tid]] {
							if tc, ok := ast.Unparen(td).(*ast.CallExpr); ok && ict != nil && isCallTo(info, tc, ict.Obj) {
								good = true
							}
						}
					}
					r.Check(good, rule, fn.Name(), key+": conversion target "+exprStr(cl.Args[2])+" comes from indexCheckType", c.pos(cl.Pos()),
						"the index is converted to a fixed type before the check; an index type wider than that type loses its high bits and an out-of-range index aliases a valid element")
					continue
				}
				// a same-package narrowing helper: must branch to a panic on a range comparison
				hf := c.FnOf(callee(info, cl))
				good := false
				if hf != nil && hf.Decl != nil && hf.Decl.Body != nil {
					hinfo := hf.Info()
					hasCondBr, hasPanic, hasGT := false, false, false
					ast.Inspect(hf.Decl.Body, func(x ast.Node) bool {
						switch y := x.(type) {
						case *ast.CompositeLit:
							if nt := namedOf(hinfo.TypeOf(y)); nt != nil && nt.Obj().Name() == "CondBr" {
								hasCondBr = true
							}
						case *ast.BasicLit:
							if v := constOf(hinfo, y); v != nil {
								if sv, ok := strOf(v); ok && sv == "ferret_global_panic" {
									hasPanic = true
								}
							}
						case *ast.SelectorExpr:
							if y.Sel.Name == "GREATER_TOKEN" {
								hasGT = true
							}
						}
						return true
					})
					good = hasCondBr && hasPanic && hasGT
				}
				r.Check(good, rule, fn.Name(), key+": "+exprStr(cl.Fun)+" range-tests before narrowing", c.pos(cl.Pos()),
					"a helper narrows the index before the bounds check without comparing it against the target range and panicking")
			}
		}
	}
	r.Floor(rule, n, 5, "index arguments of bounds-check entries")
	// indexCheckType keeps u32 / i64 / u64
	if ict == nil {
		return
	}
	info := ict.Info()
	kept := map[string]bool{}
	ast.Inspect(ict.Decl.Body, func(x ast.Node) bool {
		cc, ok := x.(*ast.CaseClause)
		if !ok {
			return true
		}
		retI32 := false
		ast.Inspect(cc, func(y ast.Node) bool {
			if ret, ok := y.(*ast.ReturnStmt); ok && len(ret.Results) == 1 && strings.HasSuffix(exprStr(ret.Results[0]), "TypeI32") {
				retI32 = true
			}
			return true
		})
		if retI32 {
			return true
		}
		for _, e := range cc.List {
			if o := constObj(info, e); o != nil {
				kept[o.Name()] = true
			}
		}
		return true
	})
	for _, t := range []string{"TYPE_U32", "TYPE_I64", "TYPE_U64"} {
		r.Check(kept[t], rule, ict.Name(), t+" is range-checked in its own type", c.pos(ict.Decl.Pos()),
			"indexCheckType maps "+t+" to i32: the conversion before the check drops bits (u32 4294967295 becomes -1 and selects the last element)")
	}
}

// ---- C17.R9 ---------------------------------------------------------------------------------------------

func init() {
	lateInits = append(lateInits, func() {
		props["C17"].Quick = append(props["C17"].Quick, c17R9)
		props["C17"].Explanation += " (R9) ferret_map_iter_begin stores iter->entry before any return other than the iter == NULL one, because generated code calls ferret_map_iter_next whatever iter_begin returned."
	})
}

func c17R9(c *Ctx, r *Report) {
	const rule = "C17.R9"
	r.Describe(rule, "map.c ferret_map_iter_begin: in statement order, iter->entry is assigned before any statement that can return, except a return guarded only by iter == NULL")
	cf := cLoad(c, r, rule, "runtime/core/map.c")
	if cf == nil {
		return
	}
	fn := cf.Funcs["ferret_map_iter_begin"]
	if !r.Anchor(rule, fn != nil && fn.Body() != nil && len(fn.Params()) == 2, "map.c:ferret_map_iter_begin(map, iter)") {
		return
	}
	iter := fn.Params()[1].Name
	assigned := false
	bad := ""
	for _, st := range fn.Body().Inner {
		if assigned {
			break
		}
		isStore := false
		st.Walk(func(x *CNode) bool {
			if x.Kind == "BinaryOperator" && x.Opcode == "=" && len(x.Inner) == 2 {
				if l := x.Inner[0].strip(); l.Kind == "MemberExpr" && l.Name == "entry" && len(l.Inner) == 1 && l.Inner[0].strip().Ref == iter {
					isStore = true
				}
			}
			return true
		})
		if isStore && st.Kind != "IfStmt" && st.Kind != "WhileStmt" && st.Kind != "ForStmt" {
			assigned = true
			break
		}
		// can this statement return?
		returns := false
		st.Walk(func(x *CNode) bool {
			if x.Kind == "ReturnStmt" {
				returns = true
			}
			return true
		})
		if !returns {
			continue
		}
		okGuard := false
		if st.Kind == "IfStmt" && len(st.Inner) >= 2 {
			okGuard = true
			for _, d := range cDisjuncts(st.Inner[0]) {
				d = d.strip()
				if !(d.Kind == "BinaryOperator" && d.Opcode == "==" && len(d.Inner) == 2 && d.Inner[0].strip().Ref == iter && d.Inner[1].isNull()) {
					okGuard = false
				}
			}
		}
		if !okGuard {
			bad = st.Src()
			if len(bad) > 80 {
				bad = bad[:80]
			}
			break
		}
	}
	r.Check(assigned && bad == "", rule, "map.c:ferret_map_iter_begin", "iter->entry initialised before every early return", c.cpos(cf, fn),
		"ferret_map_iter_begin can return ("+bad+") before iter->entry is set: the generated loop calls ferret_map_iter_next regardless of the result, which then dereferences an uninitialised pointer (segfault when iterating an empty map)")
}

// ---- C17.R10 --------------------------------------------------------------------------------------------

func init() {
	lateInits = append(lateInits, func() {
		props["C17"].Quick = append(props["C17"].Quick, c17R10)
		props["C17"].Explanation += " (R10) an entry is only added to a map (size++) after the key was looked up with equals_fn in the same function, or — for a static helper — in every caller before the call."
	})
}

func c17R10(c *Ctx, r *Report) {
	const rule = "C17.R10"
	r.Describe(rule, "map.c: every `size++` is preceded, in its function, by a call through map->equals_fn (the key lookup); a helper without one is only called from functions that did the lookup before the call")
	cf := cLoad(c, r, rule, "runtime/core/map.c")
	if cf == nil {
		return
	}
	lookupLine := func(fn *CNode) int {
		line := 0
		fn.Walk(func(x *CNode) bool {
			if x.Kind == "CallExpr" && len(x.Inner) > 0 {
				if m := x.Inner[0].strip(); m != nil && m.Kind == "MemberExpr" && m.Name == "equals_fn" && (line == 0 || x.Line < line) {
					line = x.Line
				}
			}
			return true
		})
		return line
	}
	n := 0
	for _, name := range cf.Order {
		fn := cf.Funcs[name]
		var incs []*CNode
		fn.Walk(func(x *CNode) bool {
			if x.Kind == "UnaryOperator" && x.Opcode == "++" && len(x.Inner) == 1 {
				if m := x.Inner[0].strip(); m != nil && m.Kind == "MemberExpr" && m.Name == "size" {
					incs = append(incs, x)
				}
			}
			return true
		})
		for _, inc := range incs {
			n++
			ll := lookupLine(fn)
			if ll != 0 && ll < inc.Line {
				r.OK(rule, "map.c:"+name, "size++ after the key lookup", c.cpos(cf, inc), "lookup precedes the insertion")
				continue
			}
			// helper: every caller must have looked the key up before the call
			bad := ""
			callers := 0
			for _, gname := range cf.Order {
				g := cf.Funcs[gname]
				g.Walk(func(x *CNode) bool {
					if x.Kind == "CallExpr" && x.Callee() == name {
						callers++
						gl := lookupLine(g)
						if gl == 0 || gl > x.Line {
							bad = gname
						}
					}
					return true
				})
			}
			r.Check(callers > 0 && bad == "", rule, "map.c:"+name, "size++ only after the key lookup (in every caller)", c.cpos(cf, inc),
				"an entry is linked and counted without a preceding equals_fn lookup (caller "+bad+"): a key that is already present becomes a second entry — size counts it twice and iteration visits it twice while lookups still look right")
		}
	}
	r.Floor(rule, n, 1, "size++ sites in map.c")
}

// ---- C16.R8 / C11.R7: byte counts of mem* calls on word arrays -------------------------------------------

func init() {
	lateInits = append(lateInits, func() {
		props["C16"].Quick = append(props["C16"].Quick, cMemSizes)
		props["C11"].Quick = append(props["C11"].Quick, cMemSizes)
		props["C16"].Explanation += " (R8) in the C runtime every memset/memcpy/memmove/memcmp whose destination is a pointer to a multi-byte element type passes a byte count built with sizeof."
	})
}

func cElemIsByte(t string) bool {
	t = strings.TrimSpace(strings.TrimSuffix(strings.TrimSpace(t), "*"))
	t = strings.TrimPrefix(t, "const ")
	switch strings.TrimSpace(t) {
	case "void", "char", "unsigned char", "signed char", "uint8_t", "int8_t", "const void", "const char":
		return true
	}
	return false
}

func cMemSizes(c *Ctx, r *Report) {
	const rule = "C16.R8"
	r.Describe(rule, "C runtime: memset/memcpy/memmove/memcmp with a destination of pointer-to-multi-byte type (limb arrays, …) take a length that contains sizeof — an element count passed as a byte count fills or copies only part of the words")
	n := 0
	for _, rel := range c.CRuntimeFiles() {
		cf := cLoad(c, r, rule, rel)
		if cf == nil {
			continue
		}
		for _, name := range cf.Order {
			fn := cf.Funcs[name]
			k := 0
			fn.Walk(func(x *CNode) bool {
				if x.Kind != "CallExpr" {
					return true
				}
				cal := x.Callee()
				if cal != "memset" && cal != "memcpy" && cal != "memmove" && cal != "memcmp" {
					return true
				}
				args := x.Args()
				if len(args) != 3 {
					return true
				}
				// destination type before the implicit conversion to void*
				d := args[0]
				for d != nil && (d.Kind == "ImplicitCastExpr" || d.Kind == "ParenExpr") && len(d.Inner) == 1 && cElemIsByte(d.Type) {
					d = d.Inner[0]
				}
				if d == nil || !strings.Contains(d.Type, "*") && !strings.Contains(d.Type, "[") || cElemIsByte(d.Type) {
					return true
				}
				n++
				k++
				size := args[2].Src()
				r.Check(strings.Contains(size, "sizeof"), rule, shortC(rel)+":"+name, fmt.Sprintf("%s #%d on %s: byte count uses sizeof", cal, k, strings.TrimSpace(d.Type)), c.cpos(cf, x),
					"the length `"+size+"` of "+cal+" on a `"+d.Type+"` is an element count, not a byte count: only the first bytes are written/copied (sign extension of a negative value into the upper limbs fills 1 byte per limb and the value becomes a large positive number)")
				return true
			})
		}
	}
	r.Floor(rule, n, 3, "mem* calls on multi-byte element arrays in the C runtime")
}

// ---- C13.R2m: must-consume progress (experiment) ----------------------------------------------------------

func parserMustConsumers(c *Ctx, may, prim map[*types.Func]bool, nonConsuming map[*types.Const]bool) map[*types.Func]bool {
	must := map[*types.Func]bool{}
	for f := range prim {
		must[f] = true
	}
	expect := c.LookupFn(pkgParserRel, "(*Parser).expect")
	expectErr := c.LookupFn(pkgParserRel, "(*Parser).expectError")
	fns := c.AllFns(pkgParserRel)
	var curFn *Fn
	isMustCall := func(info *types.Info, call *ast.CallExpr) bool {
		f := callee(info, call)
		if f == nil || !must[f] {
			return false
		}
		if (expect != nil && f == expect.Obj || expectErr != nil && f == expectErr.Obj) && len(call.Args) >= 1 {
			k := constObj(info, call.Args[0])
			if k == nil {
				// a wrapper forwarding its own kind parameter (expect -> expectError): decided at the wrapper's call sites
				if curFn != nil && (expect != nil && curFn.Obj == expect.Obj) && curFn.Param(0) != nil && usesVar(info, call.Args[0], curFn.Param(0)) {
					return true
				}
				return false
			}
			if nonConsuming[k] {
				return false
			}
		}
		return true
	}
	for changed := true; changed; {
		changed = false
		for _, fn := range fns {
			if must[fn.Obj] || !may[fn.Obj] || fn.Decl == nil || fn.Decl.Body == nil {
				continue
			}
			info := fn.Info()
			curFn = fn
			g := cfg.New(fn.Decl.Body, func(*ast.CallExpr) bool { return true })
			spec := FlowSpec{
				Gate: func(nd ast.Node) bool {
					return nodeCallsPred(nd, func(cl *ast.CallExpr) bool { return isMustCall(info, cl) }) != nil
				},
				AtReturn: true,
			}
			if expectErr != nil && fn.Obj == expectErr.Obj {
				// the `kind == K` branches that return without consuming are accounted for at the call sites (by kind)
				kindP := fn.Param(0)
				spec.EdgeGate = func(b *cfg.Block, succ int) bool {
					cond := condOf(b)
					if cond == nil || succ != 0 {
						return false
					}
					if be, ok := isBinOp(cond, token.EQL); ok && kindP != nil && usesVar(info, be.X, kindP) {
						if k := constObj(info, be.Y); k != nil && nonConsuming[k] {
							return true
						}
					}
					return false
				}
			}
			hits := mustFlow(g, spec)
			if len(hits) == 0 {
				must[fn.Obj] = true
				changed = true
			}
		}
	}
	return must
}

// ---- C13.R12 typed nil into an interface; C13.R13 bounded parser recursion ---------------------------------

func init() {
	lateInits = append(lateInits, func() {
		props["C13"].Quick = append(props["C13"].Quick, c13R12, c13R13)
		props["C13"].Explanation += " (R12) no function with an interface result returns, unexamined, the result of a module function that yields a pointer and has a `return nil` path (a typed nil passes every `!= nil` test and is dereferenced later). (R13) every recursion cycle of the parser passes through a function that bounds the depth (enterNesting or an explicit depth parameter), reviewed linear chains excepted."
	})
}

func c13R12(c *Ctx, r *Report) {
	const rule = "C13.R12"
	r.Describe(rule, "parser: `return f(...)` in a function whose result is an interface, where f is a module function with a pointer result and an explicit `return nil` path, is a typed nil — flagged")
	// the parser is where `return nil` means "syntax error, nothing built" for arbitrary input; the lowering
	// packages return nil only for a nil argument, which their callers never pass
	pkgs := []string{"internal/frontend/parser"}
	nilable := map[*types.Func]bool{}
	for _, pk := range pkgs {
		for _, fn := range c.AllFns(pk) {
			sig := fn.Obj.Type().(*types.Signature)
			if sig.Results().Len() != 1 {
				continue
			}
			if _, ok := sig.Results().At(0).Type().Underlying().(*types.Pointer); !ok {
				continue
			}
			ast.Inspect(fn.Decl.Body, func(x ast.Node) bool {
				if _, ok := x.(*ast.FuncLit); ok {
					return false
				}
				if ret, ok := x.(*ast.ReturnStmt); ok && len(ret.Results) == 1 && exprStr(ret.Results[0]) == "nil" {
					nilable[fn.Obj] = true
				}
				return true
			})
		}
	}
	n := 0
	for _, pk := range pkgs {
		for _, fn := range c.AllFns(pk) {
			sig := fn.Obj.Type().(*types.Signature)
			if sig.Results().Len() != 1 {
				continue
			}
			if _, ok := sig.Results().At(0).Type().Underlying().(*types.Interface); !ok {
				continue
			}
			info := fn.Info()
			ast.Inspect(fn.Decl.Body, func(x ast.Node) bool {
				if _, ok := x.(*ast.FuncLit); ok {
					return false
				}
				ret, ok := x.(*ast.ReturnStmt)
				if !ok || len(ret.Results) != 1 {
					return true
				}
				cl, ok := ast.Unparen(ret.Results[0]).(*ast.CallExpr)
				if !ok {
					return true
				}
				f := callee(info, cl)
				if f == nil {
					return true
				}
				if _, isPtr := info.TypeOf(cl).Underlying().(*types.Pointer); !isPtr {
					return true
				}
				n++
				r.Check(!nilable[f], rule, fn.Name(), "return "+exprStr(cl.Fun)+"(…) as "+sig.Results().At(0).Type().String(), c.pos(ret.Pos()),
					funcKey(f)+" can return a nil pointer; returned directly as an interface value it is a non-nil interface holding nil: callers' nil checks pass and the first field access panics (`fn () foo() { }` crashed the collector)")
				return true
			})
		}
	}
	r.Floor(rule, n, 5, "pointer-typed call results returned as interface values")
}

// parser recursion cycles that are not depth-bounded but grow one small frame per *sequential* construct
var c13R13Reviewed = map[string]string{
	"parseIfStmt": "`else if` ladder: one small frame per arm written out in sequence (a 200000-arm ladder parses without a crash); bounding it would reject long generated ladders",
}

func c13R13(c *Ctx, r *Report) {
	const rule = "C13.R13"
	r.Describe(rule, "parser: after removing the functions that bound the depth (callers of enterNesting; functions with an int depth parameter compared against a constant) the call graph of package parser has no cycle, except reviewed ones")
	guard := c.LookupFn(pkgParserRel, "(*Parser).enterNesting")
	fns := c.AllFns(pkgParserRel)
	if !r.Anchor(rule, len(fns) > 50, "package frontend/parser") {
		return
	}
	bounded := map[*types.Func]bool{}
	edges := map[*types.Func][]*types.Func{}
	byObj := map[*types.Func]*Fn{}
	for _, fn := range fns {
		byObj[fn.Obj] = fn
		info := fn.Info()
		for _, cl := range callsIn(fn.Decl.Body, true) {
			f := callee(info, cl)
			if f == nil {
				continue
			}
			if guard != nil && f == guard.Obj {
				bounded[fn.Obj] = true
			}
			if f.Pkg() == fn.Obj.Pkg() {
				edges[fn.Obj] = append(edges[fn.Obj], f)
			}
		}
		// explicit depth parameter compared with a constant
		sig := fn.Obj.Type().(*types.Signature)
		for i := 0; i < sig.Params().Len(); i++ {
			p := sig.Params().At(i)
			if b, ok := p.Type().Underlying().(*types.Basic); ok && b.Info()&types.IsInteger != 0 && strings.Contains(strings.ToLower(p.Name()), "depth") {
				ast.Inspect(fn.Decl.Body, func(x ast.Node) bool {
					if be, ok := x.(*ast.BinaryExpr); ok && (be.Op == token.GEQ || be.Op == token.GTR) && usesVar(info, be.X, p) && constOf(info, be.Y) != nil {
						bounded[fn.Obj] = true
					}
					return true
				})
			}
		}
	}
	r.Note("%s: %d depth-bounding parser functions", rule, len(bounded))
	// Tarjan SCC on the graph without bounded nodes
	index, low, onStack := map[*types.Func]int{}, map[*types.Func]int{}, map[*types.Func]bool{}
	var stack []*types.Func
	idx := 0
	var sccs [][]*types.Func
	var strong func(v *types.Func)
	strong = func(v *types.Func) {
		idx++
		index[v], low[v] = idx, idx
		stack = append(stack, v)
		onStack[v] = true
		for _, w := range edges[v] {
			if bounded[w] || byObj[w] == nil {
				continue
			}
			if index[w] == 0 {
				strong(w)
				if low[w] < low[v] {
					low[v] = low[w]
				}
			} else if onStack[w] && index[w] < low[v] {
				low[v] = index[w]
			}
		}
		if low[v] == index[v] {
			var comp []*types.Func
			for {
				w := stack[len(stack)-1]
				stack = stack[:len(stack)-1]
				onStack[w] = false
				comp = append(comp, w)
				if w == v {
					break
				}
			}
			self := false
			for _, w := range edges[v] {
				if w == v {
					self = true
				}
			}
			if len(comp) > 1 || self {
				sccs = append(sccs, comp)
			}
		}
	}
	for _, fn := range fns {
		if !bounded[fn.Obj] && index[fn.Obj] == 0 {
			strong(fn.Obj)
		}
	}
	for _, comp := range sccs {
		var names []string
		for _, f := range comp {
			names = append(names, f.Name())
		}
		sort.Strings(names)
		key := strings.Join(names, ",")
		if reason, ok := c13R13Reviewed[key]; ok {
			r.OK(rule, "frontend/parser", "cycle {"+key+"} (reviewed: "+reason+")", c.pos(byObj[comp[0]].Decl.Pos()), "reviewed exception")
			continue
		}
		r.Fail(rule, "frontend/parser", "cycle {"+key+"} passes a depth bound", c.pos(byObj[comp[0]].Decl.Pos()),
			"these parser functions call each other recursively without passing enterNesting or a depth check: input nested deeply enough (100000 parentheses are a 200 KB file) overflows the goroutine stack and the compiler dies with a fatal error instead of a diagnostic")
	}
	r.OK(rule, "frontend/parser", "call graph analysed", "-", fmt.Sprintf("%d functions, %d bounded, %d unbounded cycles", len(fns), len(bounded), len(sccs)))
}

func init() {
	lateInits = append(lateInits, func() {
		// scheduling a module twice makes diagnostics and output depend on the interleaving (C14)
		props["C14"].Quick = append(props["C14"].Quick, c15R3)
	})
}

// ---- C18.R5: ptrElem tags describe the pointer they are attached to ----------------------------------------

func init() {
	lateInits = append(lateInits, func() {
		props["C18"].Quick = append(props["C18"].Quick, c18R5)
		props["C18"].Explanation += " (R5) functionBuilder.ptrElem[v] — which decides between a memcpy of the whole aggregate and a plain store — is only written for a value created right there (nextValueID) with its element type, or with the referent type of v's own reference type; an existing pointer is never re-tagged with another type."
	})
}

func c18R5(c *Ctx, r *Report) {
	const rule = "C18.R5"
	r.Describe(rule, "mir/gen: every store `b.ptrElem[k] = T` has k freshly created in the same function (nextValueID) or a builder set-up field, or T = ref.Inner of a *types.ReferenceType assertion (the pointer's own referent type)")
	pe := c.fieldObj(pkgMIRGen, "functionBuilder", "ptrElem")
	if !r.Anchor(rule, pe != nil, "mir/gen functionBuilder.ptrElem") {
		return
	}
	n := 0
	for _, fn := range c.AllFns(pkgMIRGen) {
		info := fn.Info()
		defs := localDefs(fn)
		ast.Inspect(fn.Decl.Body, func(x ast.Node) bool {
			as, ok := x.(*ast.AssignStmt)
			if !ok || len(as.Lhs) != 1 || len(as.Rhs) != 1 {
				return true
			}
			ix, ok := as.Lhs[0].(*ast.IndexExpr)
			if !ok || fieldOf(info, ix.X) != pe {
				return true
			}
			n++
			good := false
			// (a) fresh key
			if o := objOf(info, ix.Index); o != nil && len(defs[o]) > 0 {
				fresh := true
				for _, d := range defs[o] {
					cl, isCall := ast.Unparen(d).(*ast.CallExpr)
					if !isCall {
						fresh = false
						continue
					}
					if f := callee(info, cl); f == nil || f.Name() != "nextValueID" {
						fresh = false
					}
				}
				good = fresh
			}
			// builder set-up fields (b.retParam, b.refOutParam)
			if fv := fieldOf(info, ix.Index); fv != nil {
				good = true
			}
			// (b) the referent type of the pointer's own reference type
			if sel, ok := ast.Unparen(as.Rhs[0]).(*ast.SelectorExpr); ok && sel.Sel.Name == "Inner" {
				if nt := namedOf(info.TypeOf(sel.X)); nt != nil && nt.Obj().Name() == "ReferenceType" {
					good = true
				}
			}
			r.Check(good, rule, fn.Name(), "ptrElem["+exprStr(ix.Index)+"] = "+exprStr(as.Rhs[0]), c.pos(as.Pos()),
				"an existing pointer value is re-tagged with a type that is not its referent type: emitStore consults ptrElem to choose between copying the whole aggregate and a plain store, so a later `a = b` on that variable stores a pointer over the first field (or copies only the first field's size) and the other fields keep stale values")
			return true
		})
	}
	r.Floor(rule, n, 8, "stores into functionBuilder.ptrElem")
}

// ---- C20.R5: header comments, line length, empty default table ---------------------------------------------

func init() {
	lateInits = append(lateInits, func() {
		props["C20"].Quick = append(props["C20"].Quick, c20R5)
		props["C20"].Explanation += " (R5) in ParseTOMLFile the inline comment is stripped before the section-header test, the scanner's token limit is raised above bufio's 64 KiB default (the writer puts a value on one line whatever its length), and writeTOMLSection omits the header only for a non-empty default table."
	})
}

func c20R5(c *Ctx, r *Report) {
	const rule = "C20.R5"
	r.Describe(rule, "toml: stripInlineComment is applied on every path to isSectionHeader in ParseTOMLFile; bufio.Scanner.Buffer is called before the scan loop; the `sectionName != \"default\"` header test of writeTOMLSection also lets an empty table through")
	file := c.LookupFn(pkgTOML, "ParseTOMLFile")
	isHdr := c.LookupFn(pkgTOML, "isSectionHeader")
	strip := c.LookupFn(pkgTOML, "stripInlineComment")
	wsec := c.LookupFn(pkgTOML, "writeTOMLSection")
	if !r.Anchor(rule, file != nil && isHdr != nil && strip != nil && wsec != nil, "toml ParseTOMLFile / isSectionHeader / stripInlineComment / writeTOMLSection") {
		return
	}
	info := file.Info()
	// (a) every line that starts with '[' is stripped before the header test: the strip call sits under a guard that
	// only tests for the leading bracket (or under none)
	stripped := false
	walkWithStack(file.Decl.Body, func(x ast.Node, stack []ast.Node) bool {
		cl, ok := x.(*ast.CallExpr)
		if !ok || !isCallTo(info, cl, strip.Obj) {
			return true
		}
		okGuards := true
		for _, a := range stack {
			ifs, isIf := a.(*ast.IfStmt)
			if !isIf {
				continue
			}
			good := false
			if v := constOf(info, ifs.Cond); v != nil && v.Kind() == constant.Bool && constant.BoolVal(v) {
				good = true
			}
			if gc, ok := ast.Unparen(ifs.Cond).(*ast.CallExpr); ok && len(gc.Args) == 2 {
				if f := callee(info, gc); f != nil && f.Name() == "HasPrefix" {
					if v := constOf(info, gc.Args[1]); v != nil && constant.StringVal(v) == "[" {
						good = true
					}
				}
			}
			if !good {
				okGuards = false
			}
		}
		if okGuards {
			stripped = true
		}
		return true
	})
	var stripPos, hdrPos token.Pos
	for _, cl := range callsIn(file.Decl.Body, false) {
		if isCallTo(info, cl, strip.Obj) && stripPos == token.NoPos {
			stripPos = cl.Pos()
		}
		if isCallTo(info, cl, isHdr.Obj) && hdrPos == token.NoPos {
			hdrPos = cl.Pos()
		}
	}
	r.Check(stripPos != token.NoPos && hdrPos != token.NoPos && stripPos < hdrPos && stripped, rule, file.Name(), "comment stripped before the section-header test", c.pos(file.Decl.Pos()),
		"`[build] # comment` does not end in ']' and is not recognised as a header: ParseTOMLFile fails with `invalid line`, so a comment changes the parsed result")
	// (b) scanner buffer raised
	buffered := false
	for _, cl := range callsIn(file.Decl.Body, false) {
		if f := callee(info, cl); f != nil && f.Pkg() != nil && f.Pkg().Path() == "bufio" && f.Name() == "Buffer" && len(cl.Args) == 2 {
			if v := constOf(info, cl.Args[1]); v != nil {
				if n, ok := constant.Int64Val(v); ok && n > 64*1024 {
					buffered = true
				}
			}
		}
	}
	usesScanner := strings.Contains(exprStrBody(file), "bufio.NewScanner")
	r.Check(!usesScanner || buffered, rule, file.Name(), "line length not limited to bufio's 64 KiB default", c.pos(file.Decl.Pos()),
		"a string value longer than 64 KiB is written on one line and cannot be read back (`bufio.Scanner: token too long`)")
	// (c) writer: header omitted only for a non-empty default table
	winfo := wsec.Info()
	okHdr := false
	ast.Inspect(wsec.Decl.Body, func(x ast.Node) bool {
		ifs, ok := x.(*ast.IfStmt)
		if !ok {
			return true
		}
		neq, empty := false, false
		for _, d := range disjuncts(ifs.Cond) {
			if b, ok := isBinOp(d, token.NEQ); ok {
				if v := constOf(winfo, b.Y); v != nil && v.Kind() == constant.String && constant.StringVal(v) == "default" {
					neq = true
				}
			}
			if b, ok := isBinOp(d, token.EQL); ok {
				if cl, ok := ast.Unparen(b.X).(*ast.CallExpr); ok && exprStr(cl.Fun) == "len" {
					if v := constOf(winfo, b.Y); v != nil && intVal(v) == 0 {
						empty = true
					}
				}
			}
		}
		if neq && empty {
			okHdr = true
		}
		return true
	})
	r.Check(okHdr, rule, wsec.Name(), "header written for every section except a non-empty default", c.pos(wsec.Decl.Pos()),
		"an empty default table is written as nothing at all and is missing from the parsed result")
}

// ---- C19.R7: column arithmetic is per character ------------------------------------------------------------

func init() {
	lateInits = append(lateInits, func() {
		props["C19"].Quick = append(props["C19"].Quick, c19R7)
		props["C19"].Explanation += " (R7) Position.Advance adds to Column an amount that depends on the character alone (1, or the tab width), never on the preceding character; the current tree's exception after a tab is a recorded finding pinned by the repository's own test."
	})
}

func c19R7(c *Ctx, r *Report) {
	const rule = "C19.R7"
	r.Describe(rule, "source.Position.Advance: every update of Column sits directly in a case of the switch on the decoded character, not under a further condition (a column increment that depends on the previous character makes the column of a token depend on how the blanks before it are composed)")
	pa := c.LookupFn(pkgSource, "(*Position).Advance")
	col := c.fieldObj(pkgSource, "Position", "Column")
	if !r.Anchor(rule, pa != nil && col != nil, "source.Position.Advance / Column") {
		return
	}
	info := pa.Info()
	n := 0
	walkWithStack(pa.Decl.Body, func(x ast.Node, stack []ast.Node) bool {
		isUpd := false
		switch s := x.(type) {
		case *ast.IncDecStmt:
			isUpd = fieldOf(info, s.X) == col
		case *ast.AssignStmt:
			for _, l := range s.Lhs {
				if fieldOf(info, l) == col {
					isUpd = true
				}
			}
		}
		if !isUpd {
			return true
		}
		n++
		cond := ""
		for _, a := range stack {
			if ifs, ok := a.(*ast.IfStmt); ok {
				cond = exprStr(ifs.Cond)
			}
		}
		r.Check(cond == "", rule, pa.Name(), fmt.Sprintf("Column update #%d is unconditional within its character case", n), c.pos(x.Pos()),
			"the column increment is skipped under `"+cond+"`: the character right after a tab does not count, so `\\t` and `\\t ` before a token give the same column and an inserted blank does not move the diagnostic")
		return true
	})
	r.Floor(rule, n, 3, "Column updates in Position.Advance")
}

// ---- C15.R8 / R9: repeated imports and import-path keys -----------------------------------------------------

func init() {
	lateInits = append(lateInits, func() {
		props["C15"].Quick = append(props["C15"].Quick, c15R8, c15R9)
		props["C15"].Explanation += " (R8) the duplicate-alias error of collectImport fires only when the name is bound to a different import path. (R9) every function that uses an import statement's path as a module key passes it through fs.NormalizePath, and NormalizePath collapses '//' and drops '.' segments, so discovery and symbol collection agree on the key and one file is one module."
	})
}

func c15R8(c *Ctx, r *Report) {
	const rule = "C15.R8"
	r.Describe(rule, "collector.collectImport: the ErrRedeclaredSymbol diagnostic for an import alias is reported only on a path where the previously bound import path was compared with the new one")
	fn := c.LookupFn("internal/semantics/collector", "collectImport")
	aliasMap := c.fieldObj("internal/context_v2", "Module", "ImportAliasMap")
	if !r.Anchor(rule, fn != nil && aliasMap != nil, "collector.collectImport / Module.ImportAliasMap") {
		return
	}
	info := fn.Info()
	// variables bound from mod.ImportAliasMap[alias]
	old := map[types.Object]bool{}
	ast.Inspect(fn.Decl.Body, func(x ast.Node) bool {
		if as, ok := x.(*ast.AssignStmt); ok && len(as.Rhs) == 1 {
			if ix, ok := ast.Unparen(as.Rhs[0]).(*ast.IndexExpr); ok && fieldOf(info, ix.X) == aliasMap && len(as.Lhs) >= 1 {
				if o := objOf(info, as.Lhs[0]); o != nil {
					old[o] = true
				}
			}
		}
		return true
	})
	comparesPath := func(e ast.Expr) bool {
		found := false
		ast.Inspect(e, func(y ast.Node) bool {
			if be, ok := y.(*ast.BinaryExpr); ok && (be.Op == token.EQL || be.Op == token.NEQ) {
				for o := range old {
					if mentionsVar(info, be.X, o) || mentionsVar(info, be.Y, o) {
						found = true
					}
				}
			}
			return true
		})
		return found
	}
	n := 0
	walkWithStack(fn.Decl.Body, func(x ast.Node, stack []ast.Node) bool {
		lit, ok := x.(*ast.BasicLit)
		if !ok {
			return true
		}
		v := constOf(info, lit)
		if v == nil || v.Kind() != constant.String || !strings.Contains(constant.StringVal(v), "duplicate import alias") {
			return true
		}
		n++
		// some enclosing if / else-if chain must have compared the old path
		compared := false
		for _, a := range stack {
			if ifs, ok := a.(*ast.IfStmt); ok {
				if comparesPath(ifs.Cond) {
					compared = true
				}
				// `if … && old == new { } else if exists { report }`: the report sits in the else of the comparing if
				if ifs.Else != nil && containsNode(ifs.Else, lit) && comparesPath(ifs.Cond) {
					compared = true
				}
			}
		}
		r.Check(compared, rule, fn.Name(), "duplicate-alias error only for a different import path", c.pos(lit.Pos()),
			"`import \"rep/a\"; import \"rep/a\";` is rejected with T0003 although both statements name the same module: a repeated import must compile")
		return true
	})
	r.Floor(rule, n, 1, "duplicate import alias diagnostics")
}

func c15R9(c *Ctx, r *Report) {
	const rule = "C15.R9"
	r.Describe(rule, "every function outside hir/gen that reads ImportStmt.Path.Value calls fs.NormalizePath on it; NormalizePath loops on \"//\" and filters \".\" segments")
	norm := c.LookupFn("internal/utils/fs", "NormalizePath")
	pathF := c.fieldObj("internal/frontend/ast", "ImportStmt", "Path")
	if !r.Anchor(rule, norm != nil && pathF != nil, "fs.NormalizePath / ast.ImportStmt.Path") {
		return
	}
	n := 0
	for _, p := range c.Pkgs {
		rel := relOf(p.PkgPath)
		if rel == "internal/hir/gen" || rel == "internal/frontend/parser" || rel == "internal/frontend/ast" {
			continue // hir/gen copies the text for display; the parser builds the node
		}
		for _, fn := range c.AllFns(rel) {
			info := fn.Info()
			reads := false
			var at token.Pos
			ast.Inspect(fn.Decl.Body, func(x ast.Node) bool {
				if sel, ok := x.(*ast.SelectorExpr); ok && sel.Sel.Name == "Value" {
					if fieldOf(info, sel.X) == pathF {
						reads = true
						at = sel.Pos()
					}
				}
				return true
			})
			if !reads {
				continue
			}
			n++
			r.Check(nodeCallsDeep(info, fn.Decl.Body, norm.Obj), rule, fn.Name(), "import path normalised before it is used as a module key", c.pos(at),
				"the raw text of the import path is used as a key: `import \"dsl//a\"` is discovered as dsl/a but looked up as dsl//a ('imported module not found … compiler bug'), and spelling variants of one file become distinct modules")
		}
	}
	r.Floor(rule, n, 2, "readers of ImportStmt.Path.Value")
	ninfo := norm.Info()
	hasDot, hasDbl := false, false
	ast.Inspect(norm.Decl.Body, func(x ast.Node) bool {
		if be, ok := x.(*ast.BinaryExpr); ok && (be.Op == token.NEQ || be.Op == token.EQL) {
			for _, e := range []ast.Expr{be.X, be.Y} {
				if v := constOf(ninfo, e); v != nil && v.Kind() == constant.String && constant.StringVal(v) == "." {
					hasDot = true
				}
			}
		}
		if fs, ok := x.(*ast.ForStmt); ok && fs.Cond != nil {
			ast.Inspect(fs.Cond, func(y ast.Node) bool {
				if bl, ok := y.(*ast.BasicLit); ok {
					if v := constOf(ninfo, bl); v != nil && v.Kind() == constant.String && constant.StringVal(v) == "//" {
						hasDbl = true
					}
				}
				return true
			})
		}
		return true
	})
	r.Check(hasDbl, rule, norm.Name(), "collapses repeated slashes until none is left", c.pos(norm.Decl.Pos()), "a//b and a/b name different modules")
	r.Check(hasDot, rule, norm.Name(), "drops '.' segments", c.pos(norm.Decl.Pos()), "`dot/./leaf` and `dot/leaf` load the same file as two modules, which is then processed twice")
}

// ---- C01.R11 / R12: QBE emitter labels and stack slots ------------------------------------------------------

func init() {
	lateInits = append(lateInits, func() {
		props["C01"].Quick = append(props["C01"].Quick, c01R11, c01R12)
		props["C08"].Quick = append(props["C08"].Quick, c01R11, c01R12)
		props["C01"].Explanation += " (R11) block labels the QBE emitter invents are numbered with a per-emission unique number (the temp counter or the instruction's result id), never with an operand's id. (R12) `alloc` instructions are produced only by emitAlloca (hoisted MIR allocas, entry block) and emitStackSlot, which defers slots requested outside the entry block to the entry block; emitFunction writes the deferred slots right after the entry label."
	})
}

func c01R11(c *Ctx, r *Report) {
	const rule = "C01.R11"
	r.Describe(rule, "qbe: every fmt.Sprintf that builds an emitter-local label (\"<name>_%d\" / \"<name>_q%d\") is numbered with g.tempID or the Result of the instruction being emitted")
	n := 0
	for _, fn := range c.AllFns(pkgQBE) {
		info := fn.Info()
		for _, cl := range callsIn(fn.Decl.Body, true) {
			f := callee(info, cl)
			if f == nil || f.Pkg() == nil || f.Pkg().Path() != "fmt" || f.Name() != "Sprintf" || len(cl.Args) != 2 {
				continue
			}
			v := constOf(info, cl.Args[0])
			if v == nil || v.Kind() != constant.String {
				continue
			}
			fs := constant.StringVal(v)
			if !(strings.HasSuffix(fs, "_%d") || strings.HasSuffix(fs, "_q%d")) || strings.ContainsAny(fs, " $@%=") && strings.Count(fs, "%") != 1 || strings.ContainsAny(fs, " $@=") {
				continue
			}
			n++
			arg := ast.Unparen(cl.Args[1])
			good := false
			if sel, ok := arg.(*ast.SelectorExpr); ok && (sel.Sel.Name == "tempID" || sel.Sel.Name == "Result") {
				good = true
			}
			r.Check(good, rule, fn.Name(), "label "+fs+" numbered by "+exprStr(arg), c.pos(cl.Pos()),
				"the label is numbered with "+exprStr(arg)+", which is not unique per emission: two instructions with the same operand in one function define the same block twice and QBE rejects the program (`multiple definitions of block`)")
		}
	}
	r.Floor(rule, n, 4, "emitter-local labels")
}

func c01R12(c *Ctx, r *Report) {
	const rule = "C01.R12"
	r.Describe(rule, "qbe: allocOp is called only by emitStackSlot; \"alloc4/8/16\" literals occur only in allocOp and emitAlloca; emitStackSlot emits in place only under g.inEntryBlock and otherwise appends to pendingAllocs; emitFunction writes pendingAllocs into the entry block")
	allocOp := c.LookupFn(pkgQBE, "(*Generator).allocOp")
	slot := c.LookupFn(pkgQBE, "(*Generator).emitStackSlot")
	emitFn := c.LookupFn(pkgQBE, "(*Generator).emitFunction")
	pend := c.fieldObj(pkgQBE, "Generator", "pendingAllocs")
	inEntry := c.fieldObj(pkgQBE, "Generator", "inEntryBlock")
	if !r.Anchor(rule, allocOp != nil && emitFn != nil, "qbe allocOp / emitFunction") {
		return
	}
	n := 0
	for _, fn := range c.AllFns(pkgQBE) {
		info := fn.Info()
		for _, cl := range callsIn(fn.Decl.Body, true) {
			if isCallTo(info, cl, allocOp.Obj) {
				n++
				r.Check(slot != nil && fn.Obj == slot.Obj, rule, fn.Name(), "calls allocOp", c.pos(cl.Pos()),
					"a stack slot is allocated where it is used: inside a loop every iteration takes new stack space until the function returns (a long loop that builds optionals or stores into dynamic arrays overflows the stack)")
			}
		}
		ast.Inspect(fn.Decl.Body, func(x ast.Node) bool {
			if bl, ok := x.(*ast.BasicLit); ok && bl.Kind == token.STRING {
				if v := constOf(info, bl); v != nil && strings.Contains(constant.StringVal(v), "alloc") && !strings.Contains(constant.StringVal(v), "alloca") && !strings.Contains(constant.StringVal(v), "ferret_alloc") && !strings.Contains(constant.StringVal(v), " ") {
					name := fn.Obj.Name()
					r.Check(name == "allocOp" || name == "emitAlloca", rule, fn.Name(), "alloc opcode literal "+constant.StringVal(v), c.pos(bl.Pos()),
						"an alloc instruction is spelled outside allocOp / emitAlloca and bypasses the entry-block placement")
				}
			}
			return true
		})
	}
	r.Floor(rule, n, 1, "allocOp call sites")
	if slot == nil || pend == nil || inEntry == nil {
		r.Fail(rule, "codegen/qbe_embeddings", "stack slots are deferred to the entry block", "-", "there is no emitStackSlot / pendingAllocs / inEntryBlock machinery: emitter temporaries are allocated in place")
		return
	}
	// emitStackSlot shape
	sinfo := slot.Info()
	guarded, deferred := false, false
	ast.Inspect(slot.Decl.Body, func(x ast.Node) bool {
		if ifs, ok := x.(*ast.IfStmt); ok && fieldOf(sinfo, ifs.Cond) == inEntry {
			for _, cl := range callsIn(ifs.Body, false) {
				if f := callee(sinfo, cl); f != nil && f.Name() == "emitLine" {
					guarded = true
				}
			}
		}
		if as, ok := x.(*ast.AssignStmt); ok && len(as.Lhs) == 1 && fieldOf(sinfo, as.Lhs[0]) == pend {
			deferred = true
		}
		return true
	})
	// no emitLine outside the inEntryBlock branch
	stray := false
	walkWithStack(slot.Decl.Body, func(x ast.Node, stack []ast.Node) bool {
		cl, ok := x.(*ast.CallExpr)
		if !ok {
			return true
		}
		if f := callee(sinfo, cl); f == nil || f.Name() != "emitLine" {
			return true
		}
		under := false
		for _, a := range stack {
			if ifs, ok := a.(*ast.IfStmt); ok && fieldOf(sinfo, ifs.Cond) == inEntry && containsNode(ifs.Body, cl) {
				under = true
			}
		}
		if !under {
			stray = true
		}
		return true
	})
	r.Check(guarded && deferred && !stray, rule, slot.Name(), "emits in place only in the entry block, defers otherwise", c.pos(slot.Decl.Pos()),
		"emitStackSlot writes the alloc at the current position also outside the entry block")
	// emitFunction flushes pendingAllocs
	finfo := emitFn.Info()
	flushed := false
	ast.Inspect(emitFn.Decl.Body, func(x ast.Node) bool {
		if rs, ok := x.(*ast.RangeStmt); ok && fieldOf(finfo, rs.X) == pend {
			flushed = true
		}
		return true
	})
	r.Check(flushed, rule, emitFn.Name(), "deferred slots are written into the function", c.pos(emitFn.Decl.Pos()),
		"slots deferred to the entry block are never emitted: their uses refer to undefined temporaries")
}

// ---- C17.R11: no unchecked unwrap of a map lookup -------------------------------------------------------------

func init() {
	lateInits = append(lateInits, func() {
		props["C17"].Quick = append(props["C17"].Quick, c17R11)
		props["C17"].Explanation += " (R11) MIR lowering never unwraps the optional produced by a map look-up without a default (OptionalUnwrap{HasDefault:false} on a MapGet result): an absent key must be refused, not read as uninitialised bytes."
	})
}

func c17R11(c *Ctx, r *Report) {
	const rule = "C17.R11"
	r.Describe(rule, "mir/gen: in no function is the Result of a mir.MapGet literal the Value of a mir.OptionalUnwrap literal with HasDefault false")
	n := 0
	for _, fn := range c.AllFns(pkgMIRGen) {
		info := fn.Info()
		field := func(cl *ast.CompositeLit, name string) ast.Expr {
			for _, e := range cl.Elts {
				if kv, ok := e.(*ast.KeyValueExpr); ok && exprStr(kv.Key) == name {
					return kv.Value
				}
			}
			return nil
		}
		gets := map[types.Object]*ast.CompositeLit{}
		ast.Inspect(fn.Decl.Body, func(x ast.Node) bool {
			if cl, ok := x.(*ast.CompositeLit); ok {
				if nt := namedOf(info.TypeOf(cl)); nt != nil && nt.Obj().Name() == "MapGet" {
					n++
					if res := field(cl, "Result"); res != nil {
						if o := objOf(info, res); o != nil {
							gets[o] = cl
						}
					}
				}
			}
			return true
		})
		ast.Inspect(fn.Decl.Body, func(x ast.Node) bool {
			cl, ok := x.(*ast.CompositeLit)
			if !ok {
				return true
			}
			if nt := namedOf(info.TypeOf(cl)); nt == nil || nt.Obj().Name() != "OptionalUnwrap" {
				return true
			}
			val, hd := field(cl, "Value"), field(cl, "HasDefault")
			if val == nil {
				return true
			}
			o := objOf(info, val)
			if o == nil || gets[o] == nil {
				return true
			}
			unchecked := hd == nil
			if hd != nil {
				if v := constOf(info, hd); v != nil && v.Kind() == constant.Bool && !constant.BoolVal(v) {
					unchecked = true
				}
			}
			r.Check(!unchecked, rule, fn.Name(), "map look-up "+exprStr(val)+" is not unwrapped without a default", c.pos(cl.Pos()),
				"the optional result of a map look-up is unwrapped without a default and without testing the flag: for an absent key the payload bytes are uninitialised, so `m[k] += v` inserts a garbage value instead of stopping with `key not found`")
			return true
		})
	}
	r.Floor(rule, n, 2, "mir.MapGet constructions")
}

// ---- C17.R12: a map look-up that is treated as an optional is typed as one -------------------------------------

func init() {
	lateInits = append(lateInits, func() {
		props["C17"].Quick = append(props["C17"].Quick, c17R12)
		props["C17"].Explanation += " (R12) where HIR lowering treats a map look-up as an optional producer (no OptionalSome wrapper, operand of ??) it also gives the look-up the optional type, so MIR selects the optional-returning runtime read instead of storing a bare value into an optional."
	})
}

func c17R12(c *Ctx, r *Report) {
	const rule = "C17.R12"
	r.Describe(rule, "hir/lower: wrapOptional returns an optional producer only through mapIndexAsOptional; lowerCoalescingExpr consults mapIndexAsOptional for its condition; mapIndexAsOptional builds the IndexExpr with types.NewOptional(e.Type)")
	const pkgLower = "internal/hir/lower"
	wrap := c.LookupFn(pkgLower, "(*Lowerer).wrapOptional")
	prod := c.LookupFn(pkgLower, "(*Lowerer).isOptionalProducer")
	coal := c.LookupFn(pkgLower, "(*Lowerer).lowerCoalescingExpr")
	if !r.Anchor(rule, wrap != nil && prod != nil && coal != nil, "hir/lower wrapOptional / isOptionalProducer / lowerCoalescingExpr") {
		return
	}
	asOpt := c.LookupFn(pkgLower, "(*Lowerer).mapIndexAsOptional")
	// isOptionalProducer still counts map look-ups as producers? (if not, the wrapper is added and nothing is needed)
	pinfo := prod.Info()
	mapProducer := false
	ast.Inspect(prod.Decl.Body, func(x ast.Node) bool {
		if cc, ok := x.(*ast.CaseClause); ok {
			for _, t := range caseTypes(pinfo, cc) {
				if nt := namedOf(t); nt != nil && nt.Obj().Name() == "IndexExpr" {
					ast.Inspect(cc, func(y ast.Node) bool {
						if ta, ok := y.(*ast.TypeAssertExpr); ok && ta.Type != nil && strings.HasSuffix(exprStr(ta.Type), "MapType") {
							mapProducer = true
						}
						return true
					})
				}
			}
		}
		return true
	})
	if !mapProducer {
		r.OK(rule, prod.Name(), "map look-ups are not optional producers (they get an OptionalSome wrapper)", c.pos(prod.Decl.Pos()), "nothing to retag")
		return
	}
	winfo := wrap.Info()
	okWrap := false
	ast.Inspect(wrap.Decl.Body, func(x ast.Node) bool {
		ifs, ok := x.(*ast.IfStmt)
		if !ok || nodeCalls(winfo, ifs.Cond, prod.Obj) == nil {
			return true
		}
		for _, st := range ifs.Body.List {
			if ret, ok := st.(*ast.ReturnStmt); ok && len(ret.Results) == 1 {
				if cl, ok := ast.Unparen(ret.Results[0]).(*ast.CallExpr); ok && asOpt != nil && isCallTo(winfo, cl, asOpt.Obj) {
					okWrap = true
				}
			}
		}
		return true
	})
	r.Check(okWrap, rule, wrap.Name(), "an optional producer is returned through mapIndexAsOptional", c.pos(wrap.Decl.Pos()),
		"`let o: i32? = m[\"a\"]` keeps the look-up typed i32: MIR emits the panicking read and stores the bare value into the optional without setting its flag — o ?? -1 yields -1 for a present key and an absent key stops the program instead of giving none")
	r.Check(asOpt != nil && nodeCallsDeep(coal.Info(), coal.Decl.Body, asOpt.Obj), rule, coal.Name(), "`m[k] ?? d` treats the look-up as an optional", c.pos(coal.Decl.Pos()),
		"the condition of ?? is a map look-up typed with the bare value type: the native back end rejects the program ('unsupported optional_unwrap')")
	if asOpt != nil {
		ainfo := asOpt.Info()
		builds := false
		ast.Inspect(asOpt.Decl.Body, func(x ast.Node) bool {
			if cl, ok := x.(*ast.CompositeLit); ok {
				if nt := namedOf(ainfo.TypeOf(cl)); nt != nil && nt.Obj().Name() == "IndexExpr" {
					for _, e := range cl.Elts {
						if kv, ok := e.(*ast.KeyValueExpr); ok && exprStr(kv.Key) == "Type" {
							if tc, ok := ast.Unparen(kv.Value).(*ast.CallExpr); ok {
								if f := callee(ainfo, tc); f != nil && f.Name() == "NewOptional" {
									builds = true
								}
							}
						}
					}
				}
			}
			return true
		})
		r.Check(builds, rule, asOpt.Name(), "retypes the look-up with types.NewOptional", c.pos(asOpt.Decl.Pos()), "the look-up keeps its value type")
	}
}

// ---- C16.R9: wide-integer to wide-integer casts copy limbs -----------------------------------------------------

func init() {
	lateInits = append(lateInits, func() {
		props["C16"].Quick = append(props["C16"].Quick, c16R9)
		props["C01"].Quick = append(props["C01"].Quick, c16R9)
		props["C16"].Explanation += " (R9) a cast between two of i128/u128/i256/u256 is lowered to the limb-copying runtime helper (sign- or zero-extension by the source's signedness), not to a decimal-text round trip; the helper fills the upper limbs from the source's sign only when the source is signed."
	})
}

func c16R9(c *Ctx, r *Report) {
	const rule = "C16.R9"
	r.Describe(rule, "mir/gen emitLargeCast: in the large-to-large branch the text round trip (emitLargeToString + _from_string_ptr) is preceded by a wideIntShape test of both types that returns the result of ferret_wide_int_convert_ptr; bigint.c: the helper's fill limb is all-ones only under src_signed && negative, and every destination limb is in[i] or fill")
	fn := c.LookupFn(pkgMIRGen, "(*functionBuilder).emitLargeCast")
	shape := c.LookupFn(pkgMIRGen, "wideIntShape")
	toStr := c.LookupFn(pkgMIRGen, "(*functionBuilder).emitLargeToString")
	if !r.Anchor(rule, fn != nil && toStr != nil, "mir/gen emitLargeCast / emitLargeToString") {
		return
	}
	info := fn.Info()
	// the first emitLargeToString call of the function is the large->large text path
	var strPos token.Pos
	for _, cl := range callsIn(fn.Decl.Body, false) {
		if isCallTo(info, cl, toStr.Obj) && (strPos == token.NoPos || cl.Pos() < strPos) {
			strPos = cl.Pos()
		}
	}
	guarded := false
	if shape != nil && strPos != token.NoPos {
		ast.Inspect(fn.Decl.Body, func(x ast.Node) bool {
			ifs, ok := x.(*ast.IfStmt)
			if !ok || ifs.Pos() > strPos || ifs.Init == nil {
				return true
			}
			if nodeCalls(info, ifs.Init, shape.Obj) == nil {
				return true
			}
			// inside: a Call literal targeting the helper and a return
			hasHelper, hasRet := false, false
			ast.Inspect(ifs.Body, func(y ast.Node) bool {
				if bl, ok := y.(*ast.BasicLit); ok {
					if v := constOf(info, bl); v != nil && v.Kind() == constant.String && constant.StringVal(v) == "ferret_wide_int_convert_ptr" {
						hasHelper = true
					}
				}
				if _, ok := y.(*ast.ReturnStmt); ok {
					hasRet = true
				}
				return true
			})
			if hasHelper && hasRet {
				guarded = true
			}
			return true
		})
	}
	r.Check(strPos == token.NoPos || guarded, rule, fn.Name(), "integer-to-integer wide casts bypass the decimal text round trip", c.pos(fn.Decl.Pos()),
		"a cast between two wide integer types is performed by printing the value and parsing the text with the target's parser: a negative value has no unsigned spelling, so `(-3 as i128) as u128` yields 0 instead of 2^128-3")
	if shape != nil {
		pe := newPEval(c)
		want := map[string][3]string{"i128": {"128", "true", "true"}, "u128": {"128", "false", "true"}, "i256": {"256", "true", "true"}, "u256": {"256", "false", "true"}, "f128": {"0", "false", "false"}, "i64": {"0", "false", "false"}}
		names := []string{"i128", "u128", "i256", "u256", "f128", "i64"}
		for _, nm := range names {
			res, err := pe.Call(shape, []Val{kstr(nm)})
			if err != nil || len(res) != 3 {
				r.Fail(rule, shape.Name(), "shape of "+nm, c.pos(shape.Decl.Pos()), fmt.Sprintf("undecidable: %v", err))
				continue
			}
			got := [3]string{valString(res[0]), valString(res[1]), valString(res[2])}
			w := want[nm]
			r.Check(got == w, rule, shape.Name(), "shape of "+nm+" = "+strings.Join(w[:], ","), c.pos(shape.Decl.Pos()),
				"wideIntShape("+nm+") = "+strings.Join(got[:], ",")+": the helper is told a wrong width or signedness (a signed source must be sign-extended, an unsigned one zero-extended)")
		}
	}
	// the C helper
	cf := cLoad(c, r, rule, "runtime/core/bigint.c")
	if cf == nil {
		return
	}
	h := cf.Funcs["ferret_wide_int_convert_ptr"]
	if !r.Anchor(rule, h != nil, "bigint.c:ferret_wide_int_convert_ptr") {
		return
	}
	signedGuard, selects := false, false
	h.Walk(func(x *CNode) bool {
		if x.Kind == "IfStmt" && len(x.Inner) >= 2 {
			cs := x.Inner[0].Src()
			if strings.Contains(cs, "src_signed") && strings.Contains(cs, "ferret_is_negative_limbs") && strings.Contains(cs, "&&") {
				signedGuard = true
			}
		}
		if x.Kind == "ConditionalOperator" && len(x.Inner) == 3 {
			if strings.Contains(x.Inner[0].Src(), "<") && strings.Contains(x.Inner[1].Src(), "[") {
				selects = true
			}
		}
		return true
	})
	r.Check(signedGuard, rule, "bigint.c:ferret_wide_int_convert_ptr", "upper limbs are all-ones only for a negative signed source", c.cpos(cf, h), "the extension does not depend on the source's signedness and sign")
	r.Check(selects, rule, "bigint.c:ferret_wide_int_convert_ptr", "each destination limb is the source limb or the fill", c.cpos(cf, h), "destination limbs are not taken from the source limbs / fill")
}

// ---- C16.R10: postfix ++/-- returns a snapshot ----------------------------------------------------------------

func init() {
	lateInits = append(lateInits, func() {
		props["C16"].Quick = append(props["C16"].Quick, c16R10)
		props["C01"].Quick = append(props["C01"].Quick, c16R10)
		props["C16"].Explanation += " (R10) the value x++ / x-- yields is copied out of the variable (a helper that allocates a slot and stores into it) before the incremented value is stored: for by-reference types a load is the variable's own address."
	})
}

func c16R10(c *Ctx, r *Report) {
	const rule = "C16.R10"
	r.Describe(rule, "mir/gen lowerPostfix: every variable returned on the ++/-- paths that is defined by emitLoad is re-defined through a same-package helper whose body calls emitAlloca and emitStore (copy), before it is returned")
	fn := c.LookupFn(pkgMIRGen, "(*functionBuilder).lowerPostfix")
	load := c.LookupFn(pkgMIRGen, "(*functionBuilder).emitLoad")
	alloca := c.LookupFn(pkgMIRGen, "(*functionBuilder).emitAlloca")
	store := c.LookupFn(pkgMIRGen, "(*functionBuilder).emitStore")
	if !r.Anchor(rule, fn != nil && load != nil && alloca != nil && store != nil, "mir/gen lowerPostfix / emitLoad / emitAlloca / emitStore") {
		return
	}
	info := fn.Info()
	defs := localDefs(fn)
	isCopyHelper := func(cl *ast.CallExpr) bool {
		hf := c.FnOf(callee(info, cl))
		if hf == nil || hf.Decl == nil || hf.Decl.Body == nil || hf.Obj.Pkg() != fn.Obj.Pkg() {
			return false
		}
		return nodeCallsDeep(hf.Info(), hf.Decl.Body, alloca.Obj) && nodeCallsDeep(hf.Info(), hf.Decl.Body, store.Obj)
	}
	n := 0
	ast.Inspect(fn.Decl.Body, func(x ast.Node) bool {
		ret, ok := x.(*ast.ReturnStmt)
		if !ok || len(ret.Results) != 1 {
			return true
		}
		id, ok := ast.Unparen(ret.Results[0]).(*ast.Ident)
		if !ok {
			return true
		}
		o := info.Uses[id]
		loaded, copied := false, false
		for _, d := range defs[o] {
			if d.Pos() > ret.Pos() {
				continue
			}
			if cl, ok := ast.Unparen(d).(*ast.CallExpr); ok {
				if isCallTo(info, cl, load.Obj) {
					loaded = true
				}
				if isCopyHelper(cl) {
					copied = true
				}
			}
		}
		if !loaded {
			return true
		}
		n++
		r.Check(copied, rule, fn.Name(), "old value "+id.Name+" is copied before the update", c.pos(ret.Pos()),
			"the value returned by x++ / x-- is the result of emitLoad, which for 128/256-bit numbers is the address of the variable itself: after the store it shows the new value (`let old := a++` gives old == a)")
		return true
	})
	r.Floor(rule, n, 2, "postfix paths returning the loaded value")
}

// ---- C03.R11 / C11.R8: numeric operators demand operands of one type ----------------------------------------

func init() {
	lateInits = append(lateInits, func() {
		props["C03"].Quick = append(props["C03"].Quick, c03R11)
		props["C11"].Quick = append(props["C11"].Quick, c03R11)
		props["C11"].Explanation += " (R8) the type checker's clauses for arithmetic, bitwise, equality and ordering operators each report two typed numeric operands of different types — no operator compares or combines two representations as they are."
	})
}

// unwrapDerived: the expression's root identifier was produced by types.UnwrapType — in this function, or, for a
// parameter, at every call site of the function.
func unwrapDerived(c *Ctx, f *Fn, e ast.Expr, depth int) bool {
	info := f.Info()
	// strip calls such as dereferenceType(x)
	for {
		cl, ok := ast.Unparen(e).(*ast.CallExpr)
		if !ok || len(cl.Args) != 1 {
			break
		}
		if g := callee(info, cl); g != nil && g.Name() == "UnwrapType" {
			return true
		}
		e = cl.Args[0]
	}
	id, ok := ast.Unparen(e).(*ast.Ident)
	if !ok {
		return false
	}
	o := info.Uses[id]
	if o == nil {
		return false
	}
	for _, d := range localDefs(f)[o] {
		found := false
		ast.Inspect(d, func(y ast.Node) bool {
			if cl, ok := y.(*ast.CallExpr); ok {
				if g := callee(info, cl); g != nil && g.Name() == "UnwrapType" {
					found = true
				}
			}
			return true
		})
		if found {
			return true
		}
	}
	if depth >= 1 || !isParamOf(f, o) {
		return false
	}
	sig := f.Obj.Type().(*types.Signature)
	pi := -1
	for i := 0; i < sig.Params().Len(); i++ {
		if sig.Params().At(i) == o {
			pi = i
		}
	}
	sites, derived := 0, 0
	for _, caller := range c.AllFns(relOf(f.Obj.Pkg().Path())) {
		for _, cl := range callsIn(caller.Decl.Body, true) {
			if isCallTo(caller.Info(), cl, f.Obj) && pi < len(cl.Args) {
				sites++
				if unwrapDerived(c, caller, cl.Args[pi], depth+1) {
					derived++
				}
			}
		}
	}
	return sites > 0 && derived == sites
}

func c03R11(c *Ctx, r *Report) {
	const rule = "C03.R11"
	r.Describe(rule, "typechecker.checkBinaryExpr: the case clauses of -,*,/,% · &,|,^ · ==,!= · <,<=,>,>= each contain a report guarded by a type-equality test of the two operands (directly or through a same-package helper)")
	fn := c.LookupFn(pkgTC, "checkBinaryExpr")
	bagAdd := c.LookupFn("internal/diagnostics", "(*DiagnosticBag).Add")
	if !r.Anchor(rule, fn != nil && bagAdd != nil, "typechecker.checkBinaryExpr / DiagnosticBag.Add") {
		return
	}
	sameTypeReport := func(f *Fn, root ast.Node) bool {
		finfo := f.Info()
		found := false
		ast.Inspect(root, func(x ast.Node) bool {
			ifs, ok := x.(*ast.IfStmt)
			if !ok {
				return true
			}
			eq := false
			ast.Inspect(ifs.Cond, func(y ast.Node) bool {
				if cl, ok := y.(*ast.CallExpr); ok {
					if sel, ok := ast.Unparen(cl.Fun).(*ast.SelectorExpr); ok && sel.Sel.Name == "Equals" && len(cl.Args) == 1 {
						// the declared types must be compared: an operand that went through types.UnwrapType has
						// lost its name (Meters and Feet both become i32)
						if !unwrapDerived(c, f, sel.X, 0) && !unwrapDerived(c, f, cl.Args[0], 0) {
							eq = true
						}
					}
				}
				return true
			})
			if !eq {
				return true
			}
			reports := func(n ast.Node) bool {
				return nodeCallsDeep(finfo, n, bagAdd.Obj) || callsReporter(c, finfo, n, bagAdd.Obj)
			}
			// the report may sit in the body (negated test) or after an early return (positive test)
			if reports(ifs.Body) {
				found = true
			}
			for _, st := range ifs.Body.List {
				if _, isRet := st.(*ast.ReturnStmt); isRet && reports(f.Decl.Body) {
					found = true
				}
			}
			return true
		})
		return found
	}
	info := fn.Info()
	for _, spec := range []struct{ tok, what string }{
		{"MINUS_TOKEN", "arithmetic"}, {"BIT_AND_TOKEN", "bitwise"}, {"DOUBLE_EQUAL_TOKEN", "equality"}, {"LESS_TOKEN", "ordering"},
	} {
		cc := clauseOf(fn, spec.tok, nil)
		if !r.Anchor(rule, cc != nil, "checkBinaryExpr: case "+spec.tok) {
			continue
		}
		ok := false
		for _, st := range cc.Body {
			if sameTypeReport(fn, st) {
				ok = true
			}
			for _, cl := range callsIn(st, false) {
				if hf := c.FnOf(callee(info, cl)); hf != nil && hf.Decl != nil && hf.Decl.Body != nil && hf.Obj.Pkg() == fn.Obj.Pkg() && sameTypeReport(hf, hf.Decl.Body) {
					ok = true
				}
			}
		}
		r.Check(ok, rule, fn.Name(), spec.what+" operators report operands of two different numeric types", c.pos(cc.Pos()),
			"the "+spec.what+" operators accept two different numeric types: the generated code applies the operator to the two representations as they are (`4294967295 as u32 == -1 as i32` holds, `200 as u8 > -56 as i16` does not)")
	}
}

// ---- C18.R6 / C11.R9: structural struct compatibility is layout compatibility ---------------------------------

func init() {
	lateInits = append(lateInits, func() {
		props["C18"].Quick = append(props["C18"].Quick, c18R6)
		props["C11"].Quick = append(props["C11"].Quick, c18R6)
		props["C18"].Explanation += " (R6) the type checker lets a struct value stand for another struct type only when the field count, the field names position by position and the field types are equal — a struct value is copied byte for byte."
	})
}

func c18R6(c *Ctx, r *Report) {
	const rule = "C18.R6"
	r.Describe(rule, "typechecker.areStructsCompatible: its result is conjoined with a same-package layout test that returns false on different len(Fields), on a different field name at the same index and on a non-equal field type")
	fn := c.LookupFn(pkgTC, "areStructsCompatible")
	if !r.Anchor(rule, fn != nil, "typechecker.areStructsCompatible") {
		return
	}
	info := fn.Info()
	var layout *Fn
	ast.Inspect(fn.Decl.Body, func(x ast.Node) bool {
		ret, ok := x.(*ast.ReturnStmt)
		if !ok || len(ret.Results) != 1 {
			return true
		}
		for _, cj := range conjuncts(ret.Results[0]) {
			if cl, ok := ast.Unparen(cj).(*ast.CallExpr); ok {
				if hf := c.FnOf(callee(info, cl)); hf != nil && hf.Decl != nil && hf.Decl.Body != nil && len(cl.Args) == 2 {
					layout = hf
				}
			}
		}
		return true
	})
	if layout == nil {
		r.Fail(rule, fn.Name(), "struct values need the destination's layout", c.pos(fn.Decl.Pos()),
			"areStructsCompatible matches fields by name only and accepts convertible field types: `let s := {.Y = 1 as i64, .X = 2 as i64}; let p: Point = s` copies the bytes as they are (p.X == 1), and i32 fields copied over i64 fields give garbage")
		return
	}
	linfo := layout.Info()
	lenTest, nameTest, typeTest := false, false, false
	ast.Inspect(layout.Decl.Body, func(x ast.Node) bool {
		ifs, ok := x.(*ast.IfStmt)
		if !ok {
			return true
		}
		retFalse := false
		for _, st := range ifs.Body.List {
			if ret, ok := st.(*ast.ReturnStmt); ok && len(ret.Results) == 1 {
				if v := constOf(linfo, ret.Results[0]); v != nil && v.Kind() == constant.Bool && !constant.BoolVal(v) {
					retFalse = true
				}
			}
		}
		if !retFalse {
			return true
		}
		cs := exprStr(ifs.Cond)
		for _, d := range disjuncts(ifs.Cond) {
			if b, ok := isBinOp(d, token.NEQ); ok {
				if strings.HasPrefix(exprStr(b.X), "len(") && strings.HasPrefix(exprStr(b.Y), "len(") && strings.Contains(cs, "Fields") {
					lenTest = true
				}
				if strings.HasSuffix(exprStr(b.X), ".Name") && strings.HasSuffix(exprStr(b.Y), ".Name") {
					nameTest = true
				}
			}
		}
		if strings.Contains(cs, ".Type.Equals(") && strings.Contains(cs, "!") {
			typeTest = true
		}
		return true
	})
	r.Check(lenTest, rule, layout.Name(), "different field counts are rejected", c.pos(layout.Decl.Pos()), "a struct with extra fields is copied over a smaller one")
	r.Check(nameTest, rule, layout.Name(), "field names are compared position by position", c.pos(layout.Decl.Pos()), "fields are matched by name only: a different declaration order swaps the values")
	r.Check(typeTest, rule, layout.Name(), "field types must be equal", c.pos(layout.Decl.Pos()), "convertible field types are accepted although the bytes are copied unconverted")
}

// ---- C01.R13: && / || short-circuit ----------------------------------------------------------------------------

func init() {
	lateInits = append(lateInits, func() {
		props["C01"].Quick = append(props["C01"].Quick, c01R13)
		props["C02"].Quick = append(props["C02"].Quick, c01R13)
		props["C01"].Explanation += " (R13) in MIR lowering the right operand of && / || is lowered only inside the helper reached from the AND/OR test, after the current block was terminated by a conditional branch on the left operand; the result is a phi of the two operands."
	})
}

func c01R13(c *Ctx, r *Report) {
	const rule = "C01.R13"
	r.Describe(rule, "mir/gen lowerExpr, case BinaryExpr: a test on AND_TOKEN/OR_TOKEN returns through a helper before the clause lowers e.Y; the helper terminates the origin block with a CondBr on the left operand before it lowers e.Y and ends in a Phi")
	le := c.LookupFn(pkgMIRGen, "(*functionBuilder).lowerExpr")
	if !r.Anchor(rule, le != nil, "mir/gen lowerExpr") {
		return
	}
	info := le.Info()
	var clause *ast.CaseClause
	ast.Inspect(le.Decl.Body, func(x ast.Node) bool {
		if cc, ok := x.(*ast.CaseClause); ok && clause == nil {
			for _, t := range caseTypes(info, cc) {
				if nt := namedOf(t); nt != nil && nt.Obj().Name() == "BinaryExpr" {
					clause = cc
				}
			}
		}
		return true
	})
	if !r.Anchor(rule, clause != nil, "lowerExpr: case *hir.BinaryExpr") {
		return
	}
	lowersY := func(inf *types.Info, n ast.Node) token.Pos {
		var at token.Pos
		ast.Inspect(n, func(x ast.Node) bool {
			if cl, ok := x.(*ast.CallExpr); ok && isCallTo(inf, cl, le.Obj) && len(cl.Args) == 1 && strings.HasSuffix(exprStr(cl.Args[0]), ".Y") && at == token.NoPos {
				at = cl.Pos()
			}
			return true
		})
		return at
	}
	var helper *Fn
	var gatePos token.Pos
	for _, st := range clause.Body {
		ifs, ok := st.(*ast.IfStmt)
		if !ok {
			continue
		}
		and, or := false, false
		ast.Inspect(ifs.Cond, func(x ast.Node) bool {
			if e, ok := x.(ast.Expr); ok {
				if o := constObj(info, e); o != nil {
					if o.Name() == "AND_TOKEN" {
						and = true
					}
					if o.Name() == "OR_TOKEN" {
						or = true
					}
				}
			}
			return true
		})
		if !and || !or {
			continue
		}
		for _, bs := range ifs.Body.List {
			if ret, ok := bs.(*ast.ReturnStmt); ok && len(ret.Results) == 1 {
				if cl, ok := ast.Unparen(ret.Results[0]).(*ast.CallExpr); ok {
					if hf := c.FnOf(callee(info, cl)); hf != nil && hf.Decl != nil && hf.Decl.Body != nil {
						helper, gatePos = hf, ifs.Pos()
					}
				}
			}
		}
	}
	var firstY token.Pos
	for _, st := range clause.Body {
		if p := lowersY(info, st); p != token.NoPos && firstY == token.NoPos {
			firstY = p
		}
	}
	r.Check(helper != nil && firstY != token.NoPos && gatePos < firstY, rule, le.Name(), "&& / || leave the clause before the right operand is lowered", c.pos(clause.Pos()),
		"both operands of && / || are lowered unconditionally: `i < len && a[i] > 0` evaluates a[i] for an out-of-range i and panics, `done || step()` calls step() although done is true")
	if helper == nil {
		return
	}
	hinfo := helper.Info()
	var condBrPos, yPos, phiPos token.Pos
	ast.Inspect(helper.Decl.Body, func(x ast.Node) bool {
		if cl, ok := x.(*ast.CompositeLit); ok {
			if nt := namedOf(hinfo.TypeOf(cl)); nt != nil {
				switch nt.Obj().Name() {
				case "CondBr":
					// must branch on the left operand (a parameter of the helper)
					for _, e := range cl.Elts {
						if kv, ok := e.(*ast.KeyValueExpr); ok && exprStr(kv.Key) == "Cond" {
							if o := objOf(hinfo, kv.Value); o != nil && isParamOf(helper, o) && (condBrPos == token.NoPos || cl.Pos() > condBrPos) {
								condBrPos = cl.Pos()
							}
						}
					}
				case "Phi":
					phiPos = cl.Pos()
				}
			}
		}
		return true
	})
	yPos = lowersY(hinfo, helper.Decl.Body)
	r.Check(condBrPos != token.NoPos && yPos != token.NoPos && condBrPos < yPos, rule, helper.Name(), "conditional branch on the left operand before the right operand is lowered", c.pos(helper.Decl.Pos()),
		"the right operand is lowered into the same block as the left one (or the branch does not test the left operand)")
	r.Check(phiPos != token.NoPos && phiPos > yPos, rule, helper.Name(), "result is a phi after both paths", c.pos(helper.Decl.Pos()), "the value of the expression is not merged from the two paths")
}

// ---- C14.R8: load failures are not reported from the parser goroutines ---------------------------------------

func init() {
	lateInits = append(lateInits, func() {
		props["C14"].Quick = append(props["C14"].Quick, c14R8, c15R2)
		props["C14"].Explanation += " (R8) in the concurrent parse phase a failure to locate or read a module is only recorded (under a mutex); it is reported after wg.Wait() at a location chosen by a total order on the import statements, not at the import of whichever goroutine asked first."
	})
}

func c14R8(c *Ctx, r *Report) {
	const rule = "C14.R8"
	r.Describe(rule, "pipeline.parseModule: the error branches of ImportPathToFilePath and os.ReadFile contain no ReportError / DiagnosticBag.Add call; they call a same-package recorder that locks a mutex")
	pm := c.LookupFn(pkgPipe, "(*Pipeline).parseModule")
	report := c.LookupFn(pkgCtx, "(*CompilerContext).ReportError")
	bagAdd := c.LookupFn("internal/diagnostics", "(*DiagnosticBag).Add")
	if !r.Anchor(rule, pm != nil && report != nil && bagAdd != nil, "pipeline.parseModule / ReportError / DiagnosticBag.Add") {
		return
	}
	info := pm.Info()
	n := 0
	ast.Inspect(pm.Decl.Body, func(x ast.Node) bool {
		as, ok := x.(*ast.AssignStmt)
		if !ok || len(as.Rhs) != 1 {
			return true
		}
		cl, ok := as.Rhs[0].(*ast.CallExpr)
		if !ok {
			return true
		}
		f := callee(info, cl)
		if f == nil || !(f.Name() == "ImportPathToFilePath" || f.Name() == "ReadFile" && f.Pkg() != nil && f.Pkg().Path() == "os") {
			return true
		}
		errObj := objOf(info, as.Lhs[len(as.Lhs)-1])
		if errObj == nil {
			return true
		}
		// the following `if err != nil { … }`
		ast.Inspect(pm.Decl.Body, func(y ast.Node) bool {
			ifs, ok := y.(*ast.IfStmt)
			if !ok || ifs.Pos() < as.Pos() {
				return true
			}
			b, isNeq := isBinOp(ifs.Cond, token.NEQ)
			if !isNeq || objOf(info, b.X) != errObj {
				return true
			}
			// only the first such if after the assignment
			if ifs.Pos() > as.End()+400 {
				return true
			}
			n++
			direct := false
			recorded := false
			for _, c2 := range callsIn(ifs.Body, false) {
				if isCallTo(info, c2, report.Obj) || isCallTo(info, c2, bagAdd.Obj) {
					direct = true
				}
				if rf := c.FnOf(callee(info, c2)); rf != nil && rf.Decl != nil && rf.Decl.Body != nil && rf.Obj.Pkg() == pm.Obj.Pkg() {
					for _, c3 := range callsIn(rf.Decl.Body, false) {
						if g := callee(rf.Info(), c3); g != nil && g.Name() == "Lock" && g.Pkg() != nil && g.Pkg().Path() == "sync" {
							recorded = true
						}
					}
				}
			}
			r.Check(!direct && recorded, rule, pm.Name(), "failure of "+f.Name()+" is recorded, not reported, by the parser goroutine", c.pos(ifs.Pos()),
				"the diagnostic for a module that cannot be loaded is added by the goroutine that happened to be scheduled first, at the import location of its requester: a missing module imported from two modules is reported at a.fer in some runs and at b.fer in others")
			return false
		})
		return true
	})
	r.Floor(rule, n, 2, "load-failure branches in parseModule")
}

// ---- C12.R5 / R6: private methods, casts of foreign structs with private fields ---------------------------------

func init() {
	lateInits = append(lateInits, func() {
		props["C12"].Quick = append(props["C12"].Quick, c12R5, c12R6)
		props["C12"].Explanation += " (R5) the type checker's method branch of a selector reports a method whose MethodInfo.Exported is false unless the type symbol is the current module's own. (R6) checkCastExpr refuses to convert a named struct type of another module that has a lowercase field into a different struct type, before it compares the structures."
	})
}

func c12R5(c *Ctx, r *Report) {
	const rule = "C12.R5"
	r.Describe(rule, "typechecker: where a selector resolves to typeSym.Methods[name], an if that tests MethodInfo.Exported reports and returns before the method is accepted")
	bagAdd := c.LookupFn("internal/diagnostics", "(*DiagnosticBag).Add")
	exported := c.fieldObj("internal/semantics/symbols", "MethodInfo", "Exported")
	methods := c.fieldObj("internal/semantics/symbols", "Symbol", "Methods")
	if !r.Anchor(rule, bagAdd != nil && exported != nil && methods != nil, "DiagnosticBag.Add / MethodInfo.Exported / Symbol.Methods") {
		return
	}
	n := 0
	for _, fn := range c.AllFns(pkgTC) {
		info := fn.Info()
		// only the selector checker: it also reports private fields
		isSelectorChecker := false
		ast.Inspect(fn.Decl.Body, func(x ast.Node) bool {
			if bl, ok := x.(*ast.BasicLit); ok {
				if v := constOf(info, bl); v != nil && v.Kind() == constant.String && strings.Contains(constant.StringVal(v), "is private") && strings.Contains(constant.StringVal(v), "field") {
					isSelectorChecker = true
				}
			}
			return true
		})
		if !isSelectorChecker {
			continue
		}
		ast.Inspect(fn.Decl.Body, func(x ast.Node) bool {
			ifs, ok := x.(*ast.IfStmt)
			if !ok || ifs.Init == nil {
				return true
			}
			as, ok := ifs.Init.(*ast.AssignStmt)
			if !ok || len(as.Rhs) != 1 {
				return true
			}
			ix, ok := ast.Unparen(as.Rhs[0]).(*ast.IndexExpr)
			if !ok || fieldOf(info, ix.X) != methods {
				return true
			}
			n++
			guarded := false
			ast.Inspect(ifs.Body, func(y ast.Node) bool {
				inner, ok := y.(*ast.IfStmt)
				if !ok {
					return true
				}
				tests := false
				ast.Inspect(inner.Cond, func(z ast.Node) bool {
					if e, ok := z.(ast.Expr); ok && fieldOf(info, e) == exported {
						tests = true
					}
					return true
				})
				if tests && nodeCallsDeep(info, inner.Body, bagAdd.Obj) {
					guarded = true
				}
				return true
			})
			r.Check(guarded, rule, fn.Name(), "a method that is not exported is reported for foreign types", c.pos(ifs.Pos()),
				"`a.secretMethod()` on a value of another module's type compiles: a lowercase method is a private function of its module")
			return true
		})
	}
	r.Floor(rule, n, 1, "method look-ups in the selector checker")
}

func c12R6(c *Ctx, r *Report) {
	const rule = "C12.R6"
	r.Describe(rule, "typechecker.checkCastExpr: in the struct-to-struct branch a helper that walks the source's fields with IsExported is consulted, and its positive result is reported and returned on, before analyzeStructCompatibility")
	fn := c.LookupFn(pkgTC, "checkCastExpr")
	an := c.LookupFn(pkgTC, "analyzeStructCompatibility")
	bagAdd := c.LookupFn("internal/diagnostics", "(*DiagnosticBag).Add")
	if !r.Anchor(rule, fn != nil && an != nil && bagAdd != nil, "typechecker.checkCastExpr / analyzeStructCompatibility") {
		return
	}
	info := fn.Info()
	var anPos token.Pos
	for _, cl := range callsIn(fn.Decl.Body, false) {
		if isCallTo(info, cl, an.Obj) && anPos == token.NoPos {
			anPos = cl.Pos()
		}
	}
	if !r.Anchor(rule, anPos != token.NoPos, "checkCastExpr: analyzeStructCompatibility call") {
		return
	}
	guarded := false
	ast.Inspect(fn.Decl.Body, func(x ast.Node) bool {
		ifs, ok := x.(*ast.IfStmt)
		if !ok || ifs.Pos() > anPos {
			return true
		}
		consults := false
		scan := func(n ast.Node) {
			if n == nil {
				return
			}
			for _, cl := range callsIn(n, false) {
				if hf := c.FnOf(callee(info, cl)); hf != nil && hf.Decl != nil && hf.Decl.Body != nil && hf.Obj.Pkg() == fn.Obj.Pkg() {
					for _, c2 := range callsIn(hf.Decl.Body, false) {
						if g := callee(hf.Info(), c2); g != nil && g.Name() == "IsExported" {
							consults = true
						}
					}
				}
			}
		}
		scan(ifs.Init)
		scan(ifs.Cond)
		if !consults {
			return true
		}
		hasRet := false
		for _, st := range ifs.Body.List {
			if _, ok := st.(*ast.ReturnStmt); ok {
				hasRet = true
			}
		}
		if hasRet && nodeCallsDeep(info, ifs.Body, bagAdd.Obj) && ifs.End() < anPos {
			guarded = true
		}
		return true
	})
	r.Check(guarded, rule, fn.Name(), "foreign struct types with private fields are not converted", c.pos(fn.Decl.Pos()),
		"`lib::NewAccount() as Acct` with a structurally identical local type type-checks, and a method of Acct then reads the private field lib::Account.balance")
}

// ---- C09.R6: `if true { }` is transparent for the return analysis ----------------------------------------------

func init() {
	lateInits = append(lateInits, func() {
		props["C09"].Quick = append(props["C09"].Quick, c09R6)
		props["C05"].Quick = append(props["C05"].Quick, c09R6)
		props["C09"].Explanation += " (R6) buildIf has a branch for a literal-true condition without else that adds no edge around the body, and that declares the continuation unreachable only when the body cannot fall through."
	})
}

func c09R6(c *Ctx, r *Report) {
	const rule = "C09.R6"
	r.Describe(rule, "hir/analysis buildIf: an `isLiteralTrue(stmt.Cond)` branch exists in the no-else region; it contains no addEdge from the condition block; its `return nil` is guarded by a test of the body's CanFallThru")
	fn := c.LookupFn(pkgHIRAn, "(*CFGBuilder).buildIf")
	isLit := c.LookupFn(pkgHIRAn, "isLiteralTrue")
	addEdge := c.LookupFn(pkgHIRAn, "addEdge")
	if !r.Anchor(rule, fn != nil && isLit != nil && addEdge != nil, "hir/analysis buildIf / isLiteralTrue / addEdge") {
		return
	}
	info := fn.Info()
	var branch *ast.IfStmt
	ast.Inspect(fn.Decl.Body, func(x ast.Node) bool {
		if ifs, ok := x.(*ast.IfStmt); ok {
			if cl, ok := ast.Unparen(ifs.Cond).(*ast.CallExpr); ok && isCallTo(info, cl, isLit.Obj) {
				branch = ifs
			}
		}
		return true
	})
	if branch == nil {
		r.Fail(rule, fn.Name(), "`if true { }` without else does not add a path around its body", c.pos(fn.Decl.Pos()),
			"buildIf always adds the edge condition -> continuation when there is no else: `fn f() -> i32 { if true { return 1; } }` is rejected ('not all code paths return') although `fn f() -> i32 { return 1; }` is accepted")
		return
	}
	skips := false
	for _, cl := range callsIn(branch.Body, false) {
		if isCallTo(info, cl, addEdge.Obj) && len(cl.Args) == 2 && exprStr(cl.Args[0]) == "current" {
			skips = true
		}
	}
	r.Check(!skips, rule, fn.Name(), "`if true { }` without else does not add a path around its body", c.pos(branch.Pos()),
		"the literal-true branch still connects the condition block to the continuation")
	// return nil only when the body cannot fall through
	okRet := true
	walkWithStack(branch.Body, func(x ast.Node, stack []ast.Node) bool {
		ret, ok := x.(*ast.ReturnStmt)
		if !ok || len(ret.Results) != 1 || exprStr(ret.Results[0]) != "nil" {
			return true
		}
		guarded := false
		for _, a := range stack {
			if ifs, ok := a.(*ast.IfStmt); ok && strings.Contains(exprStr(ifs.Cond), "CanFallThru") && containsNode(ifs.Body, ret) {
				guarded = true
			}
		}
		if !guarded {
			okRet = false
		}
		return true
	})
	r.Check(okRet, rule, fn.Name(), "the continuation is declared unreachable only when the body cannot fall through", c.pos(branch.Pos()),
		"`if true { if x > 0 { return 1; } }` would count as returning on all paths: the function falls off its end for x <= 0")
}

// ---- C09.R7: compile-time constants reach code generation in literal form ---------------------------------------

func init() {
	lateInits = append(lateInits, func() {
		props["C09"].Quick = append(props["C09"].Quick, c09R7)
		props["C09"].Explanation += " (R7) MIR lowering turns a compile-time constant into operand text through a helper that takes a string constant's value (AsString); the display form ConstValue.String(), which quotes strings, is not used elsewhere in mir/gen."
	})
}

func c09R7(c *Ctx, r *Report) {
	const rule = "C09.R7"
	r.Describe(rule, "mir/gen: a call of ConstValue.String() (symbols.ConstValue / consteval.ConstValue) occurs only in a function that first tries AsString() on the value or has established with AsInt() that it is an integer")
	n := 0
	for _, fn := range c.AllFns(pkgMIRGen) {
		info := fn.Info()
		hasAsString := false
		for _, cl := range callsIn(fn.Decl.Body, true) {
			// AsString: the string case is taken out first; AsInt: the value is known to be an integer, whose
			// display form is its literal form
			if f := callee(info, cl); f != nil && (f.Name() == "AsString" || f.Name() == "AsInt") {
				hasAsString = true
			}
		}
		for _, cl := range callsIn(fn.Decl.Body, true) {
			sel, ok := ast.Unparen(cl.Fun).(*ast.SelectorExpr)
			if !ok || sel.Sel.Name != "String" || len(cl.Args) != 0 {
				continue
			}
			t := info.TypeOf(sel.X)
			if t == nil {
				continue
			}
			nt := namedOf(t)
			if nt == nil || nt.Obj().Name() != "ConstValue" {
				continue
			}
			n++
			r.Check(hasAsString, rule, fn.Name(), "ConstValue.String() of "+exprStr(sel.X)+" only after AsString", c.pos(cl.Pos()),
				"the display form of a constant is used as operand text: a string constant arrives with its quotes, so `const K: str = \"hi\"; match s { K => … }` compares s with \"\\\"hi\\\"\" and never matches, while the literal pattern \"hi\" does")
		}
	}
	r.Floor(rule, n, 1, "ConstValue.String() calls in mir/gen")
}

// ---- C09.R8: no element of a literal is skipped -------------------------------------------------------------------

func init() {
	lateInits = append(lateInits, func() {
		props["C09"].Quick = append(props["C09"].Quick, c09R8)
		props["C09"].Explanation += " (R8) MIR lowering never lowers a single picked element `x.Elts[k]` of a composite literal outside a loop over all elements: every element expression is evaluated."
	})
}

func c09R8(c *Ctx, r *Report) {
	const rule = "C09.R8"
	r.Describe(rule, "mir/gen: lowerExpr is applied to an element of CompositeLit.Elts only inside a for/range statement over that Elts slice (all elements are evaluated, in order)")
	le := c.LookupFn(pkgMIRGen, "(*functionBuilder).lowerExpr")
	if !r.Anchor(rule, le != nil, "mir/gen lowerExpr") {
		return
	}
	n := 0
	for _, fn := range c.AllFns(pkgMIRGen) {
		info := fn.Info()
		defs := localDefs(fn)
		eltsIndex := func(e ast.Expr) *ast.IndexExpr {
			if ix, ok := ast.Unparen(e).(*ast.IndexExpr); ok {
				if sel, ok := ast.Unparen(ix.X).(*ast.SelectorExpr); ok && sel.Sel.Name == "Elts" {
					return ix
				}
			}
			return nil
		}
		walkWithStack(fn.Decl.Body, func(x ast.Node, stack []ast.Node) bool {
			cl, ok := x.(*ast.CallExpr)
			if !ok || !isCallTo(info, cl, le.Obj) || len(cl.Args) != 1 {
				return true
			}
			ix := eltsIndex(cl.Args[0])
			if ix == nil {
				if o := objOf(info, cl.Args[0]); o != nil {
					for _, d := range defs[o] {
						if dx := eltsIndex(d); dx != nil && d.Pos() < cl.Pos() {
							ix = dx
						}
					}
				}
			}
			if ix == nil {
				return true
			}
			n++
			inLoop := false
			for _, a := range stack {
				switch s := a.(type) {
				case *ast.RangeStmt:
					if strings.HasSuffix(exprStr(s.X), ".Elts") {
						inLoop = true
					}
				case *ast.ForStmt:
					if s.Cond != nil && strings.Contains(exprStr(s.Cond), ".Elts") {
						inLoop = true
					}
				}
			}
			r.Check(inLoop, rule, fn.Name(), "element "+exprStr(ix)+" is lowered as part of a loop over all elements", c.pos(cl.Pos()),
				"only the selected element of the literal is evaluated: `[f(), g()][0]` never calls g(), while `let t := [f(), g()]; t[0]` calls both")
			return true
		})
	}
	r.Note("%s: %d single-element lowerings inspected", rule, n)
}

// ---- C10.R7: literal-only integer expressions are folded before narrowing ---------------------------------------

func init() {
	lateInits = append(lateInits, func() {
		props["C10"].Quick = append(props["C10"].Quick, c10R7)
		props["C09"].Quick = append(props["C09"].Quick, c10R7)
		props["C10"].Explanation += " (R7) a binary expression built from integer literals only is emitted as one constant of the expression's type (the value the type checker range-checked); the predicate that selects such expressions admits literals, parentheses, unary minus and arithmetic operators only, so no variable's flow-insensitive value takes part."
	})
}

func c10R7(c *Ctx, r *Report) {
	const rule = "C10.R7"
	r.Describe(rule, "mir/gen lowerExpr, case BinaryExpr: before the operands are lowered a helper is tried that evaluates the expression with consteval.EvaluateHIRExpr and emits it with emitConst/emitLargeConst; the helper is guarded by a predicate whose type switch has cases for Literal, ParenExpr, UnaryExpr and BinaryExpr only")
	le := c.LookupFn(pkgMIRGen, "(*functionBuilder).lowerExpr")
	ec := c.LookupFn(pkgMIRGen, "(*functionBuilder).emitConst")
	if !r.Anchor(rule, le != nil && ec != nil, "mir/gen lowerExpr / emitConst") {
		return
	}
	info := le.Info()
	var clause *ast.CaseClause
	ast.Inspect(le.Decl.Body, func(x ast.Node) bool {
		if cc, ok := x.(*ast.CaseClause); ok && clause == nil {
			for _, t := range caseTypes(info, cc) {
				if nt := namedOf(t); nt != nil && nt.Obj().Name() == "BinaryExpr" {
					clause = cc
				}
			}
		}
		return true
	})
	if !r.Anchor(rule, clause != nil, "lowerExpr: case *hir.BinaryExpr") {
		return
	}
	var firstLower token.Pos
	var helper *Fn
	var helperPos token.Pos
	for _, st := range clause.Body {
		for _, cl := range callsIn(st, false) {
			if isCallTo(info, cl, le.Obj) && firstLower == token.NoPos {
				firstLower = cl.Pos()
			}
			if hf := c.FnOf(callee(info, cl)); hf != nil && hf.Decl != nil && hf.Decl.Body != nil && hf.Obj != le.Obj && helper == nil {
				evals, emits := false, false
				for _, c2 := range callsIn(hf.Decl.Body, false) {
					if g := callee(hf.Info(), c2); g != nil {
						if g.Name() == "EvaluateHIRExpr" {
							evals = true
						}
						if g == ec.Obj {
							emits = true
						}
					}
				}
				if evals && emits {
					helper, helperPos = hf, cl.Pos()
				}
			}
		}
	}
	r.Check(helper != nil && helperPos < firstLower, rule, le.Name(), "literal-only integer expressions are folded before the operands are lowered", c.pos(clause.Pos()),
		"the operands of `600 / 3` are lowered one by one in the type of the context: in a u8 context 600 becomes 88 and `x + (600 / 3)` yields x + 29, although the type checker accepted the expression because its value 200 fits u8")
	if helper == nil {
		return
	}
	// the purity predicate
	hinfo := helper.Info()
	var pred *Fn
	for _, cl := range callsIn(helper.Decl.Body, false) {
		if pf := c.FnOf(callee(hinfo, cl)); pf != nil && pf.Decl != nil && pf.Decl.Body != nil && pf.Obj.Pkg() == helper.Obj.Pkg() {
			sig := pf.Obj.Type().(*types.Signature)
			if sig.Results().Len() == 1 && sig.Params().Len() == 1 {
				if b, ok := sig.Results().At(0).Type().Underlying().(*types.Basic); ok && b.Kind() == types.Bool {
					if pn := namedOf(sig.Params().At(0).Type()); pn != nil && pn.Obj().Name() == "Expr" {
						pred = pf
					}
				}
			}
		}
	}
	if !r.Anchor(rule, pred != nil, "folding helper: literal-only predicate") {
		return
	}
	pinfo := pred.Info()
	allowed := map[string]bool{"Literal": true, "ParenExpr": true, "UnaryExpr": true, "BinaryExpr": true}
	bad := ""
	nCases := 0
	ast.Inspect(pred.Decl.Body, func(x ast.Node) bool {
		if ts, ok := x.(*ast.TypeSwitchStmt); ok {
			for _, cc := range caseClauses(ts.Body) {
				for _, t := range caseTypes(pinfo, cc) {
					nCases++
					if nt := namedOf(t); nt == nil || !allowed[nt.Obj().Name()] {
						bad = types.TypeString(t, nil)
					}
				}
			}
		}
		return true
	})
	r.Check(bad == "" && nCases >= 2, rule, pred.Name(), "only literals, parentheses, unary and binary operators are folded", c.pos(pred.Decl.Pos()),
		"the folding predicate admits "+bad+": a variable's compile-time value is flow-insensitive (see the C04.R1 findings), so folding it replaces a run-time value by a stale constant")
}

// ---- C06.R8: no mutable alias of immutable shared storage --------------------------------------------------------

func init() {
	lateInits = append(lateInits, func() {
		props["C06"].Quick = append(props["C06"].Quick, c06R8)
		props["C06"].Explanation += " (R8) dynamic arrays and maps are handles: the type checker's variable-declaration, assignment and call-argument checks each consult the alias check that rejects handing the storage of an immutable place to a mutable name (the call-argument site is a recorded finding: a by-value []T / map parameter can still be written through)."
	})
}

func c06R8(c *Ctx, r *Report) {
	const rule = "C06.R8"
	r.Describe(rule, "typechecker: checkVarDecl (non-const items), checkAssignStmt (plain =) and validateCallArgumentTypes (by-value parameters) call a helper that tests the value's type for dynamic array / map and the value's place with checkMutability, and reports")
	cm := c.LookupFn(pkgTC, "checkMutability")
	bagAdd := c.LookupFn("internal/diagnostics", "(*DiagnosticBag).Add")
	if !r.Anchor(rule, cm != nil && bagAdd != nil, "typechecker.checkMutability / DiagnosticBag.Add") {
		return
	}
	// the alias helper: calls checkMutability, mentions MapType and ArrayType, reports
	var helper *Fn
	for _, fn := range c.AllFns(pkgTC) {
		info := fn.Info()
		if !nodeCallsDeep(info, fn.Decl.Body, cm.Obj) || !nodeCallsDeep(info, fn.Decl.Body, bagAdd.Obj) {
			continue
		}
		switch fn.Obj.Name() {
		case "checkVarDecl", "checkAssignStmt", "validateCallArgumentTypes":
			continue // the sites themselves
		}
		if nodeCalls(info, fn.Decl.Body, cm.Obj) == nil {
			continue // the helper asks checkMutability itself
		}
		hasMap, hasArr := false, false
		scan := func(f *Fn) {
			ast.Inspect(f.Decl.Body, func(x ast.Node) bool {
				if cc, ok := x.(*ast.CaseClause); ok {
					for _, t := range caseTypes(f.Info(), cc) {
						if nt := namedOf(t); nt != nil {
							if nt.Obj().Name() == "MapType" {
								hasMap = true
							}
							if nt.Obj().Name() == "ArrayType" {
								hasArr = true
							}
						}
					}
				}
				return true
			})
		}
		scan(fn)
		// the type test may live in a predicate of its own (one level), possibly wrapped once more
		for _, cl := range callsIn(fn.Decl.Body, false) {
			if g := callee(info, cl); g != nil && g.Pkg() == fn.Obj.Pkg() && g != fn.Obj {
				if gf := c.FnOf(g); gf != nil && gf.Decl != nil && gf.Decl.Body != nil {
					scan(gf)
					for _, cl2 := range callsIn(gf.Decl.Body, false) {
						if h := callee(gf.Info(), cl2); h != nil && h.Pkg() == fn.Obj.Pkg() && h != g && h != fn.Obj {
							if hf := c.FnOf(h); hf != nil && hf.Decl != nil && hf.Decl.Body != nil {
								scan(hf)
							}
						}
					}
				}
			}
		}
		// … and reports for immutable sources (the helper for the other direction, a constant bound to a
		// variable's storage, tests for MutabilityAllowed only)
		mentionsConstant := false
		ast.Inspect(fn.Decl.Body, func(x ast.Node) bool {
			if id, ok := x.(*ast.Ident); ok {
				if o, ok := info.Uses[id].(*types.Const); ok && o.Name() == "MutabilityConstant" {
					mentionsConstant = true
				}
			}
			return true
		})
		if hasMap && hasArr && mentionsConstant {
			helper = fn
		}
	}
	for _, site := range []struct{ name, what, why string }{
		{"checkVarDecl", "let-bindings", "`const a := [1, 2, 3]; let b := a; b[0] = 9;` changes a[0]"},
		{"checkAssignStmt", "assignments", "`c = a` with a constant dynamic array a lets c[0] = 9 change a"},
		{"validateCallArgumentTypes", "by-value call arguments", "`fn poke(x: []i32) { x[0] = 9; }` called with a constant array changes the constant"},
	} {
		fn := c.LookupFn(pkgTC, site.name)
		if !r.Anchor(rule, fn != nil, "typechecker."+site.name) {
			continue
		}
		r.Check(helper != nil && nodeCallsDeep(fn.Info(), fn.Decl.Body, helper.Obj), rule, fn.Name(), site.what+" do not alias immutable dynamic arrays / maps", c.pos(fn.Decl.Pos()),
			"the storage of an immutable dynamic array or map is handed to a mutable name without a copy: "+site.why)
	}
}

// ---- C03.R12: dynamic array values vs. fixed-size targets --------------------------------------------------------

func init() {
	lateInits = append(lateInits, func() {
		props["C03"].Quick = append(props["C03"].Quick, c03R12)
		props["C18"].Quick = append(props["C18"].Quick, c03R12)
		props["C03"].Explanation += " (R12) the []T-to-[N]T compatibility that array literals need is withdrawn for non-literal values at every site that checks a value against an expected type: assign-like positions, call arguments and returned values."
	})
}

func c03R12(c *Ctx, r *Report) {
	const rule = "C03.R12"
	r.Describe(rule, "typechecker: checkAssignLike, validateCallArgumentTypes and the return-statement check each override the computed compatibility with a helper that recognises (dynamic array type, fixed array type, non-literal expression)")
	var helper *Fn
	for _, fn := range c.AllFns(pkgTC) {
		sig := fn.Obj.Type().(*types.Signature)
		if sig.Params().Len() != 3 || sig.Results().Len() != 1 {
			continue
		}
		if b, ok := sig.Results().At(0).Type().Underlying().(*types.Basic); !ok || b.Kind() != types.Bool {
			continue
		}
		info := fn.Info()
		arr, lit := 0, false
		ast.Inspect(fn.Decl.Body, func(x ast.Node) bool {
			if ta, ok := x.(*ast.TypeAssertExpr); ok && ta.Type != nil {
				s := exprStr(ta.Type)
				if strings.HasSuffix(s, "types.ArrayType") {
					arr++
				}
				if strings.HasSuffix(s, "ast.CompositeLit") {
					lit = true
				}
			}
			return true
		})
		_ = info
		if arr >= 2 && lit {
			helper = fn
		}
	}
	if helper == nil {
		r.Fail(rule, "semantics/typechecker", "dynamic array values are not compatible with fixed-size arrays", "-",
			"there is no check that tells an array literal from a dynamic array value: `let d := [1, 2, 3]; let fx: [3]i32 = d` is accepted and fx reads the bytes of the runtime handle")
		return
	}
	for _, site := range []string{"checkAssignLike", "validateCallArgumentTypes"} {
		fn := c.LookupFn(pkgTC, site)
		if !r.Anchor(rule, fn != nil, "typechecker."+site) {
			continue
		}
		r.Check(nodeCallsDeep(fn.Info(), fn.Decl.Body, helper.Obj), rule, fn.Name(), "a non-literal []T is rejected for a [N]T target", c.pos(fn.Decl.Pos()),
			"this site accepts a dynamic array value where a fixed-size array is expected: the handle's bytes are read as elements")
	}
	// the return statement check: whichever function reports "type mismatch in return statement"
	found := false
	for _, fn := range c.AllFns(pkgTC) {
		info := fn.Info()
		isRet := false
		ast.Inspect(fn.Decl.Body, func(x ast.Node) bool {
			if bl, ok := x.(*ast.BasicLit); ok {
				if v := constOf(info, bl); v != nil && v.Kind() == constant.String && constant.StringVal(v) == "type mismatch in return statement" {
					isRet = true
				}
			}
			return true
		})
		if !isRet {
			continue
		}
		found = true
		r.Check(nodeCallsDeep(info, fn.Decl.Body, helper.Obj), rule, fn.Name(), "a non-literal []T is rejected for a [N]T return type", c.pos(fn.Decl.Pos()),
			"a function returning [N]T may return a dynamic array value")
	}
	r.Anchor(rule, found, "typechecker: return statement check")
}

// ---- C01.R14: intrinsic builtins agree between collector and MIR lowering -----------------------------------------

func init() {
	lateInits = append(lateInits, func() {
		props["C01"].Quick = append(props["C01"].Quick, c01R14)
		props["C01"].Explanation += " (R14) every builtin name MIR lowering treats as an intrinsic (the cases of lowerCall's builtin switch) is marked IsBuiltin by the collector (isIntrinsicBuiltin), and vice versa."
	})
}

func c01R14(c *Ctx, r *Report) {
	const rule = "C01.R14"
	r.Describe(rule, "collector.isIntrinsicBuiltin's case list = the string cases of the builtin switch in mir/gen lowerCall = the cases of typechecker.checkBuiltinCallExpr")
	isb := c.LookupFn("internal/semantics/collector", "isIntrinsicBuiltin")
	lc := c.LookupFn(pkgMIRGen, "(*functionBuilder).lowerCall")
	if !r.Anchor(rule, isb != nil && lc != nil, "collector.isIntrinsicBuiltin / mir/gen lowerCall") {
		return
	}
	strCases := func(fn *Fn) map[string]bool {
		out := map[string]bool{}
		info := fn.Info()
		ast.Inspect(fn.Decl.Body, func(x ast.Node) bool {
			if cc, ok := x.(*ast.CaseClause); ok {
				for _, e := range cc.List {
					if v := constOf(info, e); v != nil && v.Kind() == constant.String {
						out[constant.StringVal(v)] = true
					}
				}
			}
			return true
		})
		return out
	}
	coll, low := strCases(isb), strCases(lc)
	// the type checker routes calls of intrinsic builtins to checkBuiltinCallExpr, which must know each of them
	tc := map[string]bool{}
	cbc := c.LookupFn(pkgTC, "checkBuiltinCallExpr")
	if r.Anchor(rule, cbc != nil, "typechecker.checkBuiltinCallExpr") {
		tc = strCases(cbc)
	}
	names := map[string]bool{}
	for k := range coll {
		names[k] = true
	}
	for k := range low {
		names[k] = true
	}
	for k := range tc {
		names[k] = true
	}
	keys := make([]string, 0, len(names))
	for k := range names {
		keys = append(keys, k)
	}
	sort.Strings(keys)
	for _, k := range keys {
		r.Check(coll[k] && low[k], rule, "builtin "+k, "marked intrinsic by the collector and lowered as an intrinsic", c.pos(isb.Decl.Pos()),
			fmt.Sprintf("builtin %q: collector intrinsic=%v, MIR intrinsic=%v — a builtin the collector treats as an ordinary extern is called by its plain name, which no runtime defines (`panic(\"boom\")` fails to link: undefined reference to panic)", k, coll[k], low[k]))
		if cbc != nil {
			r.Check(tc[k], rule, "builtin "+k, "calls are type-checked by checkBuiltinCallExpr", c.pos(cbc.Decl.Pos()),
				fmt.Sprintf("calls of the intrinsic %q reach checkBuiltinCallExpr, whose switch has no case for it: neither the number nor the types of the arguments are checked (`panic(n)` with n: i32 is accepted)", k))
		}
	}
	r.Floor(rule, len(keys), 3, "intrinsic builtins")
}

// ---- C01.R15: QBE constant folding respects the operation's width ---------------------------------------------

func init() {
	lateInits = append(lateInits, func() {
		props["C01"].Quick = append(props["C01"].Quick, c01R15)
		props["C13"].Quick = append(props["C13"].Quick, c01R15)
		props["C01"].Explanation += " (R15) in the embedded QBE's foldint the cases whose result depends on the high bits of a word-class operand (div, rem, udiv, urem, sar, shr, shl) consult the width flag, and signed division/remainder never reach C's `/` `%` with a divisor of -1 (SIGFPE on INT_MIN)."
	})
}

func c01R15(c *Ctx, r *Report) {
	const rule = "C01.R15"
	r.Describe(rule, "qbe/fold.c foldint: the switch cases Odiv/Orem/Oudiv/Ourem/Osar/Oshr/Oshl mention the width parameter w (directly or in an if before the operation); the signed division and remainder operators are evaluated under a test that the divisor is not -1")
	cf := cLoad(c, r, rule, "qbe/fold.c")
	if cf == nil {
		return
	}
	fn := cf.Funcs["foldint"]
	if !r.Anchor(rule, fn != nil && len(fn.Params()) >= 3, "qbe/fold.c:foldint(res, op, w, …)") {
		return
	}
	wName := fn.Params()[2].Name
	// collect the statements of each case group of the top-level switch on op
	want := map[string]bool{"Odiv": true, "Orem": true, "Oudiv": true, "Ourem": true, "Osar": true, "Oshr": true, "Oshl": true}
	found := map[string]bool{}
	var walkSwitch func(sw *CNode)
	walkSwitch = func(sw *CNode) {
		body := sw.Inner[len(sw.Inner)-1]
		var labels []string
		var group []*CNode
		flush := func() {
			if len(labels) == 0 {
				return
			}
			mentionsW, guardsMinusOne, signedOp := false, false, false
			for _, st := range group {
				st.Walk(func(x *CNode) bool {
					if x.Kind == "DeclRefExpr" && x.Ref == wName {
						mentionsW = true
					}
					if x.Kind == "BinaryOperator" && (x.Opcode == "/" || x.Opcode == "%") && strings.Contains(x.Src(), ".s") {
						signedOp = true
					}
					if x.Kind == "BinaryOperator" && (x.Opcode == "==" || x.Opcode == "!=") && strings.Contains(x.Src(), "-1") {
						guardsMinusOne = true
					}
					return true
				})
			}
			for _, l := range labels {
				if !want[l] {
					continue
				}
				found[l] = true
				r.Check(mentionsW, rule, "fold.c:foldint", "case "+l+" depends on the operation's width", c.cpos(cf, group[0]),
					"the word-class operation is folded on all 64 bits of the constants: `(d + d) / 2` with d: u32 = 3000000000 folds to 3000000000 although the sum wraps to 1705032704 at run time")
				if l == "Odiv" || l == "Orem" {
					r.Check(!signedOp || guardsMinusOne, rule, "fold.c:foldint", "case "+l+" does not divide by -1 with the C operator", c.cpos(cf, group[0]),
						"INT64_MIN / -1 and INT64_MIN % -1 raise SIGFPE in C: the compiler process dies while folding `big % one`")
				}
			}
		}
		var visit func(n *CNode)
		visit = func(n *CNode) {
			switch n.Kind {
			case "CaseStmt":
				// a new label: if the previous group already had statements, it ended (QBE cases end in break)
				if len(group) > 0 {
					flush()
					labels, group = nil, nil
				}
				if len(n.Inner) > 0 {
					lab := n.Inner[0]
					lab.Walk(func(x *CNode) bool {
						if x.Kind == "DeclRefExpr" && x.Ref != "" {
							labels = append(labels, x.Ref)
						}
						return true
					})
					visit(n.Inner[len(n.Inner)-1])
				}
			case "DefaultStmt":
				flush()
				labels, group = nil, nil
			case "BreakStmt":
				group = append(group, n)
				flush()
				labels, group = nil, nil
			default:
				if len(labels) > 0 {
					group = append(group, n)
				}
			}
		}
		for _, st := range body.Inner {
			visit(st)
		}
		flush()
	}
	fn.Walk(func(x *CNode) bool {
		if x.Kind == "SwitchStmt" && len(x.Inner) >= 2 && strings.Contains(x.Inner[len(x.Inner)-2].Src(), "op") {
			walkSwitch(x)
			return false
		}
		return true
	})
	n := 0
	for l := range want {
		if found[l] {
			n++
		}
	}
	r.Floor(rule, n, 7, "width-sensitive cases of foldint")
}

// ---- C13.R14: the embedded QBE does not abort on a constant zero divisor; C02.R7: non-finite floats ------------

func init() {
	lateInits = append(lateInits, func() {
		props["C13"].Quick = append(props["C13"].Quick, c13R14)
		props["C02"].Quick = append(props["C02"].Quick, c02R7)
		props["C13"].Explanation += " (R14) opfold in the embedded QBE leaves a division by a constant zero unfolded instead of calling err(): a QBE error reaches the user only as 'qbe failed', a diagnostic without a source location."
		props["C02"].Explanation += " (R7) the native float printers append '.0' only to texts that are neither exponent forms nor inf/nan."
	})
}

func c13R14(c *Ctx, r *Report) {
	const rule = "C13.R14"
	r.Describe(rule, "qbe/fold.c opfold: the statement guarded by czero(divisor) does not call err/die")
	cf := cLoad(c, r, rule, "qbe/fold.c")
	if cf == nil {
		return
	}
	fn := cf.Funcs["opfold"]
	if !r.Anchor(rule, fn != nil, "qbe/fold.c:opfold") {
		return
	}
	n := 0
	fn.Walk(func(x *CNode) bool {
		if x.Kind != "IfStmt" || len(x.Inner) < 2 || !strings.Contains(x.Inner[0].Src(), "czero") {
			return true
		}
		n++
		aborts := false
		x.Inner[1].Walk(func(y *CNode) bool {
			if y.Kind == "CallExpr" && (y.Callee() == "err" || y.Callee() == "die") {
				aborts = true
			}
			return true
		})
		r.Check(!aborts, rule, "fold.c:opfold", "a constant zero divisor does not abort the back end", c.cpos(cf, x),
			"`let q := 1.0 / 0.0;` (or an integer division whose divisor folds to 0) makes QBE exit with 'null divisor': the compiler fails with 'qbe failed with exit code 1', an error without a location in the input")
		return true
	})
	r.Floor(rule, n, 1, "zero-divisor tests in opfold")
}

func c02R7(c *Ctx, r *Report) {
	const rule = "C02.R7"
	r.Describe(rule, "runtime: print_float (io.c) and ferret_string_concat_f64 (string_runtime.c) test the formatted text for 'n' / 'i' (nan, inf) next to 'e' / 'E' before appending \".0\"")
	for _, spec := range []struct{ rel, fn string }{
		{"runtime/libs/io.c", "print_float"},
		{"runtime/core/string_runtime.c", "ferret_string_concat_f64"},
	} {
		cf := cLoad(c, r, rule, spec.rel)
		if cf == nil {
			continue
		}
		fn := cf.Funcs[spec.fn]
		if !r.Anchor(rule, fn != nil, shortC(spec.rel)+":"+spec.fn) {
			continue
		}
		chars := map[string]bool{}
		fn.Walk(func(x *CNode) bool {
			if x.Kind == "CharacterLiteral" {
				chars[x.Value] = true
			}
			return true
		})
		// clang prints character literals as their code
		has := func(ch byte) bool { return chars[string(ch)] || chars[fmt.Sprint(int(ch))] }
		r.Check(has('n') && has('i') && has('e'), rule, shortC(spec.rel)+":"+spec.fn, "inf / nan are recognised before \".0\" is appended", c.cpos(cf, fn),
			"a non-finite float is printed as inf.0 / nan.0, which is not the text of a number (the wasm target prints Infinity / NaN)")
	}
}

// ---- C05.R8: a method's HIR type comes from its own signature -----------------------------------------------

func init() {
	lateInits = append(lateInits, func() {
		props["C05"].Quick = append(props["C05"].Quick, c05R8)
		props["C05"].Explanation += " (R8) HIR generation types a method declaration from its own signature node, not from a symbol found by the method's name (methods are not in the scope chain; a free function may share the name)."
	})
}

func c05R8(c *Ctx, r *Report) {
	const rule = "C05.R8"
	r.Describe(rule, "hir/gen lowerMethodDecl: the Type of the hir.MethodDecl is not resolved through a look-up of decl.Name (resolveFuncType is called with a nil name, or another route that only reads decl.Type)")
	fn := c.LookupFn("internal/hir/gen", "(*Generator).lowerMethodDecl")
	rft := c.LookupFn("internal/hir/gen", "(*Generator).resolveFuncType")
	if !r.Anchor(rule, fn != nil, "hir/gen lowerMethodDecl") {
		return
	}
	info := fn.Info()
	n := 0
	ast.Inspect(fn.Decl.Body, func(x ast.Node) bool {
		cl, ok := x.(*ast.CompositeLit)
		if !ok {
			return true
		}
		if nt := namedOf(info.TypeOf(cl)); nt == nil || nt.Obj().Name() != "MethodDecl" {
			return true
		}
		for _, e := range cl.Elts {
			kv, ok := e.(*ast.KeyValueExpr)
			if !ok || exprStr(kv.Key) != "Type" {
				continue
			}
			n++
			byName := false
			if call, ok := ast.Unparen(kv.Value).(*ast.CallExpr); ok && rft != nil && isCallTo(info, call, rft.Obj) && len(call.Args) >= 1 {
				if tv, ok := info.Types[call.Args[0]]; !ok || !tv.IsNil() {
					byName = true
				}
			}
			r.Check(!byName, rule, fn.Name(), "the method's type is taken from its signature, not from a name look-up", c.pos(kv.Pos()),
				"the method's name is looked up in the scope chain: a free function of the same name lends the method its type, so `fn get() { }` + `fn (c: &Counter) get() -> i32 { }` passes the return analysis with an empty body and c.get() returns garbage")
		}
		return true
	})
	r.Floor(rule, n, 1, "hir.MethodDecl constructions")
}

// ---- C18.R7: narrowed union variables ------------------------------------------------------------------------

func init() {
	lateInits = append(lateInits, func() {
		props["C18"].Quick = append(props["C18"].Quick, c18R7)
		props["C18"].Explanation += " (R7) a variable narrowed from a union to a struct variant is never addressed through its own slot (which holds the union): lowerFieldAddr routes it through the value path, and loadIdent's variant search also matches a named struct variant against the unwrapped access type."
	})
}

func c18R7(c *Ctx, r *Report) {
	const rule = "C18.R7"
	r.Describe(rule, "mir/gen: lowerFieldAddr takes the l-value path only when a predicate over (Symbol.Type is a union, ident.Type differs) is false; loadIdent compares the access type with types.UnwrapType(variant) or ident.Type with the variant")
	lfa := c.LookupFn(pkgMIRGen, "(*functionBuilder).lowerFieldAddr")
	li := c.LookupFn(pkgMIRGen, "(*functionBuilder).loadIdent")
	addr := c.LookupFn(pkgMIRGen, "isAddressableExpr")
	if !r.Anchor(rule, lfa != nil && li != nil && addr != nil, "mir/gen lowerFieldAddr / loadIdent / isAddressableExpr") {
		return
	}
	info := lfa.Info()
	ok1 := false
	ast.Inspect(lfa.Decl.Body, func(x ast.Node) bool {
		ifs, ok := x.(*ast.IfStmt)
		if !ok || nodeCalls(info, ifs.Cond, addr.Obj) == nil {
			return true
		}
		for _, cj := range conjuncts(ifs.Cond) {
			u, isNot := ast.Unparen(cj).(*ast.UnaryExpr)
			if !isNot || u.Op != token.NOT {
				continue
			}
			cl, isCall := ast.Unparen(u.X).(*ast.CallExpr)
			if !isCall {
				continue
			}
			pf := c.FnOf(callee(info, cl))
			if pf == nil || pf.Decl == nil || pf.Decl.Body == nil {
				continue
			}
			mentionsUnion := false
			ast.Inspect(pf.Decl.Body, func(y ast.Node) bool {
				if ta, ok := y.(*ast.TypeAssertExpr); ok && ta.Type != nil && strings.HasSuffix(exprStr(ta.Type), "UnionType") {
					mentionsUnion = true
				}
				return true
			})
			if mentionsUnion {
				ok1 = true
			}
		}
		return true
	})
	r.Check(ok1, rule, lfa.Name(), "a narrowed union variable is not addressed through its slot", c.pos(lfa.Decl.Pos()),
		"`if u is Big { u.D }` reads offset(D) from the variable's slot, which holds the union, not a Big: the field reads unrelated bytes (prints 0 / garbage)")
	linfo := li.Info()
	ok2 := false
	ast.Inspect(li.Decl.Body, func(x ast.Node) bool {
		cl, ok := x.(*ast.CallExpr)
		if !ok {
			return true
		}
		sel, ok := ast.Unparen(cl.Fun).(*ast.SelectorExpr)
		if !ok || sel.Sel.Name != "Equals" || len(cl.Args) != 1 {
			return true
		}
		if inner, ok := ast.Unparen(cl.Args[0]).(*ast.CallExpr); ok {
			if f := callee(linfo, inner); f != nil && f.Name() == "UnwrapType" && strings.Contains(exprStr(inner), "variant") {
				ok2 = true
			}
		}
		if strings.HasSuffix(exprStr(sel.X), ".Type") && strings.Contains(exprStr(cl.Args[0]), "variant") && !strings.Contains(exprStr(sel.X), "Symbol") {
			ok2 = true
		}
		return true
	})
	r.Check(ok2, rule, li.Name(), "the variant search matches named struct variants", c.pos(li.Decl.Pos()),
		"the unwrapped access type (a StructType) is compared with the union's variants as declared (NamedType): a struct variant is never found and the identifier is loaded as if its slot held the variant")
}
