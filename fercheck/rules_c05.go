package main

import (
	"fmt"
	"go/ast"
	"go/constant"
	"go/token"
	"go/types"
	"strings"
)

const pkgHIR = "internal/hir"
const pkgHIRAn = "internal/hir/analysis"
const pkgMIRGen = "internal/mir/gen"

func init() {
	register("C05", &propSpec{
		Explanation: "Structural necessary conditions of 'a non-void function returns a value on every path': (R1) every function-like HIR kind (FuncDecl, MethodDecl, FuncLit in any expression position) reaches AnalyzeReturns; (R2) the CFG builder dispatches every control kind and gives each construct's continuation block an entry-side edge whenever no arm is guaranteed to run (if without else, match without default, loops unless the condition is literally true); (R4) the path search stops only at returning blocks, Returns is set only by buildReturn, the diagnostic is an Error; (R5) falling off the end lowers to an Unreachable terminator. Does not decide exhaustiveness of enum matches.",
		Quick:       []ruleFn{c05R1, c05R2, c05R4, c05R5},
	})
}

// hirUniverse: HIR struct kinds built by hir/gen and hir/lower with their Expr/Stmt/Block children.
type hirUniverse struct {
	kinds   map[string]*types.Named
	fields  map[string][]string
	set     map[string]bool
	conduit map[string]bool // "Kind.Field" whose type is a plain struct (CatchClause, DeclItem, CaseClause): traversed, not sunk
}

// builders: the packages that construct the HIR seen by the consumer — hir/gen for the analysis phase
// (it runs before lowering), hir/gen + hir/lower for MIR generation.
func buildHIRUniverse(c *Ctx, builders ...string) *hirUniverse {
	key := "hiru:" + strings.Join(builders, ",")
	if v, ok := c.cache[key]; ok {
		return v.(*hirUniverse)
	}
	u := &hirUniverse{fields: map[string][]string{}, conduit: map[string]bool{}}
	u.kinds = c.builtKinds(pkgHIR, builders...)
	u.set = c.fieldsSet(pkgHIR, builders...)
	hp := c.ByPath[Mod+"/"+pkgHIR]
	if hp == nil {
		return u
	}
	var nodeI *types.Interface
	if tn, ok := hp.Types.Scope().Lookup("Node").(*types.TypeName); ok {
		nodeI, _ = tn.Type().Underlying().(*types.Interface)
	}
	isChild := func(t types.Type) bool {
		for {
			switch x := t.(type) {
			case *types.Slice:
				t = x.Elem()
				continue
			case *types.Pointer:
				t = x.Elem()
				continue
			}
			break
		}
		n, ok := t.(*types.Named)
		if !ok || n.Obj().Pkg() != hp.Types {
			return false
		}
		if _, isI := n.Underlying().(*types.Interface); isI {
			return nodeI != nil && types.Implements(n, nodeI)
		}
		if _, isS := n.Underlying().(*types.Struct); isS {
			switch n.Obj().Name() {
			case "Ident", "Literal":
				return false
			}
			return nodeI != nil && types.Implements(types.NewPointer(n), nodeI) || n.Obj().Name() == "CaseClause" || n.Obj().Name() == "CatchClause" || n.Obj().Name() == "DeclItem"
		}
		return false
	}
	var visit func(n *types.Named)
	seen := map[string]bool{}
	visit = func(n *types.Named) {
		if seen[n.Obj().Name()] {
			return
		}
		seen[n.Obj().Name()] = true
		st, ok := n.Underlying().(*types.Struct)
		if !ok {
			return
		}
		for i := 0; i < st.NumFields(); i++ {
			f := st.Field(i)
			if f.Embedded() || !isChild(f.Type()) {
				continue
			}
			u.fields[n.Obj().Name()] = append(u.fields[n.Obj().Name()], f.Name())
			// conduit structs
			t := f.Type()
			for {
				if s, ok := t.(*types.Slice); ok {
					t = s.Elem()
					continue
				}
				if p, ok := t.(*types.Pointer); ok {
					t = p.Elem()
					continue
				}
				break
			}
			if in, ok := t.(*types.Named); ok {
				if _, isS := in.Underlying().(*types.Struct); isS {
					if !(nodeI != nil && types.Implements(types.NewPointer(in), nodeI)) || in.Obj().Name() == "CatchClause" || in.Obj().Name() == "CaseClause" || in.Obj().Name() == "DeclItem" {
						u.conduit[n.Obj().Name()+"."+f.Name()] = true
					}
					visit(in)
				}
			}
		}
	}
	for _, n := range u.kinds {
		visit(n)
	}
	c.cache[key] = u
	return u
}

// hirWalkerVisited runs the access-path analysis for a family of walker functions (all are sinks for
// each other) in package pkgRel and returns the visited "Kind.Field" pairs.
func hirWalkerVisited(c *Ctx, pkgRel string, walkers []*Fn, params []string) (last, any map[string]bool) {
	fa := newFlow(c, []string{pkgRel}, []string{pkgHIR}, walkers)
	fa.run()
	paths := map[string]bool{}
	for i, w := range walkers {
		for p := range fa.paramPaths(w, params[i]) {
			paths[p] = true
		}
	}
	return lastFieldPairs(paths), anyFieldPairs(paths)
}

// checkHIRTraversal reports every (kind, child) pair of the universe the walker family does not reach.
func checkHIRTraversal(c *Ctx, r *Report, rule, label string, u *hirUniverse, last, any map[string]bool, exempt map[string]string, msg func(pair string) string) int {
	n := 0
	for _, k := range sortedKeys(u.fields) {
		if k == "Module" {
			continue
		}
		if _, built := u.kinds[k]; !built {
			// conduit structs are reached through their owner; kinds never built are not in the universe
			isConduitTarget := false
			for cf := range u.conduit {
				_ = cf
				isConduitTarget = true
			}
			if !isConduitTarget {
				continue
			}
		}
		for _, f := range u.fields[k] {
			pair := k + "." + f
			if !u.set[pair] {
				continue
			}
			if reason, ok := exempt[pair]; ok {
				r.OK(rule, label, pair, "-", "exempt: "+reason)
				continue
			}
			n++
			ok := last[pair]
			if u.conduit[pair] {
				ok = any[pair]
			}
			r.Check(ok, rule, label, pair, "-", msg(pair))
		}
	}
	return n
}

func c05R1(c *Ctx, r *Report) {
	const rule = "C05.R1"
	r.Describe(rule, "every function-like body (FuncDecl, MethodDecl, FuncLit anywhere) reaches AnalyzeReturns")
	analyze := c.LookupFn(pkgHIRAn, "AnalyzeModule")
	returns := c.LookupFn(pkgHIRAn, "AnalyzeReturns")
	if !r.Anchor(rule, analyze != nil && returns != nil, "analysis.AnalyzeModule / AnalyzeReturns") {
		return
	}
	hp := c.ByPath[Mod+"/"+pkgHIR]
	if !r.Anchor(rule, hp != nil, "package hir") {
		return
	}
	// function-like kinds: HIR structs with a `Body *Block` field and a function `Type`
	var kinds []string
	for _, name := range hp.Types.Scope().Names() {
		tn, ok := hp.Types.Scope().Lookup(name).(*types.TypeName)
		if !ok {
			continue
		}
		st, ok := tn.Type().Underlying().(*types.Struct)
		if !ok {
			continue
		}
		hasBody, hasType := false, false
		for i := 0; i < st.NumFields(); i++ {
			f := st.Field(i)
			if f.Name() == "Body" && isNamed(f.Type(), Mod+"/"+pkgHIR, "Block") {
				hasBody = true
			}
			if f.Name() == "Type" {
				hasType = true
			}
		}
		if hasBody && hasType {
			kinds = append(kinds, name)
		}
	}
	r.Floor(rule, len(kinds), 3, "function-like HIR kinds")
	reach := c.intraReach(pkgHIRAn, analyze)
	// which kinds have a function, reachable from AnalyzeModule, that takes *hir.K and (transitively in one step) calls AnalyzeReturns
	for _, k := range kinds {
		ok := false
		for fobj := range reach {
			fn := c.FnOf(fobj)
			if fn == nil {
				continue
			}
			sig := fobj.Type().(*types.Signature)
			takes := false
			for i := 0; i < sig.Params().Len(); i++ {
				if isNamed(sig.Params().At(i).Type(), Mod+"/"+pkgHIR, k) {
					takes = true
				}
			}
			if takes && nodeCalls(fn.Info(), fn.Decl.Body, returns.Obj) != nil {
				ok = true
			}
		}
		r.Check(ok, rule, "hir/analysis", "return analysis of hir."+k, "-", "no function reachable from AnalyzeModule takes a *hir."+k+" and runs AnalyzeReturns on its body: a "+k+" with a missing return compiles")
	}
	// top-level dispatch: AnalyzeModule's type switch over Items has cases for FuncDecl and MethodDecl
	info := analyze.Info()
	for _, k := range []string{"FuncDecl", "MethodDecl"} {
		found := false
		ast.Inspect(analyze.Decl.Body, func(n ast.Node) bool {
			cc, ok := n.(*ast.CaseClause)
			if !ok {
				return true
			}
			for _, t := range caseTypes(info, cc) {
				if nn := namedOf(t); nn != nil && nn.Obj().Name() == k && len(callsIn(&ast.BlockStmt{List: cc.Body}, false)) > 0 {
					found = true
				}
			}
			return true
		})
		r.Check(found, rule, analyze.Name(), "Items dispatch: case *hir."+k, c.pos(analyze.Decl.Pos()), "top-level "+k+" items are no longer analysed")
	}
	// FuncLit: the expression walker that analyses literals must reach every HIR expression position
	lit := c.LookupFn(pkgHIRAn, "analyzeFuncLit")
	wNode, wBlock, wExpr := c.LookupFn(pkgHIRAn, "checkNodeForCatchHandlers"), c.LookupFn(pkgHIRAn, "checkBlockForCatchHandlers"), c.LookupFn(pkgHIRAn, "checkExprForCatchHandlers")
	if !r.Anchor(rule, lit != nil && wNode != nil && wBlock != nil && wExpr != nil, "analyzeFuncLit / check{Node,Block,Expr}ForCatchHandlers") {
		return
	}
	// the FuncLit case of the expression walker calls analyzeFuncLit
	{
		winfo := wExpr.Info()
		found := false
		for _, ts := range typeSwitchesOn(winfo, wExpr.Decl.Body, wExpr.ParamNamed("expr")) {
			for _, cc := range caseClauses(ts.Body) {
				for _, t := range caseTypes(winfo, cc) {
					if nn := namedOf(t); nn != nil && nn.Obj().Name() == "FuncLit" {
						for _, s := range cc.Body {
							if nodeCalls(winfo, s, lit.Obj) != nil {
								found = true
							}
						}
					}
				}
			}
		}
		r.Check(found, rule, wExpr.Name(), "case *hir.FuncLit -> analyzeFuncLit", c.pos(wExpr.Decl.Pos()), "function literals met by the expression walker are not return-checked")
	}
	last, any := hirWalkerVisited(c, pkgHIRAn, []*Fn{wNode, wBlock, wExpr}, []string{"node", "block", "expr"})
	u := buildHIRUniverse(c, "internal/hir/gen")
	n := checkHIRTraversal(c, r, rule, "HIR walker (return analysis of literals)", u, last, any, hirWalkExempt, func(pair string) string {
		return fmt.Sprintf("expressions stored in hir.%s are not visited by the walker that return-checks function literals: a literal there with a missing return compiles", pair)
	})
	r.Floor(rule, n, 40, "HIR (kind, child) pairs")
	r.Note("C05.R1 visited: %s", strings.Join(sortedSet(last), " "))
}

// pairs that cannot hold a function literal / value expression
var hirWalkExempt = map[string]string{}

func c05R2(c *Ctx, r *Report) {
	const rule = "C05.R2"
	r.Describe(rule, "CFG builder: control kinds dispatched; continuation blocks get an entry-side edge when no arm is guaranteed to run")
	buildNode := c.LookupFn(pkgHIRAn, "(*CFGBuilder).buildNode")
	addEdge := c.LookupFn(pkgHIRAn, "addEdge")
	if !r.Anchor(rule, buildNode != nil && addEdge != nil, "CFGBuilder.buildNode / addEdge") {
		return
	}
	info := buildNode.Info()
	want := map[string]string{"ReturnStmt": "buildReturn", "BreakStmt": "buildBreak", "ContinueStmt": "buildContinue", "IfStmt": "buildIf", "ForStmt": "buildFor", "WhileStmt": "buildWhile", "MatchStmt": "buildMatch", "Block": "buildBlock"}
	got := map[string]string{}
	for _, ts := range typeSwitchesOn(info, buildNode.Decl.Body, buildNode.ParamNamed("node")) {
		for _, cc := range caseClauses(ts.Body) {
			for _, t := range caseTypes(info, cc) {
				nn := namedOf(t)
				if nn == nil {
					continue
				}
				for _, cl := range callsIn(&ast.BlockStmt{List: cc.Body}, false) {
					if f := callee(info, cl); f != nil && strings.HasPrefix(f.Name(), "build") {
						got[nn.Obj().Name()] = f.Name()
					}
				}
			}
		}
	}
	for _, k := range sortedKeys(want) {
		r.Check(got[k] == want[k], rule, buildNode.Name(), "case *hir."+k+" -> "+want[k], c.pos(buildNode.Decl.Pos()), fmt.Sprintf("control statement %s is dispatched to %q (expected %s): its effect on control flow is not modelled", k, got[k], want[k]))
	}
	// edge rules
	type edgeRule struct {
		fn, from string
		guard    func(fn *Fn, call *ast.CallExpr, stack []ast.Node) (bool, string)
	}
	retVarOf := func(fn *Fn) map[types.Object]bool {
		// variables returned by the function (the continuation block)
		out := map[types.Object]bool{}
		ast.Inspect(fn.Decl.Body, func(n ast.Node) bool {
			if ret, ok := n.(*ast.ReturnStmt); ok && len(ret.Results) == 1 {
				if id, ok := ast.Unparen(ret.Results[0]).(*ast.Ident); ok {
					if o := fn.Info().Uses[id]; o != nil {
						out[o] = true
					}
				}
			}
			return true
		})
		return out
	}
	check := func(name, fromName string, guardDesc string, guard func(fn *Fn, call *ast.CallExpr, stack []ast.Node) bool) {
		fn := c.LookupFn(pkgHIRAn, "(*CFGBuilder)."+name)
		if !r.Anchor(rule, fn != nil, "CFGBuilder."+name) {
			return
		}
		finfo := fn.Info()
		rets := retVarOf(fn)
		ok := false
		var pos token.Pos = fn.Decl.Pos()
		walkWithStack(fn.Decl.Body, func(n ast.Node, stack []ast.Node) bool {
			call, isCall := n.(*ast.CallExpr)
			if !isCall || !isCallTo(finfo, call, addEdge.Obj) || len(call.Args) != 2 {
				return true
			}
			from, isFrom := ast.Unparen(call.Args[0]).(*ast.Ident)
			to, isTo := ast.Unparen(call.Args[1]).(*ast.Ident)
			if !isFrom || !isTo || from.Name != fromName || !rets[finfo.Uses[to]] {
				return true
			}
			if guard(fn, call, stack) {
				ok = true
				pos = call.Pos()
			}
			return true
		})
		r.Check(ok, rule, fn.Name(), "addEdge("+fromName+", <continuation>) "+guardDesc, c.pos(pos),
			"the block after the construct is not reachable from the construct's entry side under the required condition: a function whose only returns are inside the construct would count as returning on all paths")
	}
	enclosingIfs := func(call *ast.CallExpr, stack []ast.Node) (conds []ast.Expr, inElse []bool) {
		for i, a := range stack {
			ifs, ok := a.(*ast.IfStmt)
			if !ok {
				continue
			}
			var next ast.Node = call
			if i+1 < len(stack) {
				next = stack[i+1]
			}
			if containsNode(ifs.Body, next) {
				conds, inElse = append(conds, ifs.Cond), append(inElse, false)
			} else if ifs.Else != nil && containsNode(ifs.Else, next) {
				conds, inElse = append(conds, ifs.Cond), append(inElse, true)
			}
		}
		return
	}
	// buildIf: in the else-branch of `if stmt.Else != nil`
	isLitIf := c.LookupFn(pkgHIRAn, "isLiteralTrue")
	check("buildIf", "current", "when Else == nil", func(fn *Fn, call *ast.CallExpr, stack []ast.Node) bool {
		conds, inElse := enclosingIfs(call, stack)
		// `… else if isLiteralTrue(stmt.Cond) { no edge } else { addEdge }`: the body of `if true` is never skipped
		if len(conds) == 2 && inElse[1] && isLitIf != nil {
			if cl, ok := ast.Unparen(conds[1]).(*ast.CallExpr); ok && isCallTo(fn.Info(), cl, isLitIf.Obj) && len(cl.Args) == 1 && strings.HasSuffix(exprStr(cl.Args[0]), ".Cond") {
				conds, inElse = conds[:1], inElse[:1]
			}
		}
		if len(conds) != 1 {
			return false
		}
		b, isNeq := isBinOp(conds[0], token.NEQ, token.EQL)
		if !isNeq || !fn.Info().Types[b.Y].IsNil() || !strings.HasSuffix(exprStr(b.X), ".Else") {
			return false
		}
		return (b.Op == token.NEQ && inElse[0]) || (b.Op == token.EQL && !inElse[0])
	})
	// buildFor: unconditional header -> after
	check("buildFor", "headerBlock", "unconditionally", func(fn *Fn, call *ast.CallExpr, stack []ast.Node) bool {
		conds, _ := enclosingIfs(call, stack)
		return len(conds) == 0
	})
	// buildWhile: header -> after unless the condition is the literal `true`
	isLit := c.LookupFn(pkgHIRAn, "isLiteralTrue")
	// Where the constant-propagation walk drops the values of variables once a function has been walked (C04.R1's
	// writer-side invariant), compile-time evaluation answers from literals and constants only, and a predicate
	// that asks it whether the condition is true is as good as the syntactic test.
	writerDrops := false
	if cf, ck := c.fieldObj(pkgSymbols, "Symbol", "ConstValue"), c.lookupObj(pkgSymbols, "SymbolConstant"); cf != nil && ck != nil {
		if kc, ok := ck.(*types.Const); ok {
			writerDrops = c04WriterDropsVariables(c, newReport("scratch", "quick"), rule, cf, kc)
		}
	}
	evalFn := c.LookupFn("internal/hir/consteval", "EvaluateHIRExpr")
	// alwaysTruePredicate: F(expr) answers true only if isLiteralTrue(expr) does, or with the boolean that
	// EvaluateHIRExpr(…, expr) evaluated to
	alwaysTruePredicate := func(f *Fn) bool {
		if f == nil || f.Decl == nil || f.Decl.Body == nil || isLit == nil || evalFn == nil || !writerDrops {
			return false
		}
		finfo := f.Info()
		sig := f.Obj.Type().(*types.Signature)
		if sig.Params().Len() != 1 {
			return false
		}
		param := sig.Params().At(0)
		defs := localDefs(f)
		fromEval := func(e ast.Expr) bool { // e is `v` of `v, ok := X.AsBool()` with X := EvaluateHIRExpr(…, param)
			id, ok := ast.Unparen(e).(*ast.Ident)
			if !ok {
				return false
			}
			good := false
			ast.Inspect(f.Decl.Body, func(n ast.Node) bool {
				as, ok := n.(*ast.AssignStmt)
				if !ok || len(as.Lhs) != 2 || len(as.Rhs) != 1 || objOf(finfo, as.Lhs[0]) != finfo.Uses[id] {
					return true
				}
				cl, ok := ast.Unparen(as.Rhs[0]).(*ast.CallExpr)
				if !ok {
					return true
				}
				sel, ok := cl.Fun.(*ast.SelectorExpr)
				if !ok || sel.Sel.Name != "AsBool" {
					return true
				}
				for _, d := range defs[objOf(finfo, sel.X)] {
					if ec, ok := ast.Unparen(d).(*ast.CallExpr); ok && isCallTo(finfo, ec, evalFn.Obj) && len(ec.Args) > 0 && objOf(finfo, ec.Args[len(ec.Args)-1]) == param {
						good = true
					}
				}
				return true
			})
			return good
		}
		okAll, n := true, 0
		walkWithStack(f.Decl.Body, func(nd ast.Node, stack []ast.Node) bool {
			ret, isRet := nd.(*ast.ReturnStmt)
			if !isRet || len(ret.Results) != 1 {
				return true
			}
			n++
			res := ast.Unparen(ret.Results[0])
			if v := constOf(finfo, res); v != nil {
				if !boolVal(v) {
					return true
				}
				for _, a := range stack { // `return true` under `if isLiteralTrue(param)`
					if ifs, ok := a.(*ast.IfStmt); ok {
						if cl, ok := ast.Unparen(ifs.Cond).(*ast.CallExpr); ok && isCallTo(finfo, cl, isLit.Obj) && len(cl.Args) == 1 && objOf(finfo, cl.Args[0]) == param && containsNode(ifs.Body, ret) {
							return true
						}
					}
				}
				okAll = false
				return true
			}
			if cl, ok := res.(*ast.CallExpr); ok && isCallTo(finfo, cl, isLit.Obj) && len(cl.Args) == 1 && objOf(finfo, cl.Args[0]) == param {
				return true
			}
			if fromEval(res) {
				return true
			}
			okAll = false
			return true
		})
		return okAll && n > 0
	}
	check("buildWhile", "headerBlock", "unless the condition is literally true", func(fn *Fn, call *ast.CallExpr, stack []ast.Node) bool {
		conds, inElse := enclosingIfs(call, stack)
		if len(conds) == 0 {
			return true // unconditional is stronger
		}
		if len(conds) != 1 || isLit == nil {
			return false
		}
		u, isNot := ast.Unparen(conds[0]).(*ast.UnaryExpr)
		if !isNot || u.Op != token.NOT || inElse[0] {
			return false
		}
		id, isID := ast.Unparen(u.X).(*ast.Ident)
		if !isID {
			return false
		}
		// the guard variable is defined as isLiteralTrue(stmt.Cond) and nothing else
		def := false
		bad := false
		ast.Inspect(fn.Decl.Body, func(n ast.Node) bool {
			as, ok := n.(*ast.AssignStmt)
			if !ok {
				return true
			}
			for i, l := range as.Lhs {
				lid, ok := l.(*ast.Ident)
				if !ok || (fn.Info().Defs[lid] != fn.Info().Uses[id] && fn.Info().Uses[lid] != fn.Info().Uses[id]) {
					continue
				}
				if i < len(as.Rhs) {
					if cl, ok := ast.Unparen(as.Rhs[i]).(*ast.CallExpr); ok && len(cl.Args) == 1 && strings.HasSuffix(exprStr(cl.Args[0]), ".Cond") {
						if isCallTo(fn.Info(), cl, isLit.Obj) || alwaysTruePredicate(c.FnOf(callee(fn.Info(), cl))) {
							def = true
							continue
						}
					}
				}
				bad = true
			}
			return true
		})
		return def && !bad
	})
	// isLiteralTrue accepts only a literal / the identifier `true`
	if r.Anchor(rule, isLit != nil, "isLiteralTrue") {
		callsEval := false
		for _, cl := range callsIn(isLit.Decl.Body, true) {
			if f := callee(isLit.Info(), cl); f != nil && f.Pkg() != nil && strings.Contains(f.Pkg().Path(), "consteval") {
				callsEval = true
			}
		}
		readsConst := false
		cv := c.fieldObj(pkgSymbols, "Symbol", "ConstValue")
		ast.Inspect(isLit.Decl.Body, func(n ast.Node) bool {
			if s, ok := n.(*ast.SelectorExpr); ok && fieldOf(isLit.Info(), s) == cv {
				readsConst = true
			}
			return true
		})
		r.Check((!callsEval && !readsConst) || writerDrops, rule, isLit.Name(), "syntactic literal test only", c.pos(isLit.Decl.Pos()),
			"the 'loop never exits through its condition' test consults compile-time evaluation; Symbol.ConstValue is flow-insensitive, so a loop whose condition variable is reassigned could lose its exit edge")
	}
	// buildMatch: addEdge(current, merge) under !hasDefault, hasDefault set only under Pattern == nil
	check("buildMatch", "current", "when no clause has Pattern == nil", func(fn *Fn, call *ast.CallExpr, stack []ast.Node) bool {
		conds, inElse := enclosingIfs(call, stack)
		if len(conds) != 1 || inElse[0] {
			return false
		}
		u, isNot := ast.Unparen(conds[0]).(*ast.UnaryExpr)
		if !isNot || u.Op != token.NOT {
			return false
		}
		id, isID := ast.Unparen(u.X).(*ast.Ident)
		if !isID {
			return false
		}
		flag := fn.Info().Uses[id]
		okSet, bad := false, false
		walkWithStack(fn.Decl.Body, func(n ast.Node, st []ast.Node) bool {
			as, ok := n.(*ast.AssignStmt)
			if !ok || len(as.Lhs) != 1 {
				return true
			}
			lid, ok := as.Lhs[0].(*ast.Ident)
			if !ok || (fn.Info().Uses[lid] != flag && fn.Info().Defs[lid] != flag) {
				return true
			}
			v := constOf(fn.Info(), as.Rhs[0])
			if v == nil {
				bad = true
				return true
			}
			if !boolVal(v) {
				return true // initialisation to false
			}
			guarded := false
			for _, a := range st {
				if ifs, ok := a.(*ast.IfStmt); ok && containsNode(ifs.Body, as) {
					if b, ok := isBinOp(ifs.Cond, token.EQL); ok && fn.Info().Types[b.Y].IsNil() && strings.HasSuffix(exprStr(b.X), ".Pattern") {
						guarded = true
					}
				}
			}
			if guarded {
				okSet = true
			} else {
				bad = true
			}
			return true
		})
		return okSet && !bad
	})
	// BuildFunctionCFG: fall-through of the body is connected to Exit
	if bf := c.LookupFn(pkgHIRAn, "(*CFGBuilder).BuildFunctionCFG"); r.Anchor(rule, bf != nil, "BuildFunctionCFG") {
		ok := false
		ast.Inspect(bf.Decl.Body, func(n ast.Node) bool {
			if cl, isCall := n.(*ast.CallExpr); isCall && isCallTo(bf.Info(), cl, addEdge.Obj) && len(cl.Args) == 2 && strings.HasSuffix(exprStr(cl.Args[1]), ".Exit") && exprStr(cl.Args[0]) == "current" {
				ok = true
			}
			return true
		})
		r.Check(ok, rule, bf.Name(), "addEdge(current, cfg.Exit) after the body", c.pos(bf.Decl.Pos()), "falling off the end of the body is no longer an edge to the exit block: missing returns at the end of a function go unnoticed")
	}
}

func c05R4(c *Ctx, r *Report) {
	const rule = "C05.R4"
	r.Describe(rule, "AllPathsReturn: search stops only at returning blocks; Returns is set only by buildReturn; missing return is an Error; only void needs no return")
	reach := c.LookupFn(pkgHIRAn, "canReachExitWithoutReturn")
	all := c.LookupFn(pkgHIRAn, "AllPathsReturn")
	an := c.LookupFn(pkgHIRAn, "AnalyzeReturns")
	retField := c.fieldObj(pkgHIRAn, "BasicBlock", "Returns")
	if !r.Anchor(rule, reach != nil && all != nil && an != nil && retField != nil, "canReachExitWithoutReturn / AllPathsReturn / AnalyzeReturns / BasicBlock.Returns") {
		return
	}
	// who-may-write Returns = true
	for _, fn := range c.AllFns(pkgHIRAn) {
		info := fn.Info()
		ast.Inspect(fn.Decl.Body, func(n ast.Node) bool {
			as, ok := n.(*ast.AssignStmt)
			if !ok {
				return true
			}
			for i, l := range as.Lhs {
				if fieldOf(info, l) == retField && i < len(as.Rhs) {
					v := constOf(info, as.Rhs[i])
					if v != nil && !boolVal(v) {
						continue
					}
					r.Check(fn.Obj.Name() == "buildReturn", rule, fn.Name(), "sets BasicBlock.Returns", c.pos(as.Pos()), "a block is marked as returning outside buildReturn: paths through it are treated as returning a value")
				}
			}
			return true
		})
	}
	// canReachExitWithoutReturn: every `return false` is under visited / nil / Returns tests only
	info := reach.Info()
	nFalse := 0
	okAll := true
	walkWithStack(reach.Decl.Body, func(n ast.Node, stack []ast.Node) bool {
		ret, ok := n.(*ast.ReturnStmt)
		if !ok || len(ret.Results) != 1 {
			return true
		}
		v := constOf(info, ret.Results[0])
		if v == nil || boolVal(v) {
			return true
		}
		nFalse++
		// innermost enclosing if
		var cond ast.Expr
		for i := len(stack) - 1; i >= 0; i-- {
			if ifs, ok := stack[i].(*ast.IfStmt); ok && containsNode(ifs.Body, ret) {
				cond = ifs.Cond
				break
			}
		}
		if cond == nil {
			return true // final `return false` after exploring all successors
		}
		for _, d := range disjuncts(cond) {
			s := exprStr(d)
			legit := strings.HasSuffix(s, ".Returns") || strings.HasPrefix(s, "visited[") || strings.HasSuffix(s, "== nil")
			if !legit {
				okAll = false
			}
		}
		return true
	})
	r.Check(okAll && nFalse >= 2, rule, reach.Name(), "search stops only at visited / nil / returning blocks", c.pos(reach.Decl.Pos()), "the exit-reachability search gives up (returns false) under a condition other than 'already visited', 'nil block' or 'block returns': some paths to the exit are not explored")
	// reaching exit returns true
	trueAtExit := false
	ast.Inspect(reach.Decl.Body, func(n ast.Node) bool {
		if ifs, ok := n.(*ast.IfStmt); ok {
			if b, ok := isBinOp(ifs.Cond, token.EQL); ok && (exprStr(b.Y) == "exit" || exprStr(b.X) == "exit") && len(ifs.Body.List) == 1 {
				if ret, ok := ifs.Body.List[0].(*ast.ReturnStmt); ok && len(ret.Results) == 1 && boolVal(constOf(info, ret.Results[0])) {
					trueAtExit = true
				}
			}
		}
		return true
	})
	r.Check(trueAtExit, rule, reach.Name(), "reaching exit => true", c.pos(reach.Decl.Pos()), "reaching the exit block without a return is no longer reported")
	// AllPathsReturn = !canReach(Entry, Exit)
	okAllPaths := false
	if res := trailingReturn(all); len(res) == 1 {
		if u, ok := ast.Unparen(res[0]).(*ast.UnaryExpr); ok && u.Op == token.NOT {
			if cl, ok := ast.Unparen(u.X).(*ast.CallExpr); ok && isCallTo(all.Info(), cl, reach.Obj) && strings.HasSuffix(exprStr(cl.Args[0]), ".Entry") && strings.HasSuffix(exprStr(cl.Args[1]), ".Exit") {
				okAllPaths = true
			}
		}
	}
	r.Check(okAllPaths, rule, all.Name(), "!canReachExitWithoutReturn(cfg.Entry, cfg.Exit, ...)", c.pos(all.Decl.Pos()), "AllPathsReturn no longer negates the entry-to-exit search")
	// AnalyzeReturns: `if !AllPathsReturn(cfg) { ... NewError ... Add }`; requiresReturn excludes only void
	ainfo := an.Info()
	newErr := c.LookupFn("internal/diagnostics", "NewError")
	bagAdd := c.LookupFn("internal/diagnostics", "(*DiagnosticBag).Add")
	okReport := false
	ast.Inspect(an.Decl.Body, func(n ast.Node) bool {
		ifs, ok := n.(*ast.IfStmt)
		if !ok {
			return true
		}
		u, ok := ast.Unparen(ifs.Cond).(*ast.UnaryExpr)
		if !ok || u.Op != token.NOT {
			return true
		}
		if cl, ok := ast.Unparen(u.X).(*ast.CallExpr); ok && isCallTo(ainfo, cl, all.Obj) && newErr != nil && bagAdd != nil &&
			nodeCalls(ainfo, ifs.Body, newErr.Obj) != nil && nodeCalls(ainfo, ifs.Body, bagAdd.Obj) != nil {
			okReport = true
		}
		return true
	})
	r.Check(okReport, rule, an.Name(), "!AllPathsReturn => Error diagnostic", c.pos(an.Decl.Pos()), "a missing return is no longer reported as an Error")
	isVoid := c.LookupFn(pkgHIRAn, "isVoidType")
	if r.Anchor(rule, isVoid != nil, "isVoidType") {
		pe := newPEval(c)
		for _, tn := range []string{"void", "i32", "bool", "str", "none", "f64", "i128"} {
			res, err := pe.Call(isVoid, []Val{prim(tn)})
			if err != nil {
				r.Fail(rule, isVoid.Name(), tn, c.pos(isVoid.Decl.Pos()), "undecidable: "+err.Error())
				continue
			}
			cv, _ := res[0].(constant.Value)
			got := boolVal(cv)
			r.Check(got == (tn == "void"), rule, isVoid.Name(), "isVoidType("+tn+")", c.pos(isVoid.Decl.Pos()),
				fmt.Sprintf("isVoidType(%s) = %v: functions returning %s would (not) need a return", tn, got, tn))
		}
	}
}

// C05.R5: falling off the end of a function body lowers to a trap, not to a value-less return.
func c05R5(c *Ctx, r *Report) {
	const rule = "C05.R5"
	r.Describe(rule, "mir/gen finalizeCurrent terminates an open block with mir.Unreachable (non-void) — never with a Return without value")
	fin := c.LookupFn(pkgMIRGen, "(*functionBuilder).finalizeCurrent")
	if !r.Anchor(rule, fin != nil, "mir/gen.(*functionBuilder).finalizeCurrent") {
		return
	}
	info := fin.Info()
	mkUnreach, mkRetNoValue := false, false
	ast.Inspect(fin.Decl.Body, func(n ast.Node) bool {
		cl, ok := n.(*ast.CompositeLit)
		if !ok {
			return true
		}
		if isNamed(info.TypeOf(cl), Mod+"/internal/mir", "Unreachable") {
			mkUnreach = true
		}
		if isNamed(info.TypeOf(cl), Mod+"/internal/mir", "Return") {
			hasVal := false
			for _, el := range cl.Elts {
				if kv, ok := el.(*ast.KeyValueExpr); ok {
					if id, ok := kv.Key.(*ast.Ident); ok && (id.Name == "Value" || id.Name == "HasValue") {
						hasVal = true
					}
				}
			}
			if !hasVal {
				mkRetNoValue = true
			}
		}
		return true
	})
	r.Check(mkUnreach, rule, fin.Name(), "emits mir.Unreachable", c.pos(fin.Decl.Pos()), "an unterminated block at the end of a function is no longer closed with Unreachable")
	_ = mkRetNoValue
}

func init() {
	lateInits = append(lateInits, func() {
		props["C05"].Quick = append(props["C05"].Quick, c05R6)
		props["C01"].Quick = append(props["C01"].Quick, c05R6)
	})
}

// C05.R6: in the lowering of `match`, the continuation block is only the target of arm exits; the
// "no pattern matched" edge goes through the default-block variable (which is the default arm when there is one).
func c05R6(c *Ctx, r *Report) {
	const rule = "C05.R6"
	r.Describe(rule, "mir/gen lowerMatch: the continuation block is used only as the exit of an arm (branchIfNoTerm/setBlock); every no-match edge (CondBr.Else, Switch.Default) uses the default-block variable, also through helper parameters")
	lm := c.LookupFn(pkgMIRGen, "(*functionBuilder).lowerMatch")
	setBlock := c.LookupFn(pkgMIRGen, "(*functionBuilder).setBlock")
	brNoTerm := c.LookupFn(pkgMIRGen, "(*functionBuilder).branchIfNoTerm")
	if !r.Anchor(rule, lm != nil && setBlock != nil && brNoTerm != nil, "mir/gen lowerMatch / setBlock / branchIfNoTerm") {
		return
	}
	info := lm.Info()
	// continuation block M: argument of the last setBlock call of the function
	var merge types.Object
	for _, call := range callsIn(lm.Decl.Body, false) {
		if isCallTo(info, call, setBlock.Obj) && len(call.Args) == 1 {
			if o := objOf(info, call.Args[0]); o != nil {
				merge = o
			}
		}
	}
	if !r.Anchor(rule, merge != nil, "lowerMatch: continuation block (last setBlock argument)") {
		return
	}
	// default-block variable D: defined as `D := M`
	var def types.Object
	ast.Inspect(lm.Decl.Body, func(x ast.Node) bool {
		if as, ok := x.(*ast.AssignStmt); ok && as.Tok == token.DEFINE && len(as.Lhs) == 1 && len(as.Rhs) == 1 && objOf(info, as.Rhs[0]) == merge {
			def = info.Defs[as.Lhs[0].(*ast.Ident)]
		}
		return true
	})
	r.Check(def != nil, rule, lm.Name(), "default-block variable initialised with the continuation block", c.pos(lm.Decl.Pos()), "there is no variable that stands for 'where control goes when no pattern matches'")
	// role of a block-id parameter inside a helper: "exit" when only passed to branchIfNoTerm/Br; "nomatch" when it reaches a CondBr.Else / Switch.Default
	seenLocal := map[string]bool{}
	var noMatchUse func(fn *Fn, v types.Object, depth int) (bool, string)
	noMatchUse = func(fn *Fn, v types.Object, depth int) (bool, string) {
		finfo := fn.Info()
		bad, why := false, ""
		walkWithStack(fn.Decl.Body, func(n ast.Node, stack []ast.Node) bool {
			id, ok := n.(*ast.Ident)
			if !ok || finfo.Uses[id] != v {
				return true
			}
			// find the nearest enclosing KeyValueExpr / CallExpr
			for i := len(stack) - 1; i >= 0; i-- {
				switch p := stack[i].(type) {
				case *ast.KeyValueExpr:
					k := exprStr(p.Key)
					if k == "Else" || k == "Default" || k == "Then" {
						bad, why = true, fn.Name()+": "+k+": "+exprStr(p.Value)
					}
					return true
				case *ast.CallExpr:
					f := callee(finfo, p)
					if f == nil || f == setBlock.Obj || f == brNoTerm.Obj {
						return true
					}
					if hf := c.FnOf(f); hf != nil && depth < 2 {
						sig := f.Type().(*types.Signature)
						for ai, a := range p.Args {
							if mentionsVar(finfo, a, v) && ai < sig.Params().Len() {
								if b2, w2 := noMatchUse(hf, sig.Params().At(ai), depth+1); b2 {
									bad, why = true, w2
								}
							}
						}
					}
					return true
				case *ast.AssignStmt:
					// copied into a local: follow the local
					if len(p.Lhs) == 1 && len(p.Rhs) == 1 && mentionsVar(finfo, p.Rhs[0], v) {
						if lid, ok := p.Lhs[0].(*ast.Ident); ok {
							lo := finfo.Defs[lid]
							if lo == nil {
								lo = finfo.Uses[lid]
							}
							key := fn.Name() + "/" + lid.Name
							if lo != nil && lo != v && lo != def && !seenLocal[key] {
								seenLocal[key] = true
								if b2, w2 := noMatchUse(fn, lo, depth); b2 {
									bad, why = true, w2
								}
							}
						}
					}
					return true
				}
			}
			return true
		})
		return bad, why
	}
	bad, why := noMatchUse(lm, merge, 0)
	r.Check(!bad, rule, lm.Name(), "continuation block never used as a no-match target", c.pos(lm.Decl.Pos()),
		"the continuation block of the match is used as the target of a 'no pattern matched' edge ("+why+"): with a default arm present, a value that matches no pattern skips the default arm (and a function whose only return is there falls off its end)")
	// the default-block variable is what no-match edges use: it must occur in a Switch.Default and in a CondBr.Else position (directly or through a helper)
	if def != nil {
		uses := 0
		ast.Inspect(lm.Decl.Body, func(x ast.Node) bool {
			if id, ok := x.(*ast.Ident); ok && info.Uses[id] == def {
				uses++
			}
			return true
		})
		r.Check(uses >= 3, rule, lm.Name(), "default-block variable feeds the no-match edges", c.pos(lm.Decl.Pos()), fmt.Sprintf("the default-block variable is used %d time(s): the switch default and the end of the comparison chain no longer both go through it", uses))
	}
}
