package main

import (
	"fmt"
	"go/ast"
	"go/constant"
	"go/types"
	"strings"
)

func init() {
	register("C09", &propSpec{
		Explanation: "Structural necessary conditions for 'early evaluation does not change behaviour': (R1) every compile-time folder of an operator uses the math/big method with the same semantics as the generated code (truncating Quo/Rem, never Euclidean Div/Mod), per operator token; (R3) compile-time constness may change emitted code only at the reviewed reader sites. Does not decide metamorphic output equality.",
		Quick:       []ruleFn{c09R1, c09R3},
	})
}

var bigArith = map[string]bool{"Add": true, "Sub": true, "Mul": true, "Quo": true, "Rem": true, "Div": true, "Mod": true, "DivMod": true, "QuoRem": true,
	"Exp": true, "And": true, "Or": true, "Xor": true, "Lsh": true, "Rsh": true, "AndNot": true, "Neg": true, "Not": true}

// expected big method per operator token (binary / unary contexts)
var bigExpected = map[string][]string{
	"PLUS_TOKEN": {"Add"}, "MINUS_TOKEN": {"Sub", "Neg"}, "MUL_TOKEN": {"Mul"}, "DIV_TOKEN": {"Quo"}, "MOD_TOKEN": {"Rem"},
	"EXP_TOKEN": {"Exp"}, "BIT_AND_TOKEN": {"And"}, "BIT_OR_TOKEN": {"Or"}, "BIT_XOR_TOKEN": {"Xor"},
}

func isBigMethod(f *types.Func) (recv string, ok bool) {
	if f == nil || f.Pkg() == nil || f.Pkg().Path() != "math/big" {
		return "", false
	}
	sig := f.Type().(*types.Signature)
	if sig.Recv() == nil {
		return "", false
	}
	if n := namedOf(sig.Recv().Type()); n != nil {
		return n.Obj().Name(), true
	}
	return "", false
}

// bigCallsIn collects big.Int/big.Float arithmetic method calls in node, following calls to
// functions of the same package up to depth 2.
func bigCallsIn(c *Ctx, pkgInfo *types.Info, node ast.Node, depth int, seen map[*types.Func]bool) []struct {
	Recv, Name string
	Pos        ast.Node
} {
	var out []struct {
		Recv, Name string
		Pos        ast.Node
	}
	for _, call := range callsIn(node, true) {
		f := callee(pkgInfo, call)
		if f == nil {
			continue
		}
		if recv, ok := isBigMethod(f); ok {
			if bigArith[f.Name()] {
				out = append(out, struct {
					Recv, Name string
					Pos        ast.Node
				}{recv, f.Name(), call})
			}
			continue
		}
		if depth > 0 && !seen[f] {
			if fn := c.FnOf(f); fn != nil {
				if isWidthReducer(fn) {
					continue // reduces a result to the width of its type (C09.R11); its Mod/Sub are not the operator
				}
				seen[f] = true
				out = append(out, bigCallsIn(c, fn.Info(), fn.Decl.Body, depth-1, seen)...)
			}
		}
	}
	return out
}

// isWidthReducer: a function that is given a semantic type and brings an integer into that type's range: it asks for
// the type's bit size and signedness and shifts 1 by the size. Its modulus is the positive 2^N, for which the Euclidean
// Mod is the mathematical residue.
func isWidthReducer(fn *Fn) bool {
	if fn == nil || fn.Decl == nil || fn.Decl.Body == nil {
		return false
	}
	got := map[string]bool{}
	for _, cl := range callsIn(fn.Decl.Body, true) {
		if g := callee(fn.Info(), cl); g != nil {
			got[g.Name()] = true
		}
	}
	hasTypeParam := false
	sig := fn.Obj.Type().(*types.Signature)
	for i := 0; i < sig.Params().Len(); i++ {
		if nt := namedOf(sig.Params().At(i).Type()); nt != nil && nt.Obj().Name() == "SemType" {
			hasTypeParam = true
		}
	}
	return hasTypeParam && got["GetNumberBitSize"] && got["IsSigned"] && got["Lsh"]
}

func c09R1(c *Ctx, r *Report) {
	const rule = "C09.R1"
	r.Describe(rule, "operator token -> math/big method agreement in every compile-time folder; Euclidean Div/Mod/DivMod never used")
	toks := loadTokens(c)
	tokName := map[string]string{}
	for n, v := range toks.byName {
		tokName[v.ExactString()] = n
	}
	tokT := c.lookupType(pkgTokens, "TOKEN")
	if !r.Anchor(rule, tokT != nil, "tokens.TOKEN") {
		return
	}
	pairs := 0
	euclid := 0
	divSites := 0
	for _, p := range c.Pkgs {
		if !strings.Contains(p.PkgPath, "/internal/") {
			continue
		}
		info := p.TypesInfo
		for _, file := range p.Syntax {
			var curFn *ast.FuncDecl
			ast.Inspect(file, func(n ast.Node) bool {
				if fd, ok := n.(*ast.FuncDecl); ok {
					curFn = fd
				}
				// (b) global ban of Euclidean division
				if call, ok := n.(*ast.CallExpr); ok {
					if f := callee(info, call); f != nil {
						if recv, ok := isBigMethod(f); ok && recv == "Int" {
							switch f.Name() {
							case "Div", "Mod", "DivMod":
								if curFn != nil && f.Name() == "Mod" {
									if fo, ok := info.Defs[curFn.Name].(*types.Func); ok && isWidthReducer(c.FnOf(fo)) {
										break
									}
								}
								euclid++
								fn := "?"
								if curFn != nil {
									fn = funcKey(info.Defs[curFn.Name].(*types.Func))
								}
								r.Fail(rule, fn, "big.Int."+f.Name(), c.pos(call.Pos()),
									"Euclidean big.Int."+f.Name()+" used where the language (and both back ends) truncate toward zero; a folded negative operand gives a different result than the run-time instruction")
							case "Quo", "Rem", "QuoRem":
								divSites++
							}
						}
					}
				}
				// (a) token switches
				sw, ok := n.(*ast.SwitchStmt)
				if !ok || sw.Tag == nil {
					return true
				}
				if tt := info.TypeOf(sw.Tag); tt == nil || namedOf(tt) == nil || namedOf(tt).Obj() != tokT {
					return true
				}
				for _, cc := range caseClauses(sw.Body) {
					if len(cc.List) == 0 {
						continue
					}
					// expected set = union over the clause's tokens
					var names []string
					exp := map[string]bool{}
					known := true
					for _, x := range cc.List {
						v := constOf(info, x)
						if v == nil {
							known = false
							break
						}
						tn := tokName[v.ExactString()]
						names = append(names, tn)
						e, ok := bigExpected[tn]
						if !ok {
							known = false
						}
						for _, m := range e {
							exp[m] = true
						}
					}
					body := &ast.BlockStmt{List: cc.Body}
					calls := bigCallsIn(c, info, body, 2, map[*types.Func]bool{})
					if len(calls) == 0 {
						continue
					}
					fn := "?"
					if curFn != nil {
						fn = funcKey(info.Defs[curFn.Name].(*types.Func))
					}
					for _, bc := range calls {
						if bc.Name == "Lsh" || bc.Name == "Rsh" || bc.Name == "Not" || bc.Name == "AndNot" {
							continue // helper arithmetic (range bounds), not an operator implementation
						}
						pairs++
						construct := fmt.Sprintf("case %s -> big.%s.%s", strings.Join(names, ","), bc.Recv, bc.Name)
						if !known {
							r.Note("C09.R1: %s in %s: token without an oracle entry, not checked", construct, fn)
							continue
						}
						r.Check(exp[bc.Name], rule, fn, construct, c.pos(bc.Pos.Pos()),
							fmt.Sprintf("operator %s is folded with big.%s.%s; the instruction emitted for it corresponds to %v", strings.Join(names, ","), bc.Recv, bc.Name, bigExpected[names[0]]))
					}
				}
				return true
			})
		}
	}
	r.Floor(rule, pairs, 14, "operator-case/big-method pairs")
	r.Floor(rule, divSites, 3, "truncating division sites (Quo/Rem)")
	if euclid == 0 {
		r.OK(rule, "module", "no Euclidean big.Int.Div/Mod/DivMod", "-", "0 sites")
	}
}

// C09.R3: the readers through which compile-time constness changes emitted code are frozen:
// any function of mir/gen or codegen/* that (transitively, inside those packages) reads
// Symbol.ConstValue or calls consteval.EvaluateHIRExpr must be one of the reviewed readers.
func c09R3(c *Ctx, r *Report) {
	const rule = "C09.R3"
	r.Describe(rule, "code generators consult compile-time values only at the reviewed reader sites")
	constField := c.fieldObj("internal/semantics/symbols", "Symbol", "ConstValue")
	evalFn := c.LookupFn("internal/hir/consteval", "EvaluateHIRExpr")
	if !r.Anchor(rule, constField != nil && evalFn != nil, "symbols.Symbol.ConstValue / consteval.EvaluateHIRExpr") {
		return
	}
	reviewed := map[string]string{
		"mir/gen.(*functionBuilder).constArrayIndex":      "fixed-array index must be a compile-time constant (documented rule; known finding C04.R1 covers its flow-insensitivity)",
		"mir/gen.(*functionBuilder).matchCaseValue":       "match case labels are constants",
		"mir/gen.(*functionBuilder).lookupQualifiedConst": "module-level constants",
		"mir/gen.(*functionBuilder).foldIntegerLiterals":  "C10.R7: expressions built from integer literals only; the selecting predicate admits no identifier",
		"mir/gen.(*functionBuilder).lowerIndexValue":      "indexing an array *literal* with a constant index selects the element directly (D-04 family)",
	}
	n := 0
	for _, p := range c.Pkgs {
		rel := relPkg(p.Types)
		if !(strings.HasPrefix(rel, "mir/gen") || strings.HasPrefix(rel, "codegen")) {
			continue
		}
		for _, fn := range c.AllFns(strings.TrimPrefix(p.PkgPath, Mod+"/")) {
			info := fn.Info()
			reads := ""
			ast.Inspect(fn.Decl.Body, func(nd ast.Node) bool {
				switch x := nd.(type) {
				case *ast.SelectorExpr:
					if f := fieldOf(info, x); f != nil && f == constField {
						reads = "Symbol.ConstValue"
					}
				case *ast.CallExpr:
					if isCallTo(info, x, evalFn.Obj) {
						reads = "consteval.EvaluateHIRExpr"
					}
				}
				return true
			})
			if reads == "" {
				continue
			}
			n++
			_, ok := reviewed[fn.Name()]
			r.Check(ok, rule, fn.Name(), "reads "+reads, c.pos(fn.Decl.Pos()),
				"a code generator consults a compile-time value here; this is not one of the reviewed sites where constness may legitimately change emitted code (behaviour would depend on what the compiler can evaluate early)")
		}
	}
	r.Note("C09.R3: %d reader functions in mir/gen + codegen", n)
	_ = constant.MakeBool
}

func init() {
	lateInits = append(lateInits, func() { props["C09"].Quick = append(props["C09"].Quick, c09R4) })
}

// C09.R4: if the constant evaluator folds casts, an integer narrowing consults both the width and the
// signedness of the target type (a fold that only masks by width gives 254 for `254 as i8`, the program -2).
func c09R4(c *Ctx, r *Report) {
	const rule = "C09.R4"
	r.Describe(rule, "consteval: a folded cast (if any) derives its result from the target's bit width and signedness")
	ev := c.LookupFn("internal/hir/consteval", "EvaluateHIRExpr")
	if !r.Anchor(rule, ev != nil, "consteval.EvaluateHIRExpr") {
		return
	}
	info := ev.Info()
	var castClause *ast.CaseClause
	ast.Inspect(ev.Decl.Body, func(x ast.Node) bool {
		if cc, ok := x.(*ast.CaseClause); ok {
			for _, t := range caseTypes(info, cc) {
				if nt := namedOf(t); nt != nil && nt.Obj().Name() == "CastExpr" {
					castClause = cc
				}
			}
		}
		return true
	})
	if castClause == nil {
		r.OK(rule, ev.Name(), "casts are not folded (evaluated at run time only)", c.pos(ev.Decl.Pos()), "no *hir.CastExpr case")
		return
	}
	// functions reachable from the clause
	seen := map[*types.Func]bool{}
	var work []*Fn
	for _, st := range castClause.Body {
		for _, call := range callsIn(st, true) {
			if f := callee(info, call); f != nil && !seen[f] {
				seen[f] = true
				if fn := c.FnOf(f); fn != nil && fn.Decl.Body != nil && f != ev.Obj {
					work = append(work, fn)
				}
			}
		}
	}
	for len(work) > 0 {
		f := work[len(work)-1]
		work = work[:len(work)-1]
		for _, call := range callsIn(f.Decl.Body, true) {
			if g := callee(f.Info(), call); g != nil && !seen[g] {
				seen[g] = true
				if gf := c.FnOf(g); gf != nil && gf.Decl.Body != nil && g != ev.Obj {
					work = append(work, gf)
				}
			}
		}
	}
	width, sign := false, false
	for f := range seen {
		switch f.Name() {
		case "GetNumberBitSize", "FitsInBitSize", "intBitSize":
			width = true
		case "IsSigned", "IsUnsigned", "IsSignedTypeName", "IsUnsignedTypeName", "isSigned", "isUnsigned":
			sign = true
		}
	}
	r.Check(width && sign, rule, ev.Name(), "folded cast uses width and signedness of the target", c.pos(castClause.Pos()),
		fmt.Sprintf("the constant folder evaluates casts with width=%v signedness=%v: without the target's signedness `254 as i8` folds to 254 and `-1 as u8` to -1 while the running program computes -2 and 255 — constant and non-constant spellings of one program disagree", width, sign))
}
