package main

import (
	"fmt"
	"go/ast"
	"go/constant"
	"go/token"
	"go/types"
	"strings"
)

// A4 (extended): finite-domain constant propagation over *table functions*.
//
// The repository encodes its instruction-selection, width, signedness and layout tables as pure
// Go functions: switches over constants, `if flag`, type assertions on a types.SemType and
// returns of constants. peval reads such a function as a decision tree: parameters are bound to
// elements of a small abstract domain (a go/constant value, or an abstract Ferret type such as
// "primitive named i16"), conditions are folded, and the reached `return` is reported. Nothing
// from /repo is compiled or executed; an expression outside the fragment yields Unknown and a
// branch on Unknown is an error (the rule then fails with "undecidable", never passes).

type Val any

type AType struct { // abstract types.SemType value
	Kind  string // "prim", "enum", "ref", "dynarray", "array", "map", "struct", "func", "iface", "optional", "result", "union", "named"
	Name  string // primitive name for Kind=="prim"
	Under *AType // underlying type for Kind=="named"
}
type structVal map[string]Val // composite literal with field keys
type nilVal struct{}
type errVal struct{} // a non-nil error
type unknownVal struct{ Why string }
type listVal []Val // composite literal of constants

func isUnknown(v Val) bool { _, ok := v.(unknownVal); return ok }

func valString(v Val) string {
	switch x := v.(type) {
	case constant.Value:
		if x.Kind() == constant.String {
			return constant.StringVal(x)
		}
		return x.ExactString()
	case *AType:
		if x.Kind == "prim" {
			return x.Name
		}
		return "<" + x.Kind + ">"
	case nilVal:
		return "nil"
	case errVal:
		return "<error>"
	case listVal:
		var s []string
		for _, e := range x {
			s = append(s, valString(e))
		}
		return "[" + strings.Join(s, ",") + "]"
	case unknownVal:
		return "?(" + x.Why + ")"
	}
	return fmt.Sprint(v)
}

// semKindOf maps a Go type (*types.PrimitiveType etc. of package internal/types) to an AType kind.
var semKindByGoName = map[string]string{
	"PrimitiveType": "prim", "EnumType": "enum", "ReferenceType": "ref", "ArrayType": "array", "MapType": "map",
	"StructType": "struct", "FunctionType": "func", "InterfaceType": "iface", "OptionalType": "optional",
	"ResultType": "result", "UnionType": "union", "NamedType": "named",
}

type PEval struct {
	c        *Ctx
	maxDepth int
	Trace    []string
	primVars map[types.Object]string // types.TypeI8 -> "i8"
	// Hook lets a rule interpret calls the evaluator cannot (return ok=false to decline).
	Hook func(pe *PEval, info *types.Info, call *ast.CallExpr, args []Val) (Val, bool)
	// RecvDefaults: value used as receiver when a method of the named type is called on an unknown receiver
	// (e.g. "DataLayout" -> structVal{"PointerSize": 8}).
	RecvDefaults map[string]Val
	// LastReturn is the return statement that produced the most recent top-level result.
	LastReturn *ast.ReturnStmt
	LastFn     *Fn
}

func newPEval(c *Ctx) *PEval {
	pe := &PEval{c: c, maxDepth: 10, primVars: map[types.Object]string{}}
	// read `TypeX = NewPrimitive(TYPE_X)` assignments of package types
	if p := c.ByPath[Mod+"/"+pkgTypes]; p != nil {
		newPrim := p.Types.Scope().Lookup("NewPrimitive")
		for _, f := range p.Syntax {
			ast.Inspect(f, func(n ast.Node) bool {
				as, ok := n.(*ast.AssignStmt)
				if !ok || len(as.Lhs) != 1 || len(as.Rhs) != 1 {
					return true
				}
				call, ok := as.Rhs[0].(*ast.CallExpr)
				if !ok || len(call.Args) != 1 {
					return true
				}
				if f := callee(p.TypesInfo, call); f == nil || types.Object(f) != newPrim {
					return true
				}
				if v := constOf(p.TypesInfo, call.Args[0]); v != nil && v.Kind() == constant.String {
					if o := objOf(p.TypesInfo, as.Lhs[0]); o != nil {
						pe.primVars[o] = constant.StringVal(v)
					}
				}
				return true
			})
		}
	}
	return pe
}

type penv struct {
	vars map[types.Object]Val
	info *types.Info
	fn   *Fn
}

type retSignal struct {
	vals []Val
	stmt *ast.ReturnStmt
}

type pevalErr struct{ msg string }

func (e *pevalErr) Error() string { return e.msg }

// Call evaluates fn with the given argument values (receiver is unknown).
func (pe *PEval) Call(fn *Fn, args []Val) (res []Val, err error) {
	defer func() {
		if r := recover(); r != nil {
			if pe2, ok := r.(*pevalErr); ok {
				err = pe2
				return
			}
			panic(r)
		}
	}()
	res = pe.call(fn, nil, args, 0)
	return res, nil
}

func (pe *PEval) fail(format string, a ...any) { panic(&pevalErr{fmt.Sprintf(format, a...)}) }

func (pe *PEval) call(fn *Fn, recv Val, args []Val, depth int) []Val {
	if depth > pe.maxDepth {
		pe.fail("recursion too deep at %s", fn.Name())
	}
	env := &penv{vars: map[types.Object]Val{}, info: fn.Info(), fn: fn}
	sig := fn.Obj.Type().(*types.Signature)
	for i := 0; i < sig.Params().Len(); i++ {
		var v Val = unknownVal{"unbound param " + sig.Params().At(i).Name()}
		if i < len(args) {
			v = args[i]
		}
		env.vars[sig.Params().At(i)] = v
	}
	if sig.Recv() != nil && recv != nil {
		env.vars[sig.Recv()] = recv
	}
	r := pe.block(env, fn.Decl.Body.List, depth)
	if r == nil {
		if sig.Results().Len() == 0 {
			return nil
		}
		pe.fail("%s: fell off the end without return", fn.Name())
	}
	if depth == 0 {
		pe.LastReturn, pe.LastFn = r.stmt, fn
	}
	return r.vals
}

func (pe *PEval) block(env *penv, stmts []ast.Stmt, depth int) *retSignal {
	for _, s := range stmts {
		if r := pe.stmt(env, s, depth); r != nil {
			return r
		}
	}
	return nil
}

func (pe *PEval) truth(env *penv, e ast.Expr, depth int) bool {
	v := pe.expr(env, e, depth)
	cv, ok := v.(constant.Value)
	if !ok || cv.Kind() != constant.Bool {
		pe.fail("%s: undecidable condition `%s` (%s) at %s", env.fn.Name(), exprStr(e), valString(v), pe.c.pos(e.Pos()))
	}
	return constant.BoolVal(cv)
}

func (pe *PEval) bind(env *penv, lhs ast.Expr, v Val) {
	id, ok := ast.Unparen(lhs).(*ast.Ident)
	if !ok {
		return // field/element stores are ignored (no effect on tracked locals)
	}
	if id.Name == "_" {
		return
	}
	if o := env.info.Defs[id]; o != nil {
		env.vars[o] = v
	} else if o := env.info.Uses[id]; o != nil {
		env.vars[o] = v
	}
}

func (pe *PEval) stmt(env *penv, s ast.Stmt, depth int) *retSignal {
	switch st := s.(type) {
	case *ast.ReturnStmt:
		var vals []Val
		if len(st.Results) == 1 {
			if call, ok := ast.Unparen(st.Results[0]).(*ast.CallExpr); ok {
				// forward multi-value call
				vs := pe.callExpr(env, call, depth)
				return &retSignal{vals: vs, stmt: st}
			}
		}
		for _, r := range st.Results {
			vals = append(vals, pe.expr(env, r, depth))
		}
		return &retSignal{vals: vals, stmt: st}
	case *ast.BlockStmt:
		return pe.block(env, st.List, depth)
	case *ast.ExprStmt, *ast.EmptyStmt, *ast.IncDecStmt, *ast.DeferStmt, *ast.GoStmt:
		return nil
	case *ast.DeclStmt:
		if gd, ok := st.Decl.(*ast.GenDecl); ok {
			for _, sp := range gd.Specs {
				if vs, ok := sp.(*ast.ValueSpec); ok {
					for i, n := range vs.Names {
						var v Val = unknownVal{"var " + n.Name}
						if i < len(vs.Values) {
							v = pe.expr(env, vs.Values[i], depth)
						}
						if o := env.info.Defs[n]; o != nil {
							env.vars[o] = v
						}
					}
				}
			}
		}
		return nil
	case *ast.AssignStmt:
		pe.assign(env, st, depth)
		return nil
	case *ast.IfStmt:
		if st.Init != nil {
			if r := pe.stmt(env, st.Init, depth); r != nil {
				return r
			}
		}
		if pe.truth(env, st.Cond, depth) {
			return pe.block(env, st.Body.List, depth)
		}
		if st.Else != nil {
			return pe.stmt(env, st.Else, depth)
		}
		return nil
	case *ast.SwitchStmt:
		if st.Init != nil {
			if r := pe.stmt(env, st.Init, depth); r != nil {
				return r
			}
		}
		var tag Val
		if st.Tag != nil {
			tag = pe.expr(env, st.Tag, depth)
			if isUnknown(tag) {
				pe.fail("%s: undecidable switch tag `%s` (%s) at %s", env.fn.Name(), exprStr(st.Tag), valString(tag), pe.c.pos(st.Pos()))
			}
		}
		var def *ast.CaseClause
		for _, cc := range caseClauses(st.Body) {
			if cc.List == nil {
				def = cc
				continue
			}
			for _, x := range cc.List {
				hit := false
				if st.Tag == nil {
					hit = pe.truth(env, x, depth)
				} else {
					cv := pe.expr(env, x, depth)
					eq, ok := valEqual(tag, cv)
					if !ok {
						pe.fail("%s: cannot compare switch tag %s with case %s", env.fn.Name(), valString(tag), valString(cv))
					}
					hit = eq
				}
				if hit {
					return pe.switchBody(env, cc, depth)
				}
			}
		}
		if def != nil {
			return pe.switchBody(env, def, depth)
		}
		return nil
	case *ast.TypeSwitchStmt:
		var x ast.Expr
		var bindID *ast.Ident
		switch a := st.Assign.(type) {
		case *ast.AssignStmt:
			x = a.Rhs[0].(*ast.TypeAssertExpr).X
			bindID, _ = a.Lhs[0].(*ast.Ident)
		case *ast.ExprStmt:
			x = a.X.(*ast.TypeAssertExpr).X
		}
		v := pe.expr(env, x, depth)
		at, ok := v.(*AType)
		if !ok {
			if _, isNil := v.(nilVal); !isNil {
				pe.fail("%s: undecidable type switch on `%s` (%s) at %s", env.fn.Name(), exprStr(x), valString(v), pe.c.pos(st.Pos()))
			}
		}
		var def *ast.CaseClause
		for _, cc := range caseClauses(st.Body) {
			if cc.List == nil {
				def = cc
				continue
			}
			for _, tx := range cc.List {
				tv := env.info.Types[tx]
				if tv.IsNil() {
					if _, isNil := v.(nilVal); isNil {
						return pe.block(env, cc.Body, depth)
					}
					continue
				}
				if at != nil && goTypeMatches(tv.Type, at) {
					if bindID != nil {
						if o := env.info.Implicits[cc]; o != nil {
							env.vars[o] = at
						}
					}
					return pe.block(env, cc.Body, depth)
				}
			}
		}
		if def != nil {
			if bindID != nil {
				if o := env.info.Implicits[def]; o != nil {
					env.vars[o] = v
				}
			}
			return pe.block(env, def.Body, depth)
		}
		return nil
	case *ast.ForStmt, *ast.RangeStmt:
		pe.fail("%s: loop reached at %s (outside the table fragment)", env.fn.Name(), pe.c.pos(s.Pos()))
	}
	pe.fail("%s: unsupported statement %T at %s", env.fn.Name(), s, pe.c.pos(s.Pos()))
	return nil
}

func (pe *PEval) switchBody(env *penv, cc *ast.CaseClause, depth int) *retSignal {
	for _, s := range cc.Body {
		if br, ok := s.(*ast.BranchStmt); ok {
			if br.Tok == token.BREAK {
				return nil
			}
			pe.fail("%s: unsupported branch statement in switch", env.fn.Name())
		}
		if r := pe.stmt(env, s, depth); r != nil {
			return r
		}
	}
	return nil
}

func goTypeMatches(t types.Type, at *AType) bool {
	n := namedOf(t)
	if n == nil {
		return false
	}
	k, ok := semKindByGoName[n.Obj().Name()]
	if !ok {
		return false
	}
	if at.Kind == "dynarray" {
		return k == "array"
	}
	return k == at.Kind
}

func (pe *PEval) assign(env *penv, st *ast.AssignStmt, depth int) {
	if len(st.Lhs) == len(st.Rhs) {
		vals := make([]Val, len(st.Rhs))
		for i, r := range st.Rhs {
			vals[i] = pe.expr(env, r, depth)
		}
		for i, l := range st.Lhs {
			if st.Tok != token.ASSIGN && st.Tok != token.DEFINE {
				pe.bind(env, l, unknownVal{"compound assignment"})
				continue
			}
			pe.bind(env, l, vals[i])
		}
		return
	}
	if len(st.Rhs) == 1 {
		switch r := ast.Unparen(st.Rhs[0]).(type) {
		case *ast.TypeAssertExpr:
			v := pe.expr(env, r.X, depth)
			at, ok := v.(*AType)
			if !ok {
				if _, isNil := v.(nilVal); isNil {
					pe.bind(env, st.Lhs[0], nilVal{})
					pe.bind(env, st.Lhs[1], constant.MakeBool(false))
					return
				}
				pe.bind(env, st.Lhs[0], unknownVal{"type assertion on " + valString(v)})
				pe.bind(env, st.Lhs[1], unknownVal{"type assertion on " + valString(v)})
				return
			}
			m := goTypeMatches(env.info.TypeOf(r.Type), at)
			if m {
				pe.bind(env, st.Lhs[0], at)
			} else {
				pe.bind(env, st.Lhs[0], nilVal{})
			}
			pe.bind(env, st.Lhs[1], constant.MakeBool(m))
			return
		case *ast.CallExpr:
			vs := pe.callExpr(env, r, depth)
			for i, l := range st.Lhs {
				if i < len(vs) {
					pe.bind(env, l, vs[i])
				} else {
					pe.bind(env, l, unknownVal{"missing result"})
				}
			}
			return
		case *ast.IndexExpr: // v, ok := m[k]
			for _, l := range st.Lhs {
				pe.bind(env, l, unknownVal{"map lookup"})
			}
			return
		}
	}
	for _, l := range st.Lhs {
		pe.bind(env, l, unknownVal{"unsupported assignment"})
	}
}

func valEqual(a, b Val) (eq bool, ok bool) {
	switch x := a.(type) {
	case constant.Value:
		y, ok := b.(constant.Value)
		if !ok {
			return false, false
		}
		if x.Kind() != y.Kind() && !(isNumKind(x) && isNumKind(y)) {
			return false, false
		}
		return constant.Compare(x, token.EQL, y), true
	case *AType:
		switch y := b.(type) {
		case *AType:
			if x.Kind == "prim" && y.Kind == "prim" {
				return x.Name == y.Name, true
			}
			if x.Kind != y.Kind {
				return false, true
			}
			return false, false // two non-primitive abstract types: identity unknown
		case nilVal:
			return false, true
		}
	case nilVal:
		switch b.(type) {
		case nilVal:
			return true, true
		case *AType, errVal, listVal:
			return false, true
		}
	case errVal:
		if _, isNil := b.(nilVal); isNil {
			return false, true
		}
	}
	return false, false
}

func isNumKind(v constant.Value) bool {
	return v.Kind() == constant.Int || v.Kind() == constant.Float
}

func (pe *PEval) expr(env *penv, e ast.Expr, depth int) Val {
	e = ast.Unparen(e)
	if tv, ok := env.info.Types[e]; ok && tv.Value != nil {
		return tv.Value
	}
	switch x := e.(type) {
	case *ast.Ident:
		if x.Name == "nil" {
			if _, isNil := env.info.Uses[x].(*types.Nil); isNil {
				return nilVal{}
			}
		}
		o := env.info.Uses[x]
		if o == nil {
			o = env.info.Defs[x]
		}
		if v, ok := env.vars[o]; ok {
			return v
		}
		if n, ok := pe.primVars[o]; ok {
			return &AType{Kind: "prim", Name: n}
		}
		return unknownVal{"identifier " + x.Name}
	case *ast.SelectorExpr:
		o := env.info.Uses[x.Sel]
		if n, ok := pe.primVars[o]; ok {
			return &AType{Kind: "prim", Name: n}
		}
		if sel := env.info.Selections[x]; sel != nil && sel.Kind() == types.FieldVal {
			base := pe.expr(env, x.X, depth)
			if sv, ok := base.(structVal); ok {
				if v, ok := sv[sel.Obj().Name()]; ok {
					return v
				}
			}
			if at, ok := base.(*AType); ok && at.Kind == "named" && sel.Obj().Name() == "Underlying" && at.Under != nil {
				return at.Under
			}
			if at, ok := base.(*AType); ok && at.Kind == "prim" && sel.Obj().Name() == "size" && isNamed(sel.Recv(), Mod+"/"+pkgTypes, "PrimitiveType") {
				if f := pe.c.LookupFn(pkgTypes, "getPrimitiveSize"); f != nil {
					if res := pe.call(f, nil, []Val{constant.MakeString(at.Name)}, depth+1); len(res) == 1 {
						return res[0]
					}
				}
			}
			if at, ok := pe.expr(env, x.X, depth).(*AType); ok && at.Kind == "prim" && sel.Obj().Name() == "name" &&
				isNamed(sel.Recv(), Mod+"/"+pkgTypes, "PrimitiveType") {
				return constant.MakeString(at.Name)
			}
		}
		return unknownVal{"selector " + exprStr(x)}
	case *ast.CallExpr:
		vs := pe.callExpr(env, x, depth)
		if len(vs) >= 1 {
			return vs[0]
		}
		return unknownVal{"void call"}
	case *ast.UnaryExpr:
		v := pe.expr(env, x.X, depth)
		if cv, ok := v.(constant.Value); ok {
			switch x.Op {
			case token.NOT:
				if cv.Kind() == constant.Bool {
					return constant.MakeBool(!constant.BoolVal(cv))
				}
			case token.SUB:
				return constant.UnaryOp(token.SUB, cv, 0)
			}
		}
		return unknownVal{"unary " + exprStr(x)}
	case *ast.SliceExpr:
		// constant string sliced with constant bounds: s[lo:hi]
		base := pe.expr(env, x.X, depth)
		if bc, ok := base.(constant.Value); ok && bc.Kind() == constant.String && x.Max == nil {
			str := constant.StringVal(bc)
			lo, hi := 0, len(str)
			okB := true
			if x.Low != nil {
				if lv, ok := pe.expr(env, x.Low, depth).(constant.Value); ok && lv.Kind() == constant.Int {
					n, _ := constant.Int64Val(lv)
					lo = int(n)
				} else {
					okB = false
				}
			}
			if x.High != nil {
				if hv, ok := pe.expr(env, x.High, depth).(constant.Value); ok && hv.Kind() == constant.Int {
					n, _ := constant.Int64Val(hv)
					hi = int(n)
				} else {
					okB = false
				}
			}
			if okB && 0 <= lo && lo <= hi && hi <= len(str) {
				return constant.MakeString(str[lo:hi])
			}
		}
		return unknownVal{"slice " + exprStr(x)}
	case *ast.BinaryExpr:
		switch x.Op {
		case token.LAND, token.LOR:
			l := pe.expr(env, x.X, depth)
			if lc, ok := l.(constant.Value); ok && lc.Kind() == constant.Bool {
				lb := constant.BoolVal(lc)
				if x.Op == token.LAND && !lb {
					return constant.MakeBool(false)
				}
				if x.Op == token.LOR && lb {
					return constant.MakeBool(true)
				}
				return pe.expr(env, x.Y, depth)
			}
			// left unknown: decidable only if right alone decides
			r := pe.expr(env, x.Y, depth)
			if rc, ok := r.(constant.Value); ok && rc.Kind() == constant.Bool {
				rb := constant.BoolVal(rc)
				if x.Op == token.LAND && !rb {
					return constant.MakeBool(false)
				}
				if x.Op == token.LOR && rb {
					return constant.MakeBool(true)
				}
			}
			return unknownVal{"logical " + exprStr(x)}
		case token.EQL, token.NEQ:
			l, r := pe.expr(env, x.X, depth), pe.expr(env, x.Y, depth)
			eq, ok := valEqual(l, r)
			if !ok {
				eq, ok = valEqual(r, l)
			}
			if !ok {
				return unknownVal{"comparison " + exprStr(x)}
			}
			if x.Op == token.NEQ {
				eq = !eq
			}
			return constant.MakeBool(eq)
		default:
			l, r := pe.expr(env, x.X, depth), pe.expr(env, x.Y, depth)
			lc, ok1 := l.(constant.Value)
			rc, ok2 := r.(constant.Value)
			if ok1 && ok2 {
				switch x.Op {
				case token.LSS, token.LEQ, token.GTR, token.GEQ:
					if isNumKind(lc) && isNumKind(rc) || lc.Kind() == constant.String && rc.Kind() == constant.String {
						return constant.MakeBool(constant.Compare(lc, x.Op, rc))
					}
				case token.ADD, token.SUB, token.MUL, token.AND, token.OR, token.XOR:
					if lc.Kind() == rc.Kind() || isNumKind(lc) && isNumKind(rc) {
						return constant.BinaryOp(lc, x.Op, rc)
					}
				case token.QUO:
					if isNumKind(lc) && isNumKind(rc) && constant.Sign(rc) != 0 {
						if lc.Kind() == constant.Int && rc.Kind() == constant.Int {
							return constant.BinaryOp(lc, token.QUO_ASSIGN, rc)
						}
						return constant.BinaryOp(lc, token.QUO, rc)
					}
				case token.REM:
					if lc.Kind() == constant.Int && rc.Kind() == constant.Int && constant.Sign(rc) != 0 {
						return constant.BinaryOp(lc, token.REM, rc)
					}
				case token.SHL, token.SHR:
					if s, ok := constant.Uint64Val(rc); ok && lc.Kind() == constant.Int {
						return constant.Shift(lc, x.Op, uint(s))
					}
				}
			}
			return unknownVal{"binary " + exprStr(x)}
		}
	case *ast.CompositeLit:
		if len(x.Elts) > 0 {
			if _, isKV := x.Elts[0].(*ast.KeyValueExpr); isKV {
				sv := structVal{}
				for _, el := range x.Elts {
					if kv, ok := el.(*ast.KeyValueExpr); ok {
						if id, ok := kv.Key.(*ast.Ident); ok {
							sv[id.Name] = pe.expr(env, kv.Value, depth)
						}
					}
				}
				return sv
			}
		}
		var out listVal
		for _, el := range x.Elts {
			out = append(out, pe.expr(env, el, depth))
		}
		return out
	case *ast.TypeAssertExpr:
		v := pe.expr(env, x.X, depth)
		if at, ok := v.(*AType); ok && x.Type != nil && goTypeMatches(env.info.TypeOf(x.Type), at) {
			return at
		}
		return unknownVal{"type assertion " + exprStr(x)}
	case *ast.StarExpr:
		return pe.expr(env, x.X, depth)
	}
	return unknownVal{fmt.Sprintf("%T %s", e, exprStr(e))}
}

// callExpr evaluates a call and returns all its results.
func (pe *PEval) callExpr(env *penv, call *ast.CallExpr, depth int) []Val {
	info := env.info
	// conversions T(x)
	if tv, ok := info.Types[call.Fun]; ok && tv.IsType() && len(call.Args) == 1 {
		return []Val{pe.expr(env, call.Args[0], depth)}
	}
	args := make([]Val, len(call.Args))
	for i, a := range call.Args {
		args[i] = pe.expr(env, a, depth)
	}
	if pe.Hook != nil {
		if v, ok := pe.Hook(pe, info, call, args); ok {
			return []Val{v}
		}
	}
	f := callee(info, call)
	if f == nil {
		if id, ok := ast.Unparen(call.Fun).(*ast.Ident); ok {
			if _, isB := info.Uses[id].(*types.Builtin); isB {
				return []Val{unknownVal{"builtin " + id.Name}}
			}
		}
		return []Val{unknownVal{"dynamic call " + exprStr(call.Fun)}}
	}
	sig := f.Type().(*types.Signature)
	// methods on abstract SemType values
	if sig.Recv() != nil {
		if sel, ok := ast.Unparen(call.Fun).(*ast.SelectorExpr); ok {
			recv := pe.expr(env, sel.X, depth)
			if at, ok := recv.(*AType); ok {
				switch f.Name() {
				case "Equals":
					if len(args) == 1 {
						if eq, ok := valEqual(at, args[0]); ok {
							return []Val{constant.MakeBool(eq)}
						}
					}
					return []Val{unknownVal{"Equals on " + valString(at)}}
				case "GetName":
					if at.Kind == "prim" {
						return []Val{constant.MakeString(at.Name)}
					}
				case "String":
					if at.Kind == "prim" {
						return []Val{constant.MakeString(at.Name)}
					}
				case "Unwrap":
					u := at
					for u.Kind == "named" && u.Under != nil {
						u = u.Under
					}
					return []Val{u}
				}
				if fn := pe.c.FnOf(f); fn != nil && at.Kind == "prim" {
					return pe.call(fn, at, args, depth+1)
				}
				return []Val{unknownVal{"method " + f.Name() + " on abstract type"}}
			}
			if _, isNil := recv.(nilVal); isNil {
				return []Val{unknownVal{"method on nil"}}
			}
		}
	}
	if f.Pkg() != nil {
		switch {
		case f.Pkg().Path() == Mod+"/"+pkgTypes && (f.Name() == "UnwrapType") && len(args) == 1:
			if at, ok := args[0].(*AType); ok {
				for at.Kind == "named" && at.Under != nil {
					at = at.Under
				}
				if at.Kind != "named" {
					return []Val{at}
				}
			}
		case f.Pkg().Path() == "fmt" && f.Name() == "Errorf", f.Pkg().Path() == "errors" && f.Name() == "New":
			return []Val{errVal{}}
		case f.Pkg().Path() == "fmt" && f.Name() == "Sprintf":
			return []Val{unknownVal{"Sprintf"}}
		}
	}
	if fn := pe.c.FnOf(f); fn != nil {
		var recv Val
		if sig.Recv() != nil {
			if n := namedOf(sig.Recv().Type()); n != nil {
				if v, ok := pe.RecvDefaults[n.Obj().Name()]; ok {
					recv = v
				}
			}
			if sel, ok := ast.Unparen(call.Fun).(*ast.SelectorExpr); ok {
				if rv := pe.expr(env, sel.X, depth); !isUnknown(rv) {
					recv = rv
				}
			}
		}
		return pe.call(fn, recv, args, depth+1)
	}
	out := make([]Val, max(1, sig.Results().Len()))
	for i := range out {
		out[i] = unknownVal{"external call " + f.FullName()}
	}
	return out
}

func prim(name string) *AType { return &AType{Kind: "prim", Name: name} }
func kstr(s string) Val       { return constant.MakeString(s) }
func kbool(b bool) Val        { return constant.MakeBool(b) }
func kint(i int64) Val        { return constant.MakeInt64(i) }
