package main

import (
	"go/ast"
	"go/token"
	"go/types"
	"sort"
	"strings"
)

// A2: parameter access-path reachability ("which children of the node a walker is given reach a
// sink"), computed on the type-checked AST, flow-insensitively, inter-procedurally by summaries.
//
// A path is a sequence of segments relative to a parameter:
//   (T)    type assertion / type-switch case to *pkg.T
//   T.f    field f declared in struct T
//   [*]    element of a slice / array / map value
// Summary(F, i) = paths π such that the value p_i.π is passed to a sink (as a whole).
//
// Precision rules (from the design prototype): for an interface-typed (or `any`) parameter q of a
// callee G the caller inherits (a) ε — G passes q itself to a sink — and (b) G's sub-paths only when
// the argument is the *same node* as one of the caller's own parameters (path of assertions only);
// for a concretely typed parameter (*ast.CallExpr) all sub-paths are inherited. Paths are limited to
// kLimit segments. May-analysis: a path counts if some syntactic flow exists.

const kLimit = 7

type flowAnalysis struct {
	c        *Ctx
	pkgs     map[*types.Package]bool
	sinks    map[*types.Func]bool
	nodePkgs map[string]bool // packages whose types are "node-ish" (ast, hir)
	summary  map[*types.Func]map[int]map[string]bool
	fns      []*Fn
	changed  bool
}

func newFlow(c *Ctx, pkgRels []string, nodePkgRels []string, sinks []*Fn) *flowAnalysis {
	fa := &flowAnalysis{c: c, pkgs: map[*types.Package]bool{}, sinks: map[*types.Func]bool{}, nodePkgs: map[string]bool{},
		summary: map[*types.Func]map[int]map[string]bool{}}
	for _, rel := range pkgRels {
		if p := c.ByPath[Mod+"/"+rel]; p != nil {
			fa.pkgs[p.Types] = true
			fa.fns = append(fa.fns, c.AllFns(rel)...)
		}
	}
	for _, rel := range nodePkgRels {
		fa.nodePkgs[Mod+"/"+rel] = true
	}
	for _, s := range sinks {
		if s != nil {
			fa.sinks[s.Obj] = true
		}
	}
	return fa
}

func (fa *flowAnalysis) nodeish(t types.Type) bool {
	if t == nil {
		return false
	}
	switch x := t.(type) {
	case *types.Alias:
		return fa.nodeish(types.Unalias(x))
	case *types.Pointer:
		return fa.nodeish(x.Elem())
	case *types.Slice:
		return fa.nodeish(x.Elem())
	case *types.Array:
		return fa.nodeish(x.Elem())
	case *types.Map:
		return fa.nodeish(x.Elem())
	case *types.Named:
		if x.Obj().Pkg() != nil && fa.nodePkgs[x.Obj().Pkg().Path()] {
			return true
		}
		return false
	case *types.Interface:
		return x.NumMethods() == 0 // any
	}
	return false
}

func isIfaceOrAny(t types.Type) bool {
	if t == nil {
		return false
	}
	_, ok := t.Underlying().(*types.Interface)
	return ok
}

type origin struct {
	param int
	path  string
}

func segCount(p string) int {
	if p == "" {
		return 0
	}
	return strings.Count(p, "|") + 1
}

func addSeg(p, seg string) (string, bool) {
	if segCount(p) >= kLimit {
		return "", false
	}
	if p == "" {
		return seg, true
	}
	return p + "|" + seg, true
}

func pureAssert(p string) bool {
	if p == "" {
		return true
	}
	for _, s := range strings.Split(p, "|") {
		if !strings.HasPrefix(s, "(") {
			return false
		}
	}
	return true
}

func (fa *flowAnalysis) run() {
	for iter := 0; iter < 30; iter++ {
		fa.changed = false
		for _, fn := range fa.fns {
			fa.analyse(fn)
		}
		if !fa.changed {
			break
		}
	}
}

func (fa *flowAnalysis) record(f *types.Func, param int, path string) {
	m := fa.summary[f]
	if m == nil {
		m = map[int]map[string]bool{}
		fa.summary[f] = m
	}
	if m[param] == nil {
		m[param] = map[string]bool{}
	}
	if !m[param][path] {
		m[param][path] = true
		fa.changed = true
	}
}

func assertSeg(t types.Type) string {
	if n := namedOf(t); n != nil {
		return "(" + n.Obj().Name() + ")"
	}
	return "(?)"
}

func (fa *flowAnalysis) analyse(fn *Fn) {
	info := fn.Info()
	sig := fn.Obj.Type().(*types.Signature)
	org := map[types.Object]map[origin]bool{}
	add := func(o types.Object, os map[origin]bool) bool {
		if o == nil || len(os) == 0 {
			return false
		}
		ch := false
		if org[o] == nil {
			org[o] = map[origin]bool{}
		}
		for k := range os {
			if !org[o][k] {
				org[o][k] = true
				ch = true
			}
		}
		return ch
	}
	for i := 0; i < sig.Params().Len(); i++ {
		p := sig.Params().At(i)
		if fa.nodeish(p.Type()) {
			add(p, map[origin]bool{{i, ""}: true})
		}
	}
	var eval func(e ast.Expr) map[origin]bool
	ext := func(in map[origin]bool, seg string) map[origin]bool {
		out := map[origin]bool{}
		for o := range in {
			if np, ok := addSeg(o.path, seg); ok {
				out[origin{o.param, np}] = true
			}
		}
		return out
	}
	eval = func(e ast.Expr) map[origin]bool {
		e = ast.Unparen(e)
		switch x := e.(type) {
		case *ast.Ident:
			o := info.Uses[x]
			if o == nil {
				o = info.Defs[x]
			}
			return org[o]
		case *ast.SelectorExpr:
			sel := info.Selections[x]
			if sel == nil || sel.Kind() != types.FieldVal {
				return nil
			}
			base := eval(x.X)
			if len(base) == 0 {
				return nil
			}
			owner := "?"
			if n := namedOf(sel.Recv()); n != nil {
				owner = n.Obj().Name()
			}
			// promoted field through embedding: name the declaring struct by walking the index path
			if len(sel.Index()) > 1 {
				t := sel.Recv()
				for _, ix := range sel.Index()[:len(sel.Index())-1] {
					if p, ok := t.Underlying().(*types.Pointer); ok {
						t = p.Elem()
					}
					st, ok := t.Underlying().(*types.Struct)
					if !ok {
						break
					}
					t = st.Field(ix).Type()
				}
				if n := namedOf(t); n != nil {
					owner = n.Obj().Name()
				}
			}
			return ext(base, owner+"."+sel.Obj().Name())
		case *ast.IndexExpr:
			return ext(eval(x.X), "[*]")
		case *ast.SliceExpr:
			return eval(x.X)
		case *ast.TypeAssertExpr:
			if x.Type == nil {
				return eval(x.X)
			}
			return ext(eval(x.X), assertSeg(info.TypeOf(x.Type)))
		case *ast.StarExpr:
			return eval(x.X)
		case *ast.UnaryExpr:
			if x.Op == token.AND {
				return eval(x.X)
			}
		case *ast.CallExpr:
			// conversion T(x) keeps the origin
			if tv, ok := info.Types[x.Fun]; ok && tv.IsType() && len(x.Args) == 1 {
				return eval(x.Args[0])
			}
		}
		return nil
	}
	// 1. origins of locals (flow-insensitive fixpoint)
	for iter := 0; iter < 12; iter++ {
		ch := false
		ast.Inspect(fn.Decl.Body, func(n ast.Node) bool {
			switch st := n.(type) {
			case *ast.AssignStmt:
				if len(st.Lhs) == len(st.Rhs) {
					for i, l := range st.Lhs {
						if id, ok := l.(*ast.Ident); ok {
							o := info.Defs[id]
							if o == nil {
								o = info.Uses[id]
							}
							if o != nil && fa.nodeish(o.Type()) && add(o, eval(st.Rhs[i])) {
								ch = true
							}
						}
					}
				} else if len(st.Rhs) == 1 && len(st.Lhs) == 2 {
					if ta, ok := ast.Unparen(st.Rhs[0]).(*ast.TypeAssertExpr); ok {
						if id, ok := st.Lhs[0].(*ast.Ident); ok {
							o := info.Defs[id]
							if o == nil {
								o = info.Uses[id]
							}
							if o != nil && add(o, eval(ta)) {
								ch = true
							}
						}
					}
					if ix, ok := ast.Unparen(st.Rhs[0]).(*ast.IndexExpr); ok { // v, ok := m[k]
						if id, ok := st.Lhs[0].(*ast.Ident); ok {
							o := info.Defs[id]
							if o == nil {
								o = info.Uses[id]
							}
							if o != nil && fa.nodeish(o.Type()) && add(o, eval(ix)) {
								ch = true
							}
						}
					}
				}
			case *ast.ValueSpec:
				for i, id := range st.Names {
					if i < len(st.Values) {
						if o := info.Defs[id]; o != nil && fa.nodeish(o.Type()) && add(o, eval(st.Values[i])) {
							ch = true
						}
					}
				}
			case *ast.RangeStmt:
				if id, ok := st.Value.(*ast.Ident); ok {
					o := info.Defs[id]
					if o == nil {
						o = info.Uses[id]
					}
					if o != nil && fa.nodeish(o.Type()) && add(o, ext(eval(st.X), "[*]")) {
						ch = true
					}
				}
			case *ast.TypeSwitchStmt:
				var x ast.Expr
				bound := false
				switch a := st.Assign.(type) {
				case *ast.AssignStmt:
					x = a.Rhs[0].(*ast.TypeAssertExpr).X
					bound = true
				case *ast.ExprStmt:
					x = a.X.(*ast.TypeAssertExpr).X
				}
				if !bound {
					return true
				}
				base := eval(x)
				for _, cc := range caseClauses(st.Body) {
					o := info.Implicits[cc]
					if o == nil {
						continue
					}
					if len(cc.List) == 1 {
						if tv := info.Types[cc.List[0]]; tv.IsType() {
							if add(o, ext(base, assertSeg(tv.Type))) {
								ch = true
							}
							continue
						}
					}
					if add(o, base) {
						ch = true
					}
				}
			}
			return true
		})
		if !ch {
			break
		}
	}
	// 2. call sites
	ast.Inspect(fn.Decl.Body, func(n ast.Node) bool {
		call, ok := n.(*ast.CallExpr)
		if !ok {
			return true
		}
		g := callee(info, call)
		if g == nil {
			return true
		}
		gsig := g.Type().(*types.Signature)
		for j, a := range call.Args {
			os := eval(a)
			if len(os) == 0 {
				continue
			}
			pj := j
			if gsig.Variadic() && j >= gsig.Params().Len()-1 {
				pj = gsig.Params().Len() - 1
			}
			if pj >= gsig.Params().Len() {
				continue
			}
			if fa.sinks[g] {
				for o := range os {
					fa.record(fn.Obj, o.param, o.path)
				}
				continue
			}
			sum := fa.summary[g][pj]
			if len(sum) == 0 {
				continue
			}
			ifaceParam := isIfaceOrAny(gsig.Params().At(pj).Type())
			for o := range os {
				for sp := range sum {
					if ifaceParam && sp != "" && !pureAssert(o.path) {
						continue
					}
					np := o.path
					okp := true
					if sp != "" {
						for _, seg := range strings.Split(sp, "|") {
							if np, okp = addSeg(np, seg); !okp {
								break
							}
						}
					}
					if okp {
						fa.record(fn.Obj, o.param, np)
					}
				}
			}
		}
		return true
	})
}

// lastFieldPairs returns the set of "T.f" that are the last field segment of some path.
func lastFieldPairs(paths map[string]bool) map[string]bool {
	out := map[string]bool{}
	for p := range paths {
		segs := strings.Split(p, "|")
		for i := len(segs) - 1; i >= 0; i-- {
			s := segs[i]
			if s == "[*]" || strings.HasPrefix(s, "(") || s == "" {
				continue
			}
			out[s] = true
			break
		}
	}
	return out
}

// anyFieldPairs returns every "T.f" appearing anywhere in some path (conduits included).
func anyFieldPairs(paths map[string]bool) map[string]bool {
	out := map[string]bool{}
	for p := range paths {
		for _, s := range strings.Split(p, "|") {
			if s == "[*]" || strings.HasPrefix(s, "(") || s == "" {
				continue
			}
			out[s] = true
		}
	}
	return out
}

func (fa *flowAnalysis) paramPaths(fn *Fn, paramName string) map[string]bool {
	sig := fn.Obj.Type().(*types.Signature)
	for i := 0; i < sig.Params().Len(); i++ {
		if sig.Params().At(i).Name() == paramName {
			return fa.summary[fn.Obj][i]
		}
	}
	return nil
}

// ---- node universes (A1) -----------------------------------------------------------------------

type nodeKind struct {
	Name   string
	Named  *types.Named
	Fields []nodeField // child fields
}
type nodeField struct {
	Name string
	Type types.Type
}

// builtKinds: struct types of package nodePkg that are constructed (composite literal) in the given packages.
func (c *Ctx) builtKinds(nodePkgRel string, builderPkgRels ...string) map[string]*types.Named {
	np := c.ByPath[Mod+"/"+nodePkgRel]
	out := map[string]*types.Named{}
	if np == nil {
		return out
	}
	for _, rel := range builderPkgRels {
		p := c.ByPath[Mod+"/"+rel]
		if p == nil {
			continue
		}
		for _, f := range p.Syntax {
			ast.Inspect(f, func(n ast.Node) bool {
				cl, ok := n.(*ast.CompositeLit)
				if !ok {
					return true
				}
				t := p.TypesInfo.TypeOf(cl)
				if n := namedOf(t); n != nil && n.Obj().Pkg() == np.Types {
					if _, isStruct := n.Underlying().(*types.Struct); isStruct {
						out[n.Obj().Name()] = n
					}
				}
				return true
			})
		}
	}
	return out
}

// childFields lists the fields of struct n whose type can hold a node of the universe: an interface
// of nodePkg, a pointer to a struct of nodePkg, or a slice of those (one level of named struct value allowed).
func (c *Ctx) childFields(n *types.Named, nodePkg *types.Package, isChild func(t types.Type) bool) []nodeField {
	st, ok := n.Underlying().(*types.Struct)
	if !ok {
		return nil
	}
	var out []nodeField
	for i := 0; i < st.NumFields(); i++ {
		f := st.Field(i)
		if isChild(f.Type()) {
			out = append(out, nodeField{f.Name(), f.Type()})
		}
	}
	return out
}

func sortedSet(m map[string]bool) []string {
	var out []string
	for k := range m {
		out = append(out, k)
	}
	sort.Strings(out)
	return out
}

// fieldsSet: the (struct, field) pairs of nodePkg that the builder packages ever initialise with a
// non-nil value (composite-literal key or assignment). A field the producer never sets cannot hold a child.
func (c *Ctx) fieldsSet(nodePkgRel string, builderPkgRels ...string) map[string]bool {
	np := c.ByPath[Mod+"/"+nodePkgRel]
	out := map[string]bool{}
	if np == nil {
		return out
	}
	for _, rel := range builderPkgRels {
		p := c.ByPath[Mod+"/"+rel]
		if p == nil {
			continue
		}
		info := p.TypesInfo
		for _, f := range p.Syntax {
			ast.Inspect(f, func(n ast.Node) bool {
				switch x := n.(type) {
				case *ast.CompositeLit:
					nt := namedOf(info.TypeOf(x))
					if nt == nil || nt.Obj().Pkg() != np.Types {
						return true
					}
					st, ok := nt.Underlying().(*types.Struct)
					if !ok {
						return true
					}
					for i, el := range x.Elts {
						if kv, ok := el.(*ast.KeyValueExpr); ok {
							if id, ok := kv.Key.(*ast.Ident); ok {
								if tv := info.Types[kv.Value]; !tv.IsNil() {
									out[nt.Obj().Name()+"."+id.Name] = true
								}
							}
						} else if i < st.NumFields() {
							out[nt.Obj().Name()+"."+st.Field(i).Name()] = true
						}
					}
				case *ast.AssignStmt:
					for i, l := range x.Lhs {
						sel, ok := ast.Unparen(l).(*ast.SelectorExpr)
						if !ok {
							continue
						}
						s := info.Selections[sel]
						if s == nil || s.Kind() != types.FieldVal {
							continue
						}
						nt := namedOf(s.Recv())
						if nt == nil || nt.Obj().Pkg() != np.Types {
							continue
						}
						if i < len(x.Rhs) {
							if tv := info.Types[x.Rhs[i]]; tv.IsNil() {
								continue
							}
						}
						out[nt.Obj().Name()+"."+sel.Sel.Name] = true
					}
				}
				return true
			})
		}
	}
	return out
}
