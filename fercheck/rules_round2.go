package main

// Rules added after the second round of seeded changes. Each encodes an invariant every current site follows.

import (
	"fmt"
	"go/ast"
	"go/token"
	"go/types"
	"strings"
)

func init() {
	lateInits = append(lateInits, func() {
		props["C05"].Quick = append(props["C05"].Quick, c05R7)
		props["C06"].Quick = append(props["C06"].Quick, c06R5)
		props["C04"].Quick = append(props["C04"].Quick, c04R7)
		props["C07"].Quick = append(props["C07"].Quick, c04R7)
		props["C08"].Quick = append(props["C08"].Quick, c04R7)
		props["C09"].Quick = append(props["C09"].Quick, c04R7, c09R5)
		props["C01"].Quick = append(props["C01"].Quick, c01R7)
		props["C10"].Quick = append(props["C10"].Quick, c01R7)
		props["C05"].Explanation += " (R7) a loop context for break/continue is installed only by the builders of for/while statements, so no break can leave a region the return analysis does not see."
		props["C06"].Explanation += " (R5) reference mutability (ReferenceType.Mutable) is read in the type checker only by the reviewed functions."
		props["C04"].Explanation += " (R7) the constant-tracking walk visits the initialiser of every declaration item and the right-hand side of every assignment on all paths (that walk is where `&'x` invalidates what is known about x)."
		props["C09"].Explanation += " (R5) the operands of a range loop are evaluated once: the lowered operand expressions only initialise the hidden loop variables."
		props["C01"].Explanation += " (R7) a function builder memoises instruction results only under keys that are declarations (symbol/identifier) or parameter names; a content-keyed memo must hold entry-block definitions."
	})
}

// C05.R7: who may install a loop context in the return-analysis CFG builder.
func c05R7(c *Ctx, r *Report) {
	const rule = "C05.R7"
	r.Describe(rule, "hir/analysis CFG builder: currentLoop is set to a new loopContext only in the builders of *hir.ForStmt / *hir.WhileStmt (other assignments restore a saved value)")
	n := 0
	for _, fn := range c.AllFns(pkgHIRAn) {
		info := fn.Info()
		ast.Inspect(fn.Decl.Body, func(x ast.Node) bool {
			as, ok := x.(*ast.AssignStmt)
			if !ok || len(as.Lhs) != 1 || len(as.Rhs) != 1 {
				return true
			}
			sel, ok := as.Lhs[0].(*ast.SelectorExpr)
			if !ok || sel.Sel.Name != "currentLoop" {
				return true
			}
			if f := fieldOf(info, sel); f == nil {
				return true
			}
			// restoring a saved value / nil is not an installation
			rhs := ast.Unparen(as.Rhs[0])
			isNew := false
			if u, ok := rhs.(*ast.UnaryExpr); ok && u.Op == token.AND {
				if _, ok := u.X.(*ast.CompositeLit); ok {
					isNew = true
				}
			}
			if cl, ok := rhs.(*ast.CallExpr); ok {
				_ = cl
				isNew = true
			}
			if !isNew {
				return true
			}
			n++
			loopBuilder := false
			sig := fn.Obj.Type().(*types.Signature)
			for i := 0; i < sig.Params().Len(); i++ {
				if nt := namedOf(sig.Params().At(i).Type()); nt != nil && (nt.Obj().Name() == "ForStmt" || nt.Obj().Name() == "WhileStmt") {
					loopBuilder = true
				}
			}
			r.Check(loopBuilder, rule, fn.Name(), "installs a loop context only for a loop statement", c.pos(as.Pos()),
				"a loop context is installed outside the builders of for/while: `break`/`continue` accepted under it leave the region along an edge that is not in the function's control-flow graph, so a non-void function can reach its end without the missing-return diagnostic")
			return true
		})
	}
	r.Floor(rule, n, 2, "loop-context installations")
}

var c06R5Reviewed = map[string]string{
	"checkTypeCompatibility":      "the one weakening &'T -> &T (value position) and exact match otherwise",
	"validateCallArgumentTypes":   "argument vs parameter: a &' parameter needs a &' argument",
	"checkAssignStmt":             "assignment through / to references: requires a mutable reference",
	"checkBuiltinAppend":          "append needs &'",
	"checkIncDecTarget":           "++/-- through a reference needs &'",
	"checkSelectorExpr":           "&'-receiver method call needs a mutable receiver",
	"findImmutableRefInChain":     "mutability gate helper: finds an immutable reference in the place chain",
	"immutableRefValueLoc":        "mutability gate helper: the type of an unnamed value in the place chain (call result, field, element)",
	"checkExpr":                   "type of a borrow expression",
	"TypeFromTypeNodeWithContext": "builds ReferenceType from the type syntax",
	"checkBorrowExpr":             "mutable borrow through an immutable reference is rejected",
	"checkMutability":             "mutability gate",
}

// C06.R5: who may read ReferenceType.Mutable in the type checker.
func c06R5(c *Ctx, r *Report) {
	const rule = "C06.R5"
	r.Describe(rule, "typechecker: ReferenceType.Mutable is read only in the reviewed functions (every other comparison of reference types goes through Equals / checkTypeCompatibility)")
	fld := c.fieldObj(pkgTypes, "ReferenceType", "Mutable")
	if !r.Anchor(rule, fld != nil, "types.ReferenceType.Mutable") {
		return
	}
	n := 0
	for _, fn := range c.AllFns(pkgTC) {
		info := fn.Info()
		reads := false
		var at token.Pos
		ast.Inspect(fn.Decl.Body, func(x ast.Node) bool {
			if sel, ok := x.(*ast.SelectorExpr); ok && info.Uses[sel.Sel] == fld {
				reads = true
				at = sel.Pos()
			}
			return true
		})
		if !reads {
			continue
		}
		n++
		_, ok := c06R5Reviewed[fn.Obj.Name()]
		r.Check(ok, rule, fn.Name(), "reads ReferenceType.Mutable (reviewed site)", c.pos(at),
			"a new place decides about reference mutability outside the reviewed gates: e.g. a function-type compatibility rule that lets fn(p: &'P) stand in for fn(p: &P) (parameters are contravariant) lets a callee write through an immutable reference without any diagnostic")
	}
	r.Floor(rule, n, 6, "functions reading ReferenceType.Mutable")
}

// C04.R7: the constant-tracking walk must visit initialisers and right-hand sides on every path.
func c04R7(c *Ctx, r *Report) {
	const rule = "C04.R7"
	r.Describe(rule, "hir/analysis const-eval walk: every declaration item's Value and every assignment's Rhs is walked on all paths (nil guards excepted)")
	walk := c.LookupFn(pkgHIRAn, "walkExprConstEval")
	if !r.Anchor(rule, walk != nil, "analysis.walkExprConstEval") {
		return
	}
	for _, s := range []struct{ fn, field string }{{"walkDeclItemsConstEval", "Value"}, {"walkAssignConstEval", "Rhs"}} {
		fn := c.LookupFn(pkgHIRAn, s.fn)
		if !r.Anchor(rule, fn != nil, "analysis."+s.fn) {
			continue
		}
		info := fn.Info()
		isWalk := func(n ast.Node) bool {
			return nodeCallsPred(n, func(cl *ast.CallExpr) bool {
				if !isCallTo(info, cl, walk.Obj) {
					return false
				}
				for _, a := range cl.Args {
					if strings.HasSuffix(exprStr(a), "."+s.field) {
						return true
					}
				}
				return false
			}) != nil
		}
		// region: the body of the loop over items (DeclItems) or the function body (Assign)
		var region *ast.BlockStmt = fn.Decl.Body
		ast.Inspect(fn.Decl.Body, func(x ast.Node) bool {
			if rs, ok := x.(*ast.RangeStmt); ok && s.field == "Value" && region == fn.Decl.Body {
				region = rs.Body
			}
			return true
		})
		// statements of the region in order: before the walk nothing may leave the region, except under a nil test
		type hit struct{ Pos token.Pos }
		var hits []hit
		walked := false
		for _, st := range region.List {
			if isWalk(st) {
				walked = true
				break
			}
			walkWithStack(st, func(n ast.Node, stack []ast.Node) bool {
				if _, isLit := n.(*ast.FuncLit); isLit {
					return false
				}
				leaves := false
				switch x := n.(type) {
				case *ast.ReturnStmt:
					leaves = true
				case *ast.BranchStmt:
					leaves = x.Tok == token.CONTINUE || x.Tok == token.BREAK || x.Tok == token.GOTO
				}
				if !leaves {
					return true
				}
				// allowed when guarded by a nil test (nothing to walk)
				for k := len(stack) - 1; k >= 0; k-- {
					if ifs, ok := stack[k].(*ast.IfStmt); ok {
						allNil := true
						for _, d := range disjuncts(ifs.Cond) {
							be, ok := isBinOp(d, token.EQL)
							if !ok || exprStr(be.Y) != "nil" {
								allNil = false
							}
						}
						if allNil {
							return true
						}
					}
				}
				hits = append(hits, hit{n.Pos()})
				return true
			})
		}
		if !walked {
			hits = append(hits, hit{region.Pos()})
		}
		where := c.pos(fn.Decl.Pos())
		if len(hits) > 0 && hits[0].Pos.IsValid() {
			where = c.pos(hits[0].Pos)
		}
		r.Check(len(hits) == 0, rule, fn.Name(), "walks ."+s.field+" on every path", where,
			"some path skips the walk of ."+s.field+": a `&'x` inside it no longer invalidates the compile-time value and literal length remembered for x, so after a write through the reference a later fixed-array index, range step or bounds check still uses the stale constant")
	}
}

// C09.R5: range operands are evaluated once.
func c09R5(c *Ctx, r *Report) {
	const rule = "C09.R5"
	r.Describe(rule, "hir/lower lowerRangeFor: the lowered start/end/step expressions are used only as initialisers of hidden loop variables (newVarDecl), never inside the per-iteration condition or increment")
	const pkgLower = "internal/hir/lower"
	fn := c.LookupFn(pkgLower, "(*Lowerer).lowerRangeFor")
	lowerExpr := c.LookupFn(pkgLower, "(*Lowerer).lowerExpr")
	nvd := c.LookupFn(pkgLower, "newVarDecl")
	if !r.Anchor(rule, fn != nil && lowerExpr != nil && nvd != nil, "hir/lower lowerRangeFor / lowerExpr / newVarDecl") {
		return
	}
	info := fn.Info()
	// operand variables: x := l.lowerExpr(rng.Start|End|Incr, …)
	opVars := map[types.Object]string{}
	ast.Inspect(fn.Decl.Body, func(x ast.Node) bool {
		as, ok := x.(*ast.AssignStmt)
		if !ok || len(as.Lhs) != 1 || len(as.Rhs) != 1 {
			return true
		}
		cl, ok := as.Rhs[0].(*ast.CallExpr)
		if !ok || !isCallTo(info, cl, lowerExpr.Obj) || len(cl.Args) < 1 {
			return true
		}
		a := exprStr(cl.Args[0])
		if strings.HasSuffix(a, ".Start") || strings.HasSuffix(a, ".End") || strings.HasSuffix(a, ".Incr") {
			if id, ok := as.Lhs[0].(*ast.Ident); ok {
				o := info.Defs[id]
				if o == nil {
					o = info.Uses[id]
				}
				if o != nil {
					opVars[o] = a
				}
			}
		}
		return true
	})
	r.Floor(rule, len(opVars), 3, "lowered range operands")
	for o, what := range opVars {
		bad := ""
		walkWithStack(fn.Decl.Body, func(n ast.Node, stack []ast.Node) bool {
			id, ok := n.(*ast.Ident)
			if !ok || info.Uses[id] != o {
				return true
			}
			// allowed: third argument of newVarDecl; the defining assignment's LHS is a Def, not a Use
			for i := len(stack) - 1; i >= 0; i-- {
				if cl, ok := stack[i].(*ast.CallExpr); ok {
					if isCallTo(info, cl, nvd.Obj) && len(cl.Args) >= 3 && ast.Unparen(cl.Args[2]) == ast.Expr(id) {
						return true
					}
					bad = exprStr(cl)
					return true
				}
				if as, ok := stack[i].(*ast.AssignStmt); ok {
					for _, l := range as.Lhs {
						if l == ast.Expr(id) {
							return true // being (re)defined, not used
						}
					}
					break
				}
			}
			if bad == "" {
				bad = "use outside newVarDecl"
			}
			return true
		})
		r.Check(bad == "", rule, fn.Name(), "operand "+what+" only initialises a hidden variable", c.pos(fn.Decl.Pos()),
			"the lowered operand "+what+" is also used in "+bad+": a bound or step written as a plain variable is then re-read on every iteration, so `for i in 0..n` whose body changes n behaves differently from the same loop with n copied into a constant first")
	}
}

// C01.R7: memo tables of instruction results in the function builder.
func c01R7(c *Ctx, r *Report) {
	const rule = "C01.R7"
	r.Describe(rule, "mir/gen functionBuilder: maps holding mir.ValueID are keyed by a declaration (*symbols.Symbol, *hir.Ident) or a parameter name; a content-keyed memo may only hold entry-block definitions")
	p := c.ByPath[Mod+"/"+pkgMIRGen]
	if !r.Anchor(rule, p != nil, "package mir/gen") {
		return
	}
	tn, _ := p.Types.Scope().Lookup("functionBuilder").(*types.TypeName)
	if !r.Anchor(rule, tn != nil, "mir/gen.functionBuilder") {
		return
	}
	st := tn.Type().Underlying().(*types.Struct)
	n := 0
	for i := 0; i < st.NumFields(); i++ {
		f := st.Field(i)
		mt, ok := f.Type().Underlying().(*types.Map)
		if !ok {
			continue
		}
		if nt := namedOf(mt.Elem()); nt == nil || nt.Obj().Name() != "ValueID" {
			continue
		}
		n++
		keyOK := false
		if pt, ok := mt.Key().(*types.Pointer); ok {
			if nt := namedOf(pt.Elem()); nt != nil && (nt.Obj().Name() == "Symbol" || nt.Obj().Name() == "Ident") {
				keyOK = true
			}
		}
		if f.Name() == "paramsByName" {
			keyOK = true
		}
		if keyOK {
			r.OK(rule, "mir/gen.functionBuilder", "field "+f.Name()+" keyed by a declaration / parameter name", "-", "binding made at the declaration, which dominates the uses")
			continue
		}
		// content-keyed: every stored value must come from an *InEntry emitter
		allEntry, nW := true, 0
		for _, fn := range c.AllFns(pkgMIRGen) {
			info := fn.Info()
			defs := localDefs(fn)
			ast.Inspect(fn.Decl.Body, func(x ast.Node) bool {
				as, ok := x.(*ast.AssignStmt)
				if !ok || len(as.Lhs) != 1 || len(as.Rhs) != 1 {
					return true
				}
				ix, ok := as.Lhs[0].(*ast.IndexExpr)
				if !ok {
					return true
				}
				sel, ok := ix.X.(*ast.SelectorExpr)
				if !ok || info.Uses[sel.Sel] != f {
					return true
				}
				nW++
				fromEntry := func(e ast.Expr) bool {
					cl, ok := ast.Unparen(e).(*ast.CallExpr)
					if !ok {
						return false
					}
					g := callee(info, cl)
					return g != nil && strings.HasSuffix(g.Name(), "InEntry")
				}
				ok2 := fromEntry(as.Rhs[0])
				if o := objOf(info, as.Rhs[0]); o != nil && len(defs[o]) > 0 {
					ok2 = true
					for _, d := range defs[o] {
						if !fromEntry(d) {
							ok2 = false
						}
					}
				}
				if !ok2 {
					allEntry = false
				}
				return true
			})
		}
		r.Check(allEntry && nW > 0, rule, "mir/gen.functionBuilder", "field "+f.Name()+": content-keyed memo holds only entry-block definitions", "-",
			fmt.Sprintf("the table %s reuses an instruction result by content (key type %s) wherever the same content occurs again, but the block that first materialised it need not dominate the later occurrence: on a path that skips the first occurrence (untaken branch, zero-iteration loop) the later one reads a slot that was never initialised", f.Name(), mt.Key().String()))
	}
	r.Floor(rule, n, 4, "ValueID tables of functionBuilder")
}

func init() {
	lateInits = append(lateInits, func() {
		props["C06"].Quick = append(props["C06"].Quick, c06R6)
		props["C06"].Explanation += " (R6) wherever the parameter types of two function types are handed to a compatibility relation, source and target are swapped (parameters are contravariant); today function types are compared by equality only."
	})
}

// C06.R6: parameters of function types are contravariant.
func c06R6(c *Ctx, r *Report) {
	const rule = "C06.R6"
	r.Describe(rule, "typechecker: a (source, target) compatibility call on the parameter types of two function types passes them swapped; none exists today (function types are compared with Equals)")
	n := 0
	paramTypeRoot := func(info *types.Info, e ast.Expr) types.Object {
		// X.Params[i].Type
		sel, ok := ast.Unparen(e).(*ast.SelectorExpr)
		if !ok || sel.Sel.Name != "Type" {
			return nil
		}
		ix, ok := sel.X.(*ast.IndexExpr)
		if !ok {
			return nil
		}
		ps, ok := ix.X.(*ast.SelectorExpr)
		if !ok || ps.Sel.Name != "Params" {
			return nil
		}
		if nt := namedOf(info.TypeOf(ps.X)); nt == nil || nt.Obj().Name() != "FunctionType" {
			return nil
		}
		return objOf(info, ps.X)
	}
	for _, fn := range c.AllFns(pkgTC) {
		info := fn.Info()
		sig := fn.Obj.Type().(*types.Signature)
		pos := func(o types.Object) int {
			for i := 0; i < sig.Params().Len(); i++ {
				if sig.Params().At(i) == o {
					return i
				}
			}
			return -1
		}
		for _, call := range callsIn(fn.Decl.Body, true) {
			if len(call.Args) < 2 {
				continue
			}
			f := callee(info, call)
			if f == nil {
				continue
			}
			rs := f.Type().(*types.Signature).Results()
			if rs.Len() != 1 {
				continue
			}
			if nt := namedOf(rs.At(0).Type()); nt == nil || nt.Obj().Name() != "TypeCompatibility" {
				if b, ok := rs.At(0).Type().Underlying().(*types.Basic); !ok || b.Kind() != types.Bool {
					continue
				}
			}
			r1, r2 := paramTypeRoot(info, call.Args[0]), paramTypeRoot(info, call.Args[1])
			if r1 == nil || r2 == nil || r1 == r2 {
				continue
			}
			n++
			p1, p2 := pos(r1), pos(r2)
			r.Check(p1 >= 0 && p2 >= 0 && p1 > p2, rule, fn.Name(), "parameter types compared contravariantly in "+exprStr(call.Fun), c.pos(call.Pos()),
				"the parameter types of two function types are related in the same direction as the function types themselves: fn(p: &'P) is then accepted where fn(p: &P) is expected, and a call through the value writes through an immutable reference (a const field, a &P parameter) without any diagnostic")
		}
	}
	r.OK(rule, "semantics/typechecker", "compatibility calls on function parameter types", "-", fmt.Sprintf("%d site(s); function types are otherwise compared with Equals", n))
}
