package main

// Round-5 rules: invariants behind the fifth batch of seeded changes and the defects found with it.

import (
	"go/ast"
	"go/token"
	"go/types"
	"strings"
)

func init() {
	lateInits = append(lateInits, func() {
		props["C03"].Quick = append(props["C03"].Quick, c03R20)
		props["C12"].Quick = append(props["C12"].Quick, c12R11, c12R12)
		props["C06"].Quick = append(props["C06"].Quick, c12R11)
		props["C09"].Quick = append(props["C09"].Quick, c09R9)
		props["C11"].Quick = append(props["C11"].Quick, c11R14)
		props["C14"].Quick = append(props["C14"].Quick, c14R10)
		props["C15"].Quick = append(props["C15"].Quick, c15R13)
		props["C19"].Quick = append(props["C19"].Quick, c19R11)
		// the run-time range check serves strings and dynamic arrays as well (since fixed-size arrays take only
		// compile-time indices it is reached from those alone)
		props["C08"].Quick = append(props["C08"].Quick, c04R4)
		props["C03"].Explanation += " (R20) a narrowing context is written only while it is being built: every store into NarrowedTypes goes through a local that NewNarrowingContext just made — the combinators for `&&`, `||` and joins never write into a context they were handed, which the caller may also hold as the context of another branch."
		props["C12"].Explanation += " (R11) lookupNamedTypeSymbol (type checker and MIR generation) consults the module recorded in the type before it answers from the current module's scope. (R12) the narrowed types of a branch are put on the symbols by a function that has deferred their restoration, and from there only the branch's block is checked: an application never encloses a second application in the same frame (restoration forgets the declared type)."
		props["C06"].Explanation += " (C12.R11) the method table consulted for the mutability of a receiver is the one of the module the type records, not that of a type of the same name in the current module."
		props["C09"].Explanation += " (R9) the embedded QBE's constant folder (fold.c visitins) gives an instruction a constant value only through opfold on two constant operands: an instruction with an operand that is not a constant is never folded (`x * 0.0` is -0.0 or NaN for some x)."
		props["C11"].Explanation += " (R14) where mir/gen loads through a reference with derefValueIfNeeded and discards the type it returns, the reference type is not used afterwards as the source type of a conversion."
		props["C14"].Explanation += " (R10) no package of the compiler calls a per-process source of variation (hash/maphash, math/rand, crypto/rand, time.Now/Since/Until, os.Getpid/Getppid/Hostname)."
		props["C15"].Explanation += " (R13) the slice a CompilerContext accessor returns without copying (the module order) is not sorted, appended to or assigned into by a caller."
		props["C19"].Explanation += " (R11) the parser gives a node its location when it builds it: no statement of package parser assigns to the Start/End of an existing location or replaces the Location of a node it was handed (attaching a doc comment leaves the declaration's extent alone)."
		props["C08"].Explanation += " (C04.R4) the shape of emitBoundsCheckedIndex — out of bounds iff adjusted < 0 or adjusted >= len, branch to a panic block that does not return — is checked for this property too."
	})
}

// ---- C03.R20 ----------------------------------------------------------------------------------------------

func c03R20(c *Ctx, r *Report) {
	const rule = "C03.R20"
	const pkgNarrow = "internal/semantics/narrowing"
	r.Describe(rule, "all packages: every write into NarrowingContext.NarrowedTypes (index assignment, delete, or a call of a method that does one) has as its context a local variable all of whose definitions are NewNarrowingContext(…) calls")
	field := c.fieldObj(pkgNarrow, "NarrowingContext", "NarrowedTypes")
	ctor := c.LookupFn(pkgNarrow, "NewNarrowingContext")
	if !r.Anchor(rule, field != nil && ctor != nil, "narrowing.NarrowingContext.NarrowedTypes / NewNarrowingContext") {
		return
	}
	// direct writes in a function body: returns the context expressions written through
	directWrites := func(info *types.Info, body ast.Node) []ast.Expr {
		var out []ast.Expr
		ast.Inspect(body, func(x ast.Node) bool {
			switch y := x.(type) {
			case *ast.AssignStmt:
				for _, l := range y.Lhs {
					if ix, ok := ast.Unparen(l).(*ast.IndexExpr); ok {
						if sel, ok := ast.Unparen(ix.X).(*ast.SelectorExpr); ok && fieldOf(info, sel) == field {
							out = append(out, sel.X)
						}
					}
				}
			case *ast.CallExpr:
				if id, ok := y.Fun.(*ast.Ident); ok && (id.Name == "delete" || id.Name == "clear") && len(y.Args) >= 1 {
					if sel, ok := ast.Unparen(y.Args[0]).(*ast.SelectorExpr); ok && fieldOf(info, sel) == field {
						out = append(out, sel.X)
					}
				}
			}
			return true
		})
		return out
	}
	// mutating methods: methods of NarrowingContext that write through their receiver
	mutators := map[*types.Func]bool{}
	for _, fn := range c.AllFns(pkgNarrow) {
		sig := fn.Obj.Type().(*types.Signature)
		if sig.Recv() == nil || fn.Decl.Body == nil {
			continue
		}
		for _, e := range directWrites(fn.Info(), fn.Decl.Body) {
			if objOf(fn.Info(), e) == sig.Recv() {
				mutators[fn.Obj] = true
			}
		}
	}
	if !r.Anchor(rule, len(mutators) > 0, "a method of NarrowingContext that stores into NarrowedTypes") {
		return
	}
	n := 0
	isFresh := func(fn *Fn, e ast.Expr) bool {
		info := fn.Info()
		o := objOf(info, e)
		v, ok := o.(*types.Var)
		defs := localDefs(fn)[o]
		if !ok || v.IsField() || isParamOf(fn, o) || len(defs) == 0 {
			return false
		}
		for _, d := range defs {
			cl, ok := ast.Unparen(d).(*ast.CallExpr)
			if !ok || !isCallTo(info, cl, ctor.Obj) {
				return false
			}
		}
		return true
	}
	// fillers: functions that write into a context parameter; the obligation moves to their call sites
	type filler struct {
		fn  *Fn
		idx int
	}
	var fillers []filler
	for _, p := range c.Pkgs {
		for _, fn := range c.AllFns(relOf(p.PkgPath)) {
			if fn.Decl.Body == nil || mutators[fn.Obj] {
				continue
			}
			info := fn.Info()
			defs := localDefs(fn)
			type site struct {
				ctx ast.Expr
				pos token.Pos
			}
			var sites []site
			for _, e := range directWrites(info, fn.Decl.Body) {
				sites = append(sites, site{e, e.Pos()})
			}
			for _, cl := range callsIn(fn.Decl.Body, true) {
				if f := callee(info, cl); f != nil && mutators[f] {
					if sel, ok := cl.Fun.(*ast.SelectorExpr); ok {
						sites = append(sites, site{sel.X, cl.Pos()})
					}
				}
			}
			_ = defs
			for _, s := range sites {
				n++
				o := objOf(info, s.ctx)
				if o != nil && isParamOf(fn, o) && fn.Obj.Type().(*types.Signature).Recv() == nil {
					sig := fn.Obj.Type().(*types.Signature)
					for i := 0; i < sig.Params().Len(); i++ {
						if sig.Params().At(i) == o {
							known := false
							for _, f := range fillers {
								if f.fn == fn && f.idx == i {
									known = true
								}
							}
							if !known {
								fillers = append(fillers, filler{fn, i})
							}
						}
					}
					continue
				}
				fresh := isFresh(fn, s.ctx)
				r.Check(fresh, rule, fn.Name(), "write into the narrowing context "+exprStr(s.ctx), c.pos(s.pos),
					"a narrowing context that was not created here is modified in place: the analysis hands the same context object to several branches (a condition that narrows nothing returns its parent as both the then- and the else-context), so a fact added for one branch shows up in the others — `else if plain && x != none || …` then accepts an `i32?` where an `i32` is required")
			}
		}
	}
	for _, f := range fillers {
		sites := 0
		for _, p := range c.Pkgs {
			for _, caller := range c.AllFns(relOf(p.PkgPath)) {
				if caller.Decl.Body == nil {
					continue
				}
				for _, cl := range callsIn(caller.Decl.Body, true) {
					if !isCallTo(caller.Info(), cl, f.fn.Obj) || len(cl.Args) <= f.idx {
						continue
					}
					sites++
					n++
					r.Check(isFresh(caller, cl.Args[f.idx]), rule, caller.Name(), "context "+exprStr(cl.Args[f.idx])+" handed to "+f.fn.Obj.Name()+", which writes into it", c.pos(cl.Pos()),
						"a narrowing context that was not created here is handed to a function that modifies it in place: the same context object may be the context of another branch (a condition that narrows nothing returns its parent as both the then- and the else-context), so a fact added for one branch shows up in the others — `else if plain && x != none || …` then accepts an `i32?` where an `i32` is required")
				}
			}
		}
		r.Check(sites > 0, rule, f.fn.Name(), "a function that fills a context parameter has call sites", c.pos(f.fn.Decl.Pos()), "no call site found to carry the obligation")
	}
	r.Floor(rule, n, 10, "writes into narrowing contexts")
}

// ---- C12.R11 ----------------------------------------------------------------------------------------------

func c12R11(c *Ctx, r *Report) {
	const rule = "C12.R11"
	r.Describe(rule, "typechecker.lookupNamedTypeSymbol and mir/gen.(*Generator).lookupNamedTypeSymbol: every look-up of named.Name that answers from the current module (a call handed the current module, or GetSymbol/Lookup on one of its scopes) is reached only on paths that have evaluated a condition on named.Module")
	n := 0
	for _, spec := range []struct{ pkg, name string }{{pkgTC, "lookupNamedTypeSymbol"}, {pkgMIRGen, "(*Generator).lookupNamedTypeSymbol"}} {
		fn := c.LookupFn(spec.pkg, spec.name)
		if !r.Anchor(rule, fn != nil && fn.Decl.Body != nil, spec.pkg+"."+spec.name) {
			continue
		}
		info := fn.Info()
		sig := fn.Obj.Type().(*types.Signature)
		var named *types.Var
		for i := 0; i < sig.Params().Len(); i++ {
			if nt := namedOf(sig.Params().At(i).Type()); nt != nil && nt.Obj().Name() == "NamedType" {
				named = sig.Params().At(i)
			}
		}
		if !r.Anchor(rule, named != nil, fn.Name()+": a *types.NamedType parameter") {
			continue
		}
		mentions := func(x ast.Node, field string) bool {
			hit := false
			ast.Inspect(x, func(y ast.Node) bool {
				if sel, ok := y.(*ast.SelectorExpr); ok && sel.Sel.Name == field && objOf(info, sel.X) == named {
					hit = true
				}
				return true
			})
			return hit
		}
		// the module other look-ups are rooted in: any *context_v2.Module typed expression that is not a local
		// defined from GetModule(named.Module)
		foreign := map[types.Object]bool{}
		ast.Inspect(fn.Decl.Body, func(x ast.Node) bool {
			as, ok := x.(*ast.AssignStmt)
			if !ok || len(as.Rhs) != 1 {
				return true
			}
			if cl, ok := ast.Unparen(as.Rhs[0]).(*ast.CallExpr); ok {
				if f := callee(info, cl); f != nil && f.Name() == "GetModule" && len(cl.Args) == 1 && mentions(cl.Args[0], "Module") {
					if o := objOf(info, as.Lhs[0]); o != nil {
						foreign[o] = true
					}
				}
			}
			return true
		})
		rootedInForeign := func(e ast.Expr) bool {
			hit := false
			ast.Inspect(e, func(y ast.Node) bool {
				if id, ok := y.(*ast.Ident); ok && foreign[info.Uses[id]] {
					hit = true
				}
				return true
			})
			return hit
		}
		isTarget := func(x ast.Node) bool {
			found := false
			inspectShallow(x, func(y ast.Node) bool {
				cl, ok := y.(*ast.CallExpr)
				if !ok {
					return true
				}
				usesName := false
				for _, a := range cl.Args {
					if mentions(a, "Name") {
						usesName = true
					}
				}
				if usesName && !rootedInForeign(cl.Fun) {
					found = true
				}
				return true
			})
			return found
		}
		hits := mustFlow(c.CFG(fn), FlowSpec{
			Gate:   func(x ast.Node) bool { return mentions(x, "Module") },
			Target: isTarget,
		})
		n++
		pos := fn.Decl.Pos()
		if len(hits) > 0 {
			pos = hits[0].Pos
		}
		r.Check(len(hits) == 0, rule, fn.Name(), "the module a named type records is consulted before the current module answers", c.pos(pos),
			"a type is looked up by its bare name in the current module before the module it was declared in has been looked at: a value of another module's type `Counter` used in a module that declares its own `Counter` gets the local type's symbol — its method table decides whether `c.Inc()` needs a mutable `c`, so a constant is mutated through the foreign `&'`-receiver method, and private-field guards ask the wrong declaration")
	}
	r.Floor(rule, n, 2, "lookupNamedTypeSymbol implementations")
}

// ---- C12.R12 ----------------------------------------------------------------------------------------------

func c12R12(c *Ctx, r *Report) {
	const rule = "C12.R12"
	r.Describe(rule, "typechecker: a function in whose frame narrowed types are put on symbols (it assigns a non-nil Symbol.OriginalType, or calls a helper that only does that) has `defer restoreSymbolTypes(…)()` before it, and after it calls no function that applies narrowed types in its own frame")
	orig := c.fieldObj(pkgSymbols, "Symbol", "OriginalType")
	restore := c.LookupFn(pkgTC, "restoreSymbolTypes")
	if !r.Anchor(rule, orig != nil && restore != nil, "Symbol.OriginalType / typechecker.restoreSymbolTypes") {
		return
	}
	// position of the first non-nil assignment to OriginalType in fn, outside function literals
	applyPos := func(fn *Fn) token.Pos {
		var pos token.Pos
		info := fn.Info()
		ast.Inspect(fn.Decl.Body, func(x ast.Node) bool {
			if _, ok := x.(*ast.FuncLit); ok {
				return false
			}
			as, ok := x.(*ast.AssignStmt)
			if !ok || len(as.Lhs) != 1 || len(as.Rhs) != 1 {
				return true
			}
			if sel, ok := ast.Unparen(as.Lhs[0]).(*ast.SelectorExpr); ok && fieldOf(info, sel) == orig {
				if tv, ok := info.Types[as.Rhs[0]]; ok && !tv.IsNil() && pos == token.NoPos {
					pos = as.Pos()
				}
			}
			return true
		})
		return pos
	}
	hasDeferredRestore := func(fn *Fn, before token.Pos) bool {
		found := false
		ast.Inspect(fn.Decl.Body, func(x ast.Node) bool {
			d, ok := x.(*ast.DeferStmt)
			if !ok || d.Pos() > before {
				return true
			}
			if inner, ok := ast.Unparen(d.Call.Fun).(*ast.CallExpr); ok && isCallTo(fn.Info(), inner, restore.Obj) {
				found = true
			}
			return true
		})
		return found
	}
	writers := map[*types.Func]*Fn{}
	for _, fn := range c.AllFns(pkgTC) {
		if fn.Decl.Body != nil && fn.Obj != restore.Obj && applyPos(fn) != token.NoPos {
			writers[fn.Obj] = fn
		}
	}
	if !r.Anchor(rule, len(writers) > 0, "a function that records Symbol.OriginalType") {
		return
	}
	// frames: a writer that defers the restoration itself is a frame; one that does not is a helper, and its
	// callers are the frames
	type frame struct {
		fn  *Fn
		pos token.Pos
	}
	var frames []frame
	helpers := map[*types.Func]bool{}
	for _, w := range writers {
		if hasDeferredRestore(w, applyPos(w)) {
			frames = append(frames, frame{w, applyPos(w)})
		} else {
			helpers[w.Obj] = true
		}
	}
	for _, fn := range c.AllFns(pkgTC) {
		if fn.Decl.Body == nil || writers[fn.Obj] != nil {
			continue
		}
		for _, cl := range callsIn(fn.Decl.Body, false) {
			if f := callee(fn.Info(), cl); f != nil && helpers[f] {
				frames = append(frames, frame{fn, cl.Pos()})
				break
			}
		}
	}
	appliers := map[*types.Func]bool{}
	for _, f := range frames {
		appliers[f.fn.Obj] = true
	}
	for h := range helpers {
		appliers[h] = true
	}
	n := 0
	for _, f := range frames {
		n++
		info := f.fn.Info()
		r.Check(hasDeferredRestore(f.fn, f.pos), rule, f.fn.Name(), "restoration is deferred before the narrowed types are applied", c.pos(f.pos),
			"narrowed types are put on the symbols without a deferred restoreSymbolTypes in the same frame: the narrowing outlives the branch it belongs to")
		bad := ""
		var badPos token.Pos = f.pos
		for _, cl := range callsIn(f.fn.Decl.Body, false) {
			if cl.Pos() <= f.pos {
				continue
			}
			if g := callee(info, cl); g != nil && appliers[g] && !helpers[g] {
				bad, badPos = g.Name(), cl.Pos()
				break
			}
		}
		r.Check(bad == "", rule, f.fn.Name(), "no second application inside the applied region", c.pos(badPos),
			"while narrowed types are on the symbols this frame calls "+bad+", which applies narrowed types again and, on its way out, resets Symbol.OriginalType to nil: from then on the narrowed type counts as the declared one — a method on `union { lib::Account, i32 }` whose third else-if arm reads `h.balance` passes the receiver test that protects private fields")
	}
	r.Floor(rule, n, 1, "frames that apply narrowed types")
}

// ---- C09.R9 -----------------------------------------------------------------------------------------------

func c09R9(c *Ctx, r *Report) {
	const rule = "C09.R9"
	r.Describe(rule, "qbe/fold.c visitins(): every value assigned to the lattice variable is Bot, Top or the result of opfold(…); the opfold call is the last alternative after tests of both operands against Bot and against Top")
	cf := cLoad(c, r, rule, "qbe/fold.c")
	if cf == nil {
		return
	}
	fn := cf.Funcs["visitins"]
	if !r.Anchor(rule, fn != nil && fn.Body() != nil, "qbe/fold.c:visitins") {
		return
	}
	// the lattice variable: the first argument ... of update(i->to.val, v, fn)
	lat := ""
	fn.Walk(func(x *CNode) bool {
		if x.Kind == "CallExpr" && x.Callee() == "update" && len(x.Args()) >= 2 {
			lat = strings.TrimSpace(x.Args()[1].Src())
		}
		return true
	})
	if !r.Anchor(rule, lat != "", "visitins: update(…, v, fn)") {
		return
	}
	n, folds := 0, 0
	fn.Walk(func(x *CNode) bool {
		if x.Kind != "BinaryOperator" || x.Opcode != "=" || len(x.Inner) != 2 || strings.TrimSpace(x.Inner[0].Src()) != lat {
			return true
		}
		n++
		rhs := strings.TrimSpace(x.Inner[1].Src())
		isFold := strings.HasPrefix(rhs, "opfold(")
		if isFold {
			folds++
			// enclosing ifs: conditions must include l==Bot||r==Bot and l==Top||r==Top, and we sit in their else
			bot, top := false, false
			for p := x.Parent; p != nil && p != fn; p = p.Parent {
				if p.Kind == "IfStmt" && len(p.Inner) >= 3 {
					cond := strings.ReplaceAll(p.Inner[0].Src(), " ", "")
					inElse := false
					p.Inner[2].Walk(func(y *CNode) bool {
						if y == x {
							inElse = true
						}
						return true
					})
					if inElse && strings.Count(cond, "==Bot") == 2 && strings.Contains(cond, "||") {
						bot = true
					}
					if inElse && strings.Count(cond, "==Top") == 2 && strings.Contains(cond, "||") {
						top = true
					}
				}
			}
			r.Check(bot && top, rule, "qbe/fold.c:visitins", "opfold runs only when neither operand is Bot or Top", c.cpos(cf, x),
				"the constant folder is applied to an instruction one of whose operands is not a known constant")
			return true
		}
		r.Check(rhs == "Bot" || rhs == "Top", rule, "qbe/fold.c:visitins", "lattice value "+rhs, c.cpos(cf, x),
			"an instruction gets a lattice value that is neither Bot, Top nor the fold of two constants: a rule such as `x * 0 = 0` is applied to every class, and for floats it is wrong (`-3.0 * 0.0` is -0.0, `inf * 0.0` is NaN) — the program with the literal prints 0.0 where the one with a call prints -0.0")
		return true
	})
	r.Floor(rule, n, 3, "assignments to the lattice value in visitins")
	r.Floor(rule, folds, 1, "opfold calls in visitins")
}

// ---- C11.R14 ----------------------------------------------------------------------------------------------

func c11R14(c *Ctx, r *Report) {
	const rule = "C11.R14"
	r.Describe(rule, "mir/gen: after `v, _ = b.derefValueIfNeeded(v, T, …)` (returned type discarded) the type expression T is not passed as the source type of widenNumericValue / castValue / coerceValueForAssign / boxUnionValue later in the function")
	deref := c.LookupFn(pkgMIRGen, "(*functionBuilder).derefValueIfNeeded")
	if !r.Anchor(rule, deref != nil, "mir/gen.derefValueIfNeeded") {
		return
	}
	fromTypeArg := map[string]int{"widenNumericValue": 1, "castValue": 1, "coerceValueForAssign": 1, "boxUnionValue": 1}
	n := 0
	for _, fn := range c.AllFns(pkgMIRGen) {
		if fn.Decl.Body == nil {
			continue
		}
		info := fn.Info()
		ast.Inspect(fn.Decl.Body, func(x ast.Node) bool {
			as, ok := x.(*ast.AssignStmt)
			if !ok || len(as.Lhs) != 2 || len(as.Rhs) != 1 {
				return true
			}
			cl, ok := ast.Unparen(as.Rhs[0]).(*ast.CallExpr)
			if !ok || !isCallTo(info, cl, deref.Obj) || len(cl.Args) < 2 {
				return true
			}
			if id, ok := as.Lhs[1].(*ast.Ident); !ok || id.Name != "_" {
				return true
			}
			n++
			tv := objOf(info, cl.Args[1])
			bad := ""
			var badPos token.Pos = as.Pos()
			if tv != nil {
				// reassigned in between? then the later use sees another type
				for _, later := range callsIn(fn.Decl.Body, true) {
					if later.Pos() <= as.End() {
						continue
					}
					f := callee(info, later)
					if f == nil {
						continue
					}
					idx, ok := fromTypeArg[f.Name()]
					if !ok || len(later.Args) <= idx || objOf(info, later.Args[idx]) != tv {
						continue
					}
					redefined := false
					ast.Inspect(fn.Decl.Body, func(y ast.Node) bool {
						if a2, ok := y.(*ast.AssignStmt); ok && a2.Pos() > as.End() && a2.End() < later.Pos() {
							for _, l := range a2.Lhs {
								if objOf(info, l) == tv {
									redefined = true
								}
							}
						}
						return true
					})
					if !redefined {
						bad, badPos = f.Name(), later.Pos()
						break
					}
				}
			}
			r.Check(bad == "", rule, fn.Name(), "type "+exprStr(cl.Args[1])+" after a dereference that discards the referent type", c.pos(badPos),
				"the value was loaded through the reference but "+bad+" is still given the reference type as its source: it sees no numeric source and converts nothing — an `&i32` argument for an `i64` parameter is passed as the bare 32-bit word (`wide(r)` with *r == -5 prints 4294967291)")
			return true
		})
	}
	r.Floor(rule, n, 2, "dereferences that discard the referent type")
}

// ---- C14.R10 ----------------------------------------------------------------------------------------------

func c14R10(c *Ctx, r *Report) {
	const rule = "C14.R10"
	r.Describe(rule, "all non-test packages: no call of a function of hash/maphash, math/rand, math/rand/v2 or crypto/rand, of time.Now/Since/Until, or of os.Getpid/Getppid/Hostname")
	banned := func(f *types.Func) bool {
		if f == nil || f.Pkg() == nil {
			return false
		}
		switch f.Pkg().Path() {
		case "hash/maphash", "math/rand", "math/rand/v2", "crypto/rand":
			return true
		case "time":
			return f.Name() == "Now" || f.Name() == "Since" || f.Name() == "Until"
		case "os":
			return f.Name() == "Getpid" || f.Name() == "Getppid" || f.Name() == "Hostname"
		}
		return false
	}
	n, calls := 0, 0
	for _, p := range c.Pkgs {
		for _, fn := range c.AllFns(relOf(p.PkgPath)) {
			if fn.Decl.Body == nil {
				continue
			}
			n++
			for _, cl := range callsIn(fn.Decl.Body, true) {
				calls++
				if f := callee(fn.Info(), cl); banned(f) {
					r.Fail(rule, fn.Name(), "call of "+f.Pkg().Path()+"."+f.Name(), c.pos(cl.Pos()),
						"a value that differs from one compiler process to the next enters the compilation: whatever it reaches (a generated name, a hash that orders something) differs between two runs on the same input — with a maphash seed in the literal-name scope every module containing a function literal gets different IL on every run")
				}
			}
		}
		// package-level initialisers
		for _, f := range p.Syntax {
			for _, d := range f.Decls {
				gd, ok := d.(*ast.GenDecl)
				if !ok || gd.Tok != token.VAR {
					continue
				}
				for _, cl := range callsIn(gd, true) {
					if fobj := callee(p.TypesInfo, cl); banned(fobj) {
						r.Fail(rule, relOf(p.PkgPath), "package-level initialiser calls "+fobj.Pkg().Path()+"."+fobj.Name(), c.pos(cl.Pos()),
							"a per-process value is computed when the compiler starts and kept in a package variable")
					}
				}
			}
		}
	}
	r.Floor(rule, n, 500, "function bodies scanned for per-process sources")
	r.Note("C14.R10 scanned %d functions, %d calls; expected count of banned calls: 0", n, calls)
	r.OK(rule, "all packages", "no per-process source of variation is called", "-", "scanned")
}

// ---- C15.R13 ----------------------------------------------------------------------------------------------

// c15R13Reviewed: functions that modify an accessor's slice and are known not to run during a compilation.
var c15R13Reviewed = map[string]string{
	"pipeline.(*Pipeline).PrintSummary": "has no caller in the module (asserted below); it would run after every phase",
}

func c15R13(c *Ctx, r *Report) {
	const rule = "C15.R13"
	r.Describe(rule, "all packages: a slice obtained from a CompilerContext method that returns one of the context's slice fields uncopied is not passed to sort.*/slices.Sort*/slices.Reverse, not the first argument of append, and no element of it is assigned")
	exposing := map[*types.Func]string{}
	for _, fn := range c.AllFns("internal/context_v2") {
		sig := fn.Obj.Type().(*types.Signature)
		if sig.Recv() == nil || fn.Decl.Body == nil || sig.Results().Len() != 1 {
			continue
		}
		if _, isSlice := sig.Results().At(0).Type().Underlying().(*types.Slice); !isSlice {
			continue
		}
		if nt := namedOf(sig.Recv().Type()); nt == nil || nt.Obj().Name() != "CompilerContext" {
			continue
		}
		info := fn.Info()
		ast.Inspect(fn.Decl.Body, func(x ast.Node) bool {
			ret, ok := x.(*ast.ReturnStmt)
			if !ok || len(ret.Results) != 1 {
				return true
			}
			if sel, ok := ast.Unparen(ret.Results[0]).(*ast.SelectorExpr); ok && fieldOf(info, sel) != nil && objOf(info, sel.X) == sig.Recv() {
				exposing[fn.Obj] = sel.Sel.Name
			}
			return true
		})
	}
	if !r.Anchor(rule, len(exposing) > 0, "a CompilerContext accessor that returns a slice field uncopied") {
		return
	}
	callersOf := func(name string) int {
		k := 0
		for _, p := range c.Pkgs {
			for _, fn := range c.AllFns(relOf(p.PkgPath)) {
				if fn.Decl.Body == nil {
					continue
				}
				for _, cl := range callsIn(fn.Decl.Body, true) {
					if f := callee(fn.Info(), cl); f != nil && funcKey(f) == name {
						k++
					}
				}
			}
		}
		return k
	}
	isMutator := func(f *types.Func) bool {
		if f == nil || f.Pkg() == nil {
			return false
		}
		switch f.Pkg().Path() {
		case "sort":
			return true
		case "slices":
			return strings.HasPrefix(f.Name(), "Sort") || f.Name() == "Reverse"
		}
		return false
	}
	n := 0
	for _, p := range c.Pkgs {
		for _, fn := range c.AllFns(relOf(p.PkgPath)) {
			if fn.Decl.Body == nil {
				continue
			}
			info := fn.Info()
			isExposed := func(e ast.Expr) (string, bool) { // e is a call of an exposing accessor, or a local defined only by one
				e = ast.Unparen(e)
				if cl, ok := e.(*ast.CallExpr); ok {
					if f := callee(info, cl); f != nil && exposing[f] != "" {
						return f.Name(), true
					}
					return "", false
				}
				o := objOf(info, e)
				if o == nil {
					return "", false
				}
				name := ""
				for _, d := range localDefs(fn)[o] {
					cl, ok := ast.Unparen(d).(*ast.CallExpr)
					if !ok {
						continue
					}
					if f := callee(info, cl); f != nil && exposing[f] != "" {
						name = f.Name()
					}
				}
				return name, name != ""
			}
			used := false
			for _, cl := range callsIn(fn.Decl.Body, true) {
				if f := callee(info, cl); f != nil && exposing[f] != "" {
					used = true
				}
			}
			if !used {
				continue
			}
			n++
			bad := ""
			var badPos token.Pos = fn.Decl.Pos()
			ast.Inspect(fn.Decl.Body, func(x ast.Node) bool {
				switch y := x.(type) {
				case *ast.CallExpr:
					if isMutator(callee(info, y)) && len(y.Args) >= 1 {
						if acc, ok := isExposed(y.Args[0]); ok {
							bad, badPos = exprStr(y.Fun)+" on the result of "+acc, y.Pos()
						}
					}
					if id, ok := y.Fun.(*ast.Ident); ok && id.Name == "append" && len(y.Args) >= 1 {
						if acc, ok := isExposed(y.Args[0]); ok {
							bad, badPos = "append to the result of "+acc, y.Pos()
						}
					}
				case *ast.AssignStmt:
					for _, l := range y.Lhs {
						if ix, ok := ast.Unparen(l).(*ast.IndexExpr); ok {
							if acc, ok := isExposed(ix.X); ok {
								bad, badPos = "element assignment into the result of "+acc, y.Pos()
							}
						}
					}
				}
				return true
			})
			if reason, ok := c15R13Reviewed[fn.Name()]; ok && bad != "" {
				k := callersOf(fn.Name())
				r.Check(k == 0, rule, fn.Name(), "reviewed: "+bad, c.pos(badPos), "the reviewed exemption ("+reason+") no longer holds: the function now has callers")
				continue
			}
			r.Check(bad == "", rule, fn.Name(), "the context's module order is read, not modified", c.pos(badPos),
				bad+": the accessor returns the context's own slice, so the caller reorders the order every later phase walks the modules in — sorted by name, an importer is type-checked before the module it imports (`cannot use type 'Point' as type 'unknown'` on an acyclic project in which `geo/area` imports `geo/point`)")
		}
	}
	r.Floor(rule, n, 5, "functions that read an uncopied context slice")
}

// ---- C19.R11 ----------------------------------------------------------------------------------------------

func c19R11(c *Ctx, r *Report) {
	const rule = "C19.R11"
	const pkgParser = "internal/frontend/parser"
	r.Describe(rule, "parser: no assignment to a Start/End field of a source.Location, and none to the Location field of a node that is a parameter of the function or was obtained from one; a node's Location field is assigned only on a local the function built itself (composite literal)")
	locT := c.lookupType("internal/source", "Location")
	if !r.Anchor(rule, locT != nil, "source.Location") {
		return
	}
	isLoc := func(t types.Type) bool {
		nt := namedOf(t)
		return nt != nil && nt.Obj() == locT
	}
	n, writes := 0, 0
	for _, fn := range c.AllFns(pkgParser) {
		if fn.Decl.Body == nil {
			continue
		}
		n++
		info := fn.Info()
		defs := localDefs(fn)
		ast.Inspect(fn.Decl.Body, func(x ast.Node) bool {
			as, ok := x.(*ast.AssignStmt)
			if !ok {
				return true
			}
			for _, l := range as.Lhs {
				sel, ok := ast.Unparen(l).(*ast.SelectorExpr)
				if !ok {
					continue
				}
				f := fieldOf(info, sel)
				if f == nil {
					continue
				}
				baseT := info.TypeOf(sel.X)
				switch {
				case (f.Name() == "Start" || f.Name() == "End") && baseT != nil && isLoc(baseT):
					writes++
					r.Fail(rule, fn.Name(), "assignment to "+exprStr(sel), c.pos(as.Pos()),
						"the extent of a node that already exists is changed after it was built: diagnostics labelled with the node then point to where the extent was moved — with a declaration's start moved to its doc comment, `redeclaration of 'greet'` is reported at the comment line (7:1) instead of at `fn` (8:1), and a comment inserted before the declaration moves the report")
				case isLoc(f.Type()):
					writes++
					// the node must be a local built here
					o := objOf(info, sel.X)
					fresh := false
					if v, ok := o.(*types.Var); ok && !v.IsField() && !isParamOf(fn, o) && len(defs[o]) > 0 {
						fresh = true
						for _, d := range defs[o] {
							d = ast.Unparen(d)
							if u, ok := d.(*ast.UnaryExpr); ok && u.Op == token.AND {
								d = u.X
							}
							if _, ok := d.(*ast.CompositeLit); !ok {
								fresh = false
							}
						}
					}
					r.Check(fresh, rule, fn.Name(), "assignment to "+exprStr(sel), c.pos(as.Pos()),
						"the location of a node this function did not build is replaced")
				}
			}
			return true
		})
	}
	r.Floor(rule, n, 50, "parser functions")
	r.Note("C19.R11 scanned %d parser functions, %d location writes", n, writes)
}

// ---- C18.R12: the layout never falls back to the packed size of a composite type -------------------------------

func init() {
	lateInits = append(lateInits, func() {
		props["C18"].Quick = append(props["C18"].Quick, c18R12)
		props["C18"].Explanation += " (R12) DataLayout.SizeOf has a clause of its own for every semantic type whose Size() adds up the Size() of component types (struct, union, optional, result, fixed array): the `default: tt.Size()` clause, which knows nothing of padding, is reached by leaf types only."
	})
}

// c18R12Reviewed: composite types that never reach the type switch of SizeOf.
var c18R12Reviewed = map[string]string{
	"NamedType": "types.UnwrapType, applied before the switch, replaces a named type by its underlying type",
}

func c18R12(c *Ctx, r *Report) {
	const rule = "C18.R12"
	const pkgTypes = "internal/types"
	r.Describe(rule, "mir.DataLayout.SizeOf: every type of package types whose Size() method calls Size() on a value other than its own receiver has a case clause in SizeOf's type switch (types removed by UnwrapType excepted)")
	sizeOf := c.LookupFn("internal/mir", "(*DataLayout).SizeOf")
	if !r.Anchor(rule, sizeOf != nil && sizeOf.Decl.Body != nil, "mir.(*DataLayout).SizeOf") {
		return
	}
	handled := map[string]bool{}
	info := sizeOf.Info()
	ast.Inspect(sizeOf.Decl.Body, func(x ast.Node) bool {
		ts, ok := x.(*ast.TypeSwitchStmt)
		if !ok {
			return true
		}
		for _, cc := range caseClauses(ts.Body) {
			for _, t := range caseTypes(info, cc) {
				if nt := namedOf(t); nt != nil {
					handled[nt.Obj().Name()] = true
				}
			}
		}
		return true
	})
	n := 0
	for _, fn := range c.AllFns(pkgTypes) {
		sig := fn.Obj.Type().(*types.Signature)
		if fn.Obj.Name() != "Size" || sig.Recv() == nil || fn.Decl.Body == nil {
			continue
		}
		nt := namedOf(sig.Recv().Type())
		if nt == nil {
			continue
		}
		composite := false
		finfo := fn.Info()
		for _, cl := range callsIn(fn.Decl.Body, true) {
			sel, ok := cl.Fun.(*ast.SelectorExpr)
			if !ok || sel.Sel.Name != "Size" || len(cl.Args) != 0 {
				continue
			}
			if objOf(finfo, sel.X) == sig.Recv() {
				continue
			}
			composite = true
		}
		if !composite {
			continue
		}
		n++
		name := nt.Obj().Name()
		if reason, ok := c18R12Reviewed[name]; ok {
			r.OK(rule, "mir.(*DataLayout).SizeOf", "composite type "+name, c.pos(fn.Decl.Pos()), "reviewed: "+reason)
			continue
		}
		if name == "EnumType" {
			// an enum's variants carry no payload: every EnumVariant literal of the compiler leaves Type nil, so
			// Size() is the 4-byte discriminant
			payload := ""
			lits := 0
			for _, p := range c.Pkgs {
				for _, f := range c.AllFns(relOf(p.PkgPath)) {
					if f.Decl.Body == nil {
						continue
					}
					ast.Inspect(f.Decl.Body, func(x ast.Node) bool {
						cl, ok := x.(*ast.CompositeLit)
						if !ok || !isNamed(f.Info().TypeOf(cl), Mod+"/"+pkgTypes, "EnumVariant") {
							return true
						}
						lits++
						for i, el := range cl.Elts {
							kv, isKV := el.(*ast.KeyValueExpr)
							if isKV {
								if id, ok := kv.Key.(*ast.Ident); ok && id.Name == "Type" {
									if tv, ok := f.Info().Types[kv.Value]; !ok || !tv.IsNil() {
										payload = f.Name()
									}
								}
							} else if i == 2 {
								payload = f.Name()
							}
						}
						return true
					})
				}
			}
			r.Check(payload == "" && lits > 0, rule, "mir.(*DataLayout).SizeOf", "composite type EnumType: no variant is given a payload type", c.pos(fn.Decl.Pos()),
				"enum variants with a payload are built in "+payload+" while the layout still takes an enum's size from EnumType.Size(), which adds packed sizes")
			continue
		}
		r.Check(handled[name], rule, "mir.(*DataLayout).SizeOf", "composite type "+name+" has its own clause", c.pos(sizeOf.Decl.Pos()),
			"the storage size of "+name+" is taken from its Size() method, which adds the packed sizes of its components, while the components themselves are laid out and copied with padding: `type Big struct { .A: u8, .D: i64, .E: i64 }; type U union { i32, Big }` got 21 bytes (tag + 17) for a 24-byte payload, and `u = b; if u is Big { io::Println(u.E); }` printed 12884901891 for 3")
	}
	r.Floor(rule, n, 4, "composite semantic types")
}

// ---- C13.R22: a nil pointer handed to an interface parameter is not caught by the callee's nil test -------------

func init() {
	lateInits = append(lateInits, func() {
		props["C13"].Quick = append(props["C13"].Quick, c13R22)
		props["C13"].Explanation += " (R22) where a walker guards its interface parameter with `if node == nil { return }` and then type-switches on it, a call site that passes a struct field of concrete pointer type (which, when nil, becomes a non-nil interface holding a nil pointer) either tests the field against nil first or the matching case clause does before it touches the node."
	})
}

// c13R22Reviewed: call sites whose argument cannot be nil, with the reason.
var c13R22Reviewed = map[string]string{
	"hir/analysis.extractModifiedFromNode | call extractModifiedFromNode(n.Body) in case *hir.IfStmt":                 "an if statement always has a body: parser.parseIfStmt builds it with parseBlock, the lowering's synthetic ifs with a block literal",
	"hir/analysis.extractModificationKindFromNode | call extractModificationKindFromNode(n.Body) in case *hir.IfStmt": "an if statement always has a body: parser.parseIfStmt builds it with parseBlock, the lowering's synthetic ifs with a block literal",
}

func c13R22(c *Ctx, r *Report) {
	const rule = "C13.R22"
	r.Describe(rule, "compiler packages: for every function F(p I, …) whose body returns early on `p == nil` and type-switches on p, and every call F(x.f) where x.f is a struct field of concrete pointer type *T: the call is dominated by a test of x.f against nil, or the `case *T` clause of F tests its variable against nil before using it")
	type walker struct {
		fn    *Fn
		idx   int
		param *types.Var
	}
	walkers := map[*types.Func]walker{}
	for _, p := range c.Pkgs {
		rel := relOf(p.PkgPath)
		if !strings.HasPrefix(rel, "internal/") {
			continue
		}
		for _, fn := range c.AllFns(rel) {
			if fn.Decl.Body == nil {
				continue
			}
			sig := fn.Obj.Type().(*types.Signature)
			info := fn.Info()
			for i := 0; i < sig.Params().Len(); i++ {
				pv := sig.Params().At(i)
				if _, isIface := pv.Type().Underlying().(*types.Interface); !isIface {
					continue
				}
				// early `if p == nil … { return }` among the first statements
				guard := false
				for k, st := range fn.Decl.Body.List {
					if k > 2 {
						break
					}
					ifs, ok := st.(*ast.IfStmt)
					if !ok {
						continue
					}
					for _, d := range disjuncts(ifs.Cond) {
						if b, ok := isBinOp(d, token.EQL); ok && objOf(info, b.X) == pv && exprStr(b.Y) == "nil" {
							guard = true
						}
					}
				}
				if guard && len(typeSwitchesOn(info, fn.Decl.Body, pv)) > 0 {
					walkers[fn.Obj] = walker{fn, i, pv}
				}
			}
		}
	}
	if !r.Anchor(rule, len(walkers) >= 5, "walkers that guard an interface parameter against nil") {
		return
	}
	// does the case clause for concrete type t in walker w test its variable against nil first?
	clauseGuards := func(w walker, t types.Type) (found, guarded bool) {
		info := w.fn.Info()
		for _, ts := range typeSwitchesOn(info, w.fn.Decl.Body, w.param) {
			for _, cc := range caseClauses(ts.Body) {
				match := false
				for _, ct := range caseTypes(info, cc) {
					if types.Identical(ct, t) {
						match = true
					}
				}
				if !match {
					continue
				}
				found = true
				if len(cc.Body) > 0 {
					if ifs, ok := cc.Body[0].(*ast.IfStmt); ok {
						for _, d := range disjuncts(ifs.Cond) {
							if b, ok := isBinOp(d, token.EQL); ok && exprStr(b.Y) == "nil" {
								if _, isID := ast.Unparen(b.X).(*ast.Ident); isID {
									guarded = true
								}
							}
						}
					}
				}
				// a clause that never dereferences its variable is safe too
				if !guarded {
					uses := false
					var sym types.Object
					if as, ok := ts.Assign.(*ast.AssignStmt); ok && len(as.Lhs) == 1 {
						sym = info.Implicits[cc]
					}
					for _, st := range cc.Body {
						ast.Inspect(st, func(y ast.Node) bool {
							if id, ok := y.(*ast.Ident); ok && sym != nil && info.Uses[id] == sym {
								uses = true
							}
							return true
						})
					}
					if sym != nil && !uses {
						guarded = true
					}
				}
			}
		}
		return
	}
	n := 0
	for _, p := range c.Pkgs {
		rel := relOf(p.PkgPath)
		if !strings.HasPrefix(rel, "internal/") {
			continue
		}
		for _, fn := range c.AllFns(rel) {
			if fn.Decl.Body == nil {
				continue
			}
			info := fn.Info()
			walkWithStack(fn.Decl.Body, func(x ast.Node, stack []ast.Node) bool {
				cl, ok := x.(*ast.CallExpr)
				if !ok {
					return true
				}
				w, isW := walkers[callee(info, cl)]
				if !isW || len(cl.Args) <= w.idx {
					return true
				}
				arg := ast.Unparen(cl.Args[w.idx])
				sel, isSel := arg.(*ast.SelectorExpr)
				if !isSel || fieldOf(info, sel) == nil {
					return true
				}
				at := info.TypeOf(arg)
				ptr, isPtr := at.(*types.Pointer)
				if !isPtr {
					return true
				}
				if _, isStruct := ptr.Elem().Underlying().(*types.Struct); !isStruct {
					return true
				}
				n++
				key := "call " + w.fn.Obj.Name() + "(" + exprStr(arg) + ")"
				for i := len(stack) - 1; i >= 0; i-- { // the clause of the caller's type switch the call stands in
					if cc, ok := stack[i].(*ast.CaseClause); ok && len(cc.List) > 0 {
						key += " in case " + exprStr(cc.List[0])
						break
					}
				}
				// dominated by a nil test of the same expression?
				tested := false
				want := exprStr(arg)
				for i, a := range stack {
					switch s := a.(type) {
					case *ast.IfStmt:
						var next ast.Node = cl
						if i+1 < len(stack) {
							next = stack[i+1]
						}
						for _, cj := range conjuncts(s.Cond) {
							if b, ok := isBinOp(cj, token.NEQ); ok && exprStr(b.X) == want && exprStr(b.Y) == "nil" && containsNode(s.Body, next) {
								tested = true
							}
						}
						for _, dj := range disjuncts(s.Cond) {
							if b, ok := isBinOp(dj, token.EQL); ok && exprStr(b.X) == want && exprStr(b.Y) == "nil" && s.Else != nil && containsNode(s.Else, next) {
								tested = true
							}
						}
					case *ast.BlockStmt:
						// an earlier `if arg == nil { return/continue/break }` in the same block
						for _, st := range s.List {
							if st.End() > cl.Pos() {
								break
							}
							if ifs, ok := st.(*ast.IfStmt); ok && thenTerminates(ifs) {
								for _, dj := range disjuncts(ifs.Cond) {
									if b, ok := isBinOp(dj, token.EQL); ok && exprStr(b.X) == want && exprStr(b.Y) == "nil" {
										tested = true
									}
								}
							}
						}
					case *ast.CaseClause:
						for _, st := range s.Body {
							if st.End() > cl.Pos() {
								break
							}
							if ifs, ok := st.(*ast.IfStmt); ok && thenTerminates(ifs) {
								for _, dj := range disjuncts(ifs.Cond) {
									if b, ok := isBinOp(dj, token.EQL); ok && exprStr(b.X) == want && exprStr(b.Y) == "nil" {
										tested = true
									}
								}
							}
						}
					}
				}
				found, guarded := clauseGuards(w, at)
				if reason, ok := c13R22Reviewed[fn.Name()+" | "+key]; ok {
					r.OK(rule, fn.Name(), key, c.pos(cl.Pos()), "reviewed: "+reason)
					return true
				}
				r.Check(tested || guarded || !found, rule, fn.Name(), key, c.pos(cl.Pos()),
					"a field of type "+at.String()+" is handed to a walker that protects itself with `"+w.param.Name()+" == nil`: when the field is nil the interface value is not, the test passes and the `case "+at.String()+"` clause dereferences a nil pointer — `res(r) catch 0` (a catch clause with a fallback and no handler block) stopped the compiler with a Go panic in the borrow checker's last-use pass")
				return true
			})
		}
	}
	r.Floor(rule, n, 5, "concrete-pointer fields handed to nil-guarded walkers")
}

// ---- C11.R15: the widening helper looks through a reference ------------------------------------------------------

func init() {
	lateInits = append(lateInits, func() {
		props["C11"].Quick = append(props["C11"].Quick, c11R15)
		props["C01"].Quick = append(props["C01"].Quick, c11R15)
		props["C11"].Explanation += " (R15) widenNumericValue, which its call sites hand the un-dereferenced type of the source expression, loads through a reference-typed source before it asks whether source and target are primitives: a reference is never stored or widened as if it were the value."
	})
}

func c11R15(c *Ctx, r *Report) {
	const rule = "C11.R15"
	r.Describe(rule, "mir/gen.widenNumericValue: before the first type assertion of the source type to *types.PrimitiveType there is a branch on the source type being a *types.ReferenceType in which the value is loaded (derefValueIfNeeded / emitLoad) and the source type replaced")
	fn := c.LookupFn(pkgMIRGen, "(*functionBuilder).widenNumericValue")
	if !r.Anchor(rule, fn != nil && fn.Decl.Body != nil, "mir/gen.widenNumericValue") {
		return
	}
	info := fn.Info()
	sig := fn.Obj.Type().(*types.Signature)
	if !r.Anchor(rule, sig.Params().Len() >= 3, "widenNumericValue(val, fromType, toType, …)") {
		return
	}
	val, from := sig.Params().At(0), sig.Params().At(1)
	asserts := func(x ast.Node, typeName string) token.Pos { // first assertion of `from` (possibly unwrapped) to *types.<typeName>
		var pos token.Pos
		ast.Inspect(x, func(y ast.Node) bool {
			ta, ok := y.(*ast.TypeAssertExpr)
			if !ok || ta.Type == nil || pos != token.NoPos {
				return true
			}
			if nt := namedOf(info.TypeOf(ta.Type)); nt == nil || nt.Obj().Name() != typeName {
				return true
			}
			if mentionsVar(info, ta.X, from) {
				pos = ta.Pos()
			}
			return true
		})
		return pos
	}
	primPos := asserts(fn.Decl.Body, "PrimitiveType")
	loaded := false
	var refPos token.Pos
	ast.Inspect(fn.Decl.Body, func(x ast.Node) bool {
		ifs, ok := x.(*ast.IfStmt)
		if !ok {
			return true
		}
		head := token.NoPos
		if ifs.Init != nil {
			head = asserts(ifs.Init, "ReferenceType")
		}
		if head == token.NoPos {
			head = asserts(ifs.Cond, "ReferenceType")
		}
		if head == token.NoPos {
			return true
		}
		// in the body: val and fromType are both reassigned from a load
		setsVal, setsFrom := false, false
		ast.Inspect(ifs.Body, func(y ast.Node) bool {
			as, ok := y.(*ast.AssignStmt)
			if !ok {
				return true
			}
			isLoad := false
			for _, rhs := range as.Rhs {
				if cl, ok := ast.Unparen(rhs).(*ast.CallExpr); ok {
					if f := callee(info, cl); f != nil && (f.Name() == "derefValueIfNeeded" || f.Name() == "emitLoad") {
						isLoad = true
					}
				}
			}
			for _, l := range as.Lhs {
				if objOf(info, l) == val && isLoad {
					setsVal = true
				}
				if objOf(info, l) == from {
					setsFrom = true
				}
			}
			return true
		})
		if setsVal && setsFrom {
			loaded, refPos = true, head
		}
		return true
	})
	r.Check(loaded && primPos != token.NoPos && refPos < primPos, rule, fn.Name(), "a reference-typed source is loaded before the primitive-type test", c.pos(fn.Decl.Pos()),
		"the helper that call sites give the un-dereferenced type of the source expression treats a reference as 'not a primitive' and returns the pointer unchanged: `let r: &i32 = &a; let p: P = { .A = r, .B = r };` stored the address in the i64 field and its bit pattern in the f64 field, `o ?? r` and `return r` into `str ! i64` did the same")
}

// ---- C09.R10: compile-time evaluation resolves an identifier by its symbol, not by its name ---------------------

func init() {
	lateInits = append(lateInits, func() {
		props["C09"].Quick = append(props["C09"].Quick, c09R10)
		props["C04"].Quick = append(props["C04"].Quick, c09R10)
		props["C09"].Explanation += " (R10) the constant evaluator looks an identifier's name up in a scope only when the identifier carries no resolved symbol: a resolved local without a compile-time value is not replaced by whatever the name means in the scope the evaluator runs in (a module-level constant of the same name)."
	})
}

func c09R10(c *Ctx, r *Report) {
	const rule = "C09.R10"
	const pkgCE = "internal/hir/consteval"
	r.Describe(rule, "hir/consteval: in a function with a *hir.Ident parameter, every scope look-up by that identifier's Name (Lookup/GetSymbol/LookupLocal…) is preceded in an enclosing block by `if … ident.Symbol != nil … { return … }` or stands inside `if ident.Symbol == nil`")
	n := 0
	for _, fn := range c.AllFns(pkgCE) {
		if fn.Decl.Body == nil {
			continue
		}
		info := fn.Info()
		sig := fn.Obj.Type().(*types.Signature)
		var ident *types.Var
		for i := 0; i < sig.Params().Len(); i++ {
			if nt := namedOf(sig.Params().At(i).Type()); nt != nil && nt.Obj().Name() == "Ident" && strings.HasSuffix(nt.Obj().Pkg().Path(), "internal/hir") {
				ident = sig.Params().At(i)
			}
		}
		if ident == nil {
			continue
		}
		isField := func(e ast.Expr, name string) bool {
			sel, ok := ast.Unparen(e).(*ast.SelectorExpr)
			return ok && sel.Sel.Name == name && objOf(info, sel.X) == ident
		}
		walkWithStack(fn.Decl.Body, func(x ast.Node, stack []ast.Node) bool {
			cl, ok := x.(*ast.CallExpr)
			if !ok {
				return true
			}
			sel, ok := cl.Fun.(*ast.SelectorExpr)
			if !ok || !(strings.HasPrefix(sel.Sel.Name, "Lookup") || strings.HasPrefix(sel.Sel.Name, "GetSymbol")) {
				return true
			}
			byName := false
			for _, a := range cl.Args {
				if isField(a, "Name") {
					byName = true
				}
			}
			if !byName {
				return true
			}
			n++
			guarded := false
			for i, a := range stack {
				var next ast.Node = cl
				if i+1 < len(stack) {
					next = stack[i+1]
				}
				switch s := a.(type) {
				case *ast.IfStmt:
					for _, cj := range conjuncts(s.Cond) {
						if b, ok := isBinOp(cj, token.EQL); ok && isField(b.X, "Symbol") && exprStr(b.Y) == "nil" && containsNode(s.Body, next) {
							guarded = true
						}
					}
				case *ast.BlockStmt:
					for _, st := range s.List {
						if st.End() > cl.Pos() {
							break
						}
						if ifs, ok := st.(*ast.IfStmt); ok && thenTerminates(ifs) {
							for _, dj := range disjuncts(ifs.Cond) {
								if b, ok := isBinOp(dj, token.NEQ); ok && isField(b.X, "Symbol") && exprStr(b.Y) == "nil" {
									guarded = true
								}
							}
						}
					}
				}
			}
			r.Check(guarded, rule, fn.Name(), "look-up of "+ident.Name()+".Name through "+exprStr(cl.Fun), c.pos(cl.Pos()),
				"an identifier that is resolved to a symbol without a compile-time value is looked up again by name in the scope the evaluator runs in: `const k: i32 = 2; … let k := zero(); io::Println(a[k]);` read a[2] (the module-level constant) where the local k is 0, and `match m { k => … }` compared with 2")
			return true
		})
	}
	r.Floor(rule, n, 1, "by-name look-ups in the constant evaluator")
}

// ---- C01.R19: a narrowed union is unpacked wherever the variable lives ------------------------------------------

func init() {
	lateInits = append(lateInits, func() {
		props["C01"].Quick = append(props["C01"].Quick, c01R19)
		props["C18"].Quick = append(props["C18"].Quick, c01R19)
		props["C01"].Explanation += " (R19) loadIdent extracts the payload of a variable narrowed from a union for every storage class the plain load path knows for the same identifier kinds: local slots, the entry slots of parameters, and parameters that are used as they arrive."
	})
}

func c01R19(c *Ctx, r *Report) {
	const rule = "C01.R19"
	r.Describe(rule, "mir/gen.loadIdent: the branch that builds mir.UnionExtract for an identifier narrowed from a union reads the union value from b.slots, b.paramSlots and b.paramsByName — each storage map the function's plain path reads for parameters and receivers")
	fn := c.LookupFn(pkgMIRGen, "(*functionBuilder).loadIdent")
	if !r.Anchor(rule, fn != nil && fn.Decl.Body != nil, "mir/gen.loadIdent") {
		return
	}
	info := fn.Info()
	var mapsInDepth func(finfo *types.Info, x ast.Node, depth int) map[string]bool
	mapsInDepth = func(finfo *types.Info, x ast.Node, depth int) map[string]bool {
		out := map[string]bool{}
		ast.Inspect(x, func(y ast.Node) bool {
			switch z := y.(type) {
			case *ast.IndexExpr:
				if f := fieldOf(finfo, z.X); f != nil {
					if _, isMap := f.Type().Underlying().(*types.Map); isMap {
						out[f.Name()] = true
					}
				}
			case *ast.CallExpr:
				// a same-package helper that does the look-up (one level)
				if depth > 0 {
					if h := c.FnOf(callee(finfo, z)); h != nil && h.Decl != nil && h.Decl.Body != nil && h.Obj.Pkg() == fn.Obj.Pkg() && h.Obj != fn.Obj {
						for k := range mapsInDepth(h.Info(), h.Decl.Body, depth-1) {
							out[k] = true
						}
					}
				}
			}
			return true
		})
		return out
	}
	mapsIn := func(x ast.Node) map[string]bool { return mapsInDepth(info, x, 1) }
	// the innermost if-body that holds both the UnionExtract literal and a read of b.slots
	var region *ast.BlockStmt
	walkWithStack(fn.Decl.Body, func(x ast.Node, stack []ast.Node) bool {
		cl, ok := x.(*ast.CompositeLit)
		if !ok || !isNamed(info.TypeOf(cl), Mod+"/"+pkgMIR, "UnionExtract") {
			return true
		}
		for i := len(stack) - 1; i >= 0; i-- {
			if ifs, ok := stack[i].(*ast.IfStmt); ok && containsNode(ifs.Body, cl) && mapsIn(ifs.Body)["slots"] {
				region = ifs.Body
				break
			}
		}
		return true
	})
	if !r.Anchor(rule, region != nil && mapsIn(region)["slots"], "loadIdent: the branch that builds mir.UnionExtract from b.slots") {
		return
	}
	// the plain path: storage maps read outside the region under a test of the symbol kind against parameter/receiver
	plain := map[string]bool{}
	ast.Inspect(fn.Decl.Body, func(x ast.Node) bool {
		if x == ast.Node(region) {
			return false
		}
		if ix, ok := x.(*ast.IndexExpr); ok {
			if f := fieldOf(info, ix.X); f != nil && strings.HasPrefix(f.Name(), "param") {
				plain[f.Name()] = true
			}
		}
		return true
	})
	got := mapsIn(region)
	for _, m := range sortedKeys(plain) {
		r.Check(got[m], rule, fn.Name(), "narrowed-union branch reads b."+m, c.pos(region.Pos()),
			"a parameter or receiver narrowed from a union is loaded through the plain path, which hands out the union's own address as if it were the variant: every field is read four bytes early (the tag) — `fn (h: Holder) M3(v: bool) -> i32 { if h is i32 { return -2; } else if v { return h.Id; } else { return h.Bal; } }` returned 10 and 0 for {.Bal = 10, .Id = 7}, and crashed with a str field")
	}
	r.Floor(rule, len(plain), 2, "parameter storage maps of loadIdent")
}

// ---- C12.R13: the cast guard for foreign structs covers the elements of containers ------------------------------

func init() {
	lateInits = append(lateInits, func() {
		props["C12"].Quick = append(props["C12"].Quick, c12R13)
		props["C12"].Explanation += " (R13) checkCastExpr decides no cast between structured types before a helper has walked source and target in parallel through array elements, map keys and values, optional and result payloads down to foreignPrivateField: a container of another module's structs is not converted into a container of look-alike local structs."
	})
}

func c12R13(c *Ctx, r *Report) {
	const rule = "C12.R13"
	r.Describe(rule, "typechecker.checkCastExpr: every return after the compatibility of source and target has been computed is dominated by a call of a helper whose type switch has clauses for ArrayType (Element), MapType (Key, Value), OptionalType (Inner) and ResultType (Ok, Err) and which reaches foreignPrivateField")
	fn := c.LookupFn(pkgTC, "checkCastExpr")
	fpf := c.LookupFn(pkgTC, "foreignPrivateField")
	compat := c.LookupFn(pkgTC, "checkTypeCompatibility")
	if !r.Anchor(rule, fn != nil && fpf != nil && compat != nil && fn.Decl.Body != nil, "typechecker.checkCastExpr / foreignPrivateField / checkTypeCompatibility") {
		return
	}
	info := fn.Info()
	want := map[string][]string{"ArrayType": {"Element"}, "MapType": {"Key", "Value"}, "OptionalType": {"Inner"}, "ResultType": {"Ok", "Err"}}
	var guard *Fn
	missing := ""
	for _, cl := range callsIn(fn.Decl.Body, false) {
		g := c.FnOf(callee(info, cl))
		if g == nil || g.Decl == nil || g.Decl.Body == nil || g.Obj == fpf.Obj || !reachesAdd(c, g.Obj, fpf.Obj, 0) {
			continue
		}
		ginfo := g.Info()
		have := map[string]map[string]bool{}
		ast.Inspect(g.Decl.Body, func(x ast.Node) bool {
			ts, ok := x.(*ast.TypeSwitchStmt)
			if !ok {
				return true
			}
			for _, cc := range caseClauses(ts.Body) {
				for _, t := range caseTypes(ginfo, cc) {
					nt := namedOf(t)
					if nt == nil {
						continue
					}
					fields := map[string]bool{}
					for _, st := range cc.Body {
						ast.Inspect(st, func(y ast.Node) bool {
							if sel, ok := y.(*ast.SelectorExpr); ok {
								fields[sel.Sel.Name] = true
							}
							return true
						})
					}
					have[nt.Obj().Name()] = fields
				}
			}
			return true
		})
		miss := ""
		for _, tn := range sortedKeys(want) {
			for _, f := range want[tn] {
				if have[tn] == nil || !have[tn][f] {
					miss += " " + tn + "." + f
				}
			}
		}
		if miss == "" {
			guard = g
			break
		}
		if missing == "" {
			missing = g.Obj.Name() + " lacks" + miss
		}
	}
	if !r.Check(guard != nil, rule, fn.Name(), "a helper walks container element types down to foreignPrivateField", c.pos(fn.Decl.Pos()),
		"no helper called by checkCastExpr covers the element types of arrays, maps, optionals and results ("+missing+"): `a1 as []Mine` with `a1: []lib::Account` and a local look-alike `Mine` is accepted, and a method of Mine reads the private balance (prints 10)") {
		return
	}
	var compatPos token.Pos
	for _, cl := range callsIn(fn.Decl.Body, false) {
		if isCallTo(info, cl, compat.Obj) && compatPos == token.NoPos {
			compatPos = cl.Pos()
		}
	}
	if !r.Anchor(rule, compatPos != token.NoPos, "checkCastExpr: checkTypeCompatibility(sourceType, targetType)") {
		return
	}
	hits := mustFlow(c.CFG(fn), FlowSpec{
		Gate: func(x ast.Node) bool { return nodeCalls(info, x, guard.Obj) != nil },
		Target: func(x ast.Node) bool {
			ret, ok := x.(*ast.ReturnStmt)
			return ok && ret.Pos() > compatPos
		},
	})
	pos := fn.Decl.Pos()
	if len(hits) > 0 {
		pos = hits[0].Pos
	}
	r.Check(len(hits) == 0, rule, fn.Name(), "no cast of structured types is decided before "+guard.Obj.Name()+" ran", c.pos(pos),
		"a return of checkCastExpr after the compatibility computation is reachable without the container guard: the map / array / optional branch accepts a cast whose elements are another module's structs with private fields")
}

// ---- C16.R13: a converted value is not described by the type it had before --------------------------------------

func init() {
	lateInits = append(lateInits, func() {
		props["C16"].Quick = append(props["C16"].Quick, c16R13)
		props["C01"].Quick = append(props["C01"].Quick, c16R13)
		props["C16"].Explanation += " (R13) in mir/gen, once a value variable has been reassigned from castValue(v, T, U, …), a later call never receives v together with the old type variable T unless T was reassigned in between: the operation is chosen for the type the value now has (`i128 ** i256` ran the 128-bit power on 256-bit operands)."
	})
}

func c16R13(c *Ctx, r *Report) {
	const rule = "C16.R13"
	r.Describe(rule, "mir/gen: for every assignment `v = b.castValue(v, T, U, …)` with local variables v and T, no later call in the function has both v and T among its arguments unless T is assigned between the conversion and the call")
	cast := c.LookupFn(pkgMIRGen, "(*functionBuilder).castValue")
	if !r.Anchor(rule, cast != nil, "mir/gen.castValue") {
		return
	}
	n := 0
	for _, fn := range c.AllFns(pkgMIRGen) {
		if fn.Decl.Body == nil {
			continue
		}
		info := fn.Info()
		ast.Inspect(fn.Decl.Body, func(x ast.Node) bool {
			as, ok := x.(*ast.AssignStmt)
			if !ok || len(as.Lhs) != 1 || len(as.Rhs) != 1 || as.Tok != token.ASSIGN {
				return true
			}
			cl, ok := ast.Unparen(as.Rhs[0]).(*ast.CallExpr)
			if !ok || !isCallTo(info, cl, cast.Obj) || len(cl.Args) < 3 {
				return true
			}
			v := objOf(info, as.Lhs[0])
			tID, isID := ast.Unparen(cl.Args[1]).(*ast.Ident)
			if v == nil || !isID || objOf(info, cl.Args[0]) != v {
				return true
			}
			t := info.Uses[tID]
			if _, isVar := t.(*types.Var); !isVar || t == objOf(info, cl.Args[2]) {
				return true
			}
			n++
			// the block the conversion stands in and everything after it in the function
			bad := ""
			var badPos token.Pos = as.Pos()
			for _, later := range callsIn(fn.Decl.Body, true) {
				if later.Pos() <= as.End() {
					continue
				}
				hasV, hasT := false, false
				for _, a := range later.Args {
					if objOf(info, a) == v {
						hasV = true
					}
					if objOf(info, a) == t {
						hasT = true
					}
				}
				if !hasV || !hasT {
					continue
				}
				// T (or v) reassigned in between?
				redefined := false
				ast.Inspect(fn.Decl.Body, func(y ast.Node) bool {
					if a2, ok := y.(*ast.AssignStmt); ok && a2.Pos() >= as.End() && a2.End() <= later.Pos() {
						for _, l := range a2.Lhs {
							if o := objOf(info, l); o == t {
								redefined = true
							}
						}
					}
					return true
				})
				// the later call stands in a branch the conversion cannot reach (sibling case clause)? keep it
				// simple: only calls inside the statement list that follows the conversion's enclosing block count
				if !redefined && sameOrEnclosingBlock(fn.Decl.Body, as, later) {
					bad, badPos = exprStr(later.Fun), later.Pos()
					break
				}
			}
			r.Check(bad == "", rule, fn.Name(), "value "+exprStr(as.Lhs[0])+" converted from "+tID.Name, c.pos(badPos),
				bad+" receives the converted value together with the type it had before the conversion: the operation is selected for the old type — `let a: i128 = -3; let w: i256 = 4; io::Println(a ** w);` called the 128-bit power on two 256-bit operands and printed 1701411834604692317316873037158841057361 for 81")
			return true
		})
	}
	r.Floor(rule, n, 3, "in-place conversions with a type variable")
}

// sameOrEnclosingBlock: `later` is positioned after `stmt` inside the block that directly contains stmt, or inside a
// block that encloses that block (so control can flow from stmt to later without leaving a sibling branch).
func sameOrEnclosingBlock(root ast.Node, stmt ast.Stmt, later ast.Node) bool {
	ok := false
	walkWithStack(root, func(x ast.Node, stack []ast.Node) bool {
		if x != ast.Node(stmt) {
			return true
		}
		for i := len(stack) - 1; i >= 0; i-- {
			var list []ast.Stmt
			switch b := stack[i].(type) {
			case *ast.BlockStmt:
				list = b.List
			case *ast.CaseClause:
				list = b.Body
			default:
				continue
			}
			var inner ast.Node = stmt
			if i+1 < len(stack) {
				inner = stack[i+1]
			}
			after := false
			for _, st := range list {
				if containsNode(st, inner) {
					after = true
					continue
				}
				if after && containsNode(st, later) {
					ok = true
				}
			}
			if _, isCase := stack[i].(*ast.CaseClause); isCase {
				break // do not leave the case clause
			}
		}
		return false
	})
	return ok
}

// ---- C17.R15: the current value of a compound assignment survives the right-hand side ---------------------------

func init() {
	lateInits = append(lateInits, func() {
		props["C17"].Quick = append(props["C17"].Quick, c17R15)
		props["C01"].Quick = append(props["C01"].Quick, c17R15)
		props["C17"].Explanation += " (R15) the helper all compound assignments share copies the current value out of its place (snapshotValue: by-reference types are denoted by the address of the place) before it lowers the right-hand side, which may append to the array the element lives in."
	})
}

func c17R15(c *Ctx, r *Report) {
	const rule = "C17.R15"
	r.Describe(rule, "mir/gen.lowerCompoundValue: every path to the lowering of the right-hand side has passed `cur = b.snapshotValue(cur, …)`; snapshotValue copies into a fresh alloca when needsByRefType holds")
	fn := c.LookupFn(pkgMIRGen, "(*functionBuilder).lowerCompoundValue")
	snap := c.LookupFn(pkgMIRGen, "(*functionBuilder).snapshotValue")
	lower := c.LookupFn(pkgMIRGen, "(*functionBuilder).lowerExpr")
	if !r.Anchor(rule, fn != nil && snap != nil && lower != nil && fn.Decl.Body != nil, "mir/gen lowerCompoundValue / snapshotValue / lowerExpr") {
		return
	}
	info := fn.Info()
	cur, rhs := fn.ParamNamed("cur"), fn.ParamNamed("rhs")
	if !r.Anchor(rule, cur != nil && rhs != nil, "lowerCompoundValue(…, cur, rhs, …)") {
		return
	}
	hits := mustFlow(c.CFG(fn), FlowSpec{
		Gate: func(x ast.Node) bool {
			as, ok := x.(*ast.AssignStmt)
			if !ok || len(as.Lhs) != 1 || len(as.Rhs) != 1 || objOf(info, as.Lhs[0]) != cur {
				return false
			}
			cl, ok := ast.Unparen(as.Rhs[0]).(*ast.CallExpr)
			return ok && isCallTo(info, cl, snap.Obj) && len(cl.Args) >= 1 && objOf(info, cl.Args[0]) == cur
		},
		Target: func(x ast.Node) bool {
			cl := nodeCalls(info, x, lower.Obj)
			return cl != nil && len(cl.Args) == 1 && objOf(info, cl.Args[0]) == rhs
		},
	})
	pos := fn.Decl.Pos()
	if len(hits) > 0 {
		pos = hits[0].Pos
	}
	r.Check(len(hits) == 0, rule, fn.Name(), "cur is snapshotted before the right-hand side is lowered", c.pos(pos),
		"the right-hand side of `lhs op= rhs` runs while the current value of a by-reference type is still the address of the place: `a[0] += g()` on a []i128 whose g appends to a reads the element from the freed storage (printed 11248722799626164320081042218315662155 for 8), and `x += h()` with an i128 x that h assigns adds to the new x")
	// snapshotValue copies for by-reference types
	sinfo := snap.Info()
	hasAlloca, hasTest := false, false
	for _, cl := range callsIn(snap.Decl.Body, false) {
		if f := callee(sinfo, cl); f != nil {
			if f.Name() == "emitAlloca" {
				hasAlloca = true
			}
			if f.Name() == "needsByRefType" {
				hasTest = true
			}
		}
	}
	r.Check(hasAlloca && hasTest, rule, snap.Name(), "copies a by-reference value into a fresh slot", c.pos(snap.Decl.Pos()), "snapshotValue no longer copies by-reference values out of their place")
}

// ---- C17.R16 / C18.R13: operands evaluated earlier are not changed by operands evaluated later -------------------

func init() {
	lateInits = append(lateInits, func() {
		props["C17"].Quick = append(props["C17"].Quick, c17R16)
		props["C18"].Quick = append(props["C18"].Quick, c18R13)
		props["C01"].Quick = append(props["C01"].Quick, c18R13)
		props["C17"].Explanation += " (R16) a map store copies its key out of the place it was read from before the right-hand side is lowered (a 128/256-bit or struct key is denoted by the address of the variable)."
		props["C18"].Explanation += " (R13) lowerCallArgs copies a by-value argument of a by-reference type out of its place unless every later argument is a simple operand (names, literals, selections, references, negations, casts): an aggregate argument is a snapshot with respect to the arguments evaluated after it, as a scalar one is."
	})
}

func c17R16(c *Ctx, r *Report) {
	const rule = "C17.R16"
	r.Describe(rule, "mir/gen.lowerMapIndexAssign: every path to the lowering of the right-hand side (lowerExpr(rhs) / lowerCompoundValue(…, rhs, …)) has passed `keyVal = b.snapshotValue(keyVal, …)`")
	fn := c.LookupFn(pkgMIRGen, "(*functionBuilder).lowerMapIndexAssign")
	snap := c.LookupFn(pkgMIRGen, "(*functionBuilder).snapshotValue")
	if !r.Anchor(rule, fn != nil && snap != nil && fn.Decl.Body != nil, "mir/gen lowerMapIndexAssign / snapshotValue") {
		return
	}
	info := fn.Info()
	rhs := fn.ParamNamed("rhs")
	if !r.Anchor(rule, rhs != nil, "lowerMapIndexAssign(…, rhs, …)") {
		return
	}
	var key types.Object
	hits := mustFlow(c.CFG(fn), FlowSpec{
		Gate: func(x ast.Node) bool {
			as, ok := x.(*ast.AssignStmt)
			if !ok || len(as.Lhs) != 1 || len(as.Rhs) != 1 {
				return false
			}
			cl, ok := ast.Unparen(as.Rhs[0]).(*ast.CallExpr)
			if !ok || !isCallTo(info, cl, snap.Obj) || len(cl.Args) < 1 || objOf(info, cl.Args[0]) != objOf(info, as.Lhs[0]) {
				return false
			}
			key = objOf(info, as.Lhs[0])
			return true
		},
		Target: func(x ast.Node) bool {
			found := false
			inspectShallow(x, func(y ast.Node) bool {
				if cl, ok := y.(*ast.CallExpr); ok {
					for _, a := range cl.Args {
						if objOf(info, a) == rhs {
							found = true
						}
					}
				}
				return true
			})
			return found
		},
	})
	pos := fn.Decl.Pos()
	if len(hits) > 0 {
		pos = hits[0].Pos
	}
	// the snapshotted variable is the one handed to MapSet as the key
	usedAsKey := false
	ast.Inspect(fn.Decl.Body, func(x ast.Node) bool {
		if kv, ok := x.(*ast.KeyValueExpr); ok {
			if id, ok := kv.Key.(*ast.Ident); ok && id.Name == "Key" && key != nil && objOf(info, kv.Value) == key {
				usedAsKey = true
			}
		}
		return true
	})
	r.Check(len(hits) == 0 && usedAsKey, rule, fn.Name(), "the key is snapshotted before the right-hand side is lowered", c.pos(pos),
		"the key of `m[k] = rhs` is still the address of k when rhs runs: `let kw: i128 = 1; let g := fn() -> i32 { kw = kw + 1; return 100; }; w[kw] = g();` stored under 2 (with i32 keys: under 1)")
}

func c18R13(c *Ctx, r *Report) {
	const rule = "C18.R13"
	r.Describe(rule, "mir/gen.lowerCallArgs: in the loop over the arguments `val = b.snapshotValue(val, …)` precedes the append of val; its guard has no conjunct other than a negated reference-type test of the argument type and a negated call P(args[i+1:]) where every `return true` of P and of the predicate it applies per element stands in a case clause of Ident, Literal, ParenExpr, SelectorExpr, UnaryExpr or CastExpr")
	fn := c.LookupFn(pkgMIRGen, "(*functionBuilder).lowerCallArgs")
	snap := c.LookupFn(pkgMIRGen, "(*functionBuilder).snapshotValue")
	if !r.Anchor(rule, fn != nil && snap != nil && fn.Decl.Body != nil, "mir/gen lowerCallArgs / snapshotValue") {
		return
	}
	info := fn.Info()
	args := fn.ParamNamed("args")
	var loop *ast.RangeStmt
	ast.Inspect(fn.Decl.Body, func(x ast.Node) bool {
		if rs, ok := x.(*ast.RangeStmt); ok && objOf(info, rs.X) == args && loop == nil {
			loop = rs
		}
		return true
	})
	if !r.Anchor(rule, loop != nil && args != nil, "lowerCallArgs: for … range args") {
		return
	}
	simpleKinds := map[string]bool{"Ident": true, "Literal": true, "ParenExpr": true, "SelectorExpr": true, "UnaryExpr": true, "CastExpr": true}
	var simplePred func(f *Fn, depth int) bool
	simplePred = func(f *Fn, depth int) bool {
		if f == nil || f.Decl == nil || f.Decl.Body == nil || depth > 2 {
			return false
		}
		finfo := f.Info()
		ok := true
		walkWithStack(f.Decl.Body, func(x ast.Node, stack []ast.Node) bool {
			ret, isRet := x.(*ast.ReturnStmt)
			if !isRet || len(ret.Results) != 1 {
				return true
			}
			res := ast.Unparen(ret.Results[0])
			if v := constOf(finfo, res); v != nil {
				if !boolVal(v) {
					return true
				}
				// `return true`: inside a case clause of simple kinds only, or after a loop that returned false for
				// every non-simple element (function-level return true)
				inCase := false
				for _, a := range stack {
					if cc, isCC := a.(*ast.CaseClause); isCC {
						inCase = true
						for _, t := range caseTypes(finfo, cc) {
							if nt := namedOf(t); nt == nil || !simpleKinds[nt.Obj().Name()] {
								ok = false
							}
						}
						if len(cc.List) == 0 {
							ok = false
						}
					}
				}
				if !inCase {
					// function-level `return true`: every loop before it must return false on !P(elem)
					hasLoopGuard := false
					ast.Inspect(f.Decl.Body, func(y ast.Node) bool {
						if ifs, isIf := y.(*ast.IfStmt); isIf {
							if u, isNot := ast.Unparen(ifs.Cond).(*ast.UnaryExpr); isNot && u.Op == token.NOT {
								if cl, isCall := ast.Unparen(u.X).(*ast.CallExpr); isCall && simplePred(c.FnOf(callee(finfo, cl)), depth+1) {
									hasLoopGuard = true
								}
							}
						}
						return true
					})
					if !hasLoopGuard {
						ok = false
					}
				}
				return true
			}
			// `return P(e.X)`: recursion into the same kind of predicate
			if cl, isCall := res.(*ast.CallExpr); isCall {
				g := c.FnOf(callee(finfo, cl))
				if g != nil && (g.Obj == f.Obj || simplePred(g, depth+1)) {
					return true
				}
			}
			ok = false
			return true
		})
		return ok
	}
	var snapPos, appendPos token.Pos
	guardOK := true
	guardMsg := ""
	walkWithStack(loop.Body, func(x ast.Node, stack []ast.Node) bool {
		switch y := x.(type) {
		case *ast.AssignStmt:
			if len(y.Rhs) == 1 {
				if cl, ok := ast.Unparen(y.Rhs[0]).(*ast.CallExpr); ok {
					if isCallTo(info, cl, snap.Obj) && snapPos == token.NoPos {
						snapPos = y.Pos()
						for _, a := range stack {
							ifs, isIf := a.(*ast.IfStmt)
							if !isIf || !containsNode(ifs.Body, y) {
								continue
							}
							for _, cj := range conjuncts(ifs.Cond) {
								u, isNot := ast.Unparen(cj).(*ast.UnaryExpr)
								if !isNot || u.Op != token.NOT {
									guardOK, guardMsg = false, exprStr(cj)
									continue
								}
								if id, isID := ast.Unparen(u.X).(*ast.Ident); isID {
									// `!isRef` from `_, isRef := UnwrapType(argType).(*types.ReferenceType)` in the if's init
									good := false
									if init, ok := ifs.Init.(*ast.AssignStmt); ok && len(init.Lhs) == 2 && objOf(info, init.Lhs[1]) == info.Uses[id] {
										if ta, ok := ast.Unparen(init.Rhs[0]).(*ast.TypeAssertExpr); ok {
											if nt := namedOf(info.TypeOf(ta.Type)); nt != nil && nt.Obj().Name() == "ReferenceType" {
												good = true
											}
										}
									}
									if !good {
										guardOK, guardMsg = false, exprStr(cj)
									}
									continue
								}
								pc, isCall := ast.Unparen(u.X).(*ast.CallExpr)
								if !isCall || len(pc.Args) != 1 {
									guardOK, guardMsg = false, exprStr(cj)
									continue
								}
								sl, isSlice := ast.Unparen(pc.Args[0]).(*ast.SliceExpr)
								if !isSlice || objOf(info, sl.X) != args || sl.High != nil || !strings.HasSuffix(strings.ReplaceAll(exprStr(sl.Low), " ", ""), "+1") || !simplePred(c.FnOf(callee(info, pc)), 0) {
									guardOK, guardMsg = false, exprStr(cj)
								}
							}
						}
					}
					if id, ok := cl.Fun.(*ast.Ident); ok && id.Name == "append" && appendPos == token.NoPos {
						appendPos = y.Pos()
					}
				}
			}
		}
		return true
	})
	r.Check(snapPos != token.NoPos && appendPos != token.NoPos && snapPos < appendPos, rule, fn.Name(), "by-value arguments are snapshotted before they are collected", c.pos(loop.Pos()),
		"a by-value struct / 128-bit argument is handed on as the address of the variable it was read from: `first(x, bump(&'x))` saw the x that bump had changed (501 for 41), while a scalar argument is a snapshot")
	r.Check(guardOK, rule, fn.Name(), "the snapshot is skipped only when all later arguments are simple operands", c.pos(snapPos),
		"the copy of a by-value aggregate argument is skipped under `"+guardMsg+"`, which does not guarantee that no later argument can run code that changes the argument's place")
}

// ---- C11.R16: a value stored into an optional place is converted to the payload type ---------------------------

func init() {
	lateInits = append(lateInits, func() {
		props["C11"].Quick = append(props["C11"].Quick, c11R16)
		props["C11"].Explanation += " (R16) coerceValueForAssign converts a non-optional value that is stored into an optional place to the optional's payload type (the assignment `o = a` inside the branch that narrowed `o: i64?` to i64 stores an i32)."
	})
}

func c11R16(c *Ctx, r *Report) {
	const rule = "C11.R16"
	r.Describe(rule, "mir/gen.coerceValueForAssign: the target type handed to widenNumericValue is a variable that is assigned `<opt>.Inner` under a type assertion of the destination type to *types.OptionalType")
	fn := c.LookupFn(pkgMIRGen, "(*functionBuilder).coerceValueForAssign")
	widen := c.LookupFn(pkgMIRGen, "(*functionBuilder).widenNumericValue")
	if !r.Anchor(rule, fn != nil && widen != nil && fn.Decl.Body != nil, "mir/gen coerceValueForAssign / widenNumericValue") {
		return
	}
	info := fn.Info()
	to := fn.ParamNamed("toType")
	if !r.Anchor(rule, to != nil, "coerceValueForAssign(…, toType, …)") {
		return
	}
	n := 0
	for _, cl := range callsIn(fn.Decl.Body, false) {
		if !isCallTo(info, cl, widen.Obj) || len(cl.Args) < 3 {
			continue
		}
		n++
		target := objOf(info, cl.Args[2])
		good := false
		walkWithStack(fn.Decl.Body, func(x ast.Node, stack []ast.Node) bool {
			as, ok := x.(*ast.AssignStmt)
			if !ok || len(as.Lhs) != 1 || len(as.Rhs) != 1 || objOf(info, as.Lhs[0]) != target || target == nil {
				return true
			}
			sel, ok := ast.Unparen(as.Rhs[0]).(*ast.SelectorExpr)
			if !ok || sel.Sel.Name != "Inner" {
				return true
			}
			for _, a := range stack {
				ifs, isIf := a.(*ast.IfStmt)
				if !isIf || ifs.Init == nil {
					continue
				}
				init, isAs := ifs.Init.(*ast.AssignStmt)
				if !isAs || len(init.Rhs) != 1 || objOf(info, init.Lhs[0]) != objOf(info, sel.X) {
					continue
				}
				if ta, isTA := ast.Unparen(init.Rhs[0]).(*ast.TypeAssertExpr); isTA && mentionsVar(info, ta.X, to) {
					if nt := namedOf(info.TypeOf(ta.Type)); nt != nil && nt.Obj().Name() == "OptionalType" {
						good = true
					}
				}
			}
			return true
		})
		r.Check(good && target != to, rule, fn.Name(), "the conversion target of an optional destination is its payload type", c.pos(cl.Pos()),
			"a value stored into an optional place is 'converted' to the optional type itself, which is no primitive, so nothing happens: `let o: i64? = pick(); if o != none { o = a; io::Println(o); }` with an i32 a == -5 stored four bytes into the eight-byte payload and printed 4294967291")
	}
	r.Floor(rule, n, 1, "widenNumericValue calls in coerceValueForAssign")
}

// ---- C10.R11: literal bounds of a range are fitted to the type of the typed bound --------------------------------

func init() {
	lateInits = append(lateInits, func() {
		props["C10"].Quick = append(props["C10"].Quick, c10R11)
		props["C11"].Quick = append(props["C11"].Quick, c10R11)
		props["C10"].Explanation += " (R11) the type checker's clause for range expressions, which lets untyped literal bounds take the type of a typed bound, passes the bounds to a function that reaches checkFitness: `for i in -1..n` with an unsigned n is rejected instead of starting at 4294967295."
	})
}

func c10R11(c *Ctx, r *Report) {
	const rule = "C10.R11"
	r.Describe(rule, "typechecker: every type-switch clause for *ast.RangeExpr that checks the Start and End expressions without an expected type also calls a function that reaches checkFitness (within two calls)")
	fit := c.LookupFn(pkgTC, "checkFitness")
	chk := c.LookupFn(pkgTC, "checkExpr")
	if !r.Anchor(rule, fit != nil && chk != nil, "typechecker checkFitness / checkExpr") {
		return
	}
	n := 0
	for _, fn := range c.AllFns(pkgTC) {
		if fn.Decl.Body == nil {
			continue
		}
		info := fn.Info()
		ast.Inspect(fn.Decl.Body, func(x ast.Node) bool {
			ts, ok := x.(*ast.TypeSwitchStmt)
			if !ok {
				return true
			}
			for _, cc := range caseClauses(ts.Body) {
				isRange := false
				for _, t := range caseTypes(info, cc) {
					if nt := namedOf(t); nt != nil && nt.Obj().Name() == "RangeExpr" {
						isRange = true
					}
				}
				if !isRange {
					continue
				}
				body := &ast.BlockStmt{List: cc.Body}
				checksBounds := false
				fits := false
				for _, cl := range callsIn(body, true) {
					f := callee(info, cl)
					if f == nil {
						continue
					}
					if f == chk.Obj && len(cl.Args) >= 3 {
						if sel, ok := ast.Unparen(cl.Args[2]).(*ast.SelectorExpr); ok && (sel.Sel.Name == "Start" || sel.Sel.Name == "End") {
							checksBounds = true
						}
					}
					if f == fit.Obj || reachesAdd(c, f, fit.Obj, 0) {
						if f != chk.Obj {
							fits = true
						}
					}
				}
				if !checksBounds {
					continue
				}
				n++
				r.Check(fits, rule, fn.Name(), "case *ast.RangeExpr fits literal bounds to the bound type", c.pos(cc.Pos()),
					"the bounds of a range are checked without an expected type and an untyped literal bound silently takes the type of the other bound: `let n: u32 = lim(); for i in -1..n { … }` is accepted, -1 becomes 4294967295 and the loop body never runs")
			}
			return true
		})
	}
	r.Floor(rule, n, 1, "range-expression clauses that check their bounds")
}

// ---- C11.R17: an untyped integer expression is not resolved to a float type wholesale ---------------------------

func init() {
	lateInits = append(lateInits, func() {
		props["C11"].Quick = append(props["C11"].Quick, c11R17)
		props["C11"].Explanation += " (R17) typechecker.resolveType hands an untyped integer the expected type only when that type is an integer type (a float target is decided per value, where literals are range-checked)."
	})
}

func c11R17(c *Ctx, r *Report) {
	const rule = "C11.R17"
	r.Describe(rule, "typechecker.resolveType: every `return expected` guarded by IsUntypedInt(…) is also guarded by IsInteger(expected); every one guarded by IsUntypedFloat(…) by IsFloat(expected)")
	fn := c.LookupFn(pkgTC, "resolveType")
	if !r.Anchor(rule, fn != nil && fn.Decl.Body != nil, "typechecker.resolveType") {
		return
	}
	info := fn.Info()
	sig := fn.Obj.Type().(*types.Signature)
	if !r.Anchor(rule, sig.Params().Len() == 2, "resolveType(untyped, expected)") {
		return
	}
	expected := sig.Params().At(1)
	n := 0
	walkWithStack(fn.Decl.Body, func(x ast.Node, stack []ast.Node) bool {
		ret, ok := x.(*ast.ReturnStmt)
		if !ok || len(ret.Results) != 1 || objOf(info, ret.Results[0]) != expected {
			return true
		}
		preds := map[string]bool{}
		for _, a := range stack {
			ifs, isIf := a.(*ast.IfStmt)
			if !isIf || !containsNode(ifs.Body, ret) {
				continue
			}
			for _, cj := range conjuncts(ifs.Cond) {
				if cl, isCall := ast.Unparen(cj).(*ast.CallExpr); isCall {
					if f := callee(info, cl); f != nil {
						preds[f.Name()] = true
					}
				}
			}
		}
		n++
		good := (preds["IsUntypedInt"] && preds["IsInteger"] && !preds["IsNumeric"]) || (preds["IsUntypedFloat"] && preds["IsFloat"])
		r.Check(good, rule, fn.Name(), "return expected #"+itoa(n), c.pos(ret.Pos()),
			"an untyped integer expression takes any numeric expected type, floats included, without a look at its value: `fn f() -> str ! f32 { return 16777216 + 1; }` is accepted and yields 16777216.0 (`return 16777217;` is rejected)")
		return true
	})
	r.Floor(rule, n, 2, "`return expected` statements in resolveType")
}

// ---- C09.R11: folded integer arithmetic is reduced to the width of its type --------------------------------------

func init() {
	lateInits = append(lateInits, func() {
		props["C09"].Quick = append(props["C09"].Quick, c09R11)
		props["C04"].Quick = append(props["C04"].Quick, c09R11)
		props["C08"].Quick = append(props["C08"].Quick, c09R11)
		props["C09"].Explanation += " (R11) the constant evaluator returns the result of +, -, *, / and % through a helper that is given the static type of the expression and reduces an integer modulo 2^N (two's complement for signed types): what is folded early has the value the run-time arithmetic produces (`K + 10` with a u8 K == 250 is 4, not 260)."
	})
}

func c09R11(c *Ctx, r *Report) {
	const rule = "C09.R11"
	const pkgCE = "internal/hir/consteval"
	r.Describe(rule, "hir/consteval.evaluateHIRBinary: in the clauses of PLUS, MINUS, MUL, DIV and MOD every returned value is a call W(…, binary.Type) of a helper that calls GetNumberBitSize, IsSigned and (*big.Int).Mod")
	fn := c.LookupFn(pkgCE, "evaluateHIRBinary")
	if !r.Anchor(rule, fn != nil && fn.Decl.Body != nil, "hir/consteval.evaluateHIRBinary") {
		return
	}
	info := fn.Info()
	var bin *types.Var
	sig := fn.Obj.Type().(*types.Signature)
	for i := 0; i < sig.Params().Len(); i++ {
		if nt := namedOf(sig.Params().At(i).Type()); nt != nil && nt.Obj().Name() == "BinaryExpr" {
			bin = sig.Params().At(i)
		}
	}
	if !r.Anchor(rule, bin != nil, "evaluateHIRBinary(…, binary *hir.BinaryExpr)") {
		return
	}
	isWrapper := func(f *Fn) bool {
		if f == nil || f.Decl == nil || f.Decl.Body == nil {
			return false
		}
		got := map[string]bool{}
		for _, cl := range callsIn(f.Decl.Body, true) {
			if g := callee(f.Info(), cl); g != nil {
				got[g.Name()] = true
			}
		}
		return got["GetNumberBitSize"] && got["IsSigned"] && got["Mod"]
	}
	arith := map[string]bool{"PLUS_TOKEN": true, "MINUS_TOKEN": true, "MUL_TOKEN": true, "DIV_TOKEN": true, "MOD_TOKEN": true}
	n := 0
	ast.Inspect(fn.Decl.Body, func(x ast.Node) bool {
		cc, ok := x.(*ast.CaseClause)
		if !ok {
			return true
		}
		name := ""
		for _, e := range cc.List {
			if sel, ok := ast.Unparen(e).(*ast.SelectorExpr); ok && arith[sel.Sel.Name] {
				name = sel.Sel.Name
			}
		}
		if name == "" {
			return true
		}
		for _, st := range cc.Body {
			ast.Inspect(st, func(y ast.Node) bool {
				ret, ok := y.(*ast.ReturnStmt)
				if !ok || len(ret.Results) != 1 {
					return true
				}
				n++
				good := false
				if cl, ok := ast.Unparen(ret.Results[0]).(*ast.CallExpr); ok && len(cl.Args) >= 2 {
					last := cl.Args[len(cl.Args)-1]
					if sel, ok := ast.Unparen(last).(*ast.SelectorExpr); ok && sel.Sel.Name == "Type" && objOf(info, sel.X) == bin && isWrapper(c.FnOf(callee(info, cl))) {
						good = true
					}
				}
				r.Check(good, rule, fn.Name(), "case "+name+" returns through the width reduction", c.pos(ret.Pos()),
					"folded integer arithmetic is computed in unbounded precision: `const K: u8 = 250; let z := K + 10; a[z]` is rejected with `index 260` while the same program with `K` obtained from a call runs and reads a[4]; `let i: i32 = 2147483647; arr[i + i + 4]` likewise")
				return true
			})
		}
		return true
	})
	r.Floor(rule, n, 5, "arithmetic clauses of evaluateHIRBinary")
}

// ---- C01.R20: every by-value parameter that arrives as a scalar has its entry slot -------------------------------

func init() {
	lateInits = append(lateInits, func() {
		props["C01"].Quick = append(props["C01"].Quick, c01R20)
		props["C07"].Quick = append(props["C07"].Quick, c01R20)
		props["C01"].Explanation += " (R20) buildFuncBody gives an entry slot to every by-value parameter that is handed over as the value itself — numbers, enum tags, the handles of dynamic arrays and maps: a slot made at the first `&'p` or assignment is not seen by reads that were lowered before it (the condition of the enclosing loop)."
	})
}

func c01R20(c *Ctx, r *Report) {
	const rule = "C01.R20"
	r.Describe(rule, "mir/gen.buildFuncBody: in the loop that fills b.paramSlots, the guard that skips a parameter without a slot accepts (does not skip) PrimitiveType, EnumType, MapType and ArrayType — either by type assertions in the guard or by the `return true` clauses of the predicate it calls")
	fn := c.LookupFn(pkgMIRGen, "(*functionBuilder).buildFuncBody")
	if !r.Anchor(rule, fn != nil && fn.Decl.Body != nil, "mir/gen.buildFuncBody") {
		return
	}
	info := fn.Info()
	var loop *ast.RangeStmt
	ast.Inspect(fn.Decl.Body, func(x ast.Node) bool {
		rs, ok := x.(*ast.RangeStmt)
		if !ok {
			return true
		}
		writes := false
		ast.Inspect(rs.Body, func(y ast.Node) bool {
			if as, ok := y.(*ast.AssignStmt); ok {
				for _, l := range as.Lhs {
					if ix, ok := ast.Unparen(l).(*ast.IndexExpr); ok {
						if f := fieldOf(info, ix.X); f != nil && f.Name() == "paramSlots" {
							writes = true
						}
					}
				}
			}
			return true
		})
		if writes {
			loop = rs
		}
		return true
	})
	if !r.Anchor(rule, loop != nil, "buildFuncBody: the loop that fills b.paramSlots") {
		return
	}
	accepted := map[string]bool{}
	typeGuards := 0 // guards that skip a parameter because of its type; without any, every parameter gets a slot
	for _, st := range loop.Body.List {
		ifs, ok := st.(*ast.IfStmt)
		if !ok || !thenTerminates(ifs) {
			continue
		}
		// `if _, isT := X.(*types.T); !isT { continue }`
		if init, ok := ifs.Init.(*ast.AssignStmt); ok && len(init.Rhs) == 1 {
			if ta, ok := ast.Unparen(init.Rhs[0]).(*ast.TypeAssertExpr); ok && ta.Type != nil {
				if u, ok := ast.Unparen(ifs.Cond).(*ast.UnaryExpr); ok && u.Op == token.NOT {
					if nt := namedOf(info.TypeOf(ta.Type)); nt != nil {
						accepted[nt.Obj().Name()] = true
						typeGuards++
					}
				}
			}
		}
		// `if !P(param.Type) { continue }`
		if u, ok := ast.Unparen(ifs.Cond).(*ast.UnaryExpr); ok && u.Op == token.NOT {
			if cl, ok := ast.Unparen(u.X).(*ast.CallExpr); ok {
				if p := c.FnOf(callee(info, cl)); p != nil && p.Decl != nil && p.Decl.Body != nil && p.Obj.Pkg() == fn.Obj.Pkg() {
					pinfo := p.Info()
					if sig := p.Obj.Type().(*types.Signature); sig.Params().Len() == 1 {
						if nt := namedOf(sig.Params().At(0).Type()); nt != nil && nt.Obj().Name() == "SemType" {
							typeGuards++
						}
					}
					ast.Inspect(p.Decl.Body, func(y ast.Node) bool {
						cc, ok := y.(*ast.CaseClause)
						if !ok {
							return true
						}
						returnsNonFalse := false
						for _, s2 := range cc.Body {
							ast.Inspect(s2, func(z ast.Node) bool {
								if ret, ok := z.(*ast.ReturnStmt); ok && len(ret.Results) == 1 {
									if v := constOf(pinfo, ret.Results[0]); v == nil || boolVal(v) {
										returnsNonFalse = true
									}
								}
								return true
							})
						}
						if returnsNonFalse {
							for _, t := range caseTypes(pinfo, cc) {
								if nt := namedOf(t); nt != nil {
									accepted[nt.Obj().Name()] = true
								}
							}
						}
						return true
					})
				}
			}
		}
	}
	for _, want := range []string{"PrimitiveType", "EnumType", "MapType", "ArrayType"} {
		r.Check(accepted[want] || typeGuards == 0, rule, fn.Name(), "a by-value "+want+" parameter gets its entry slot", c.pos(loop.Pos()),
			"a parameter of this kind has no stack slot until the first `&'p` or assignment is lowered; the loop condition lowered before it keeps reading the incoming value: `fn walk(c: Color) -> i32 { let steps := 0; while c != Color::Blue && steps < 100 { next(&'c); steps = steps + 1; } return steps; }` returned 100 for 2, and `while len(a) < 3 { a = more(a); … }` with a []i32 parameter never saw the new a")
	}
}

// ---- C18.R14: a store into a narrowed union reaches the union -------------------------------------------------------

func init() {
	lateInits = append(lateInits, func() {
		props["C18"].Quick = append(props["C18"].Quick, c18R14)
		props["C01"].Quick = append(props["C01"].Quick, c18R14)
		props["C18"].Explanation += " (R14) lowerFieldAddr addresses a field of a variable narrowed from a union to a struct variant inside the union's own storage (storage + tag), before it would fall back to the value path, whose UnionExtract hands out a copy of the payload."
	})
}

func c18R14(c *Ctx, r *Report) {
	const rule = "C18.R14"
	r.Describe(rule, "mir/gen.lowerFieldAddr: before the fallback `b.lowerExpr(expr.X)` a branch takes the base pointer from a helper that tests isNarrowedUnionIdent and returns emitPtrAdd(<union storage>, 4, …) without building a UnionExtract")
	fn := c.LookupFn(pkgMIRGen, "(*functionBuilder).lowerFieldAddr")
	lower := c.LookupFn(pkgMIRGen, "(*functionBuilder).lowerExpr")
	if !r.Anchor(rule, fn != nil && lower != nil && fn.Decl.Body != nil, "mir/gen lowerFieldAddr / lowerExpr") {
		return
	}
	info := fn.Info()
	inPlace := func(h *Fn) bool {
		if h == nil || h.Decl == nil || h.Decl.Body == nil {
			return false
		}
		hinfo := h.Info()
		tests, adds, copies := false, false, false
		ast.Inspect(h.Decl.Body, func(x ast.Node) bool {
			switch y := x.(type) {
			case *ast.CallExpr:
				if f := callee(hinfo, y); f != nil {
					if f.Name() == "isNarrowedUnionIdent" {
						tests = true
					}
					if f.Name() == "emitPtrAdd" && len(y.Args) >= 2 {
						if v := constOf(hinfo, y.Args[1]); v != nil && intVal(v) == 4 {
							adds = true
						}
					}
				}
			case *ast.CompositeLit:
				if isNamed(hinfo.TypeOf(y), Mod+"/"+pkgMIR, "UnionExtract") {
					copies = true
				}
			}
			return true
		})
		return tests && adds && !copies
	}
	var helperPos, fallbackPos token.Pos
	for _, cl := range callsIn(fn.Decl.Body, false) {
		if isCallTo(info, cl, lower.Obj) && fallbackPos == token.NoPos {
			fallbackPos = cl.Pos()
		}
		if h := c.FnOf(callee(info, cl)); h != nil && inPlace(h) && helperPos == token.NoPos {
			helperPos = cl.Pos()
		}
	}
	r.Check(helperPos != token.NoPos && fallbackPos != token.NoPos && helperPos < fallbackPos, rule, fn.Name(), "a narrowed union's struct payload is addressed in place", c.pos(fn.Decl.Pos()),
		"the address of a field of a variable narrowed from a union is taken on the copy that UnionExtract makes of the payload: `if u is Big { u.D = 50; io::Println(u.D); bump(&'u.E); io::Println(u.E); }` printed 1 and 2 — every write was lost")
}

// ---- C06.R11: a constant does not share the storage of a variable -------------------------------------------------

func init() {
	lateInits = append(lateInits, func() {
		props["C06"].Quick = append(props["C06"].Quick, c06R11)
		props["C06"].Explanation += " (R11) checkVarDecl applies the storage-sharing check in both directions: under isConst it calls a helper that combines sharesStorageOnCopy with checkMutability and reports an initialiser that is a mutable place (`const cm := m` for a map variable m), as the other direction reports a variable initialised from a constant."
	})
}

func c06R11(c *Ctx, r *Report) {
	const rule = "C06.R11"
	r.Describe(rule, "typechecker.checkVarDecl: a statement guarded by `isConst` (as a conjunct, not negated) calls a helper that calls sharesStorageOnCopy and checkMutability, returns early unless the result is MutabilityAllowed, and adds a diagnostic")
	fn := c.LookupFn(pkgTC, "checkVarDecl")
	if !r.Anchor(rule, fn != nil && fn.Decl.Body != nil, "typechecker.checkVarDecl") {
		return
	}
	info := fn.Info()
	isConst := fn.ParamNamed("isConst")
	if !r.Anchor(rule, isConst != nil, "checkVarDecl(…, isConst)") {
		return
	}
	good := func(h *Fn) bool {
		if h == nil || h.Decl == nil || h.Decl.Body == nil {
			return false
		}
		hinfo := h.Info()
		got := map[string]bool{}
		for _, cl := range callsIn(h.Decl.Body, true) {
			if f := callee(hinfo, cl); f != nil {
				got[f.Name()] = true
			}
		}
		testsAllowed := false
		ast.Inspect(h.Decl.Body, func(x ast.Node) bool {
			if b, ok := x.(*ast.BinaryExpr); ok && b.Op == token.NEQ {
				if o := constObj(hinfo, b.Y); o != nil && o.Name() == "MutabilityAllowed" {
					testsAllowed = true
				}
			}
			return true
		})
		shares := got["sharesStorageOnCopy"]
		if !shares {
			if sf := c.LookupFn(pkgTC, "sharesStorageOnCopy"); sf != nil {
				shares = reachesAdd(c, h.Obj, sf.Obj, 1)
			}
		}
		return shares && got["checkMutability"] && got["Add"] && testsAllowed
	}
	found := false
	var pos token.Pos = fn.Decl.Pos()
	walkWithStack(fn.Decl.Body, func(x ast.Node, stack []ast.Node) bool {
		cl, ok := x.(*ast.CallExpr)
		if !ok || !good(c.FnOf(callee(info, cl))) {
			return true
		}
		for _, a := range stack {
			ifs, isIf := a.(*ast.IfStmt)
			if !isIf || !containsNode(ifs.Body, cl) {
				continue
			}
			for _, cj := range conjuncts(ifs.Cond) {
				if objOf(info, cj) == isConst {
					found, pos = true, cl.Pos()
				}
			}
		}
		return true
	})
	r.Check(found, rule, fn.Name(), "a constant's initialiser is checked for sharing the storage of a variable", c.pos(pos),
		"a constant may be bound to the handle of a mutable dynamic array or map: `let m := { \"a\" => 1 } as map[str]i32; const cm := m; m[\"a\"] = 5; io::Println(cm[\"a\"] ?? -1);` prints 5 — the value read through the constant changed")
}

// ---- C06.R12: the root of a place is found through casts ------------------------------------------------------------

func init() {
	lateInits = append(lateInits, func() {
		props["C06"].Quick = append(props["C06"].Quick, c06R12)
		props["C06"].Explanation += " (R12) rootIdentifierOfPlace, by which checkMutability finds the constant or read-only variable an expression belongs to, looks through selections, indexing, parentheses and casts: each of them is lowered without a copy of the operand."
	})
}

func c06R12(c *Ctx, r *Report) {
	const rule = "C06.R12"
	r.Describe(rule, "typechecker.rootIdentifierOfPlace: its type switch has a clause for *ast.SelectorExpr, *ast.IndexExpr, *ast.ParenExpr and *ast.CastExpr, each of which continues with the operand (`expr = e.X`)")
	fn := c.LookupFn(pkgTC, "rootIdentifierOfPlace")
	if !r.Anchor(rule, fn != nil && fn.Decl.Body != nil, "typechecker.rootIdentifierOfPlace") {
		return
	}
	info := fn.Info()
	through := map[string]bool{}
	ast.Inspect(fn.Decl.Body, func(x ast.Node) bool {
		cc, ok := x.(*ast.CaseClause)
		if !ok {
			return true
		}
		descends := false
		for _, st := range cc.Body {
			if as, ok := st.(*ast.AssignStmt); ok && len(as.Rhs) == 1 {
				if sel, ok := ast.Unparen(as.Rhs[0]).(*ast.SelectorExpr); ok && sel.Sel.Name == "X" {
					descends = true
				}
			}
		}
		if descends {
			for _, t := range caseTypes(info, cc) {
				if nt := namedOf(t); nt != nil {
					through[nt.Obj().Name()] = true
				}
			}
		}
		return true
	})
	for _, want := range []string{"SelectorExpr", "IndexExpr", "ParenExpr", "CastExpr"} {
		r.Check(through[want], rule, fn.Name(), "looks through "+want, c.pos(fn.Decl.Pos()),
			"an expression of this form is not traced back to the variable it addresses, so the immutability of that variable is not seen: `const c := { .X = 1 } as P; (c as P).inc(); io::Println(c.X);` with a `&'P` receiver is accepted and prints 2 (the cast is lowered as the address of c)")
	}
}

// ---- C13.R23: who may create files and directories -------------------------------------------------------------------

func init() {
	lateInits = append(lateInits, func() {
		props["C13"].Quick = append(props["C13"].Quick, c13R23)
		props["C13"].Explanation += " (R23) files and directories are created (os.Create/MkdirAll/Mkdir/WriteFile/OpenFile/CreateTemp/MkdirTemp) only by the code-generation phases, whose cleanup R13/R14 check, the TOML writer and the two debug dumps a flag asks for: setting up a compilation creates nothing that a failed run would leave behind."
	})
}

// c13R23Allowed: the functions that may create files or directories.
var c13R23Allowed = map[string]string{
	"pipeline.(*Pipeline).runQBECodegenPhase":  "the gen/ directory; removed on every failing exit (C13.R13)",
	"pipeline.(*Pipeline).generateModuleQBE":   "the .ssa files inside gen/",
	"pipeline.(*Pipeline).runWasmCodegenPhase": "the .wasm output, written only after the error gate (C13.R14)",
	"toml.WriteTOMLFile":                       "the library's writer: it is asked to create that file",
	"frontend/ast.(*Module).SaveAST":           "debug dump requested with -save-ast",
	"mir.WriteModuleFile":                      "debug dump of the MIR requested by a flag",
}

func c13R23(c *Ctx, r *Report) {
	const rule = "C13.R23"
	r.Describe(rule, "all non-test packages: every call of os.Create, os.MkdirAll, os.Mkdir, os.WriteFile, os.OpenFile, os.CreateTemp or os.MkdirTemp stands in a function of the reviewed table (code-generation phases, TOML writer, debug dumps)")
	creates := map[string]bool{"Create": true, "MkdirAll": true, "Mkdir": true, "WriteFile": true, "OpenFile": true, "CreateTemp": true, "MkdirTemp": true}
	n := 0
	seen := map[string]bool{}
	for _, p := range c.Pkgs {
		rel := relOf(p.PkgPath)
		if strings.HasPrefix(rel, "tools") {
			continue
		}
		for _, fn := range c.AllFns(rel) {
			if fn.Decl.Body == nil {
				continue
			}
			for _, cl := range callsIn(fn.Decl.Body, true) {
				f := callee(fn.Info(), cl)
				if f == nil || f.Pkg() == nil || f.Pkg().Path() != "os" || !creates[f.Name()] {
					continue
				}
				n++
				reason, ok := c13R23Allowed[fn.Name()]
				seen[fn.Name()] = true
				r.Check(ok, rule, fn.Name(), "os."+f.Name()+" "+exprStr(cl.Args[0]), c.pos(cl.Pos()),
					"a file or directory is created outside the code-generation phases: nothing removes it when the compilation fails — `context_v2.New` made an empty `.ferret` directory in the project root on every run, which stayed behind after `io::Println(1 }` was rejected")
				_ = reason
			}
		}
	}
	r.Floor(rule, n, 4, "file/directory creations")
	for _, k := range sortedKeys(c13R23Allowed) {
		if !seen[k] {
			r.Note("C13.R23: reviewed creator %s no longer creates anything (entry can go)", k)
		}
	}
}

// ---- C09.R12: a folded float constant is emitted with all its digits ------------------------------------------------

func init() {
	lateInits = append(lateInits, func() {
		props["C09"].Quick = append(props["C09"].Quick, c09R12)
		props["C09"].Explanation += " (R12) the text a compile-time float value is emitted from is produced with big.Float.Text(…, -1) — every digit the value has — never with big.Float.String(), which rounds to ten significant digits."
	})
}

func c09R12(c *Ctx, r *Report) {
	const rule = "C09.R12"
	r.Describe(rule, "hir/consteval and mir/gen: no call of (*big.Float).String; every call of (*big.Float).Text has the precision argument -1")
	n, texts := 0, 0
	for _, rel := range []string{"internal/hir/consteval", pkgMIRGen, "internal/hir/analysis"} {
		for _, fn := range c.AllFns(rel) {
			if fn.Decl.Body == nil {
				continue
			}
			info := fn.Info()
			for _, cl := range callsIn(fn.Decl.Body, true) {
				f := callee(info, cl)
				if f == nil {
					continue
				}
				recv, isBig := isBigMethod(f)
				if !isBig || recv != "Float" {
					continue
				}
				switch f.Name() {
				case "String":
					n++
					r.Fail(rule, fn.Name(), "big.Float.String()", c.pos(cl.Pos()),
						"a compile-time float is turned into text with ten significant digits, and that text is what the constant is emitted from: `const P: f64 = 3.14159265358979; match pi() { P => … }` compares with 3.141592654 and takes the other arm, while the same program with `let P` matches")
				case "Text":
					n++
					texts++
					good := false
					if len(cl.Args) == 2 {
						if v := constOf(info, cl.Args[1]); v != nil && intVal(v) == -1 {
							good = true
						}
					}
					r.Check(good, rule, fn.Name(), "big.Float.Text with precision -1", c.pos(cl.Pos()), "a compile-time float is rendered with a fixed number of digits")
				}
			}
		}
	}
	r.Floor(rule, texts, 1, "renderings of compile-time floats")
}

// ---- C18.R15: the lazily made slot of a parameter has the parameter's declared type -------------------------------

func init() {
	lateInits = append(lateInits, func() {
		props["C18"].Quick = append(props["C18"].Quick, c18R15)
		props["C01"].Quick = append(props["C01"].Quick, c18R15)
		props["C18"].Explanation += " (R15) addrForIdent allocates the slot it makes for a parameter on first use with the symbol's declared type; the identifier's own type is the narrowed payload type inside `if p != none` / `if p is T` and is only the fallback when the symbol has none."
	})
}

func c18R15(c *Ctx, r *Report) {
	const rule = "C18.R15"
	r.Describe(rule, "mir/gen.addrForIdent: the type argument of every emitAllocaInEntry call is a variable whose first definition is `<ident>.Symbol.Type` (a later `= <ident>.Type` only under a nil test of it)")
	fn := c.LookupFn(pkgMIRGen, "(*functionBuilder).addrForIdent")
	if !r.Anchor(rule, fn != nil && fn.Decl.Body != nil, "mir/gen.addrForIdent") {
		return
	}
	info := fn.Info()
	n := 0
	for _, cl := range callsIn(fn.Decl.Body, false) {
		f := callee(info, cl)
		if f == nil || f.Name() != "emitAllocaInEntry" || len(cl.Args) < 1 {
			continue
		}
		n++
		good := false
		if o := objOf(info, cl.Args[0]); o != nil {
			if _, isVar := o.(*types.Var); isVar && !o.(*types.Var).IsField() {
				defs := localDefs(fn)[o]
				if len(defs) > 0 {
					if sel, ok := ast.Unparen(defs[0]).(*ast.SelectorExpr); ok && sel.Sel.Name == "Type" {
						if inner, ok := ast.Unparen(sel.X).(*ast.SelectorExpr); ok && inner.Sel.Name == "Symbol" {
							good = true
						}
					}
				}
			}
		}
		r.Check(good, rule, fn.Name(), "slot type "+exprStr(cl.Args[0]), c.pos(cl.Pos()),
			"the slot of a parameter is allocated with the type the identifier has where it is first addressed; inside `if p != none { … }` that is the payload type, smaller than the optional that is then copied into the slot: `fn h(p: P?) -> i32 { if p != none { return p.Y; } return -1; }` copied 12 bytes into an 8-byte slot and the program died with SIGSEGV")
	}
	r.Floor(rule, n, 1, "lazy parameter slots")
}
