package main

import (
	"fmt"
	"go/ast"
	"go/constant"
	"go/types"
	"sort"
	"strings"
	"unicode"
)

const pkgWasm = "internal/codegen/wasm"
const pkgQBE = "internal/codegen/qbe_embeddings"
const pkgTokens = "internal/tokens"

// WebAssembly 1.0 (MVP) opcode bytes — oracle, from the specification's binary format (§5.4).
var wasmSpec = map[string]int{
	"unreachable": 0x00, "nop": 0x01, "block": 0x02, "loop": 0x03, "if": 0x04, "else": 0x05, "end": 0x0b, "br": 0x0c, "br_if": 0x0d,
	"br_table": 0x0e, "return": 0x0f, "call": 0x10, "call_indirect": 0x11, "drop": 0x1a, "select": 0x1b,
	"local.get": 0x20, "local.set": 0x21, "local.tee": 0x22, "global.get": 0x23, "global.set": 0x24,
	"i32.load": 0x28, "i64.load": 0x29, "f32.load": 0x2a, "f64.load": 0x2b, "i32.load8_s": 0x2c, "i32.load8_u": 0x2d,
	"i32.load16_s": 0x2e, "i32.load16_u": 0x2f, "i64.load8_s": 0x30, "i64.load8_u": 0x31, "i64.load16_s": 0x32, "i64.load16_u": 0x33,
	"i64.load32_s": 0x34, "i64.load32_u": 0x35, "i32.store": 0x36, "i64.store": 0x37, "f32.store": 0x38, "f64.store": 0x39,
	"i32.store8": 0x3a, "i32.store16": 0x3b, "i64.store8": 0x3c, "i64.store16": 0x3d, "i64.store32": 0x3e, "memory.size": 0x3f, "memory.grow": 0x40,
	"i32.const": 0x41, "i64.const": 0x42, "f32.const": 0x43, "f64.const": 0x44,
	"i32.eqz": 0x45, "i32.eq": 0x46, "i32.ne": 0x47, "i32.lt_s": 0x48, "i32.lt_u": 0x49, "i32.gt_s": 0x4a, "i32.gt_u": 0x4b,
	"i32.le_s": 0x4c, "i32.le_u": 0x4d, "i32.ge_s": 0x4e, "i32.ge_u": 0x4f,
	"i64.eqz": 0x50, "i64.eq": 0x51, "i64.ne": 0x52, "i64.lt_s": 0x53, "i64.lt_u": 0x54, "i64.gt_s": 0x55, "i64.gt_u": 0x56,
	"i64.le_s": 0x57, "i64.le_u": 0x58, "i64.ge_s": 0x59, "i64.ge_u": 0x5a,
	"f32.eq": 0x5b, "f32.ne": 0x5c, "f32.lt": 0x5d, "f32.gt": 0x5e, "f32.le": 0x5f, "f32.ge": 0x60,
	"f64.eq": 0x61, "f64.ne": 0x62, "f64.lt": 0x63, "f64.gt": 0x64, "f64.le": 0x65, "f64.ge": 0x66,
	"i32.clz": 0x67, "i32.ctz": 0x68, "i32.popcnt": 0x69, "i32.add": 0x6a, "i32.sub": 0x6b, "i32.mul": 0x6c, "i32.div_s": 0x6d,
	"i32.div_u": 0x6e, "i32.rem_s": 0x6f, "i32.rem_u": 0x70, "i32.and": 0x71, "i32.or": 0x72, "i32.xor": 0x73, "i32.shl": 0x74,
	"i32.shr_s": 0x75, "i32.shr_u": 0x76, "i32.rotl": 0x77, "i32.rotr": 0x78,
	"i64.clz": 0x79, "i64.ctz": 0x7a, "i64.popcnt": 0x7b, "i64.add": 0x7c, "i64.sub": 0x7d, "i64.mul": 0x7e, "i64.div_s": 0x7f,
	"i64.div_u": 0x80, "i64.rem_s": 0x81, "i64.rem_u": 0x82, "i64.and": 0x83, "i64.or": 0x84, "i64.xor": 0x85, "i64.shl": 0x86,
	"i64.shr_s": 0x87, "i64.shr_u": 0x88, "i64.rotl": 0x89, "i64.rotr": 0x8a,
	"f32.abs": 0x8b, "f32.neg": 0x8c, "f32.ceil": 0x8d, "f32.floor": 0x8e, "f32.trunc": 0x8f, "f32.nearest": 0x90, "f32.sqrt": 0x91,
	"f32.add": 0x92, "f32.sub": 0x93, "f32.mul": 0x94, "f32.div": 0x95, "f32.min": 0x96, "f32.max": 0x97, "f32.copysign": 0x98,
	"f64.abs": 0x99, "f64.neg": 0x9a, "f64.ceil": 0x9b, "f64.floor": 0x9c, "f64.trunc": 0x9d, "f64.nearest": 0x9e, "f64.sqrt": 0x9f,
	"f64.add": 0xa0, "f64.sub": 0xa1, "f64.mul": 0xa2, "f64.div": 0xa3, "f64.min": 0xa4, "f64.max": 0xa5, "f64.copysign": 0xa6,
	"i32.wrap_i64": 0xa7, "i32.trunc_f32_s": 0xa8, "i32.trunc_f32_u": 0xa9, "i32.trunc_f64_s": 0xaa, "i32.trunc_f64_u": 0xab,
	"i64.extend_i32_s": 0xac, "i64.extend_i32_u": 0xad, "i64.trunc_f32_s": 0xae, "i64.trunc_f32_u": 0xaf, "i64.trunc_f64_s": 0xb0,
	"i64.trunc_f64_u": 0xb1, "f32.convert_i32_s": 0xb2, "f32.convert_i32_u": 0xb3, "f32.convert_i64_s": 0xb4, "f32.convert_i64_u": 0xb5,
	"f32.demote_f64": 0xb6, "f64.convert_i32_s": 0xb7, "f64.convert_i32_u": 0xb8, "f64.convert_i64_s": 0xb9, "f64.convert_i64_u": 0xba,
	"f64.promote_f32": 0xbb, "i32.reinterpret_f32": 0xbc, "i64.reinterpret_f64": 0xbd, "f32.reinterpret_i32": 0xbe, "f64.reinterpret_i64": 0xbf,
}

var wasmValTypeSpec = map[string]int{"i32": 0x7f, "i64": 0x7e, "f32": 0x7d, "f64": 0x7c}
var wasmSectionSpec = map[string]int{"Type": 1, "Import": 2, "Func": 3, "Table": 4, "Memory": 5, "Global": 6, "Export": 7, "Start": 8, "Elem": 9, "Code": 10, "Data": 11}

// camelToMnemonic: "I32LtS" -> "i32.lt_s", "LocalGet" -> "local.get", "Unreachable" -> "unreachable".
func camelToMnemonic(s string) string {
	var toks []string
	cur := ""
	for i, r := range s {
		if unicode.IsUpper(r) && i > 0 {
			toks = append(toks, cur)
			cur = ""
		}
		cur += string(unicode.ToLower(r))
	}
	toks = append(toks, cur)
	if len(toks) == 1 {
		return toks[0]
	}
	switch toks[0] {
	case "i32", "i64", "f32", "f64", "local", "global", "memory":
		return toks[0] + "." + strings.Join(toks[1:], "_")
	}
	return strings.Join(toks, "_")
}

// ---- C02.R1 ------------------------------------------------------------------------------------

func c02R1(c *Ctx, r *Report) {
	const rule = "C02.R1"
	r.Describe(rule, "wasm opcode / value-type / section constants vs the WebAssembly 1.0 binary format")
	p := c.ByPath[Mod+"/"+pkgWasm]
	if !r.Anchor(rule, p != nil, "package codegen/wasm") {
		return
	}
	n := 0
	sc := p.Types.Scope()
	for _, name := range sc.Names() {
		co, ok := sc.Lookup(name).(*types.Const)
		if !ok {
			continue
		}
		v, exact := constant.Int64Val(constant.ToInt(co.Val()))
		switch {
		case strings.HasPrefix(name, "opcode"):
			m := camelToMnemonic(strings.TrimPrefix(name, "opcode"))
			want, known := wasmSpec[m]
			if !known {
				r.Note("C02.R1: constant %s (mnemonic %q) is not in the oracle; not checked", name, m)
				continue
			}
			n++
			r.Check(exact && int(v) == want, rule, "wasm."+name, m, c.pos(co.Pos()), fmt.Sprintf("%s = %#x but %s is %#x in the WebAssembly binary format", name, v, m, want))
		case strings.HasPrefix(name, "valType") && len(name) == len("valTypeI32"):
			m := strings.ToLower(strings.TrimPrefix(name, "valType"))
			if want, known := wasmValTypeSpec[m]; known {
				n++
				r.Check(exact && int(v) == want, rule, "wasm."+name, m, c.pos(co.Pos()), fmt.Sprintf("%s = %#x, spec value type %s is %#x", name, v, m, want))
			}
		case strings.HasPrefix(name, "section"):
			if want, known := wasmSectionSpec[strings.TrimPrefix(name, "section")]; known {
				n++
				r.Check(exact && int(v) == want, rule, "wasm."+name, "section id", c.pos(co.Pos()), fmt.Sprintf("%s = %d, spec section id is %d", name, v, want))
			}
		}
	}
	r.Floor(rule, n, 125, "wasm encoding constants matched to the oracle")
	r.Exhaust[rule] = true
}

// ---- C02.R2 ------------------------------------------------------------------------------------

type tokSet struct {
	byName map[string]constant.Value
}

func loadTokens(c *Ctx) *tokSet {
	ts := &tokSet{byName: map[string]constant.Value{}}
	p := c.ByPath[Mod+"/"+pkgTokens]
	if p == nil {
		return ts
	}
	for _, n := range p.Types.Scope().Names() {
		if co, ok := p.Types.Scope().Lookup(n).(*types.Const); ok && strings.HasSuffix(n, "_TOKEN") {
			ts.byName[n] = co.Val()
		}
	}
	return ts
}

// operator classes (oracle). key: token constant name
var arithOps = map[string]string{"PLUS_TOKEN": "add", "MINUS_TOKEN": "sub", "MUL_TOKEN": "mul", "DIV_TOKEN": "div", "MOD_TOKEN": "rem",
	"BIT_AND_TOKEN": "and", "AND_TOKEN": "and", "BIT_OR_TOKEN": "or", "OR_TOKEN": "or", "BIT_XOR_TOKEN": "xor"}
var cmpOps = map[string]string{"LESS_TOKEN": "lt", "GREATER_TOKEN": "gt", "LESS_EQUAL_TOKEN": "le", "GREATER_EQUAL_TOKEN": "ge",
	"DOUBLE_EQUAL_TOKEN": "eq", "NOT_EQUAL_TOKEN": "ne"}

// wasmExpected returns the spec mnemonic for (op, valtype, unsigned) or "" if no instruction exists.
func wasmExpected(tok, vt string, unsigned bool) string {
	isInt := vt[0] == 'i'
	if m, ok := arithOps[tok]; ok {
		switch m {
		case "div":
			if isInt {
				if unsigned {
					return vt + ".div_u"
				}
				return vt + ".div_s"
			}
			return vt + ".div"
		case "rem":
			if !isInt {
				return ""
			}
			if unsigned {
				return vt + ".rem_u"
			}
			return vt + ".rem_s"
		case "and", "or", "xor":
			if !isInt {
				return ""
			}
		}
		return vt + "." + m
	}
	if m, ok := cmpOps[tok]; ok {
		if m == "eq" || m == "ne" || !isInt {
			return vt + "." + m
		}
		if unsigned {
			return vt + "." + m + "_u"
		}
		return vt + "." + m + "_s"
	}
	return ""
}

// firstByte interprets a table result `[]byte{op}` / memOpcode(op)-built list.
func firstByte(v Val) (int, bool) {
	if l, ok := v.(listVal); ok && len(l) >= 1 {
		if cv, ok := l[0].(constant.Value); ok {
			i, ok := constant.Int64Val(constant.ToInt(cv))
			return int(i), ok
		}
	}
	return 0, false
}

func sortedKeys[M ~map[string]V, V any](m M) []string {
	var ks []string
	for k := range m {
		ks = append(ks, k)
	}
	sort.Strings(ks)
	return ks
}

func c02R2(c *Ctx, r *Report) {
	const rule = "C02.R2"
	r.Describe(rule, "wasm instruction-selection tables (binaryOpcode, compareOpcode, castOpcode, loadOpcode, storeOpcode, wasmValueType, isUnsignedType) vs the spec, exhaustive over operator x value type x signedness")
	toks := loadTokens(c)
	pe := newPEval(c)
	// memOpcode(op) -> [op, 0, 0]: interpret through a hook (its body appends LEB128 zeros)
	memOp := c.LookupFn(pkgWasm, "memOpcode")
	pe.Hook = func(pe *PEval, info *types.Info, call *ast.CallExpr, args []Val) (Val, bool) {
		if memOp != nil && isCallTo(info, call, memOp.Obj) && len(args) == 1 {
			return listVal{args[0]}, true
		}
		return nil, false
	}
	vts := []string{"i32", "i64", "f32", "f64"}
	vtVal := func(vt string) Val { return constant.MakeInt64(int64(wasmValTypeSpec[vt])) }

	// binaryOpcode
	if fn := c.LookupFn(pkgWasm, "binaryOpcode"); r.Anchor(rule, fn != nil, "wasm.binaryOpcode") {
		n := 0
		ops := map[string]bool{}
		for k := range arithOps {
			ops[k] = true
		}
		for k := range cmpOps {
			ops[k] = true
		}
		for _, tok := range sortedKeys(ops) {
			tv, ok := toks.byName[tok]
			if !r.Anchor(rule, ok, "tokens."+tok) {
				continue
			}
			for _, vt := range vts {
				for _, uns := range []bool{false, true} {
					n++
					construct := fmt.Sprintf("(%s,%s,unsigned=%v)", tok, vt, uns)
					res, err := pe.Call(fn, []Val{tv, vtVal(vt), kbool(uns)})
					pos := c.pos(fn.Decl.Pos())
					if pe.LastReturn != nil {
						pos = c.pos(pe.LastReturn.Pos())
					}
					if err != nil {
						r.Fail(rule, fn.Name(), construct, pos, "undecidable: "+err.Error())
						continue
					}
					want := wasmExpected(tok, vt, uns)
					got, isOp := firstByte(res[0])
					_, isErr := res[len(res)-1].(errVal)
					switch {
					case want == "" && isErr:
						r.OK(rule, fn.Name(), construct, pos, "no such instruction; rejected")
					case want == "":
						r.Fail(rule, fn.Name(), construct, pos, fmt.Sprintf("selects opcode %#x for an operator/type pair that has no WebAssembly instruction", got))
					case isErr:
						r.Fail(rule, fn.Name(), construct, pos, fmt.Sprintf("rejects %s although %s exists (programs the native back end accepts stop compiling for wasm)", construct, want))
					case isOp && got == wasmSpec[want]:
						r.OK(rule, fn.Name(), construct, pos, want)
					default:
						r.Fail(rule, fn.Name(), construct, pos, fmt.Sprintf("selects %#x (%s) but the instruction for this operator, width and signedness is %s (%#x)", got, wasmName(got), want, wasmSpec[want]))
					}
				}
			}
		}
		r.Floor(rule, n, 128, "binaryOpcode cells")
	}

	// castOpcode(from,to,unsigned)
	if fn := c.LookupFn(pkgWasm, "castOpcode"); r.Anchor(rule, fn != nil, "wasm.castOpcode") {
		for _, from := range vts {
			for _, to := range vts {
				for _, uns := range []bool{false, true} {
					construct := fmt.Sprintf("cast(%s->%s,unsigned=%v)", from, to, uns)
					res, err := pe.Call(fn, []Val{vtVal(from), vtVal(to), kbool(uns)})
					pos := c.pos(fn.Decl.Pos())
					if pe.LastReturn != nil {
						pos = c.pos(pe.LastReturn.Pos())
					}
					if err != nil {
						r.Fail(rule, fn.Name(), construct, pos, "undecidable: "+err.Error())
						continue
					}
					okv, _ := res[1].(constant.Value)
					if from == to {
						_, isNil := res[0].(nilVal)
						r.Check(isNil && boolVal(okv), rule, fn.Name(), construct, pos, "identity cast must emit nothing and succeed")
						continue
					}
					want := wasmCastExpected(from, to, uns)
					got, isOp := firstByte(res[0])
					r.Check(boolVal(okv) && isOp && got == wasmSpec[want], rule, fn.Name(), construct, pos,
						fmt.Sprintf("selects %#x (%s), expected %s (%#x)", got, wasmName(got), want, wasmSpec[want]))
				}
			}
		}
	}

	// wasmValueType / isUnsignedType / loadOpcode / storeOpcode over the scalar types
	scalars := []string{"i8", "i16", "i32", "i64", "u8", "u16", "u32", "u64", "f32", "f64", "bool", "byte", "str"}
	wvt := c.LookupFn(pkgWasm, "wasmValueType")
	iut := c.LookupFn(pkgWasm, "isUnsignedType")
	ld := c.LookupFn(pkgWasm, "loadOpcode")
	st := c.LookupFn(pkgWasm, "storeOpcode")
	if !r.Anchor(rule, wvt != nil && iut != nil && ld != nil && st != nil, "wasm.wasmValueType/isUnsignedType/loadOpcode/storeOpcode") {
		return
	}
	for _, tn := range scalars {
		f := scalarFacts(tn)
		// value type
		res, err := pe.Call(wvt, []Val{prim(tn)})
		if err != nil {
			r.Fail(rule, wvt.Name(), tn, c.pos(wvt.Decl.Pos()), "undecidable: "+err.Error())
		} else {
			got := int(intVal(res[0].(constant.Value)))
			r.Check(got == wasmValTypeSpec[f.wasmVT], rule, wvt.Name(), tn, c.pos(pe.LastReturn.Pos()), fmt.Sprintf("value type %#x, expected %s", got, f.wasmVT))
		}
		// signedness
		res, err = pe.Call(iut, []Val{prim(tn)})
		if err != nil {
			r.Fail(rule, iut.Name(), tn, c.pos(iut.Decl.Pos()), "undecidable: "+err.Error())
		} else if !f.float && tn != "str" {
			got := boolVal(res[0].(constant.Value))
			r.Check(got == f.unsigned, rule, iut.Name(), tn, c.pos(pe.LastReturn.Pos()), fmt.Sprintf("isUnsignedType(%s) = %v, expected %v", tn, got, f.unsigned))
		}
		// load
		res, err = pe.Call(ld, []Val{prim(tn)})
		if err != nil {
			r.Fail(rule, ld.Name(), tn, c.pos(ld.Decl.Pos()), "undecidable: "+err.Error())
		} else {
			got, _ := firstByte(res[0])
			want := f.wasmLoad
			r.Check(got == wasmSpec[want], rule, ld.Name(), tn, c.pos(pe.LastReturn.Pos()), fmt.Sprintf("load of %s uses %s (%#x), expected %s", tn, wasmName(got), got, want))
		}
		res, err = pe.Call(st, []Val{prim(tn)})
		if err != nil {
			r.Fail(rule, st.Name(), tn, c.pos(st.Decl.Pos()), "undecidable: "+err.Error())
		} else {
			got, _ := firstByte(res[0])
			want := f.wasmStore
			r.Check(got == wasmSpec[want], rule, st.Name(), tn, c.pos(pe.LastReturn.Pos()), fmt.Sprintf("store of %s uses %s (%#x), expected %s", tn, wasmName(got), got, want))
		}
	}
	r.Exhaust[rule] = true
}

func wasmName(b int) string {
	for k, v := range wasmSpec {
		if v == b {
			return k
		}
	}
	return "?"
}

func wasmCastExpected(from, to string, uns bool) string {
	s := "_s"
	if uns {
		s = "_u"
	}
	switch {
	case from == "i32" && to == "i64":
		return "i64.extend_i32" + s
	case from == "i64" && to == "i32":
		return "i32.wrap_i64"
	case from[0] == 'i' && to[0] == 'f':
		return to + ".convert_" + from + s
	case from[0] == 'f' && to[0] == 'i':
		return to + ".trunc_" + from + s
	case from == "f32" && to == "f64":
		return "f64.promote_f32"
	case from == "f64" && to == "f32":
		return "f32.demote_f64"
	}
	return "?"
}

type scalarF struct {
	bits                        int
	float, unsigned             bool
	wasmVT, wasmLoad, wasmStore string
	qbeBase, qbeLoad, qbeStore  string
}

// scalarFacts: oracle for the scalar types both back ends handle in registers.
// wasm: pointers/strings are i32 (wasm32); QBE: strings/pointers are l (64-bit).
func scalarFacts(tn string) scalarF {
	switch tn {
	case "bool":
		return scalarF{8, false, true, "i32", "i32.load8_u", "i32.store8", "w", "loadub", "storeb"}
	case "byte":
		return scalarF{8, false, true, "i32", "i32.load8_u", "i32.store8", "w", "loadub", "storeb"}
	case "str":
		return scalarF{0, false, true, "i32", "i32.load", "i32.store", "l", "loadl", "storel"}
	}
	f, _ := factsOf(tn)
	out := scalarF{bits: f.Bits, float: f.Float, unsigned: f.Int && !f.Signed}
	su := map[bool]string{true: "u", false: "s"}[out.unsigned]
	switch {
	case f.Float && f.Bits == 32:
		out.wasmVT, out.wasmLoad, out.wasmStore, out.qbeBase, out.qbeLoad, out.qbeStore = "f32", "f32.load", "f32.store", "s", "loads", "stores"
	case f.Float:
		out.wasmVT, out.wasmLoad, out.wasmStore, out.qbeBase, out.qbeLoad, out.qbeStore = "f64", "f64.load", "f64.store", "d", "loadd", "stored"
	case f.Bits == 8:
		out.wasmVT, out.wasmLoad, out.wasmStore, out.qbeBase, out.qbeLoad, out.qbeStore = "i32", "i32.load8_"+su, "i32.store8", "w", "load"+su+"b", "storeb"
	case f.Bits == 16:
		out.wasmVT, out.wasmLoad, out.wasmStore, out.qbeBase, out.qbeLoad, out.qbeStore = "i32", "i32.load16_"+su, "i32.store16", "w", "load"+su+"h", "storeh"
	case f.Bits == 32:
		out.wasmVT, out.wasmLoad, out.wasmStore, out.qbeBase, out.qbeLoad, out.qbeStore = "i32", "i32.load", "i32.store", "w", "load"+su+"w", "storew"
	case f.Bits == 64:
		out.wasmVT, out.wasmLoad, out.wasmStore, out.qbeBase, out.qbeLoad, out.qbeStore = "i64", "i64.load", "i64.store", "l", "loadl", "storel"
	}
	return out
}

// ---- C01.R2 (QBE instruction selection) --------------------------------------------------------

// QBE IL reference (oracle): comparison mnemonics are c<op><class> with op in
// {eq,ne,slt,sle,sgt,sge,ult,ule,ugt,uge} for integer classes w,l and {eq,ne,lt,le,gt,ge} for s,d;
// div/rem are signed, udiv/urem unsigned; loads: loadsb,loadub,loadsh,loaduh,loadsw,loaduw (loadw = loadsw),
// loadl,loads,loadd; stores: storeb,storeh,storew,storel,stores,stored.
func qbeCmpExpected(op string, f scalarF) string {
	if f.float {
		return "c" + op + f.qbeBase
	}
	if op == "eq" || op == "ne" {
		return "c" + op + f.qbeBase
	}
	if f.unsigned {
		return "cu" + op + f.qbeBase
	}
	return "cs" + op + f.qbeBase
}

func strOf(v Val) (string, bool) {
	cv, ok := v.(constant.Value)
	if !ok || cv.Kind() != constant.String {
		return "", false
	}
	return constant.StringVal(cv), true
}

func c01R2(c *Ctx, r *Report) {
	const rule = "C01.R2"
	r.Describe(rule, "QBE instruction-selection tables (binaryOp, compareOp, loadOp, storeOp, qbeType, isSigned/isUnsigned/isFloat/isInteger) vs the QBE IL reference, exhaustive over operator x scalar type")
	toks := loadTokens(c)
	pe := newPEval(c)
	scalars := []string{"i8", "i16", "i32", "i64", "u8", "u16", "u32", "u64", "f32", "f64", "bool", "byte", "str"}
	get := func(n string) *Fn { return c.LookupFn(pkgQBE, "(*Generator)."+n) }
	binop, cmpop, ld, st, qt := get("binaryOp"), get("compareOp"), get("loadOp"), get("storeOp"), get("qbeType")
	isS, isU, isF, isI := get("isSigned"), get("isUnsigned"), get("isFloat"), get("isInteger")
	if !r.Anchor(rule, binop != nil && cmpop != nil && ld != nil && st != nil && qt != nil && isS != nil && isU != nil && isF != nil && isI != nil, "qbe Generator.binaryOp/compareOp/loadOp/storeOp/qbeType/isSigned/isUnsigned/isFloat/isInteger") {
		return
	}
	call1 := func(fn *Fn, construct string, args ...Val) ([]Val, string, bool) {
		res, err := pe.Call(fn, args)
		pos := c.pos(fn.Decl.Pos())
		if pe.LastReturn != nil && pe.LastFn == fn {
			pos = c.pos(pe.LastReturn.Pos())
		}
		if err != nil {
			r.Fail(rule, fn.Name(), construct, pos, "undecidable: "+err.Error())
			return nil, pos, false
		}
		return res, pos, true
	}
	for _, tn := range scalars {
		f := scalarFacts(tn)
		// predicates
		for _, pr := range []struct {
			fn   *Fn
			want bool
			skip bool
		}{{isS, !f.unsigned && !f.float, f.float || tn == "str"}, {isU, f.unsigned, f.float || tn == "str"}, {isF, f.float, false}, {isI, !f.float && tn != "str", false}} {
			if pr.skip {
				continue
			}
			if res, pos, ok := call1(pr.fn, tn, prim(tn)); ok {
				got := boolVal(res[0].(constant.Value))
				r.Check(got == pr.want, rule, pr.fn.Name(), tn, pos, fmt.Sprintf("%s(%s) = %v, expected %v", pr.fn.Obj.Name(), tn, got, pr.want))
			}
		}
		if res, pos, ok := call1(qt, tn, prim(tn)); ok {
			got, _ := strOf(res[0])
			r.Check(got == f.qbeBase, rule, qt.Name(), tn, pos, fmt.Sprintf("qbeType(%s) = %q, expected %q", tn, got, f.qbeBase))
		}
		if res, pos, ok := call1(ld, tn, prim(tn)); ok {
			got, _ := strOf(res[0])
			if got == "loadw" {
				got = "loadsw"
			}
			r.Check(got == f.qbeLoad, rule, ld.Name(), tn, pos, fmt.Sprintf("loadOp(%s) = %q, expected %q (width and sign of the type)", tn, got, f.qbeLoad))
		}
		if res, pos, ok := call1(st, tn, prim(tn)); ok {
			got, _ := strOf(res[0])
			r.Check(got == f.qbeStore, rule, st.Name(), tn, pos, fmt.Sprintf("storeOp(%s) = %q, expected %q", tn, got, f.qbeStore))
		}
		if tn == "str" {
			continue
		}
		for _, tok := range sortedKeys(arithOps) {
			m := arithOps[tok]
			tv, ok := toks.byName[tok]
			if !r.Anchor(rule, ok, "tokens."+tok) {
				continue
			}
			construct := fmt.Sprintf("(%s,%s)", tok, tn)
			res, pos, ok := call1(binop, construct, tv, prim(tn))
			if !ok {
				continue
			}
			want := m
			if (m == "div" || m == "rem") && f.unsigned {
				want = "u" + m
			}
			got, isStr := strOf(res[0])
			_, isErr := res[len(res)-1].(errVal)
			r.Check(isStr && !isErr && got == want, rule, binop.Name(), construct, pos, fmt.Sprintf("selects %q, expected %q (signedness of %s)", got, want, tn))
		}
		for _, tok := range sortedKeys(cmpOps) {
			tv, ok := toks.byName[tok]
			if !r.Anchor(rule, ok, "tokens."+tok) {
				continue
			}
			construct := fmt.Sprintf("(%s,%s)", tok, tn)
			res, pos, ok := call1(cmpop, construct, tv, prim(tn))
			if !ok {
				continue
			}
			want := qbeCmpExpected(cmpOps[tok], f)
			got, isStr := strOf(res[0])
			r.Check(isStr && got == want, rule, cmpop.Name(), construct, pos, fmt.Sprintf("selects %q, expected %q", got, want))
		}
	}
	r.Exhaust[rule] = true
}

// ---- shared: the front end's own width/sign tables -------------------------------------------------

// typeTablesRule checks types.GetNumberBitSize / IsSigned / IsUnsigned / IsIntegerTypeName /
// IsFloatTypeName against the type names (used by C10.R3 and as a premise of the back-end tables).
func typeTablesRule(rule string) ruleFn {
	return func(c *Ctx, r *Report) {
		r.Describe(rule, "types.GetNumberBitSize/IsSigned/IsUnsigned/IsIntegerTypeName/IsFloatTypeName vs the type names (17 numeric names + bool,str,void)")
		pe := newPEval(c)
		names := append(append([]string{}, numTypes...), "bool", "str", "void", "none")
		for _, spec := range []struct {
			fn   string
			want func(f numFacts, ok bool) Val
		}{
			{"GetNumberBitSize", func(f numFacts, ok bool) Val {
				if !ok {
					return kint(0)
				}
				return kint(int64(f.Bits))
			}},
			{"IsSigned", func(f numFacts, ok bool) Val { return kbool(ok && f.Int && f.Signed) }},
			{"IsUnsigned", func(f numFacts, ok bool) Val { return kbool(ok && f.Int && !f.Signed) }},
			{"IsIntegerTypeName", func(f numFacts, ok bool) Val { return kbool(ok && f.Int) }},
			{"IsFloatTypeName", func(f numFacts, ok bool) Val { return kbool(ok && f.Float) }},
		} {
			fn := c.LookupFn(pkgTypes, spec.fn)
			if !r.Anchor(rule, fn != nil, "types."+spec.fn) {
				continue
			}
			for _, tn := range names {
				f, ok := factsOf(tn)
				res, err := pe.Call(fn, []Val{kstr(tn)})
				if err != nil {
					r.Fail(rule, fn.Name(), tn, c.pos(fn.Decl.Pos()), "undecidable: "+err.Error())
					continue
				}
				want := spec.want(f, ok)
				eq, _ := valEqual(res[0], want)
				r.Check(eq, rule, fn.Name(), tn, c.pos(pe.LastReturn.Pos()), fmt.Sprintf("%s(%s) = %s, expected %s", spec.fn, tn, valString(res[0]), valString(want)))
			}
		}
		// the TYPE_* constants carry the names the oracle is keyed by
		p := c.ByPath[Mod+"/"+pkgTypes]
		for _, tn := range numTypes {
			found := false
			for _, n := range p.Types.Scope().Names() {
				if co, ok := p.Types.Scope().Lookup(n).(*types.Const); ok && strings.HasPrefix(n, "TYPE_") && co.Val().Kind() == constant.String && constant.StringVal(co.Val()) == tn {
					found = true
				}
			}
			r.Check(found, rule, "types", "TYPE_* constant for "+tn, "-", "no TYPE_* constant has the value "+tn)
		}
		r.Exhaust[rule] = true
	}
}
