package main

import (
	"encoding/json"
	"fmt"
	"go/ast"
	"go/token"
	"go/types"
	"os"
	"path/filepath"
	"sort"
	"strings"
	"time"

	"golang.org/x/tools/go/packages"
	"golang.org/x/tools/go/ssa"
	"golang.org/x/tools/go/ssa/ssautil"
)

// Mod is the module path of /repo.
const Mod = "compiler"

// Ctx holds the loaded, type-checked program under analysis.
type Ctx struct {
	RepoDir string
	Tier    string
	Fset    *token.FileSet
	Pkgs    []*packages.Package // packages of module Mod, sorted by path
	ByPath  map[string]*packages.Package
	All     []*packages.Package // including dependencies

	ssaProg *ssa.Program
	ssaPkgs map[string]*ssa.Package

	funcDecls map[*types.Func]*ast.FuncDecl
	declPkg   map[*ast.FuncDecl]*packages.Package
	cache     map[string]any
}

func loadRepo(dir string, env []string) (*Ctx, error) {
	cfg := &packages.Config{
		Mode:  packages.LoadAllSyntax,
		Dir:   dir,
		Tests: false,
		Env:   append(os.Environ(), env...),
	}
	pkgs, err := packages.Load(cfg, "./...")
	if err != nil {
		return nil, err
	}
	c := &Ctx{RepoDir: dir, ByPath: map[string]*packages.Package{}, cache: map[string]any{},
		funcDecls: map[*types.Func]*ast.FuncDecl{}, declPkg: map[*ast.FuncDecl]*packages.Package{}}
	var terrs []string
	packages.Visit(pkgs, nil, func(p *packages.Package) {
		c.All = append(c.All, p)
		for _, e := range p.Errors {
			terrs = append(terrs, e.Error())
		}
	})
	if len(terrs) > 0 {
		return nil, fmt.Errorf("type-check/load errors: %s", strings.Join(terrs[:min(len(terrs), 5)], "; "))
	}
	for _, p := range pkgs {
		if p.PkgPath == Mod || strings.HasPrefix(p.PkgPath, Mod+"/") {
			c.Pkgs = append(c.Pkgs, p)
			c.ByPath[p.PkgPath] = p
			c.Fset = p.Fset
		}
	}
	sort.Slice(c.Pkgs, func(i, j int) bool { return c.Pkgs[i].PkgPath < c.Pkgs[j].PkgPath })
	if len(c.Pkgs) == 0 {
		return nil, fmt.Errorf("no packages of module %q loaded from %s", Mod, dir)
	}
	for _, p := range c.Pkgs {
		for _, f := range p.Syntax {
			for _, d := range f.Decls {
				if fd, ok := d.(*ast.FuncDecl); ok {
					if obj, ok := p.TypesInfo.Defs[fd.Name].(*types.Func); ok {
						c.funcDecls[obj] = fd
						c.declPkg[fd] = p
					}
				}
			}
		}
	}
	return c, nil
}

// SSA builds (once) the SSA form of the whole program.
func (c *Ctx) SSA() *ssa.Program {
	if c.ssaProg != nil {
		return c.ssaProg
	}
	prog, _ := ssautil.AllPackages(c.All, ssa.InstantiateGenerics)
	prog.Build()
	c.ssaProg = prog
	c.ssaPkgs = map[string]*ssa.Package{}
	for _, p := range prog.AllPackages() {
		c.ssaPkgs[p.Pkg.Path()] = p
	}
	return prog
}

func (c *Ctx) pos(p token.Pos) string {
	if !p.IsValid() {
		return "-"
	}
	q := c.Fset.Position(p)
	rel, err := filepath.Rel(c.RepoDir, q.Filename)
	if err != nil {
		rel = q.Filename
	}
	return fmt.Sprintf("%s:%d", rel, q.Line)
}

// Fn identifies a source function.
type Fn struct {
	Pkg  *packages.Package
	Obj  *types.Func
	Decl *ast.FuncDecl
}

func (f *Fn) Info() *types.Info { return f.Pkg.TypesInfo }

// Name is a short, stable display name: pkgtail.(*Recv).name
func (f *Fn) Name() string { return funcKey(f.Obj) }

func funcKey(obj *types.Func) string {
	if obj == nil {
		return "<nil>"
	}
	pkg := ""
	if obj.Pkg() != nil {
		pkg = strings.TrimPrefix(strings.TrimPrefix(obj.Pkg().Path(), Mod+"/"), "internal/")
	}
	sig, _ := obj.Type().(*types.Signature)
	if sig != nil && sig.Recv() != nil {
		t := sig.Recv().Type()
		star := ""
		if p, ok := t.(*types.Pointer); ok {
			t = p.Elem()
			star = "*"
		}
		if n, ok := t.(*types.Named); ok {
			return fmt.Sprintf("%s.(%s%s).%s", pkg, star, n.Obj().Name(), obj.Name())
		}
	}
	return pkg + "." + obj.Name()
}

// LookupFn resolves "pkgpath" (relative to the module, e.g. "internal/semantics/typechecker")
// and a name "checkExpr" or "(*Checker).checkExpr" / "Checker.checkExpr" through go/types.
func (c *Ctx) LookupFn(pkgRel, name string) *Fn {
	path := Mod
	if pkgRel != "" && pkgRel != "." {
		path = Mod + "/" + pkgRel
	}
	p := c.ByPath[path]
	if p == nil {
		return nil
	}
	var obj types.Object
	if strings.Contains(name, ".") {
		i := strings.LastIndex(name, ".")
		recv := strings.Trim(name[:i], "(*)")
		tn, _ := p.Types.Scope().Lookup(recv).(*types.TypeName)
		if tn == nil {
			return nil
		}
		o, _, _ := types.LookupFieldOrMethod(types.NewPointer(tn.Type()), true, p.Types, name[i+1:])
		obj = o
	} else {
		obj = p.Types.Scope().Lookup(name)
	}
	fo, _ := obj.(*types.Func)
	if fo == nil {
		return nil
	}
	fd := c.funcDecls[fo]
	if fd == nil || fd.Body == nil {
		return nil
	}
	return &Fn{Pkg: p, Obj: fo, Decl: fd}
}

// FnOf returns the Fn of a *types.Func declared in the module (or nil).
func (c *Ctx) FnOf(obj *types.Func) *Fn {
	if obj == nil {
		return nil
	}
	obj = obj.Origin()
	fd := c.funcDecls[obj]
	if fd == nil {
		return nil
	}
	return &Fn{Pkg: c.declPkg[fd], Obj: obj, Decl: fd}
}

// AllFns lists every function declaration with a body in the given package (module-relative path).
func (c *Ctx) AllFns(pkgRel string) []*Fn {
	p := c.ByPath[Mod+"/"+pkgRel]
	if pkgRel == "" || pkgRel == "." {
		p = c.ByPath[Mod]
	}
	if p == nil {
		return nil
	}
	var out []*Fn
	for _, f := range p.Syntax {
		for _, d := range f.Decls {
			if fd, ok := d.(*ast.FuncDecl); ok && fd.Body != nil {
				if obj, ok := p.TypesInfo.Defs[fd.Name].(*types.Func); ok {
					out = append(out, &Fn{Pkg: p, Obj: obj, Decl: fd})
				}
			}
		}
	}
	return out
}

// ---------------------------------------------------------------------------------------------
// Reports, obligations, known findings, evidence.

type Obl struct {
	Rule string `json:"rule"`
	Key  string `json:"key"` // rule | function | construct  (never a line number)
	Pos  string `json:"pos"`
	Msg  string `json:"msg"`
	OK   bool   `json:"ok"`
}

type Report struct {
	Prop      string
	Tier      string
	Obls      []Obl
	Counts    map[string]int // rule -> instances analysed
	Notes     []string
	Exhaust   map[string]bool
	ruleDescr map[string]string
	seen      map[string]bool
}

func newReport(prop, tier string) *Report {
	return &Report{Prop: prop, Tier: tier, Counts: map[string]int{}, Exhaust: map[string]bool{},
		ruleDescr: map[string]string{}, seen: map[string]bool{}}
}

func (r *Report) Describe(rule, text string) { r.ruleDescr[rule] = text }

func (r *Report) add(rule, fn, construct, pos, msg string, ok bool) {
	key := rule + " | " + fn + " | " + construct
	if r.seen[key] {
		// identical obligation reached twice: keep the failing one
		for i := range r.Obls {
			if r.Obls[i].Key == key && r.Obls[i].OK && !ok {
				r.Obls[i].OK, r.Obls[i].Msg, r.Obls[i].Pos = false, msg, pos
			}
		}
		return
	}
	r.seen[key] = true
	r.Obls = append(r.Obls, Obl{Rule: rule, Key: key, Pos: pos, Msg: msg, OK: ok})
	r.Counts[rule]++
}

func (r *Report) OK(rule, fn, construct, pos, msg string) { r.add(rule, fn, construct, pos, msg, true) }
func (r *Report) Fail(rule, fn, construct, pos, msg string) {
	r.add(rule, fn, construct, pos, msg, false)
}
func (r *Report) Check(cond bool, rule, fn, construct, pos, msg string) bool {
	r.add(rule, fn, construct, pos, msg, cond)
	return cond
}

// Anchor fails the property when a named anchor no longer resolves.
func (r *Report) Anchor(rule string, ok bool, what string) bool {
	if !ok {
		r.Fail(rule, "anchor", what, "-", "anchor unresolved: "+what+" (renamed or removed; update the anchor table if behaviour is unchanged)")
	}
	return ok
}

// Floor fails the property when a rule found fewer instances than were confirmed by hand.
func (r *Report) Floor(rule string, got, want int, what string) {
	if got < want {
		r.Fail(rule, "floor", what, "-", fmt.Sprintf("rule matched %d %s, fewer than the %d confirmed on the reference tree (rule would pass vacuously)", got, what, want))
	} else {
		r.OK(rule, "floor", what, "-", fmt.Sprintf("%d %s (floor %d)", got, what, want))
	}
}

func (r *Report) Note(format string, a ...any) { r.Notes = append(r.Notes, fmt.Sprintf(format, a...)) }

type KnownFinding struct {
	Property string `json:"property"`
	Status   string `json:"status"` // "open" | "fixed"
	Key      string `json:"key"`
	What     string `json:"what"`
	Commit   string `json:"commit,omitempty"`
	Defect   string `json:"defect,omitempty"`
}

func loadKnown(path string) ([]KnownFinding, error) {
	b, err := os.ReadFile(path)
	if err != nil {
		if os.IsNotExist(err) {
			return nil, nil
		}
		return nil, err
	}
	var doc struct {
		Findings []KnownFinding `json:"findings"`
	}
	if err := json.Unmarshal(b, &doc); err != nil {
		return nil, err
	}
	return doc.Findings, nil
}

// finish prints the verdict lines, writes evidence and returns the exit code.
func (r *Report) finish(verifDir string, known []KnownFinding, start time.Time, trusted, assumptions []string, explanation string) int {
	open := map[string]KnownFinding{}
	for _, k := range known {
		if k.Property == r.Prop && k.Status == "open" {
			open[k.Key] = k
		}
	}
	sort.SliceStable(r.Obls, func(i, j int) bool { return r.Obls[i].Key < r.Obls[j].Key })
	evPath := filepath.Join(verifDir, "evidence", r.Prop+".json")
	var viol, knownN, okN int
	var violList, knownList []map[string]string
	perRule := map[string][3]int{}
	for _, o := range r.Obls {
		pr := perRule[o.Rule]
		pr[0]++
		switch {
		case o.OK:
			okN++
			pr[1]++
		default:
			if k, isKnown := open[o.Key]; isKnown {
				knownN++
				fmt.Printf("KNOWN-FINDING: property=%s %s — %s [%s]\n", r.Prop, o.Key, k.What, o.Pos)
				knownList = append(knownList, map[string]string{"key": o.Key, "pos": o.Pos, "what": k.What, "msg": o.Msg})
			} else {
				viol++
				pr[2]++
				fmt.Printf("VIOLATION property=%s replay=%s#%s\n", r.Prop, evPath, strings.ReplaceAll(o.Key, " ", ""))
				fmt.Printf("  %s: %s\n  at %s\n", o.Key, o.Msg, o.Pos)
				violList = append(violList, map[string]string{"key": o.Key, "pos": o.Pos, "msg": o.Msg})
			}
		}
		perRule[o.Rule] = pr
	}
	var rules []string
	for k := range perRule {
		rules = append(rules, k)
	}
	sort.Strings(rules)
	ruleStats := map[string]any{}
	for _, k := range rules {
		pr := perRule[k]
		fmt.Printf("rule %-10s obligations=%-4d ok=%-4d violated=%d  %s\n", k, pr[0], pr[1], pr[2], r.ruleDescr[k])
		ruleStats[k] = map[string]any{"obligations": pr[0], "ok": pr[1], "violated_unlisted": pr[2], "rule": r.ruleDescr[k], "exhaustive": r.Exhaust[k]}
	}
	// samples: up to 3 obligations per rule
	var samples []map[string]string
	per := map[string]int{}
	for _, o := range r.Obls {
		if per[o.Rule] < 3 {
			per[o.Rule]++
			st := "ok"
			if !o.OK {
				st = "violated"
			}
			samples = append(samples, map[string]string{"key": o.Key, "pos": o.Pos, "status": st, "detail": o.Msg})
		}
	}
	allEx := len(r.Exhaust) > 0
	for _, k := range rules {
		if !r.Exhaust[k] {
			allEx = false
		}
	}
	if assumptions == nil {
		assumptions = []string{}
	}
	assumptions = append(assumptions, "the check decides only the structural clauses named in coverage.explanation; it does not observe any execution")
	ev := map[string]any{
		"property_id": r.Prop,
		"tier":        r.Tier,
		"seed":        0,
		"level":       "other",
		"coverage": map[string]any{
			"explanation":     explanation,
			"obligations":     len(r.Obls),
			"discharged":      okN,
			"known_findings":  knownList,
			"violations":      violList,
			"rules":           ruleStats,
			"samples":         samples,
			"notes":           r.Notes,
			"exhaustive":      allEx,
			"trusted_base":    trusted,
			"checker_cmd":     fmt.Sprintf("./check %s %s", r.Prop, r.Tier),
			"all_obligations": r.Obls,
		},
		"assumptions": assumptions,
		"wall_s":      time.Since(start).Seconds(),
		"violations":  viol,
	}
	_ = os.MkdirAll(filepath.Dir(evPath), 0o755)
	b, _ := json.MarshalIndent(ev, "", " ")
	if err := os.WriteFile(evPath, b, 0o644); err != nil {
		fmt.Println("cannot write evidence:", err)
		return 2
	}
	fmt.Printf("property %s tier=%s: %d obligations, %d discharged, %d known findings, %d violations (%.1fs)\n",
		r.Prop, r.Tier, len(r.Obls), okN, knownN, viol, time.Since(start).Seconds())
	if viol > 0 {
		return 1
	}
	return 0
}
