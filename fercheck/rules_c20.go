package main

import (
	"fmt"
	"go/ast"
	"go/constant"
	"go/token"
	"go/types"
	"strings"
)

const pkgTOML = "toml"

func init() {
	register("C20", &propSpec{
		Explanation: "Structural necessary conditions of the TOML round trip: (R1) for each Go type the writer emits (string, bool, int, float64) the first parser test that can accept the emitted syntactic class yields the same Go type — classes read from formatTOMLValue and parseValue with strconv facts as oracle; (R2) the writer's section/key syntax is the one the parser splits on; (R3) inline comments are stripped before value parsing and blanks are trimmed; (R4) every potentially panicking construct on the parse path (slice expressions, nested map writes) is dominated by a guard that makes it safe. Does not decide equality of arbitrary generated tables.",
		Quick:       []ruleFn{c20R1, c20R2R3, c20R4},
	})
}

func c20R1(c *Ctx, r *Report) {
	const rule = "C20.R1"
	r.Describe(rule, "writer class x parser test order: each written Go type is read back as the same Go type")
	format := c.LookupFn(pkgTOML, "formatTOMLValue")
	parse := c.LookupFn(pkgTOML, "parseValue")
	if !r.Anchor(rule, format != nil && parse != nil, "toml.formatTOMLValue / parseValue") {
		return
	}
	finfo := format.Info()
	// writer classes by case type
	classes := map[string]string{} // go type -> class
	var floatClause *ast.CaseClause
	for _, ts := range typeSwitchesOn(finfo, format.Decl.Body, format.Param(0)) {
		for _, cc := range caseClauses(ts.Body) {
			for _, t := range caseTypes(finfo, cc) {
				name := t.String()
				body := &ast.BlockStmt{List: cc.Body}
				cls := "?"
				for _, call := range callsIn(body, false) {
					f := callee(finfo, call)
					if f == nil || f.Pkg() == nil {
						continue
					}
					switch f.Pkg().Path() + "." + f.Name() {
					case "strconv.FormatBool":
						cls = "bareword true/false"
					case "strconv.Itoa", "strconv.FormatInt":
						cls = "optional '-' + decimal digits"
					case "strconv.FormatFloat":
						cls = "FormatFloat"
						floatClause = cc
					case "fmt.Sprintf":
						if len(call.Args) > 0 {
							if v := constOf(finfo, call.Args[0]); v != nil && strings.HasPrefix(constant.StringVal(v), `"`) && strings.HasSuffix(constant.StringVal(v), `"`) {
								cls = "double-quoted"
							}
						}
					}
				}
				classes[name] = cls
			}
		}
	}
	// parser test order
	pinfo := parse.Info()
	var order []string
	for _, st := range parse.Decl.Body.List {
		ifs, ok := st.(*ast.IfStmt)
		if !ok {
			continue
		}
		kind := ""
		src := exprStr(ifs.Cond)
		if ifs.Init != nil {
			if as, ok := ifs.Init.(*ast.AssignStmt); ok && len(as.Rhs) == 1 {
				if call, ok := as.Rhs[0].(*ast.CallExpr); ok {
					if f := callee(pinfo, call); f != nil && f.Pkg() != nil && f.Pkg().Path() == "strconv" {
						kind = f.Name()
					}
				}
			}
		}
		switch {
		case kind == "Atoi" || kind == "ParseInt":
			order = append(order, "int")
		case kind == "ParseFloat":
			order = append(order, "float64")
		case strings.Contains(src, "HasPrefix") && strings.Contains(src, "HasSuffix"):
			order = append(order, "string(quoted)")
		case strings.Contains(src, `"true"`) && strings.Contains(src, `"false"`):
			order = append(order, "bool")
		default:
			order = append(order, "?"+src)
		}
	}
	r.Check(strings.Join(order, ",") == "string(quoted),bool,int,float64", rule, parse.Name(), "test order quoted, bool, int, float", c.pos(parse.Decl.Pos()),
		"parseValue's tests are not in the order quoted-string, true/false, integer, float (found "+strings.Join(order, ",")+"): a written value can be claimed by an earlier test of another type (e.g. floats before ints would turn every integer into a float)")
	// class agreement
	want := map[string]string{"string": "double-quoted", "bool": "bareword true/false", "int": "optional '-' + decimal digits", "float64": "FormatFloat"}
	for _, t := range []string{"string", "bool", "int", "float64"} {
		r.Check(classes[t] == want[t], rule, format.Name(), "case "+t+" -> "+want[t], c.pos(format.Decl.Pos()), fmt.Sprintf("the writer formats %s as %q; the parser reads that class back as a different Go type or as a bare string", t, classes[t]))
	}
	// strings: the unquoted branch may only be taken for the two boolean spellings (excluded by the property's precondition)
	if nq := c.LookupFn(pkgTOML, "needsQuoting"); r.Anchor(rule, nq != nil, "toml.needsQuoting") {
		okShape := true
		nFalse := 0
		walkWithStack(nq.Decl.Body, func(n ast.Node, stack []ast.Node) bool {
			ret, ok := n.(*ast.ReturnStmt)
			if !ok || len(ret.Results) != 1 {
				return true
			}
			v := constOf(nq.Info(), ret.Results[0])
			if v == nil {
				okShape = false
				return true
			}
			if boolVal(v) {
				return true
			}
			nFalse++
			// `return false` only under s == "true" || s == "false"
			under := false
			for _, a := range stack {
				if ifs, ok := a.(*ast.IfStmt); ok && containsNode(ifs.Body, ret) {
					all := true
					for _, d := range disjuncts(ifs.Cond) {
						b, isEq := isBinOp(d, token.EQL)
						if !isEq {
							all = false
							continue
						}
						cv := constOf(nq.Info(), b.Y)
						if cv == nil || (constant.StringVal(cv) != "true" && constant.StringVal(cv) != "false") {
							all = false
						}
					}
					under = all
				}
			}
			if !under {
				okShape = false
			}
			return true
		})
		r.Check(okShape, rule, nq.Name(), "only the spellings true/false are written bare", c.pos(nq.Decl.Pos()),
			"a string other than \"true\"/\"false\" can be written without quotes: the parser may read it back as a number (\"inf\", \"nan\", \"1e3\") or split it at '#'")
	}
	// float64: FormatFloat with 'f' and -1 omits the fractional part of integral values; the clause must restore a float marker
	if r.Anchor(rule, floatClause != nil, "formatTOMLValue case float64") {
		body := &ast.BlockStmt{List: floatClause.Body}
		direct := false
		if len(floatClause.Body) == 1 {
			if ret, ok := floatClause.Body[0].(*ast.ReturnStmt); ok && len(ret.Results) == 1 {
				if call, ok := ast.Unparen(ret.Results[0]).(*ast.CallExpr); ok {
					if f := callee(finfo, call); f != nil && f.Name() == "FormatFloat" {
						direct = true
					}
				}
			}
		}
		marks := false
		for _, call := range callsIn(body, false) {
			f := callee(finfo, call)
			if f == nil || f.Pkg() == nil || f.Pkg().Path() != "strings" {
				continue
			}
			switch f.Name() {
			case "ContainsAny", "Contains", "ContainsRune", "IndexByte", "IndexAny":
				if len(call.Args) == 2 {
					if v := constOf(finfo, call.Args[1]); v != nil && strings.Contains(valString(v), ".") {
						marks = true
					}
				}
			}
		}
		// alternatively a format that always carries a marker: 'e'/'E' or a fixed precision > 0
		always := false
		for _, call := range callsIn(body, false) {
			if f := callee(finfo, call); f != nil && f.Name() == "FormatFloat" && len(call.Args) == 4 {
				fm, pr := constOf(finfo, call.Args[1]), constOf(finfo, call.Args[2])
				if fm != nil && pr != nil {
					ch, _ := constant.Int64Val(constant.ToInt(fm))
					p, _ := constant.Int64Val(constant.ToInt(pr))
					if ch == 'e' || ch == 'E' || (ch == 'f' && p > 0) {
						always = true
					}
				}
			}
		}
		r.Check(always || (!direct && marks), rule, format.Name(), "float text always distinguishable from an integer", c.pos(floatClause.Pos()),
			"FormatFloat(v, 'f', -1, 64) prints an integral float without '.', and parseValue tries Atoi before ParseFloat: float64(3) is read back as int 3")
	}
}

func c20R2R3(c *Ctx, r *Report) {
	const r2, r3 = "C20.R2", "C20.R3"
	r.Describe(r2, "section header and key/value syntax written = syntax parsed; header-less keys map to section default")
	r.Describe(r3, "inline comments stripped before parseValue (quote-aware); line, key and value trimmed; blank and # lines skipped")
	kv := c.LookupFn(pkgTOML, "parseKeyValuePair")
	wkv := c.LookupFn(pkgTOML, "writeTOMLKeyValue")
	wsec := c.LookupFn(pkgTOML, "writeTOMLSection")
	isHdr := c.LookupFn(pkgTOML, "isSectionHeader")
	eff := c.LookupFn(pkgTOML, "getEffectiveSection")
	strip := c.LookupFn(pkgTOML, "stripInlineComment")
	pv := c.LookupFn(pkgTOML, "parseValue")
	skip := c.LookupFn(pkgTOML, "shouldSkipLine")
	file := c.LookupFn(pkgTOML, "ParseTOMLFile")
	if !r.Anchor(r2, kv != nil && wkv != nil && wsec != nil && isHdr != nil && eff != nil && strip != nil && pv != nil && skip != nil && file != nil, "toml parse/write helpers") {
		return
	}
	strConsts := func(fn *Fn) []string {
		var out []string
		ast.Inspect(fn.Decl.Body, func(n ast.Node) bool {
			if bl, ok := n.(*ast.BasicLit); ok && bl.Kind == token.STRING {
				if v := constOf(fn.Info(), bl); v != nil {
					out = append(out, constant.StringVal(v))
				}
			}
			return true
		})
		return out
	}
	has := func(xs []string, pred func(string) bool) bool {
		for _, x := range xs {
			if pred(x) {
				return true
			}
		}
		return false
	}
	// key = value
	r.Check(has(strConsts(wkv), func(s string) bool { return strings.Contains(s, "%s = %s") }), r2, wkv.Name(), "writes `key = value`", c.pos(wkv.Decl.Pos()), "the key/value separator written is no longer ` = `")
	splitsEq := false
	for _, call := range callsIn(kv.Decl.Body, false) {
		if f := callee(kv.Info(), call); f != nil && f.Pkg() != nil && f.Pkg().Path() == "strings" && (f.Name() == "SplitN" || f.Name() == "Cut") && len(call.Args) >= 2 {
			if v := constOf(kv.Info(), call.Args[1]); v != nil && constant.StringVal(v) == "=" {
				splitsEq = true
			}
		}
	}
	r.Check(splitsEq, r2, kv.Name(), "splits at the first '='", c.pos(kv.Decl.Pos()), "the parser no longer splits key and value at the first '=' (values containing '=' would be cut)")
	// [section]
	r.Check(has(strConsts(wsec), func(s string) bool { return strings.Contains(s, "[%s]") }), r2, wsec.Name(), "writes `[section]`", c.pos(wsec.Decl.Pos()), "section headers are no longer written as [name]")
	hs := strConsts(isHdr)
	r.Check(has(hs, func(s string) bool { return s == "[" }) && has(hs, func(s string) bool { return s == "]" }), r2, isHdr.Name(), "recognises [ ... ]", c.pos(isHdr.Decl.Pos()), "section headers are no longer recognised by their brackets")
	// default section
	dflt := has(strConsts(eff), func(s string) bool { return s == "default" }) && has(strConsts(wsec), func(s string) bool { return s == "default" })
	r.Check(dflt, r2, eff.Name(), "header-less keys <-> section \"default\"", c.pos(eff.Decl.Pos()), "the writer omits the header of section default but the parser no longer files header-less keys under default")
	// R3: strip before parse, trims
	info := kv.Info()
	g := c.CFG(kv)
	hits := mustFlow(g, FlowSpec{
		Gate:   func(n ast.Node) bool { return nodeCalls(info, n, strip.Obj) != nil },
		Target: func(n ast.Node) bool { return nodeCalls(info, n, pv.Obj) != nil },
	})
	r.Check(len(hits) == 0, r3, kv.Name(), "stripInlineComment before parseValue", c.pos(kv.Decl.Pos()), "a value is parsed with its trailing `# comment` still attached")
	trims := 0
	for _, call := range callsIn(kv.Decl.Body, false) {
		if f := callee(info, call); f != nil && f.Pkg() != nil && f.Pkg().Path() == "strings" && f.Name() == "TrimSpace" {
			trims++
		}
	}
	r.Check(trims >= 2, r3, kv.Name(), "key and value trimmed", c.pos(kv.Decl.Pos()), "blanks around key or value are no longer removed")
	// strip is quote aware: toggles a flag on '"' and tests it at '#'
	sinfo := strip.Info()
	var toggles, tests bool
	ast.Inspect(strip.Decl.Body, func(n ast.Node) bool {
		switch x := n.(type) {
		case *ast.AssignStmt:
			if len(x.Lhs) == 1 && len(x.Rhs) == 1 {
				if u, ok := ast.Unparen(x.Rhs[0]).(*ast.UnaryExpr); ok && u.Op == token.NOT && exprStr(u.X) == exprStr(x.Lhs[0]) {
					toggles = true
				}
			}
		case *ast.IfStmt:
			cj := conjuncts(x.Cond)
			hash, notq := false, false
			for _, e := range cj {
				if b, ok := isBinOp(e, token.EQL); ok {
					if v := constOf(sinfo, b.Y); v != nil && v.Kind() == constant.Int {
						if ch, _ := constant.Int64Val(v); ch == '#' {
							hash = true
						}
					}
				}
				if u, ok := ast.Unparen(e).(*ast.UnaryExpr); ok && u.Op == token.NOT {
					notq = true
				}
			}
			if hash && notq {
				tests = true
			}
		}
		return true
	})
	r.Check(toggles && tests, r3, strip.Name(), "'#' ends the value only outside quotes", c.pos(strip.Decl.Pos()), "a '#' inside a quoted string would truncate the value")
	// line handling in ParseTOMLFile
	finfo := file.Info()
	trimLine := false
	for _, call := range callsIn(file.Decl.Body, false) {
		if f := callee(finfo, call); f != nil && f.Pkg() != nil && f.Pkg().Path() == "strings" && f.Name() == "TrimSpace" {
			trimLine = true
		}
	}
	r.Check(trimLine && nodeCalls(finfo, file.Decl.Body, skip.Obj) != nil, r3, file.Name(), "lines trimmed; blank and comment lines skipped", c.pos(file.Decl.Pos()), "surrounding blanks or comment lines reach the key/value parser")
	sk := strConsts(skip)
	r.Check(has(sk, func(s string) bool { return s == "" }) && has(sk, func(s string) bool { return s == "#" }), r3, skip.Name(), "skips \"\" and #-lines", c.pos(skip.Decl.Pos()), "empty or comment lines are no longer skipped")
	// scanner error returned
	r.Check(strings.Contains(exprStrBody(file), "scanner.Err()"), r3, file.Name(), "scanner error returned", c.pos(file.Decl.Pos()), "a read error is ignored")
}

func exprStrBody(fn *Fn) string {
	var sb strings.Builder
	ast.Inspect(fn.Decl.Body, func(n ast.Node) bool {
		if call, ok := n.(*ast.CallExpr); ok {
			sb.WriteString(exprStr(call))
			sb.WriteString(";")
		}
		return true
	})
	return sb.String()
}

// C20.R4: potentially panicking constructs on the parse path.
func c20R4(c *Ctx, r *Report) {
	const rule = "C20.R4"
	r.Describe(rule, "parse path: every slice expression with non-trivial bounds and every nested map write is dominated by a guard that makes it safe")
	file := c.LookupFn(pkgTOML, "ParseTOMLFile")
	ensure := c.LookupFn(pkgTOML, "ensureSectionExists")
	if !r.Anchor(rule, file != nil && ensure != nil, "ParseTOMLFile / ensureSectionExists") {
		return
	}
	reach := c.intraReach(pkgTOML, file)
	n := 0
	for fobj := range reach {
		fn := c.FnOf(fobj)
		if fn == nil {
			continue
		}
		info := fn.Info()
		walkWithStack(fn.Decl.Body, func(nd ast.Node, stack []ast.Node) bool {
			switch x := nd.(type) {
			case *ast.SliceExpr:
				if x.Low == nil && x.High == nil {
					return true
				}
				n++
				subj := exprStr(x.X)
				if x.Low == nil && x.High != nil && loopBoundedIndex(info, x.High, subj, stack) {
					r.OK(rule, fn.Name(), "slice "+exprStr(x), c.pos(x.Pos()), "the upper bound is the index of an enclosing `for i …; i < len("+subj+"); …` loop")
					return true
				}
				need := sliceNeedsLen(info, x, subj)
				if need <= 0 {
					r.OK(rule, fn.Name(), "slice "+exprStr(x), c.pos(x.Pos()), "bounds trivially safe")
					return true
				}
				have := guardedMinLen(c, fn, x, stack, subj)
				r.Check(have >= need, rule, fn.Name(), "slice "+exprStr(x), c.pos(x.Pos()),
					fmt.Sprintf("the slice needs len(%s) >= %d but the dominating guards only establish >= %d: a short input line panics the parser", subj, need, have))
			case *ast.IndexExpr:
				// nested map write data[a][b] = v : inner map must exist
				if inner, ok := ast.Unparen(x.X).(*ast.IndexExpr); ok && isMapType(info.TypeOf(inner.X)) && isMapType(info.TypeOf(x.X)) {
					if as, ok := stack[len(stack)-1].(*ast.AssignStmt); ok {
						for _, l := range as.Lhs {
							if l == ast.Expr(x) {
								n++
								g := c.CFG(fn)
								key := exprStr(inner.Index)
								hits := mustFlow(g, FlowSpec{
									Gate: func(nn ast.Node) bool {
										return nodeCallsPred(nn, func(cl *ast.CallExpr) bool {
											return isCallTo(info, cl, ensure.Obj) && len(cl.Args) == 2 && exprStr(cl.Args[1]) == key
										}) != nil
									},
									Target: func(nn ast.Node) bool { return containsNode(nn, x) && nn == ast.Node(as) },
								})
								r.Check(len(hits) == 0, rule, fn.Name(), "nested map write "+exprStr(x), c.pos(x.Pos()), "write into data["+key+"] without ensureSectionExists(data, "+key+") on every path: assignment to an entry of a nil map panics")
							}
						}
					}
				}
			case *ast.TypeAssertExpr:
				if x.Type != nil {
					if _, inAssign := stack[len(stack)-1].(*ast.AssignStmt); !inAssign {
						n++
						r.Fail(rule, fn.Name(), "type assertion "+exprStr(x)+" without ok", c.pos(x.Pos()), "a failing single-value type assertion panics")
					}
				}
			}
			return true
		})
	}
	r.Floor(rule, n, 2, "potentially panicking constructs on the parse path")
}

// sliceNeedsLen: minimal len(subj) required by x = subj[lo:hi] with lo const and hi = len(subj)-k.
func sliceNeedsLen(info *types.Info, x *ast.SliceExpr, subj string) int {
	lo, k := 0, 0
	if x.Low != nil {
		v := constOf(info, x.Low)
		if v == nil {
			return 1 << 20
		}
		lo = int(intVal(v))
	}
	if x.High != nil {
		b, ok := ast.Unparen(x.High).(*ast.BinaryExpr)
		if ok && b.Op == token.SUB && exprStr(b.X) == "len("+subj+")" {
			v := constOf(info, b.Y)
			if v == nil {
				return 1 << 20
			}
			k = int(intVal(v))
		} else if v := constOf(info, x.High); v != nil {
			return int(intVal(v))
		} else {
			return 1 << 20
		}
	}
	return lo + k
}

// guardedMinLen: lower bound on len(subj) implied by HasPrefix/HasSuffix guards that dominate the slice,
// either in the same function or at every call site (through a boolean helper such as isSectionHeader).
func guardedMinLen(c *Ctx, fn *Fn, at ast.Node, stack []ast.Node, subj string) int {
	info := fn.Info()
	best := 0
	for _, a := range stack {
		ifs, ok := a.(*ast.IfStmt)
		if !ok || !containsNode(ifs.Body, at) {
			continue
		}
		if m := minLenFromCond(info, ifs.Cond, subj); m > best {
			best = m
		}
	}
	if best > 0 {
		return best
	}
	// parameter: look at the call sites
	var param *types.Var
	sig := fn.Obj.Type().(*types.Signature)
	idx := -1
	for i := 0; i < sig.Params().Len(); i++ {
		if sig.Params().At(i).Name() == subj {
			param, idx = sig.Params().At(i), i
		}
	}
	if param == nil {
		return 0
	}
	minAll := 1 << 20
	sites := 0
	for _, caller := range c.AllFns(relOf(fn.Pkg.PkgPath)) {
		cinfo := caller.Info()
		walkWithStack(caller.Decl.Body, func(n ast.Node, st []ast.Node) bool {
			call, ok := n.(*ast.CallExpr)
			if !ok || !isCallTo(cinfo, call, fn.Obj) {
				return true
			}
			sites++
			arg := exprStr(call.Args[idx])
			have := 0
			for _, a := range st {
				ifs, ok := a.(*ast.IfStmt)
				if !ok || !containsNode(ifs.Body, call) {
					continue
				}
				// cond may be a call to a boolean helper g(arg): inline its return expression
				if cl, ok := ast.Unparen(ifs.Cond).(*ast.CallExpr); ok && len(cl.Args) == 1 && exprStr(cl.Args[0]) == arg {
					if f := callee(cinfo, cl); f != nil {
						if helper := c.FnOf(f); helper != nil {
							if res := trailingReturn(helper); len(res) == 1 && len(helper.Decl.Body.List) == 1 {
								if m := minLenFromCond(helper.Info(), res[0], helper.Param(0).Name()); m > have {
									have = m
								}
							}
						}
					}
				}
				if m := minLenFromCond(cinfo, ifs.Cond, arg); m > have {
					have = m
				}
			}
			if have < minAll {
				minAll = have
			}
			return true
		})
	}
	if sites == 0 {
		return 0
	}
	return minAll
}

// minLenFromCond: HasPrefix(s,P) && HasSuffix(s,S) implies len(s) >= max(len P, len S), and >= len P + len S
// when P and S cannot overlap in a shorter string (here: single distinct characters).
func minLenFromCond(info *types.Info, cond ast.Expr, subj string) int {
	pre, suf := "", ""
	hasPre, hasSuf := false, false
	for _, cj := range conjuncts(cond) {
		call, ok := ast.Unparen(cj).(*ast.CallExpr)
		if !ok || len(call.Args) != 2 || exprStr(call.Args[0]) != subj {
			continue
		}
		f := callee(info, call)
		if f == nil || f.Pkg() == nil || f.Pkg().Path() != "strings" {
			continue
		}
		v := constOf(info, call.Args[1])
		if v == nil {
			continue
		}
		switch f.Name() {
		case "HasPrefix":
			pre, hasPre = constant.StringVal(v), true
		case "HasSuffix":
			suf, hasSuf = constant.StringVal(v), true
		}
	}
	switch {
	case hasPre && hasSuf:
		if len(pre) == 1 && len(suf) == 1 && pre != suf {
			return 2
		}
		return max(len(pre), len(suf)) // "x" satisfies HasPrefix(x,"\"") && HasSuffix(x,"\"") with length 1
	case hasPre:
		return len(pre)
	case hasSuf:
		return len(suf)
	}
	return 0
}

// loopBoundedIndex: e is the index variable of an enclosing `for i := …; i < len(subj); i++` loop that is not
// assigned in the loop body.
func loopBoundedIndex(info *types.Info, e ast.Expr, subj string, stack []ast.Node) bool {
	o := objOf(info, e)
	if o == nil {
		return false
	}
	for _, a := range stack {
		fs, ok := a.(*ast.ForStmt)
		if !ok || fs.Cond == nil {
			continue
		}
		be, ok := ast.Unparen(fs.Cond).(*ast.BinaryExpr)
		if !ok || be.Op != token.LSS || objOf(info, be.X) != o || exprStr(be.Y) != "len("+subj+")" {
			continue
		}
		assigned := false
		ast.Inspect(fs.Body, func(x ast.Node) bool {
			switch s := x.(type) {
			case *ast.AssignStmt:
				for _, l := range s.Lhs {
					if objOf(info, l) == o {
						assigned = true
					}
				}
			case *ast.IncDecStmt:
				if objOf(info, s.X) == o {
					assigned = true
				}
			}
			return true
		})
		if !assigned {
			return true
		}
	}
	return false
}
