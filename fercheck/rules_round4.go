package main

// Round-4 rules: invariants behind the fourth batch of seeded changes.

import (
	"fmt"
	"go/ast"
	"go/constant"
	"go/token"
	"go/types"
	"strings"
)

func init() {
	lateInits = append(lateInits, func() {
		props["C05"].Quick = append(props["C05"].Quick, c05R9)
		props["C14"].Quick = append(props["C14"].Quick, c14R9)
		props["C15"].Quick = append(props["C15"].Quick, c15R10)
		props["C20"].Quick = append(props["C20"].Quick, c20R6)
		props["C19"].Quick = append(props["C19"].Quick, c19R8)
		props["C05"].Explanation += " (R9) buildMatch builds the body of every case clause: nothing leaves an iteration of the loop over the clauses before buildBlock ran on the clause (the lowering dispatches every arm, also one written after the default)."
		props["C14"].Explanation += " (R9) DiagnosticBag.Add appends every diagnostic it is given: admission does not depend on how many the bag already holds (insertion order follows the parser schedule; only the sorted emission is deterministic)."
		props["C15"].Explanation += " (R10) the replay of the recorded imports tests every edge for a cycle: an edge is skipped before the test only under a comparison of both its importer and its imported module with another edge."
		props["C20"].Explanation += " (R6) every formatted-print call of package toml has a constant format string: data never becomes a format."
		props["C19"].Explanation += " (R8) source text (Location.GetText / the source cache) is read only by diagnostics and by the type checker's hint builder, never by a code generator: generated code cannot depend on the trivia between tokens."
	})
}

// stmtLeavesLoop: the statement contains a break/continue/return that belongs to the enclosing loop (not to a nested
// loop, switch or function literal).
func stmtLeavesLoop(n ast.Node) *ast.BranchStmt {
	var found *ast.BranchStmt
	var walk func(x ast.Node, inSwitch bool)
	walk = func(x ast.Node, inSwitch bool) {
		if x == nil || found != nil {
			return
		}
		ast.Inspect(x, func(y ast.Node) bool {
			if found != nil {
				return false
			}
			switch s := y.(type) {
			case *ast.FuncLit, *ast.ForStmt, *ast.RangeStmt:
				if y != x {
					return false
				}
			case *ast.SwitchStmt, *ast.TypeSwitchStmt, *ast.SelectStmt:
				if y != x {
					// break inside a switch leaves the switch; continue still leaves the loop iteration
					ast.Inspect(s, func(z ast.Node) bool {
						if bs, ok := z.(*ast.BranchStmt); ok && bs.Tok == token.CONTINUE && found == nil {
							found = bs
						}
						switch z.(type) {
						case *ast.FuncLit, *ast.ForStmt, *ast.RangeStmt:
							return false
						}
						return true
					})
					return false
				}
			case *ast.BranchStmt:
				if s.Tok == token.BREAK || s.Tok == token.CONTINUE {
					found = s
				}
			}
			return true
		})
	}
	walk(n, false)
	return found
}

func c05R9(c *Ctx, r *Report) {
	const rule = "C05.R9"
	r.Describe(rule, "hir/analysis buildMatch: in the loop over stmt.Cases no break/continue/return precedes the buildBlock call on the clause's body")
	fn := c.LookupFn(pkgHIRAn, "(*CFGBuilder).buildMatch")
	bb := c.LookupFn(pkgHIRAn, "(*CFGBuilder).buildBlock")
	if !r.Anchor(rule, fn != nil && bb != nil, "hir/analysis buildMatch / buildBlock") {
		return
	}
	info := fn.Info()
	n := 0
	ast.Inspect(fn.Decl.Body, func(x ast.Node) bool {
		rs, ok := x.(*ast.RangeStmt)
		if !ok || !strings.HasSuffix(exprStr(rs.X), ".Cases") {
			return true
		}
		n++
		bad := ""
		built := false
		for _, st := range rs.Body.List {
			if nodeCallsDeep(info, st, bb.Obj) {
				built = true
				break
			}
			if bs := stmtLeavesLoop(st); bs != nil {
				bad = bs.Tok.String() + " at " + c.pos(bs.Pos())
				break
			}
			ast.Inspect(st, func(y ast.Node) bool {
				if _, ok := y.(*ast.ReturnStmt); ok && bad == "" {
					bad = "return at " + c.pos(y.Pos())
				}
				return true
			})
			if bad != "" {
				break
			}
		}
		r.Check(built && bad == "", rule, fn.Name(), "every case clause's body enters the control-flow graph", c.pos(rs.Pos()),
			"an iteration over the match arms can be left ("+bad+") before the arm's body is built: an arm written after the default arm is still dispatched by the lowering, so a body without return that the return analysis never saw lets the function fall off its end")
		return true
	})
	r.Floor(rule, n, 1, "loops over MatchStmt.Cases in buildMatch")
}

func c14R9(c *Ctx, r *Report) {
	const rule = "C14.R9"
	r.Describe(rule, "diagnostics.(*DiagnosticBag).Add: the append to the diagnostics slice is reached on every path that does not return under a nil test of the argument")
	fn := c.LookupFn("internal/diagnostics", "(*DiagnosticBag).Add")
	field := c.fieldObj("internal/diagnostics", "DiagnosticBag", "diagnostics")
	if !r.Anchor(rule, fn != nil && field != nil, "diagnostics.(*DiagnosticBag).Add / .diagnostics") {
		return
	}
	info := fn.Info()
	param := fn.Param(0)
	isAppend := func(n ast.Node) bool {
		as, ok := n.(*ast.AssignStmt)
		if !ok || len(as.Lhs) != 1 || len(as.Rhs) != 1 || fieldOf(info, as.Lhs[0]) != field {
			return false
		}
		cl, ok := as.Rhs[0].(*ast.CallExpr)
		return ok && exprStr(cl.Fun) == "append"
	}
	// statement-order scan of the top level: before the append, any statement that can return or that guards the
	// append must only test the parameter against nil
	appended := false
	bad := ""
	for _, st := range fn.Decl.Body.List {
		if isAppend(st) {
			appended = true
			break
		}
		ifs, isIf := st.(*ast.IfStmt)
		containsAppend := false
		ast.Inspect(st, func(y ast.Node) bool {
			if isAppend(y) {
				containsAppend = true
			}
			return true
		})
		hasRet := false
		ast.Inspect(st, func(y ast.Node) bool {
			if _, ok := y.(*ast.ReturnStmt); ok {
				hasRet = true
			}
			return true
		})
		if !containsAppend && !hasRet {
			continue
		}
		okGuard := false
		if isIf && hasRet && !containsAppend {
			if b, ok := isBinOp(ifs.Cond, token.EQL); ok && param != nil && usesVar(info, b.X, param) && info.Types[b.Y].IsNil() {
				okGuard = true
			}
		}
		if !okGuard {
			bad = exprStr0(st)
			break
		}
	}
	r.Check(appended && bad == "", rule, fn.Name(), "every diagnostic handed to Add is stored", c.pos(fn.Decl.Pos()),
		"whether a diagnostic is kept depends on the state of the bag ("+bad+"): modules are parsed concurrently, so which diagnostics arrive first — and therefore which are dropped — differs from run to run while the count and the exit status stay the same")
}

func exprStr0(st ast.Stmt) string {
	switch s := st.(type) {
	case *ast.IfStmt:
		return "if " + exprStr(s.Cond)
	case *ast.ExprStmt:
		return exprStr(s.X)
	}
	return fmt.Sprintf("%T", st)
}

func c15R10(c *Ctx, r *Report) {
	const rule = "C15.R10"
	r.Describe(rule, "pipeline.reportImportProblems: in the loop that calls importCycle, a continue before that call is guarded by a condition that mentions both .importer and .imported")
	fn := c.LookupFn(pkgPipe, "(*Pipeline).reportImportProblems")
	ic := c.LookupFn(pkgPipe, "importCycle")
	if !r.Anchor(rule, fn != nil && ic != nil, "pipeline.reportImportProblems / importCycle") {
		return
	}
	info := fn.Info()
	n := 0
	ast.Inspect(fn.Decl.Body, func(x ast.Node) bool {
		rs, ok := x.(*ast.RangeStmt)
		if !ok || !nodeCallsDeep(info, rs.Body, ic.Obj) {
			return true
		}
		n++
		var callPos token.Pos
		for _, cl := range callsIn(rs.Body, false) {
			if isCallTo(info, cl, ic.Obj) && callPos == token.NoPos {
				callPos = cl.Pos()
			}
		}
		bad := ""
		walkWithStack(rs.Body, func(y ast.Node, stack []ast.Node) bool {
			bs, ok := y.(*ast.BranchStmt)
			if !ok || bs.Pos() > callPos || (bs.Tok != token.CONTINUE && bs.Tok != token.BREAK) {
				return true
			}
			okGuard := false
			for _, a := range stack {
				if ifs, ok := a.(*ast.IfStmt); ok {
					cs := exprStr(ifs.Cond)
					if strings.Contains(cs, ".importer") && strings.Contains(cs, ".imported") {
						okGuard = true
					}
				}
			}
			if !okGuard {
				bad = c.pos(bs.Pos())
			}
			return true
		})
		r.Check(bad == "", rule, fn.Name(), "every recorded import is tested for a cycle", c.pos(rs.Pos()),
			"an import edge is skipped before the cycle test (at "+bad+") under a condition that does not identify it by importer and imported module: the last import of one module and the first import of the next can name the same module, the second edge is dropped as a repeat, and a cycle that closes only through it is accepted")
		return true
	})
	r.Floor(rule, n, 1, "replay loops in reportImportProblems")
}

func c20R6(c *Ctx, r *Report) {
	const rule = "C20.R6"
	r.Describe(rule, "toml: every fmt.Fprintf / Sprintf / Printf / Errorf call has a constant format string")
	n := 0
	for _, fn := range c.AllFns(pkgTOML) {
		info := fn.Info()
		for _, cl := range callsIn(fn.Decl.Body, true) {
			f := callee(info, cl)
			if f == nil || f.Pkg() == nil || f.Pkg().Path() != "fmt" {
				continue
			}
			idx := -1
			switch f.Name() {
			case "Fprintf":
				idx = 1
			case "Sprintf", "Printf", "Errorf":
				idx = 0
			}
			if idx < 0 || len(cl.Args) <= idx {
				continue
			}
			n++
			v := constOf(info, cl.Args[idx])
			r.Check(v != nil && v.Kind() == constant.String, rule, fn.Name(), "fmt."+f.Name()+" format is a constant", c.pos(cl.Pos()),
				"the format argument "+exprStr(cl.Args[idx])+" is data: a '%' in a value, key or comment is interpreted as a verb and the written text is not the value (\"80%\" is written as 80%!\"(MISSING))")
		}
	}
	r.Floor(rule, n, 3, "formatted prints in package toml")
}

func c19R8(c *Ctx, r *Report) {
	const rule = "C19.R8"
	r.Describe(rule, "Location.GetText and SourceCache text accessors are called only from packages diagnostics, source and the type checker")
	var readers []*types.Func
	if tn := c.lookupType("internal/source", "Location"); tn != nil {
		if o, _, _ := types.LookupFieldOrMethod(types.NewPointer(tn.Type()), true, tn.Pkg(), "GetText"); o != nil {
			if f, ok := o.(*types.Func); ok {
				readers = append(readers, f)
			}
		}
	}
	if !r.Anchor(rule, len(readers) > 0, "source.(*Location).GetText") {
		return
	}
	n := 0
	for _, p := range c.Pkgs {
		rel := relOf(p.PkgPath)
		for _, fn := range c.AllFns(rel) {
			info := fn.Info()
			for _, cl := range callsIn(fn.Decl.Body, true) {
				if !isCallTo(info, cl, readers...) {
					continue
				}
				n++
				ok := rel == "internal/diagnostics" || rel == "internal/source" || rel == "internal/semantics/typechecker"
				r.Check(ok, rule, fn.Name(), "reads source text (allowed: diagnostics, source, type checker hints)", c.pos(cl.Pos()),
					"a later phase copies the text between two positions of the source: the copy contains the blanks, line breaks and comments written there, so reformatting the program changes what is generated (a function header spread over two lines ends a `#` comment in the QBE IL early and the rest is parsed as IL)")
			}
		}
	}
	r.Floor(rule, n, 1, "GetText call sites")
}

// ---- batch 2 ------------------------------------------------------------------------------------------------

func init() {
	lateInits = append(lateInits, func() {
		props["C07"].Quick = append(props["C07"].Quick, c07R9)
		props["C02"].Quick = append(props["C02"].Quick, c02R8)
		props["C18"].Quick = append(props["C18"].Quick, c02R8, c11R10)
		props["C04"].Quick = append(props["C04"].Quick, c04R8)
		props["C11"].Quick = append(props["C11"].Quick, c11R10)
		props["C07"].Explanation += " (R9) loans end in two places only: releaseBorrow is called by releaseTemps and releaseBinding, and releaseBinding by popScope and releaseExpiredRefs on the references the scope itself declared — a loan is never ended from inside a nested block (which a loop may run again)."
		props["C02"].Explanation += " (R8) the wasm aggregate copy helper emits the runtime memcpy with the exact size on every successful path; a shortcut may exist only under equality tests of the size."
		props["C04"].Explanation += " (R8) the native emitter scales an index by the element size with a multiplication; a shift is emitted only under a power-of-two test of the size (x&(x-1) == 0 or a one-bit population count)."
		props["C11"].Explanation += " (R10) widenNumericValue converts whenever the two primitive numeric types differ: its early returns are guarded only by nil/invalid tests, the primitive-type assertions, type equality and the numeric-name predicate."
	})
}

func c07R9(c *Ctx, r *Report) {
	const rule = "C07.R9"
	r.Describe(rule, "hir/analysis borrow checker: callers of releaseBorrow ⊆ {releaseTemps, releaseBinding}; callers of releaseBinding ⊆ {popScope, releaseExpiredRefs}")
	rb := c.LookupFn(pkgHIRAn, "(*borrowChecker).releaseBorrow")
	rbi := c.LookupFn(pkgHIRAn, "(*borrowChecker).releaseBinding")
	if !r.Anchor(rule, rb != nil && rbi != nil, "hir/analysis releaseBorrow / releaseBinding") {
		return
	}
	allowed := map[*types.Func]map[string]bool{
		rb.Obj:  {"releaseTemps": true, "releaseBinding": true},
		rbi.Obj: {"popScope": true, "releaseExpiredRefs": true},
	}
	n := 0
	for _, fn := range c.AllFns(pkgHIRAn) {
		info := fn.Info()
		for _, cl := range callsIn(fn.Decl.Body, true) {
			f := callee(info, cl)
			if f == nil || allowed[f] == nil {
				continue
			}
			n++
			r.Check(allowed[f][fn.Obj.Name()], rule, fn.Name(), "calls "+f.Name()+" (loan ends here)", c.pos(cl.Pos()),
				"a loan is ended outside the places that end it today (end of the temporaries of an expression, last use of a reference in the block that declared it, end of that block): ending the loan of an outer reference after its last textual use inside a nested block is unsound when the block is a loop body — the reference is used again in the next iteration while the referent has been written")
		}
	}
	r.Floor(rule, n, 4, "calls of releaseBorrow / releaseBinding")
}

func c02R8(c *Ctx, r *Report) {
	const rule = "C02.R8"
	r.Describe(rule, "wasm emitMemcpy: every return with a nil error lies after the look-up of the ferret_memcpy import, or under a condition built from == tests of the size only")
	fn := c.LookupFn(pkgWasm, "(*Generator).emitMemcpy")
	if !r.Anchor(rule, fn != nil, "wasm.(*Generator).emitMemcpy") {
		return
	}
	info := fn.Info()
	var importPos token.Pos
	ast.Inspect(fn.Decl.Body, func(x ast.Node) bool {
		if bl, ok := x.(*ast.BasicLit); ok {
			if v := constOf(info, bl); v != nil && v.Kind() == constant.String && constant.StringVal(v) == "ferret_memcpy" && importPos == token.NoPos {
				importPos = bl.Pos()
			}
		}
		return true
	})
	if !r.Anchor(rule, importPos != token.NoPos, "emitMemcpy: ferret_memcpy import") {
		return
	}
	bad := ""
	walkWithStack(fn.Decl.Body, func(x ast.Node, stack []ast.Node) bool {
		ret, ok := x.(*ast.ReturnStmt)
		if !ok || len(ret.Results) != 2 || ret.Pos() > importPos {
			return true
		}
		if tv, ok := info.Types[ret.Results[1]]; !ok || !tv.IsNil() {
			return true // an error return
		}
		okGuard := false
		for _, a := range stack {
			ifs, isIf := a.(*ast.IfStmt)
			if !isIf {
				continue
			}
			all := true
			for _, d := range disjuncts(ifs.Cond) {
				if _, isEq := isBinOp(d, token.EQL); !isEq {
					all = false
				}
			}
			if all {
				okGuard = true
			}
		}
		if !okGuard {
			bad = c.pos(ret.Pos())
		}
		return true
	})
	r.Check(bad == "", rule, fn.Name(), "aggregate copies of every size go through the exact-size copy", c.pos(fn.Decl.Pos()),
		"a shortcut path (return at "+bad+") copies without the runtime memcpy for a range of sizes: a 3-, 5-, 6- or 7-byte element copied with one 4- or 8-byte store overwrites the bytes after it, which belong to the next element of a fixed array; the native back end copies the exact size")
}

func c04R8(c *Ctx, r *Report) {
	const rule = "C04.R8"
	r.Describe(rule, "qbe: an emitted `shl` whose amount is computed from a size (bits.TrailingZeros / bits.Len) sits under a condition that proves the size a power of two")
	n := 0
	for _, fn := range c.AllFns(pkgQBE) {
		info := fn.Info()
		walkWithStack(fn.Decl.Body, func(x ast.Node, stack []ast.Node) bool {
			bl, ok := x.(*ast.BasicLit)
			if !ok || bl.Kind != token.STRING {
				return true
			}
			v := constOf(info, bl)
			if v == nil || v.Kind() != constant.String || !strings.Contains(constant.StringVal(v), " shl ") {
				return true
			}
			// only shifts that stand for a multiplication: the function computes a shift amount with math/bits
			usesBits := false
			for _, cl := range callsIn(fn.Decl.Body, true) {
				if f := callee(info, cl); f != nil && f.Pkg() != nil && f.Pkg().Path() == "math/bits" {
					usesBits = true
				}
			}
			if !usesBits {
				return true
			}
			n++
			proven := false
			for _, a := range stack {
				ifs, isIf := a.(*ast.IfStmt)
				if !isIf {
					continue
				}
				cs := exprStr(ifs.Cond)
				if ifs.Init != nil {
					cs += ";" + exprStr0(ifs.Init)
				}
				if strings.Contains(cs, "OnesCount") || (strings.Contains(cs, "&") && strings.Contains(cs, "-1")) || strings.Contains(cs, "- 1") && strings.Contains(cs, "&") {
					proven = true
				}
			}
			r.Check(proven, rule, fn.Name(), "shift used as a multiplication only for a power-of-two size", c.pos(bl.Pos()),
				"an index is scaled with `shl` by the number of trailing zero bits of the element size without proving the size a power of two: a 12-byte element gets stride 4 and a 24-byte element stride 8, so a checked index selects the wrong bytes")
			return true
		})
	}
	r.Note("%s: %d strength-reduced scalings inspected", rule, n)
}

func c11R10(c *Ctx, r *Report) {
	const rule = "C11.R10"
	r.Describe(rule, "mir/gen widenNumericValue: every early `return val` is guarded by a condition that calls nothing but Equals, IsNumericTypeName, GetName and UnwrapType")
	fn := c.LookupFn(pkgMIRGen, "(*functionBuilder).widenNumericValue")
	cast := c.LookupFn(pkgMIRGen, "(*functionBuilder).castValue")
	if !r.Anchor(rule, fn != nil && cast != nil, "mir/gen widenNumericValue / castValue") {
		return
	}
	info := fn.Info()
	allowed := map[string]bool{"Equals": true, "IsNumericTypeName": true, "GetName": true, "UnwrapType": true}
	n := 0
	ast.Inspect(fn.Decl.Body, func(x ast.Node) bool {
		ifs, ok := x.(*ast.IfStmt)
		if !ok {
			return true
		}
		returnsUnchanged := false
		for _, st := range ifs.Body.List {
			if ret, ok := st.(*ast.ReturnStmt); ok && len(ret.Results) == 1 {
				if _, isCall := ast.Unparen(ret.Results[0]).(*ast.CallExpr); !isCall {
					returnsUnchanged = true
				}
			}
		}
		if !returnsUnchanged {
			return true
		}
		n++
		bad := ""
		for _, cl := range callsIn(ifs.Cond, false) {
			f := callee(info, cl)
			if f == nil || !allowed[f.Name()] {
				bad = exprStr(cl.Fun)
			}
		}
		r.Check(bad == "", rule, fn.Name(), "`"+exprStr(ifs.Cond)+"`: value returned unconverted only for equal / non-numeric types", c.pos(ifs.Pos()),
			"an implicit widening is skipped under "+bad+"(…): the value keeps its narrow type, and both back ends take the width of a store from the value's type — an i8 stored into an i32 field writes one byte and leaves the other three as they were")
		return true
	})
	r.Floor(rule, n, 2, "early returns of widenNumericValue")
	r.Check(nodeCallsDeep(info, fn.Decl.Body, cast.Obj), rule, fn.Name(), "differing numeric types reach castValue", c.pos(fn.Decl.Pos()), "widenNumericValue never converts")
}
