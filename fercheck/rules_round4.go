package main

// Round-4 rules: invariants behind the fourth batch of seeded changes.

import (
	"fmt"
	"go/ast"
	"go/constant"
	"go/token"
	"go/types"
	"os"
	"path/filepath"
	"regexp"
	"sort"
	"strings"

	"golang.org/x/tools/go/cfg"
)

func init() {
	lateInits = append(lateInits, func() {
		props["C05"].Quick = append(props["C05"].Quick, c05R9)
		props["C14"].Quick = append(props["C14"].Quick, c14R9)
		props["C15"].Quick = append(props["C15"].Quick, c15R10)
		props["C20"].Quick = append(props["C20"].Quick, c20R6)
		props["C19"].Quick = append(props["C19"].Quick, c19R8)
		props["C05"].Explanation += " (R9) buildMatch builds the body of every case clause: nothing leaves an iteration of the loop over the clauses before buildBlock ran on the clause (the lowering dispatches every arm, also one written after the default)."
		props["C14"].Explanation += " (R9) DiagnosticBag.Add appends every diagnostic it is given: admission does not depend on how many the bag already holds (insertion order follows the parser schedule; only the sorted emission is deterministic)."
		props["C15"].Explanation += " (R10) the replay of the recorded imports tests every edge for a cycle: an edge is skipped before the test only under a comparison of both its importer and its imported module with another edge."
		props["C20"].Explanation += " (R6) every formatted-print call of package toml has a constant format string: data never becomes a format."
		props["C19"].Explanation += " (R8) source text (Location.GetText / the source cache) is read only by diagnostics and by the type checker's hint builder, never by a code generator: generated code cannot depend on the trivia between tokens."
	})
}

// stmtLeavesLoop: the statement contains a break/continue/return that belongs to the enclosing loop (not to a nested
// loop, switch or function literal).
func stmtLeavesLoop(n ast.Node) *ast.BranchStmt {
	var found *ast.BranchStmt
	var walk func(x ast.Node, inSwitch bool)
	walk = func(x ast.Node, inSwitch bool) {
		if x == nil || found != nil {
			return
		}
		ast.Inspect(x, func(y ast.Node) bool {
			if found != nil {
				return false
			}
			switch s := y.(type) {
			case *ast.FuncLit, *ast.ForStmt, *ast.RangeStmt:
				if y != x {
					return false
				}
			case *ast.SwitchStmt, *ast.TypeSwitchStmt, *ast.SelectStmt:
				if y != x {
					// break inside a switch leaves the switch; continue still leaves the loop iteration
					ast.Inspect(s, func(z ast.Node) bool {
						if bs, ok := z.(*ast.BranchStmt); ok && bs.Tok == token.CONTINUE && found == nil {
							found = bs
						}
						switch z.(type) {
						case *ast.FuncLit, *ast.ForStmt, *ast.RangeStmt:
							return false
						}
						return true
					})
					return false
				}
			case *ast.BranchStmt:
				if s.Tok == token.BREAK || s.Tok == token.CONTINUE {
					found = s
				}
			}
			return true
		})
	}
	walk(n, false)
	return found
}

func c05R9(c *Ctx, r *Report) {
	const rule = "C05.R9"
	r.Describe(rule, "hir/analysis buildMatch: in the loop over stmt.Cases no break/continue/return precedes the buildBlock call on the clause's body")
	fn := c.LookupFn(pkgHIRAn, "(*CFGBuilder).buildMatch")
	bb := c.LookupFn(pkgHIRAn, "(*CFGBuilder).buildBlock")
	if !r.Anchor(rule, fn != nil && bb != nil, "hir/analysis buildMatch / buildBlock") {
		return
	}
	info := fn.Info()
	n := 0
	ast.Inspect(fn.Decl.Body, func(x ast.Node) bool {
		rs, ok := x.(*ast.RangeStmt)
		if !ok || !strings.HasSuffix(exprStr(rs.X), ".Cases") {
			return true
		}
		n++
		bad := ""
		built := false
		for _, st := range rs.Body.List {
			if nodeCallsDeep(info, st, bb.Obj) {
				built = true
				break
			}
			if bs := stmtLeavesLoop(st); bs != nil {
				bad = bs.Tok.String() + " at " + c.pos(bs.Pos())
				break
			}
			ast.Inspect(st, func(y ast.Node) bool {
				if _, ok := y.(*ast.ReturnStmt); ok && bad == "" {
					bad = "return at " + c.pos(y.Pos())
				}
				return true
			})
			if bad != "" {
				break
			}
		}
		r.Check(built && bad == "", rule, fn.Name(), "every case clause's body enters the control-flow graph", c.pos(rs.Pos()),
			"an iteration over the match arms can be left ("+bad+") before the arm's body is built: an arm written after the default arm is still dispatched by the lowering, so a body without return that the return analysis never saw lets the function fall off its end")
		return true
	})
	r.Floor(rule, n, 1, "loops over MatchStmt.Cases in buildMatch")
}

func c14R9(c *Ctx, r *Report) {
	const rule = "C14.R9"
	r.Describe(rule, "diagnostics.(*DiagnosticBag).Add: the append to the diagnostics slice is reached on every path that does not return under a nil test of the argument")
	fn := c.LookupFn("internal/diagnostics", "(*DiagnosticBag).Add")
	field := c.fieldObj("internal/diagnostics", "DiagnosticBag", "diagnostics")
	if !r.Anchor(rule, fn != nil && field != nil, "diagnostics.(*DiagnosticBag).Add / .diagnostics") {
		return
	}
	info := fn.Info()
	param := fn.Param(0)
	isAppend := func(n ast.Node) bool {
		as, ok := n.(*ast.AssignStmt)
		if !ok || len(as.Lhs) != 1 || len(as.Rhs) != 1 || fieldOf(info, as.Lhs[0]) != field {
			return false
		}
		cl, ok := as.Rhs[0].(*ast.CallExpr)
		return ok && exprStr(cl.Fun) == "append"
	}
	// statement-order scan of the top level: before the append, any statement that can return or that guards the
	// append must only test the parameter against nil
	appended := false
	bad := ""
	for _, st := range fn.Decl.Body.List {
		if isAppend(st) {
			appended = true
			break
		}
		ifs, isIf := st.(*ast.IfStmt)
		containsAppend := false
		ast.Inspect(st, func(y ast.Node) bool {
			if isAppend(y) {
				containsAppend = true
			}
			return true
		})
		hasRet := false
		ast.Inspect(st, func(y ast.Node) bool {
			if _, ok := y.(*ast.ReturnStmt); ok {
				hasRet = true
			}
			return true
		})
		if !containsAppend && !hasRet {
			continue
		}
		okGuard := false
		if isIf && hasRet && !containsAppend {
			if b, ok := isBinOp(ifs.Cond, token.EQL); ok && param != nil && usesVar(info, b.X, param) && info.Types[b.Y].IsNil() {
				okGuard = true
			}
		}
		if !okGuard {
			bad = exprStr0(st)
			break
		}
	}
	r.Check(appended && bad == "", rule, fn.Name(), "every diagnostic handed to Add is stored", c.pos(fn.Decl.Pos()),
		"whether a diagnostic is kept depends on the state of the bag ("+bad+"): modules are parsed concurrently, so which diagnostics arrive first — and therefore which are dropped — differs from run to run while the count and the exit status stay the same")
}

func exprStr0(st ast.Stmt) string {
	switch s := st.(type) {
	case *ast.IfStmt:
		return "if " + exprStr(s.Cond)
	case *ast.ExprStmt:
		return exprStr(s.X)
	}
	return fmt.Sprintf("%T", st)
}

func c15R10(c *Ctx, r *Report) {
	const rule = "C15.R10"
	r.Describe(rule, "pipeline.reportImportProblems: in the loop that calls importCycle, a continue before that call is guarded by a condition that mentions both .importer and .imported")
	fn := c.LookupFn(pkgPipe, "(*Pipeline).reportImportProblems")
	ic := c.LookupFn(pkgPipe, "importCycle")
	if !r.Anchor(rule, fn != nil && ic != nil, "pipeline.reportImportProblems / importCycle") {
		return
	}
	info := fn.Info()
	n := 0
	ast.Inspect(fn.Decl.Body, func(x ast.Node) bool {
		rs, ok := x.(*ast.RangeStmt)
		if !ok || !nodeCallsDeep(info, rs.Body, ic.Obj) {
			return true
		}
		n++
		var callPos token.Pos
		for _, cl := range callsIn(rs.Body, false) {
			if isCallTo(info, cl, ic.Obj) && callPos == token.NoPos {
				callPos = cl.Pos()
			}
		}
		bad := ""
		walkWithStack(rs.Body, func(y ast.Node, stack []ast.Node) bool {
			bs, ok := y.(*ast.BranchStmt)
			if !ok || bs.Pos() > callPos || (bs.Tok != token.CONTINUE && bs.Tok != token.BREAK) {
				return true
			}
			okGuard := false
			for _, a := range stack {
				if ifs, ok := a.(*ast.IfStmt); ok {
					cs := exprStr(ifs.Cond)
					if strings.Contains(cs, ".importer") && strings.Contains(cs, ".imported") {
						okGuard = true
					}
				}
			}
			if !okGuard {
				bad = c.pos(bs.Pos())
			}
			return true
		})
		r.Check(bad == "", rule, fn.Name(), "every recorded import is tested for a cycle", c.pos(rs.Pos()),
			"an import edge is skipped before the cycle test (at "+bad+") under a condition that does not identify it by importer and imported module: the last import of one module and the first import of the next can name the same module, the second edge is dropped as a repeat, and a cycle that closes only through it is accepted")
		return true
	})
	r.Floor(rule, n, 1, "replay loops in reportImportProblems")
}

func c20R6(c *Ctx, r *Report) {
	const rule = "C20.R6"
	r.Describe(rule, "toml: every fmt.Fprintf / Sprintf / Printf / Errorf call has a constant format string")
	n := 0
	for _, fn := range c.AllFns(pkgTOML) {
		info := fn.Info()
		for _, cl := range callsIn(fn.Decl.Body, true) {
			f := callee(info, cl)
			if f == nil || f.Pkg() == nil || f.Pkg().Path() != "fmt" {
				continue
			}
			idx := -1
			switch f.Name() {
			case "Fprintf":
				idx = 1
			case "Sprintf", "Printf", "Errorf":
				idx = 0
			}
			if idx < 0 || len(cl.Args) <= idx {
				continue
			}
			n++
			v := constOf(info, cl.Args[idx])
			r.Check(v != nil && v.Kind() == constant.String, rule, fn.Name(), "fmt."+f.Name()+" format is a constant", c.pos(cl.Pos()),
				"the format argument "+exprStr(cl.Args[idx])+" is data: a '%' in a value, key or comment is interpreted as a verb and the written text is not the value (\"80%\" is written as 80%!\"(MISSING))")
		}
	}
	r.Floor(rule, n, 3, "formatted prints in package toml")
}

func c19R8(c *Ctx, r *Report) {
	const rule = "C19.R8"
	r.Describe(rule, "Location.GetText and SourceCache text accessors are called only from packages diagnostics, source and the type checker")
	var readers []*types.Func
	if tn := c.lookupType("internal/source", "Location"); tn != nil {
		if o, _, _ := types.LookupFieldOrMethod(types.NewPointer(tn.Type()), true, tn.Pkg(), "GetText"); o != nil {
			if f, ok := o.(*types.Func); ok {
				readers = append(readers, f)
			}
		}
	}
	if !r.Anchor(rule, len(readers) > 0, "source.(*Location).GetText") {
		return
	}
	n := 0
	for _, p := range c.Pkgs {
		rel := relOf(p.PkgPath)
		for _, fn := range c.AllFns(rel) {
			info := fn.Info()
			for _, cl := range callsIn(fn.Decl.Body, true) {
				if !isCallTo(info, cl, readers...) {
					continue
				}
				n++
				ok := rel == "internal/diagnostics" || rel == "internal/source" || rel == "internal/semantics/typechecker"
				r.Check(ok, rule, fn.Name(), "reads source text (allowed: diagnostics, source, type checker hints)", c.pos(cl.Pos()),
					"a later phase copies the text between two positions of the source: the copy contains the blanks, line breaks and comments written there, so reformatting the program changes what is generated (a function header spread over two lines ends a `#` comment in the QBE IL early and the rest is parsed as IL)")
			}
		}
	}
	r.Floor(rule, n, 1, "GetText call sites")
}

// ---- batch 2 ------------------------------------------------------------------------------------------------

func init() {
	lateInits = append(lateInits, func() {
		props["C07"].Quick = append(props["C07"].Quick, c07R9)
		props["C02"].Quick = append(props["C02"].Quick, c02R8)
		props["C18"].Quick = append(props["C18"].Quick, c02R8, c11R10)
		props["C04"].Quick = append(props["C04"].Quick, c04R8)
		props["C11"].Quick = append(props["C11"].Quick, c11R10)
		props["C07"].Explanation += " (R9) loans end in two places only: releaseBorrow is called by releaseTemps and releaseBinding, and releaseBinding by popScope and releaseExpiredRefs on the references the scope itself declared — a loan is never ended from inside a nested block (which a loop may run again)."
		props["C02"].Explanation += " (R8) the wasm aggregate copy helper emits the runtime memcpy with the exact size on every successful path; a shortcut may exist only under equality tests of the size."
		props["C04"].Explanation += " (R8) the native emitter scales an index by the element size with a multiplication; a shift is emitted only under a power-of-two test of the size (x&(x-1) == 0 or a one-bit population count)."
		props["C11"].Explanation += " (R10) widenNumericValue converts whenever the two primitive numeric types differ: its early returns are guarded only by nil/invalid tests, the primitive-type assertions, type equality and the numeric-name predicate."
	})
}

func c07R9(c *Ctx, r *Report) {
	const rule = "C07.R9"
	r.Describe(rule, "hir/analysis borrow checker: callers of releaseBorrow ⊆ {releaseTemps, releaseBinding}; callers of releaseBinding ⊆ {popScope, releaseExpiredRefs}")
	rb := c.LookupFn(pkgHIRAn, "(*borrowChecker).releaseBorrow")
	rbi := c.LookupFn(pkgHIRAn, "(*borrowChecker).releaseBinding")
	if !r.Anchor(rule, rb != nil && rbi != nil, "hir/analysis releaseBorrow / releaseBinding") {
		return
	}
	allowed := map[*types.Func]map[string]bool{
		rb.Obj:  {"releaseTemps": true, "releaseBinding": true},
		rbi.Obj: {"popScope": true, "releaseExpiredRefs": true},
	}
	n := 0
	for _, fn := range c.AllFns(pkgHIRAn) {
		info := fn.Info()
		for _, cl := range callsIn(fn.Decl.Body, true) {
			f := callee(info, cl)
			if f == nil || allowed[f] == nil {
				continue
			}
			n++
			r.Check(allowed[f][fn.Obj.Name()], rule, fn.Name(), "calls "+f.Name()+" (loan ends here)", c.pos(cl.Pos()),
				"a loan is ended outside the places that end it today (end of the temporaries of an expression, last use of a reference in the block that declared it, end of that block): ending the loan of an outer reference after its last textual use inside a nested block is unsound when the block is a loop body — the reference is used again in the next iteration while the referent has been written")
		}
	}
	r.Floor(rule, n, 4, "calls of releaseBorrow / releaseBinding")
}

func c02R8(c *Ctx, r *Report) {
	const rule = "C02.R8"
	r.Describe(rule, "wasm emitMemcpy: every return with a nil error lies after the look-up of the ferret_memcpy import, or under a condition built from == tests of the size only")
	fn := c.LookupFn(pkgWasm, "(*Generator).emitMemcpy")
	if !r.Anchor(rule, fn != nil, "wasm.(*Generator).emitMemcpy") {
		return
	}
	info := fn.Info()
	var importPos token.Pos
	ast.Inspect(fn.Decl.Body, func(x ast.Node) bool {
		if bl, ok := x.(*ast.BasicLit); ok {
			if v := constOf(info, bl); v != nil && v.Kind() == constant.String && constant.StringVal(v) == "ferret_memcpy" && importPos == token.NoPos {
				importPos = bl.Pos()
			}
		}
		return true
	})
	if !r.Anchor(rule, importPos != token.NoPos, "emitMemcpy: ferret_memcpy import") {
		return
	}
	bad := ""
	walkWithStack(fn.Decl.Body, func(x ast.Node, stack []ast.Node) bool {
		ret, ok := x.(*ast.ReturnStmt)
		if !ok || len(ret.Results) != 2 || ret.Pos() > importPos {
			return true
		}
		if tv, ok := info.Types[ret.Results[1]]; !ok || !tv.IsNil() {
			return true // an error return
		}
		okGuard := false
		for _, a := range stack {
			ifs, isIf := a.(*ast.IfStmt)
			if !isIf {
				continue
			}
			all := true
			for _, d := range disjuncts(ifs.Cond) {
				if _, isEq := isBinOp(d, token.EQL); !isEq {
					all = false
				}
			}
			if all {
				okGuard = true
			}
		}
		if !okGuard {
			bad = c.pos(ret.Pos())
		}
		return true
	})
	r.Check(bad == "", rule, fn.Name(), "aggregate copies of every size go through the exact-size copy", c.pos(fn.Decl.Pos()),
		"a shortcut path (return at "+bad+") copies without the runtime memcpy for a range of sizes: a 3-, 5-, 6- or 7-byte element copied with one 4- or 8-byte store overwrites the bytes after it, which belong to the next element of a fixed array; the native back end copies the exact size")
}

func c04R8(c *Ctx, r *Report) {
	const rule = "C04.R8"
	r.Describe(rule, "qbe: an emitted `shl` whose amount is computed from a size (bits.TrailingZeros / bits.Len) sits under a condition that proves the size a power of two")
	n := 0
	for _, fn := range c.AllFns(pkgQBE) {
		info := fn.Info()
		walkWithStack(fn.Decl.Body, func(x ast.Node, stack []ast.Node) bool {
			bl, ok := x.(*ast.BasicLit)
			if !ok || bl.Kind != token.STRING {
				return true
			}
			v := constOf(info, bl)
			if v == nil || v.Kind() != constant.String || !strings.Contains(constant.StringVal(v), " shl ") {
				return true
			}
			// only shifts that stand for a multiplication: the function computes a shift amount with math/bits
			usesBits := false
			for _, cl := range callsIn(fn.Decl.Body, true) {
				if f := callee(info, cl); f != nil && f.Pkg() != nil && f.Pkg().Path() == "math/bits" {
					usesBits = true
				}
			}
			if !usesBits {
				return true
			}
			n++
			proven := false
			for _, a := range stack {
				ifs, isIf := a.(*ast.IfStmt)
				if !isIf {
					continue
				}
				cs := exprStr(ifs.Cond)
				if ifs.Init != nil {
					cs += ";" + exprStr0(ifs.Init)
				}
				if strings.Contains(cs, "OnesCount") || (strings.Contains(cs, "&") && strings.Contains(cs, "-1")) || strings.Contains(cs, "- 1") && strings.Contains(cs, "&") {
					proven = true
				}
			}
			r.Check(proven, rule, fn.Name(), "shift used as a multiplication only for a power-of-two size", c.pos(bl.Pos()),
				"an index is scaled with `shl` by the number of trailing zero bits of the element size without proving the size a power of two: a 12-byte element gets stride 4 and a 24-byte element stride 8, so a checked index selects the wrong bytes")
			return true
		})
	}
	r.Note("%s: %d strength-reduced scalings inspected", rule, n)
}

func c11R10(c *Ctx, r *Report) {
	const rule = "C11.R10"
	r.Describe(rule, "mir/gen widenNumericValue: every early `return val` is guarded by a condition that calls nothing but Equals, IsNumericTypeName, GetName and UnwrapType")
	fn := c.LookupFn(pkgMIRGen, "(*functionBuilder).widenNumericValue")
	cast := c.LookupFn(pkgMIRGen, "(*functionBuilder).castValue")
	if !r.Anchor(rule, fn != nil && cast != nil, "mir/gen widenNumericValue / castValue") {
		return
	}
	info := fn.Info()
	allowed := map[string]bool{"Equals": true, "IsNumericTypeName": true, "GetName": true, "UnwrapType": true}
	n := 0
	ast.Inspect(fn.Decl.Body, func(x ast.Node) bool {
		ifs, ok := x.(*ast.IfStmt)
		if !ok {
			return true
		}
		returnsUnchanged := false
		for _, st := range ifs.Body.List {
			if ret, ok := st.(*ast.ReturnStmt); ok && len(ret.Results) == 1 {
				if _, isCall := ast.Unparen(ret.Results[0]).(*ast.CallExpr); !isCall {
					returnsUnchanged = true
				}
			}
		}
		if !returnsUnchanged {
			return true
		}
		n++
		bad := ""
		for _, cl := range callsIn(ifs.Cond, false) {
			f := callee(info, cl)
			if f == nil || !allowed[f.Name()] {
				bad = exprStr(cl.Fun)
			}
		}
		r.Check(bad == "", rule, fn.Name(), "`"+exprStr(ifs.Cond)+"`: value returned unconverted only for equal / non-numeric types", c.pos(ifs.Pos()),
			"an implicit widening is skipped under "+bad+"(…): the value keeps its narrow type, and both back ends take the width of a store from the value's type — an i8 stored into an i32 field writes one byte and leaves the other three as they were")
		return true
	})
	r.Floor(rule, n, 2, "early returns of widenNumericValue")
	r.Check(nodeCallsDeep(info, fn.Decl.Body, cast.Obj), rule, fn.Name(), "differing numeric types reach castValue", c.pos(fn.Decl.Pos()), "widenNumericValue never converts")
}

// ---- batch 3 ------------------------------------------------------------------------------------------------

func init() {
	lateInits = append(lateInits, func() {
		props["C11"].Quick = append(props["C11"].Quick, c11R11)
		props["C08"].Quick = append(props["C08"].Quick, c08R6)
		props["C10"].Quick = append(props["C10"].Quick, c10R8)
		props["C12"].Quick = append(props["C12"].Quick, c12R7)
		props["C16"].Quick = append(props["C16"].Quick, c16R11)
		props["C17"].Quick = append(props["C17"].Quick, c17R13)
		props["C13"].Quick = append(props["C13"].Quick, c13R15)
		props["C11"].Explanation += " (R11) a for-loop variable gets its type from the range; if the parser can hand the type checker an annotated loop variable, the checker's branch for it compares the annotation with the element type."
		props["C08"].Explanation += " (R6) the type checker and MIR lowering agree on what an index type is: if checkIndexExpr looks through a reference, indexCheckType / checkedIndex do too (otherwise a &i64 index is checked as i32 after truncation)."
		props["C10"].Explanation += " (R8) a function that recognises a base prefix by looking at fixed positions of a literal's text also accounts for the sign the lexer attaches to the token."
		props["C12"].Explanation += " (R7) the struct whose fields foreignPrivateField inspects is obtained with types.UnwrapType (the whole alias chain), not from one level of NamedType.Underlying."
		props["C16"].Explanation += " (R11) a wide constant with a negative literal text is only built under a test that the type is signed (the unsigned wide parser rejects a sign and yields 0)."
		props["C17"].Explanation += " (R13) MIR lowering of `a[i] op= rhs` on a dynamic array holds no element address across the evaluation of rhs (rhs may append and move the storage)."
		props["C13"].Explanation += " (R15) the diagnostics emitter slices a source line only with bounds that were compared with its length: columns are not byte offsets (a tab counts four)."
	})
}

func c11R11(c *Ctx, r *Report) {
	const rule = "C11.R11"
	r.Describe(rule, "parser.parseForStmt builds its iterator DeclItems with Type: nil and does not call parseDeclItem — or the type checker's branch for an annotated iterator (item.Type != nil) calls a compatibility check")
	pf := c.LookupFn(pkgParserRel, "(*Parser).parseForStmt")
	pdi := c.LookupFn(pkgParserRel, "(*Parser).parseDeclItem")
	if !r.Anchor(rule, pf != nil, "parser.(*Parser).parseForStmt") {
		return
	}
	pinfo := pf.Info()
	canAnnotate := pdi != nil && nodeCallsDeep(pinfo, pf.Decl.Body, pdi.Obj)
	ast.Inspect(pf.Decl.Body, func(x ast.Node) bool {
		cl, ok := x.(*ast.CompositeLit)
		if !ok {
			return true
		}
		if nt := namedOf(pinfo.TypeOf(cl)); nt == nil || nt.Obj().Name() != "DeclItem" {
			return true
		}
		for _, e := range cl.Elts {
			if kv, ok := e.(*ast.KeyValueExpr); ok && exprStr(kv.Key) == "Type" {
				if tv, ok := pinfo.Types[kv.Value]; !ok || !tv.IsNil() {
					canAnnotate = true
				}
			}
		}
		return true
	})
	// the checker's branch
	checks := false
	found := false
	for _, fn := range c.AllFns(pkgTC) {
		info := fn.Info()
		isFor := false
		ast.Inspect(fn.Decl.Body, func(x ast.Node) bool {
			if bl, ok := x.(*ast.BasicLit); ok {
				if v := constOf(info, bl); v != nil && v.Kind() == constant.String && constant.StringVal(v) == "for loop iterator cannot have initializer" {
					isFor = true
				}
			}
			return true
		})
		if !isFor {
			continue
		}
		found = true
		ast.Inspect(fn.Decl.Body, func(x ast.Node) bool {
			ifs, ok := x.(*ast.IfStmt)
			if !ok {
				return true
			}
			b, isNeq := isBinOp(ifs.Cond, token.NEQ)
			if !isNeq || !strings.HasSuffix(exprStr(b.X), "item.Type") {
				return true
			}
			for _, cl := range callsIn(ifs.Body, false) {
				if f := callee(info, cl); f != nil && (f.Name() == "checkTypeCompatibility" || f.Name() == "checkTypeCompatibilityWithContext" || f.Name() == "checkAssignLike" || f.Name() == "isImplicitlyCompatible") {
					checks = true
				}
			}
			return true
		})
	}
	if !r.Anchor(rule, found, "typechecker: for-statement iterator check") {
		return
	}
	r.Check(!canAnnotate || checks, rule, pf.Name(), "an annotated loop variable is compared with the element type (or cannot be written)", c.pos(pf.Decl.Pos()),
		"the parser accepts `for x: i32 in xs` and the type checker takes the annotation as the variable's type without comparing it with the element type: every numeric pair is accepted and the element is converted silently (5000000000 from a []i64 becomes 705032704)")
}

func c08R6(c *Ctx, r *Report) {
	const rule = "C08.R6"
	r.Describe(rule, "typechecker.checkIndexExpr does not dereference the index type — or mir/gen.indexCheckType / checkedIndex dereference it as well")
	cie := c.LookupFn(pkgTC, "checkIndexExpr")
	ict := c.LookupFn(pkgMIRGen, "indexCheckType")
	ci := c.LookupFn(pkgMIRGen, "(*functionBuilder).checkedIndex")
	if !r.Anchor(rule, cie != nil, "typechecker.checkIndexExpr") {
		return
	}
	info := cie.Info()
	derefsIndex := false
	ast.Inspect(cie.Decl.Body, func(x ast.Node) bool {
		as, ok := x.(*ast.AssignStmt)
		if !ok || len(as.Lhs) != 1 || len(as.Rhs) != 1 || exprStr(as.Lhs[0]) != "indexType" {
			return true
		}
		for _, cl := range callsIn(as.Rhs[0], false) {
			if f := callee(info, cl); f != nil && strings.Contains(strings.ToLower(f.Name()), "deref") {
				derefsIndex = true
			}
		}
		return true
	})
	lowerDerefs := false
	for _, fn := range []*Fn{ict, ci} {
		if fn == nil {
			continue
		}
		for _, cl := range callsIn(fn.Decl.Body, false) {
			if f := callee(fn.Info(), cl); f != nil && strings.Contains(strings.ToLower(f.Name()), "deref") {
				lowerDerefs = true
			}
		}
		ast.Inspect(fn.Decl.Body, func(x ast.Node) bool {
			if ta, ok := x.(*ast.TypeAssertExpr); ok && ta.Type != nil && strings.HasSuffix(exprStr(ta.Type), "ReferenceType") {
				lowerDerefs = true
			}
			return true
		})
	}
	r.Check(!derefsIndex || lowerDerefs, rule, cie.Name(), "index types seen by the checker and by the lowering are the same", c.pos(cie.Decl.Pos()),
		"the type checker accepts an index of reference type (`a[i]` with i: &i64) by looking through the reference, but the lowering picks the comparison type from the undereferenced type: &i64 is not i64, so the index is truncated to i32 before the bounds check and a[4294967297] reads a[1]")
}

func c10R8(c *Ctx, r *Report) {
	const rule = "C10.R8"
	r.Describe(rule, "front end: a function that tests text[1] against a base-prefix letter (x, o, b) also mentions the sign character '-' (the lexer's NUMBER token includes a leading minus)")
	n := 0
	for _, rel := range []string{pkgParserRel, "internal/frontend/lexer", pkgTC, "internal/hir/gen", "internal/hir/consteval"} {
		for _, fn := range c.AllFns(rel) {
			info := fn.Info()
			prefixTest, sign := false, false
			var at token.Pos
			ast.Inspect(fn.Decl.Body, func(x ast.Node) bool {
				switch y := x.(type) {
				case *ast.IndexExpr:
					if v := constOf(info, y.Index); v != nil && v.Kind() == constant.Int && intVal(v) == 1 {
						if b, ok := info.TypeOf(y.X).Underlying().(*types.Basic); ok && b.Info()&types.IsString != 0 {
							prefixTest = true
							at = y.Pos()
						}
					}
				case *ast.BasicLit:
					if v := constOf(info, y); v != nil {
						if v.Kind() == constant.Int && y.Kind == token.CHAR && intVal(v) == '-' {
							sign = true
						}
						if v.Kind() == constant.String && strings.Contains(constant.StringVal(v), "-") {
							sign = true
						}
					}
				}
				return true
			})
			if !prefixTest {
				continue
			}
			// only functions that look for a base prefix: they compare with 'x' / 'X'
			hasX := false
			ast.Inspect(fn.Decl.Body, func(x ast.Node) bool {
				if bl, ok := x.(*ast.BasicLit); ok && bl.Kind == token.CHAR {
					if v := constOf(info, bl); v != nil && (intVal(v) == 'x' || intVal(v) == 'X') {
						hasX = true
					}
				}
				return true
			})
			if !hasX {
				continue
			}
			n++
			r.Check(sign, rule, fn.Name(), "base-prefix test accounts for a leading '-'", c.pos(at),
				"the prefix is looked for at text[0]/text[1], but the lexer emits `-0x7E` as one NUMBER token: the negative hex literal skips the prefix test and its digit E is taken for an exponent, so the in-range literal is classified as a float and rejected")
		}
	}
	r.Note("%s: %d fixed-position prefix tests inspected", rule, n)
}

func c12R7(c *Ctx, r *Report) {
	const rule = "C12.R7"
	r.Describe(rule, "typechecker: the function that reports a foreign struct's private field ranges over the Fields of a struct that comes from types.UnwrapType (in it or in its caller), not from NamedType.Underlying")
	// the helper: calls IsExported, ranges over .Fields, takes a *types.StructType or derives one
	var helper *Fn
	for _, fn := range c.AllFns(pkgTC) {
		if fn.Obj.Name() == "foreignPrivateField" {
			helper = fn
		}
	}
	if !r.Anchor(rule, helper != nil, "typechecker.foreignPrivateField") {
		return
	}
	info := helper.Info()
	defs := localDefs(helper)
	ok := true
	why := ""
	ast.Inspect(helper.Decl.Body, func(x ast.Node) bool {
		rs, isRange := x.(*ast.RangeStmt)
		if !isRange || !strings.HasSuffix(exprStr(rs.X), ".Fields") {
			return true
		}
		sel := ast.Unparen(rs.X).(*ast.SelectorExpr)
		o := objOf(info, sel.X)
		if o == nil {
			return true
		}
		if isParamOf(helper, o) {
			return true // the caller hands the struct in; checked below
		}
		cands := append([]ast.Expr{}, defs[o]...)
		// comma-ok definitions: structType, ok := X.(*types.StructType)
		ast.Inspect(helper.Decl.Body, func(y ast.Node) bool {
			if as, isAs := y.(*ast.AssignStmt); isAs && len(as.Lhs) == 2 && len(as.Rhs) == 1 && objOf(info, as.Lhs[0]) == o {
				cands = append(cands, as.Rhs[0])
			}
			return true
		})
		for _, d := range cands {
			s := exprStr(d)
			if strings.Contains(s, ".Underlying") && !strings.Contains(s, "UnwrapType") {
				ok = false
				why = s
			}
		}
		return true
	})
	// callers that pass a struct: the argument must come from UnwrapType
	for _, fn := range c.AllFns(pkgTC) {
		finfo := fn.Info()
		fdefs := localDefs(fn)
		for _, cl := range callsIn(fn.Decl.Body, true) {
			if !isCallTo(finfo, cl, helper.Obj) {
				continue
			}
			for _, a := range cl.Args {
				if _, isPtr := finfo.TypeOf(a).(*types.Pointer); !isPtr {
					continue
				}
				if nt := namedOf(finfo.TypeOf(a)); nt == nil || nt.Obj().Name() != "StructType" {
					continue
				}
				o := objOf(finfo, a)
				if o == nil {
					continue
				}
				for _, d := range fdefs[o] {
					// srcStruct, ok := srcUnwrapped.(*types.StructType) where srcUnwrapped := types.UnwrapType(..)
					if ta, isTA := ast.Unparen(d).(*ast.TypeAssertExpr); isTA {
						if o2 := objOf(finfo, ta.X); o2 != nil {
							for _, d2 := range fdefs[o2] {
								if !strings.Contains(exprStr(d2), "UnwrapType") {
									ok = false
									why = exprStr(d2)
								}
							}
						} else if !strings.Contains(exprStr(ta.X), "UnwrapType") {
							ok = false
							why = exprStr(ta.X)
						}
					}
				}
			}
		}
	}
	r.Check(ok, rule, helper.Name(), "the inspected struct is the fully unwrapped type", c.pos(helper.Decl.Pos()),
		"the struct is taken from `"+why+"`, one level below the type name: for `type Account Record;` over `type Record struct { …, .balance }` that level is another named type, the private-field guard sees no struct and `acct::Account as Mirror` is accepted")
}

func c16R11(c *Ctx, r *Report) {
	const rule = "C16.R11"
	r.Describe(rule, "mir/gen: a call of emitLargeConst whose literal can be a negative text (a constant starting with '-', or a variable assigned one) lies under a condition that tests the type's signedness")
	elc := c.LookupFn(pkgMIRGen, "(*functionBuilder).emitLargeConst")
	if !r.Anchor(rule, elc != nil, "mir/gen emitLargeConst") {
		return
	}
	n := 0
	for _, fn := range c.AllFns(pkgMIRGen) {
		info := fn.Info()
		defs := localDefs(fn)
		negative := func(e ast.Expr) bool {
			if v := constOf(info, e); v != nil && v.Kind() == constant.String {
				return strings.HasPrefix(constant.StringVal(v), "-")
			}
			if o := objOf(info, e); o != nil {
				for _, d := range defs[o] {
					if v := constOf(info, d); v != nil && v.Kind() == constant.String && strings.HasPrefix(constant.StringVal(v), "-") {
						return true
					}
				}
				// a parameter: look at the callers' arguments
				if isParamOf(fn, o) {
					sig := fn.Obj.Type().(*types.Signature)
					pi := -1
					for i := 0; i < sig.Params().Len(); i++ {
						if sig.Params().At(i) == o {
							pi = i
						}
					}
					for _, caller := range c.AllFns(pkgMIRGen) {
						cinfo := caller.Info()
						cdefs := localDefs(caller)
						for _, cc := range callsIn(caller.Decl.Body, true) {
							if !isCallTo(cinfo, cc, fn.Obj) || pi >= len(cc.Args) {
								continue
							}
							a := cc.Args[pi]
							if v := constOf(cinfo, a); v != nil && v.Kind() == constant.String && strings.HasPrefix(constant.StringVal(v), "-") {
								return true
							}
							if ao := objOf(cinfo, a); ao != nil {
								for _, d := range cdefs[ao] {
									if v := constOf(cinfo, d); v != nil && v.Kind() == constant.String && strings.HasPrefix(constant.StringVal(v), "-") {
										return true
									}
								}
							}
						}
					}
				}
			}
			return false
		}
		walkWithStack(fn.Decl.Body, func(x ast.Node, stack []ast.Node) bool {
			cl, ok := x.(*ast.CallExpr)
			if !ok || !isCallTo(info, cl, elc.Obj) || len(cl.Args) < 2 || !negative(cl.Args[1]) {
				return true
			}
			n++
			guarded := false
			for _, a := range stack {
				if ifs, ok := a.(*ast.IfStmt); ok {
					cs := exprStr(ifs.Cond)
					if strings.Contains(cs, "HasPrefix") || strings.Contains(strings.ToLower(cs), "signed") {
						guarded = true
					}
				}
			}
			r.Check(guarded, rule, fn.Name(), "negative wide constant "+exprStr(cl.Args[1])+" only for signed types", c.pos(cl.Pos()),
				"a wide constant is materialised from decimal text at run time and the unsigned parser (u128/u256) rejects a leading '-' and yields 0: `x--` lowered as x + (-1) becomes x + 0 for the unsigned wide types")
			return true
		})
	}
	r.Floor(rule, n, 1, "negative wide constants")
}

func c17R13(c *Ctx, r *Report) {
	const rule = "C17.R13"
	r.Describe(rule, "mir/gen lowerIndexAssign: no value produced before lowerExpr(rhs) by a helper that emits ferret_array_get without loading (an element address) is used after it")
	fn := c.LookupFn(pkgMIRGen, "(*functionBuilder).lowerIndexAssign")
	le := c.LookupFn(pkgMIRGen, "(*functionBuilder).lowerExpr")
	if !r.Anchor(rule, fn != nil && le != nil, "mir/gen lowerIndexAssign / lowerExpr") {
		return
	}
	info := fn.Info()
	// position of the lowering of the right-hand side: lowerExpr(rhs) where rhs is the function's parameter
	var rhsPos token.Pos
	for _, cl := range callsIn(fn.Decl.Body, false) {
		if isCallTo(info, cl, le.Obj) && len(cl.Args) == 1 {
			if o := objOf(info, cl.Args[0]); o != nil && isParamOf(fn, o) {
				if rhsPos == token.NoPos || cl.Pos() < rhsPos {
					rhsPos = cl.Pos()
				}
			}
		}
	}
	if !r.Anchor(rule, rhsPos != token.NoPos, "lowerIndexAssign: lowerExpr(rhs)") {
		return
	}
	// helpers that return an element address: emit a Call to ferret_array_get and return its Result without emitLoad
	isAddrHelper := func(f *types.Func) bool {
		hf := c.FnOf(f)
		if hf == nil || hf.Decl == nil || hf.Decl.Body == nil {
			return false
		}
		hinfo := hf.Info()
		getsElem, loads := false, false
		ast.Inspect(hf.Decl.Body, func(y ast.Node) bool {
			if bl, ok := y.(*ast.BasicLit); ok {
				if v := constOf(hinfo, bl); v != nil && v.Kind() == constant.String && constant.StringVal(v) == "ferret_array_get" {
					getsElem = true
				}
			}
			if cl, ok := y.(*ast.CallExpr); ok {
				if g := callee(hinfo, cl); g != nil && g.Name() == "emitLoad" {
					loads = true
				}
			}
			return true
		})
		return getsElem && !loads
	}
	bad := ""
	defs := localDefs(fn)
	for o, ds := range defs {
		isAddr := false
		var defPos token.Pos
		for _, d := range ds {
			if cl, ok := ast.Unparen(d).(*ast.CallExpr); ok && d.Pos() < rhsPos {
				if f := callee(info, cl); f != nil && isAddrHelper(f) {
					isAddr = true
					defPos = d.Pos()
				}
			}
		}
		if !isAddr {
			continue
		}
		ast.Inspect(fn.Decl.Body, func(y ast.Node) bool {
			if id, ok := y.(*ast.Ident); ok && info.Uses[id] == o && id.Pos() > rhsPos {
				bad = id.Name + " (defined at " + c.pos(defPos) + ", used at " + c.pos(id.Pos()) + ")"
			}
			return true
		})
	}
	r.Check(bad == "", rule, fn.Name(), "no element address is kept across the evaluation of the right-hand side", c.pos(fn.Decl.Pos()),
		"the address of the element "+bad+" is computed before the right-hand side is evaluated and stored through afterwards: when the right-hand side appends to the same array and the storage moves, the store goes into freed memory and the update is lost")
}

func c13R15(c *Ctx, r *Report) {
	const rule = "C13.R15"
	r.Describe(rule, "diagnostics emitter: every slice expression on a string whose bound is derived from a column (…Column, col) is dominated by a comparison of that bound with len of the string")
	n := 0
	for _, fn := range c.AllFns("internal/diagnostics") {
		info := fn.Info()
		walkWithStack(fn.Decl.Body, func(x ast.Node, stack []ast.Node) bool {
			se, ok := x.(*ast.SliceExpr)
			if !ok {
				return true
			}
			if b, ok := info.TypeOf(se.X).Underlying().(*types.Basic); !ok || b.Info()&types.IsString == 0 {
				return true
			}
			colBound := false
			for _, bnd := range []ast.Expr{se.Low, se.High} {
				if bnd == nil {
					continue
				}
				s := strings.ToLower(exprStr(bnd))
				if strings.Contains(s, "col") {
					colBound = true
				}
			}
			if !colBound {
				return true
			}
			n++
			guarded := false
			subj := exprStr(se.X)
			for _, a := range stack {
				if ifs, ok := a.(*ast.IfStmt); ok {
					cs := exprStr(ifs.Cond)
					if strings.Contains(cs, "len("+subj+")") {
						guarded = true
					}
				}
			}
			// or an earlier clamp: `if col > len(line) { col = len(line) }`
			ast.Inspect(fn.Decl.Body, func(y ast.Node) bool {
				if ifs, ok := y.(*ast.IfStmt); ok && ifs.Pos() < se.Pos() && strings.Contains(exprStr(ifs.Cond), "len("+subj+")") {
					guarded = true
				}
				return true
			})
			r.Check(guarded, rule, fn.Name(), "slice "+exprStr(se)+" is bounded by the line's length", c.pos(se.Pos()),
				"a source line is sliced at a column: a tab advances the column by four but the byte offset by one, so on a tab-indented line the column exceeds the length, the slice panics and the compiler dies while printing a diagnostic (exit status 2, goroutine dump instead of the error)")
			return true
		})
	}
	r.Note("%s: %d column-bounded slices inspected", rule, n)
}

func init() {
	lateInits = append(lateInits, func() {
		// the layout of results decides what a native program observes when it catches an error (C01)
		props["C01"].Quick = append(props["C01"].Quick, c18R3)
		// sibling agreement of the 128/256-bit runtime functions and the sign of the remainder: what a rewrite
		// from a folded literal to a run-time operand observes (C09)
		props["C09"].Quick = append(props["C09"].Quick, c16R2, c16R4)
	})
}

func init() {
	lateInits = append(lateInits, func() {
		// an intrinsic the type checker does not know is an unchecked call (C03)
		props["C03"].Quick = append(props["C03"].Quick, c01R14)
	})
}

// ---- C03.R13: map literals are always checked ---------------------------------------------------------------

func init() {
	lateInits = append(lateInits, func() {
		props["C03"].Quick = append(props["C03"].Quick, c03R13)
		props["C11"].Quick = append(props["C11"].Quick, c03R13)
		props["C03"].Explanation += " (R13) checkCompositeLit hands every key/value literal whose expected type is a map to checkMapLiteral; the call does not depend on the syntactic form of the keys."
	})
}

func c03R13(c *Ctx, r *Report) {
	const rule = "C03.R13"
	r.Describe(rule, "typechecker.checkCompositeLit: inside the MapType branch the call of checkMapLiteral is not guarded by a condition derived from a type assertion on the keys (IdentifierExpr)")
	fn := c.LookupFn(pkgTC, "checkCompositeLit")
	cml := c.LookupFn(pkgTC, "checkMapLiteral")
	if !r.Anchor(rule, fn != nil && cml != nil, "typechecker.checkCompositeLit / checkMapLiteral") {
		return
	}
	info := fn.Info()
	n := 0
	walkWithStack(fn.Decl.Body, func(x ast.Node, stack []ast.Node) bool {
		cl, ok := x.(*ast.CallExpr)
		if !ok || !isCallTo(info, cl, cml.Obj) {
			return true
		}
		n++
		// the innermost enclosing branch that belongs to the map case
		var mapBranch *ast.IfStmt
		for _, a := range stack {
			if ifs, ok := a.(*ast.IfStmt); ok && ifs.Init != nil && strings.Contains(exprStr0(ifs.Init)+nodeText(ifs.Init), "MapType") {
				mapBranch = ifs
			}
		}
		bad := ""
		if mapBranch != nil {
			ast.Inspect(mapBranch.Body, func(y ast.Node) bool {
				if ta, ok := y.(*ast.TypeAssertExpr); ok && ta.Type != nil && strings.HasSuffix(exprStr(ta.Type), "IdentifierExpr") && ta.Pos() < cl.Pos() {
					bad = exprStr(ta)
				}
				return true
			})
		}
		r.Check(bad == "", rule, fn.Name(), "map literals are checked whatever their keys look like", c.pos(cl.Pos()),
			"whether a map literal is checked depends on the syntactic form of its keys ("+bad+"): `{ k => v }` with identifier keys is skipped, so a value of a wider type is stored without a cast (i64 5000000000 into map[str]i32 gives 705032704) and a private field may be read in the value position")
		return true
	})
	r.Floor(rule, n, 1, "checkMapLiteral call sites in checkCompositeLit")
}

func nodeText(n ast.Node) string {
	if as, ok := n.(*ast.AssignStmt); ok && len(as.Rhs) == 1 {
		return exprStr(as.Rhs[0])
	}
	return ""
}

// ---- C13.R16: the collector reaches every nested expression ---------------------------------------------------

func init() {
	lateInits = append(lateInits, func() {
		props["C13"].Quick = append(props["C13"].Quick, c13R16)
		props["C13"].Explanation += " (R16) the symbol collector's expression walk has a case for every ast expression type that contains expressions, and the collectors of if, while and for walk the condition / range: a function literal or catch handler anywhere in an expression gets its scope (a missing scope is a nil interface conversion in the resolver)."
	})
}

var c13R16Reviewed = map[string]string{
	"KeyValueExpr": "never reached as an expression of its own: the CompositeLit case walks the key and the value of each element",
	"ForkExpr":     "no parser production builds a ForkExpr",
}

func c13R16(c *Ctx, r *Report) {
	const rule = "C13.R16"
	r.Describe(rule, "collector.collectExpr: type switch cases ⊇ the ast.Expression implementers that have a field of type Expression / []Expression (Ident-like leaves and type nodes excepted); collectIfStmt, collectWhileStmt and collectForStmt call collectExpr")
	const pkgColl = "internal/semantics/collector"
	ce := c.LookupFn(pkgColl, "collectExpr")
	exprT := c.lookupType("internal/frontend/ast", "Expression")
	if !r.Anchor(rule, ce != nil && exprT != nil, "collector.collectExpr / ast.Expression") {
		return
	}
	iface, _ := exprT.Type().Underlying().(*types.Interface)
	if !r.Anchor(rule, iface != nil, "ast.Expression is an interface") {
		return
	}
	covered := map[string]bool{}
	info := ce.Info()
	for _, ts := range typeSwitchesOn(info, ce.Decl.Body, ce.Param(2)) {
		for _, cc := range caseClauses(ts.Body) {
			for _, t := range caseTypes(info, cc) {
				if nt := namedOf(t); nt != nil {
					covered[nt.Obj().Name()] = true
				}
			}
		}
	}
	hasExprChild := func(nt *types.Named) bool {
		st, ok := nt.Underlying().(*types.Struct)
		if !ok {
			return false
		}
		for i := 0; i < st.NumFields(); i++ {
			ft := st.Field(i).Type()
			if sl, ok := ft.(*types.Slice); ok {
				ft = sl.Elem()
			}
			if types.Identical(ft, exprT.Type()) {
				return true
			}
		}
		return false
	}
	n := 0
	for _, nt := range implementers(exprT.Pkg(), iface) {
		// type nodes (ArrayType, MapType, …) implement TypeNode; they hold no value expressions that need scopes
		if strings.HasSuffix(nt.Obj().Name(), "Type") {
			continue
		}
		if !hasExprChild(nt) {
			continue
		}
		n++
		if reason, ok := c13R16Reviewed[nt.Obj().Name()]; ok && !covered[nt.Obj().Name()] {
			r.OK(rule, ce.Name(), "case *ast."+nt.Obj().Name()+" (reviewed: "+reason+")", c.pos(ce.Decl.Pos()), "reviewed exception")
			continue
		}
		r.Check(covered[nt.Obj().Name()], rule, ce.Name(), "case *ast."+nt.Obj().Name(), c.pos(ce.Decl.Pos()),
			"collectExpr does not descend into *ast."+nt.Obj().Name()+": a function literal or a catch handler inside such an expression is never given a scope, and the resolver dies with `interface conversion: ast.SymbolTable is nil` instead of compiling the program")
	}
	r.Floor(rule, n, 8, "ast expression types with expression children")
	for _, name := range []string{"collectIfStmt", "collectWhileStmt", "collectForStmt"} {
		fn := c.LookupFn(pkgColl, name)
		if !r.Anchor(rule, fn != nil, "collector."+name) {
			continue
		}
		r.Check(nodeCallsDeep(fn.Info(), fn.Decl.Body, ce.Obj), rule, fn.Name(), "walks its condition / range expression", c.pos(fn.Decl.Pos()),
			"the condition (or range) of the statement is never visited by the collector: `if (get() catch e { … } 0) > 1 { }` crashes the compiler")
	}
}

// ---- C13.R17: constant powers are bounded ----------------------------------------------------------------------

func init() {
	lateInits = append(lateInits, func() {
		props["C13"].Quick = append(props["C13"].Quick, c13R17)
		props["C13"].Explanation += " (R17) every exact big.Int.Exp of the compiler (no modulus) is preceded, in its case clause or function, by a test of the exponent's size that leaves before the call."
	})
}

func c13R17(c *Ctx, r *Report) {
	const rule = "C13.R17"
	r.Describe(rule, "compiler packages: a call x.Exp(base, exp, nil) on *big.Int is preceded in the same clause by an if whose condition inspects exp (IsInt64 / Int64 / BitLen / Cmp) and whose body returns")
	n := 0
	for _, p := range c.Pkgs {
		rel := relOf(p.PkgPath)
		if rel == "tools" || rel == "toml" {
			continue
		}
		for _, fn := range c.AllFns(rel) {
			info := fn.Info()
			walkWithStack(fn.Decl.Body, func(x ast.Node, stack []ast.Node) bool {
				cl, ok := x.(*ast.CallExpr)
				if !ok || len(cl.Args) != 3 {
					return true
				}
				f := callee(info, cl)
				if f == nil || f.Name() != "Exp" || f.Pkg() == nil || f.Pkg().Path() != "math/big" {
					return true
				}
				if tv, ok := info.Types[cl.Args[2]]; !ok || !tv.IsNil() {
					return true // modular exponentiation is bounded by the modulus
				}
				n++
				expObj := objOf(info, cl.Args[1])
				// the statements of the innermost enclosing statement list that precede the call
				guarded := false
				for i := len(stack) - 1; i >= 0 && !guarded; i-- {
					var list []ast.Stmt
					switch b := stack[i].(type) {
					case *ast.BlockStmt:
						list = b.List
					case *ast.CaseClause:
						list = b.Body
					}
					for _, st := range list {
						if st.Pos() >= cl.Pos() {
							break
						}
						ifs, isIf := st.(*ast.IfStmt)
						if !isIf {
							continue
						}
						inspects := false
						ast.Inspect(ifs.Cond, func(y ast.Node) bool {
							if c2, ok := y.(*ast.CallExpr); ok {
								if sel, ok := ast.Unparen(c2.Fun).(*ast.SelectorExpr); ok && expObj != nil && objOf(info, sel.X) == expObj {
									switch sel.Sel.Name {
									case "IsInt64", "Int64", "BitLen", "Cmp", "IsUint64", "Uint64":
										inspects = true
									}
								}
							}
							return true
						})
						leaves := false
						ast.Inspect(ifs.Body, func(y ast.Node) bool {
							if _, ok := y.(*ast.ReturnStmt); ok {
								leaves = true
							}
							return true
						})
						if inspects && leaves {
							guarded = true
						}
					}
				}
				r.Check(guarded, rule, fn.Name(), "exact power "+exprStr(cl)+" has a bounded exponent", c.pos(cl.Pos()),
					"the exponent of a constant power is not bounded before big.Int.Exp computes the exact result: `let a: i64 = 2 ** 4000000000;` keeps the compiler busy for minutes (no diagnostic, gigabytes of memory)")
				return true
			})
		}
	}
	r.Floor(rule, n, 1, "exact big.Int.Exp calls")
}

// ---- C02.R4b: constant opcodes outside the append-append idiom ----------------------------------------------

func init() {
	lateInits = append(lateInits, func() {
		props["C02"].Quick = append(props["C02"].Quick, c02R4b)
		props["C02"].Explanation += " (R4b) wherever an i32.const / i64.const opcode (named or as the raw byte 0x41 / 0x42) is written outside the `append(out, opcode); append(out, enc…)` idiom the immediate that follows in the same or the next statement is encodeS32 / encodeS64."
	})
}

func c02R4b(c *Ctx, r *Report) {
	const rule = "C02.R4b"
	r.Describe(rule, "wasm: an occurrence of opcodeI32Const/opcodeI64Const (or of the raw byte 0x41/0x42) in a []byte literal or WriteByte call is followed (same statement, or the next one) by encodeS32/encodeS64, or by the literal immediate 0x00")
	s32 := c.LookupFn(pkgWasm, "encodeS32")
	s64 := c.LookupFn(pkgWasm, "encodeS64")
	u32 := c.LookupFn(pkgWasm, "encodeU32")
	c32 := c.lookupObj(pkgWasm, "opcodeI32Const")
	c64 := c.lookupObj(pkgWasm, "opcodeI64Const")
	if !r.Anchor(rule, s32 != nil && s64 != nil && u32 != nil && c32 != nil && c64 != nil, "wasm encodeS32/S64/U32, opcodeI32Const/I64Const") {
		return
	}
	n := 0
	for _, fn := range c.AllFns(pkgWasm) {
		info := fn.Info()
		ast.Inspect(fn.Decl.Body, func(x ast.Node) bool {
			var list []ast.Stmt
			switch b := x.(type) {
			case *ast.BlockStmt:
				list = b.List
			case *ast.CaseClause:
				list = b.Body
			default:
				return true
			}
			for i, st := range list {
				// (1) raw opcode bytes, (2) named opcode in a []byte literal / WriteByte
				var opcodeUse ast.Node
				rawByte := ""
				ast.Inspect(st, func(y ast.Node) bool {
					switch z := y.(type) {
					case *ast.BlockStmt, *ast.FuncLit:
						if y != ast.Node(st) {
							return false
						}
					case *ast.CompositeLit:
						if sl, ok := info.TypeOf(z).Underlying().(*types.Slice); ok {
							if b, ok := sl.Elem().Underlying().(*types.Basic); ok && b.Kind() == types.Uint8 {
								for _, e := range z.Elts {
									if bl, ok := e.(*ast.BasicLit); ok {
										if v := constOf(info, bl); v != nil && (intVal(v) == 0x41 || intVal(v) == 0x42) && len(z.Elts) <= 2 {
											rawByte = bl.Value
										}
									}
									if o := objOf(info, e); o == c32 || o == c64 {
										opcodeUse = e
									}
								}
							}
						}
					case *ast.CallExpr:
						if sel, ok := ast.Unparen(z.Fun).(*ast.SelectorExpr); ok && sel.Sel.Name == "WriteByte" && len(z.Args) == 1 {
							if bl, ok := z.Args[0].(*ast.BasicLit); ok {
								if v := constOf(info, bl); v != nil && (intVal(v) == 0x41 || intVal(v) == 0x42) {
									rawByte = bl.Value
								}
							}
							if o := objOf(info, z.Args[0]); o == c32 || o == c64 {
								opcodeUse = z.Args[0]
							}
						}
					}
					return true
				})
				if opcodeUse == nil && rawByte == "" {
					continue
				}
				n++
				want := s32.Obj
				label := "raw byte " + rawByte
				if opcodeUse != nil {
					label = exprStr(opcodeUse.(ast.Expr))
					if objOf(info, opcodeUse.(ast.Expr)) == c64 {
						want = s64.Obj
					}
				} else if rawByte == "0x42" || rawByte == "66" {
					want = s64.Obj
				}
				okEnc := false
				// literal zero immediate in the same literal: []byte{opcodeI32Const, 0x00}
				ast.Inspect(st, func(y ast.Node) bool {
					if cl, ok := y.(*ast.CompositeLit); ok && len(cl.Elts) == 2 {
						if v := constOf(info, cl.Elts[1]); v != nil && intVal(v) == 0 {
							okEnc = true
						}
					}
					return true
				})
				for _, cand := range []ast.Stmt{st, nextStmt(list, i)} {
					if cand == nil {
						continue
					}
					for _, cl := range callsIn(cand, false) {
						if isCallTo(info, cl, want) {
							okEnc = true
						}
					}
				}
				r.Check(okEnc, rule, fn.Name(), "immediate of "+label+" is a signed LEB128", c.pos(st.Pos()),
					"the immediate written after the constant opcode is not encodeS32/encodeS64: an unsigned LEB128 whose last byte has bit 6 set is decoded as a negative number")
			}
			return true
		})
	}
	r.Floor(rule, n, 3, "constant opcodes outside the append idiom")
}

func nextStmt(list []ast.Stmt, i int) ast.Stmt {
	if i+1 < len(list) {
		return list[i+1]
	}
	return nil
}

// ---- C02.R9 / C01.R16: values that live in memory; `+=` on strings -----------------------------------------

func init() {
	lateInits = append(lateInits, func() {
		props["C02"].Quick = append(props["C02"].Quick, c02R9)
		props["C18"].Quick = append(props["C18"].Quick, c02R9)
		props["C02"].Explanation += " (R9) in the QBE emitter every scalar load of an instruction's value type (loadOp(T) outside emitLoad) lies on the false edge of a needsByRefType(T) test, as the wasm emitter's loadOpcode calls lie behind isAddressValueType: a value that lives in memory is denoted by its address in both back ends."
		props["C01"].Quick = append(props["C01"].Quick, c01R16)
		props["C09"].Quick = append(props["C09"].Quick, c01R16)
		props["C01"].Explanation += " (R16) the operator of a compound assignment (assignTokenToBinary) reaches emitBinary only in a function that first dispatches `+` on a string to emitStringConcat, as the BinaryExpr case of lowerExpr does."
	})
}

func c02R9(c *Ctx, r *Report) {
	const rule = "C02.R9"
	r.Describe(rule, "QBE: every call loadOp(T) outside emitLoad/loadOp is reachable only across the false edge of `needsByRefType(T)` (directly or through a variable initialised from it); wasm: every loadOpcode(T) outside emitLoad likewise behind isAddressValueType(T)")
	type side struct {
		pkg, load, test, exempt string
	}
	n := 0
	for _, sd := range []side{{pkgQBE, "(*Generator).loadOp", "(*Generator).needsByRefType", "emitLoad"}, {pkgWasm, "loadOpcode", "(*Generator).isAddressValueType", "emitLoad"}} {
		load := c.LookupFn(sd.pkg, sd.load)
		test := c.LookupFn(sd.pkg, sd.test)
		if !r.Anchor(rule, load != nil && test != nil, sd.pkg+" "+sd.load+" / "+sd.test) {
			continue
		}
		for _, fn := range c.AllFns(sd.pkg) {
			if fn.Obj == load.Obj || fn.Obj.Name() == sd.exempt {
				continue
			}
			info := fn.Info()
			for _, call := range callsIn(fn.Decl.Body, false) {
				if !isCallTo(info, call, load.Obj) || len(call.Args) != 1 {
					continue
				}
				n++
				arg := exprStr(call.Args[0])
				// variables initialised from test(arg)
				flag := map[types.Object]bool{}
				ast.Inspect(fn.Decl.Body, func(x ast.Node) bool {
					if as, ok := x.(*ast.AssignStmt); ok && as.Tok == token.DEFINE && len(as.Lhs) == 1 && len(as.Rhs) == 1 {
						if cl, ok := as.Rhs[0].(*ast.CallExpr); ok && isCallTo(info, cl, test.Obj) && len(cl.Args) == 1 && exprStr(cl.Args[0]) == arg {
							flag[info.Defs[as.Lhs[0].(*ast.Ident)]] = true
						}
					}
					return true
				})
				isTest := func(e ast.Expr) bool {
					e = ast.Unparen(e)
					if cl, ok := e.(*ast.CallExpr); ok && isCallTo(info, cl, test.Obj) && len(cl.Args) == 1 && exprStr(cl.Args[0]) == arg {
						return true
					}
					if id, ok := e.(*ast.Ident); ok && flag[info.Uses[id]] {
						return true
					}
					return false
				}
				hits := mustFlow(c.CFG(fn), FlowSpec{
					Gate: func(ast.Node) bool { return false },
					EdgeGate: func(b *cfg.Block, succ int) bool {
						cond := condOf(b)
						return cond != nil && succ == 1 && isTest(cond)
					},
					Target: func(nd ast.Node) bool {
						found := false
						inspectShallow(nd, func(x ast.Node) bool {
							if x == ast.Node(call) {
								found = true
							}
							return !found
						})
						return found
					},
				})
				r.Check(len(hits) == 0, rule, fn.Name(), "scalar load of "+arg+" only when it is not a by-reference type", c.pos(call.Pos()),
					"a value whose type lives in memory (struct, fixed array, 128/256-bit number) reaches a scalar load: the native compiler stops with `unsupported load type` (or loads 8 bytes of it) where the other back end hands on the address — `a[0] += 9` on a []i128 built for wasm but not natively")
			}
		}
	}
	r.Floor(rule, n, 8, "scalar loads of an instruction's value type")
}

func c01R16(c *Ctx, r *Report) {
	const rule = "C01.R16"
	r.Describe(rule, "mir/gen: a function that turns a compound-assignment token into a binary operator (assignTokenToBinary) and emits it (emitBinary) has, on every path to that emitBinary, crossed the false edge of a test `op == PLUS && <type is string>` whose true branch returns emitStringConcat")
	a2b := c.LookupFn(pkgMIRGen, "assignTokenToBinary")
	emitBin := c.LookupFn(pkgMIRGen, "(*functionBuilder).emitBinary")
	concat := c.LookupFn(pkgMIRGen, "(*functionBuilder).emitStringConcat")
	if !r.Anchor(rule, a2b != nil && emitBin != nil && concat != nil, "mir/gen assignTokenToBinary / emitBinary / emitStringConcat") {
		return
	}
	n := 0
	for _, fn := range c.AllFns(pkgMIRGen) {
		info := fn.Info()
		if fn.Obj == a2b.Obj {
			continue
		}
		// operator variables defined from assignTokenToBinary
		ops := map[types.Object]bool{}
		ast.Inspect(fn.Decl.Body, func(x ast.Node) bool {
			if as, ok := x.(*ast.AssignStmt); ok && len(as.Lhs) == 1 && len(as.Rhs) == 1 {
				if cl, ok := as.Rhs[0].(*ast.CallExpr); ok && isCallTo(info, cl, a2b.Obj) {
					if o := objOf(info, as.Lhs[0]); o != nil {
						ops[o] = true
					}
				}
			}
			return true
		})
		if len(ops) == 0 {
			continue
		}
		for _, call := range callsIn(fn.Decl.Body, false) {
			if !isCallTo(info, call, emitBin.Obj) || len(call.Args) < 1 || !ops[objOf(info, call.Args[0])] {
				continue
			}
			n++
			opObj := objOf(info, call.Args[0])
			// the dispatching condition: a conjunction with `op == tokens.PLUS_TOKEN` whose if-body returns emitStringConcat(...)
			disp := map[ast.Expr]bool{}
			ast.Inspect(fn.Decl.Body, func(x ast.Node) bool {
				ifs, ok := x.(*ast.IfStmt)
				if !ok {
					return true
				}
				plus := false
				for _, cj := range conjuncts(ifs.Cond) {
					if be, ok := isBinOp(cj, token.EQL); ok && objOf(info, be.X) == opObj && strings.HasSuffix(exprStr(be.Y), "PLUS_TOKEN") {
						plus = true
					}
				}
				if !plus || len(conjuncts(ifs.Cond)) < 2 || len(ifs.Body.List) == 0 {
					return true
				}
				if ret, ok := ifs.Body.List[len(ifs.Body.List)-1].(*ast.ReturnStmt); ok && len(ret.Results) == 1 {
					if cl, ok := ret.Results[0].(*ast.CallExpr); ok && isCallTo(info, cl, concat.Obj) {
						disp[ifs.Cond] = true
					}
				}
				return true
			})
			hits := mustFlow(c.CFG(fn), FlowSpec{
				Gate: func(ast.Node) bool { return false },
				EdgeGate: func(b *cfg.Block, succ int) bool {
					// short-circuit conditions are split over blocks: any false edge out of a block whose
					// condition belongs to a dispatching `if`
					cond := condOf(b)
					if cond == nil || succ != 1 {
						return false
					}
					for d := range disp {
						if d == cond {
							return true
						}
						for _, cj := range conjuncts(d) {
							if cj == cond {
								return true
							}
						}
					}
					return false
				},
				Target: func(nd ast.Node) bool {
					found := false
					inspectShallow(nd, func(x ast.Node) bool {
						if x == ast.Node(call) {
							found = true
						}
						return !found
					})
					return found
				},
			})
			r.Check(len(hits) == 0, rule, fn.Name(), "`+=` on a string is a concatenation", c.pos(call.Pos()),
				"the operator of a compound assignment is emitted as a machine operation without asking whether the target is a string: `s += \"cd\"` adds two pointers (QBE rejects the program, or the element store writes a wild pointer and the program crashes) where `s = s + \"cd\"` concatenates")
		}
	}
	r.Floor(rule, n, 1, "compound-assignment operators emitted")
}

// ---- C17.R14: storing to a present key does not move the entries --------------------------------------------

func init() {
	lateInits = append(lateInits, func() {
		props["C17"].Quick = append(props["C17"].Quick, c17R14)
		props["C17"].Explanation += " (R14) in map.c a function that has an update path (a loop that finds the key with equals_fn and returns) calls the rehashing ferret_map_resize only after that loop: storing to a present key leaves every entry in its bucket, so an iteration in progress still visits each key once."
	})
}

func c17R14(c *Ctx, r *Report) {
	const rule = "C17.R14"
	r.Describe(rule, "map.c: in every function whose body has a top-level loop that looks the key up (equals_fn) and returns, each call to ferret_map_resize comes, in statement order, after that loop")
	cf := cLoad(c, r, rule, "runtime/core/map.c")
	if cf == nil {
		return
	}
	n := 0
	for _, name := range cf.Order {
		fn := cf.Funcs[name]
		if fn.Body() == nil || name == "ferret_map_resize" {
			continue
		}
		updateIdx, resizeIdx := -1, -1
		var resizeNode *CNode
		for i, st := range fn.Body().Inner {
			if st.Kind == "WhileStmt" || st.Kind == "ForStmt" || st.Kind == "DoStmt" {
				lookup, returns := false, false
				st.Walk(func(x *CNode) bool {
					if x.Kind == "CallExpr" && len(x.Inner) > 0 {
						if m := x.Inner[0].strip(); m != nil && m.Kind == "MemberExpr" && m.Name == "equals_fn" {
							lookup = true
						}
					}
					if x.Kind == "ReturnStmt" {
						returns = true
					}
					return true
				})
				if lookup && returns && updateIdx < 0 {
					updateIdx = i
				}
			}
			st.Walk(func(x *CNode) bool {
				if x.Kind == "CallExpr" && x.Callee() == "ferret_map_resize" && resizeIdx < 0 {
					resizeIdx = i
					resizeNode = x
				}
				return true
			})
		}
		if resizeIdx < 0 || updateIdx < 0 {
			continue
		}
		n++
		r.Check(updateIdx < resizeIdx, rule, "map.c:"+name, "the table grows only for a new key", c.cpos(cf, resizeNode),
			"the table is rehashed before the key is looked up: `for k, v in m { m[k] = v + 1; }` on a map at its load threshold (12 entries in 16 buckets) moves the entries under the running iteration, which then visits a key twice (13 visits, one value incremented twice)")
	}
	r.Floor(rule, n, 1, "functions of map.c that update in place and may grow the table")
}

// ---- C02.R10: a cast to bool is `!= 0` in both back ends ---------------------------------------------------

func init() {
	lateInits = append(lateInits, func() {
		props["C02"].Quick = append(props["C02"].Quick, c02R10)
		props["C01"].Quick = append(props["C01"].Quick, c02R10)
		props["C02"].Explanation += " (R10) both emitCast functions reach their width-changing conversion (handleIntegerCast natively, castOpcode on wasm) only across the false edge of an `isBoolType(target)` test whose branch compares the operand with zero (NOT_EQUAL)."
	})
}

func c02R10(c *Ctx, r *Report) {
	const rule = "C02.R10"
	r.Describe(rule, "QBE and wasm emitCast: every path to the generic conversion (handleIntegerCast / castOpcode) crosses the false edge of isBoolType(<target type>); the true branch mentions tokens.NOT_EQUAL_TOKEN")
	type side struct{ pkg, conv string }
	n := 0
	for _, sd := range []side{{pkgQBE, "(*Generator).handleIntegerCast"}, {pkgWasm, "castOpcode"}} {
		fn := c.LookupFn(sd.pkg, "(*Generator).emitCast")
		conv := c.LookupFn(sd.pkg, sd.conv)
		test := c.LookupFn(sd.pkg, "isBoolType")
		if !r.Anchor(rule, fn != nil && conv != nil, sd.pkg+" emitCast / "+sd.conv) {
			continue
		}
		if test == nil {
			r.Fail(rule, fn.Name(), "cast to bool is a comparison with zero", c.pos(fn.Decl.Pos()), "the package has no isBoolType test at all: a cast to bool takes the generic conversion, which keeps the low byte (`256 as bool` is false, `2 as bool == true` is false) where the other back end compares with zero")
			continue
		}
		info := fn.Info()
		disp := map[ast.Expr]bool{}
		ast.Inspect(fn.Decl.Body, func(x ast.Node) bool {
			ifs, ok := x.(*ast.IfStmt)
			if !ok {
				return true
			}
			cl, ok := ast.Unparen(ifs.Cond).(*ast.CallExpr)
			if !ok || !isCallTo(info, cl, test.Obj) || len(cl.Args) != 1 {
				return true
			}
			// the argument is the target type: c.Type, or a variable initialised from it
			arg := ast.Unparen(cl.Args[0])
			isTarget := false
			if sel, ok := arg.(*ast.SelectorExpr); ok && sel.Sel.Name == "Type" {
				isTarget = true
			}
			if id, ok := arg.(*ast.Ident); ok {
				for _, d := range localDefs(fn)[info.Uses[id]] {
					if sel, ok := ast.Unparen(d).(*ast.SelectorExpr); ok && sel.Sel.Name == "Type" {
						isTarget = true
					}
				}
			}
			ne := false
			ast.Inspect(ifs.Body, func(y ast.Node) bool {
				if sel, ok := y.(*ast.SelectorExpr); ok && sel.Sel.Name == "NOT_EQUAL_TOKEN" {
					ne = true
				}
				return true
			})
			if isTarget && ne {
				disp[ifs.Cond] = true
			}
			return true
		})
		nT := 0
		hits := mustFlow(c.CFG(fn), FlowSpec{
			Gate: func(ast.Node) bool { return false },
			EdgeGate: func(b *cfg.Block, succ int) bool {
				cond := condOf(b)
				return cond != nil && succ == 1 && disp[cond]
			},
			Target: func(nd ast.Node) bool {
				if nodeCalls(info, nd, conv.Obj) != nil {
					nT++
					return true
				}
				return false
			},
		})
		n += nT
		where := c.pos(fn.Decl.Pos())
		if len(hits) > 0 && hits[0].Pos.IsValid() {
			where = c.pos(hits[0].Pos)
		}
		r.Check(nT > 0 && len(hits) == 0, rule, fn.Name(), "cast to bool is a comparison with zero", where,
			"a cast whose target is bool reaches the generic width conversion: it keeps the low bits instead of comparing with zero, so `4294967296 as bool`, `0.5 as bool` and `256 as bool` are false and `2 as bool == true` is false on this back end and true on the other")
	}
	r.Floor(rule, n, 2, "generic conversions in the two emitCast functions")
}

// ---- C03.R14 / C03.R15: untyped literals in binary expressions ----------------------------------------------

func init() {
	lateInits = append(lateInits, func() {
		props["C03"].Quick = append(props["C03"].Quick, c03R14, c03R15)
		props["C11"].Quick = append(props["C11"].Quick, c03R15)
		props["C03"].Explanation += " (R14) checkBinaryExpr accepts an operand pair because one of them is an untyped literal only under a guard that also establishes that both operands are numbers (or untyped literals): a literal does not adapt to a bool, string or optional. (R15) in checkExpr the result type of an arithmetic expression depends on the type of the right operand as well as of the left one on every path (`2 * 3.5` is a float constant)."
	})
}

var numericPreds = map[string]bool{"IsNumericType": true, "IsNumeric": true, "IsInteger": true, "IsFloat": true, "IsUntyped": true, "IsUntypedInt": true, "IsUntypedFloat": true}

// sideOf: "lhs" / "rhs" / "" for an expression rooted at a variable named lhs… / rhs…
func sideOf(e ast.Expr) string {
	s := exprStr(e)
	switch {
	case strings.HasPrefix(s, "lhs"):
		return "lhs"
	case strings.HasPrefix(s, "rhs"):
		return "rhs"
	}
	return ""
}

func c03R14(c *Ctx, r *Report) {
	const rule = "C03.R14"
	r.Describe(rule, "typechecker.checkBinaryExpr: every accepting `return` whose own guard tests IsUntyped on both the left and the right operand stands under guards that establish, as conjuncts, a numeric-or-untyped predicate for the left and for the right operand (local booleans and same-package helpers are expanded)")
	fn := c.LookupFn(pkgTC, "checkBinaryExpr")
	if !r.Anchor(rule, fn != nil, "typechecker.checkBinaryExpr") {
		return
	}
	info := fn.Info()
	defs := localDefs(fn)
	// expand: the expression with local boolean variables replaced by their (single) definition
	var expand func(e ast.Expr, depth int) ast.Expr
	expand = func(e ast.Expr, depth int) ast.Expr {
		e = ast.Unparen(e)
		if id, ok := e.(*ast.Ident); ok && depth < 4 {
			if o := info.Uses[id]; o != nil && len(defs[o]) == 1 {
				if b, ok := o.Type().Underlying().(*types.Basic); ok && b.Kind() == types.Bool {
					return expand(defs[o][0], depth+1)
				}
			}
		}
		return e
	}
	// mentionsUntyped: sides on which the (expanded) expression calls IsUntyped*
	var mentionsUntyped func(e ast.Expr, subst map[types.Object]ast.Expr, depth int, out map[string]bool)
	// establishes: sides for which the expression, taken as a conjunction, requires a numeric-or-untyped predicate
	var establishes func(e ast.Expr, subst map[types.Object]ast.Expr, depth int, out map[string]bool)
	argSide := func(a ast.Expr, subst map[types.Object]ast.Expr) string {
		a = ast.Unparen(a)
		if id, ok := a.(*ast.Ident); ok && subst != nil {
			if o := info.Uses[id]; o != nil {
				if s, ok := subst[o]; ok {
					return sideOf(s)
				}
			}
			// identifiers of a helper's own body
			for o, s := range subst {
				if o.Name() == id.Name {
					return sideOf(s)
				}
			}
			return ""
		}
		return sideOf(a)
	}
	helperOf := func(cl *ast.CallExpr) (*Fn, map[types.Object]ast.Expr) {
		f := callee(info, cl)
		if f == nil || f.Pkg() == nil || f.Pkg() != fn.Obj.Pkg() {
			return nil, nil
		}
		hf := c.FnOf(f)
		if hf == nil || hf.Decl == nil || hf.Decl.Body == nil {
			return nil, nil
		}
		sig := f.Type().(*types.Signature)
		if sig.Params().Len() != len(cl.Args) {
			return nil, nil
		}
		sub := map[types.Object]ast.Expr{}
		for i := 0; i < sig.Params().Len(); i++ {
			sub[sig.Params().At(i)] = cl.Args[i]
		}
		return hf, sub
	}
	predName := func(cl *ast.CallExpr) string {
		if sel, ok := ast.Unparen(cl.Fun).(*ast.SelectorExpr); ok && exprStr(sel.X) == "types" {
			return sel.Sel.Name
		}
		return ""
	}
	mentionsUntyped = func(e ast.Expr, subst map[types.Object]ast.Expr, depth int, out map[string]bool) {
		if subst == nil {
			e = expand(e, 0)
		}
		ast.Inspect(e, func(x ast.Node) bool {
			if id, ok := x.(*ast.Ident); ok && subst == nil {
				if ex := expand(id, 0); ex != ast.Expr(id) {
					mentionsUntyped(ex, nil, depth+1, out)
				}
			}
			cl, ok := x.(*ast.CallExpr)
			if !ok {
				return true
			}
			if strings.HasPrefix(predName(cl), "IsUntyped") && len(cl.Args) == 1 {
				if s := argSide(cl.Args[0], subst); s != "" {
					out[s] = true
				}
			}
			if hf, sub := helperOf(cl); hf != nil && depth < 2 && subst == nil {
				ast.Inspect(hf.Decl.Body, func(y ast.Node) bool {
					if ex, ok := y.(ast.Expr); ok {
						if hc, ok := ex.(*ast.CallExpr); ok && strings.HasPrefix(predNameIn(hc), "IsUntyped") && len(hc.Args) == 1 {
							if s := argSide(hc.Args[0], sub); s != "" {
								out[s] = true
							}
						}
					}
					return true
				})
			}
			return true
		})
	}
	establishes = func(e ast.Expr, subst map[types.Object]ast.Expr, depth int, out map[string]bool) {
		for _, cj := range conjuncts(e) {
			cj = ast.Unparen(cj)
			if subst == nil {
				cj = expand(cj, 0)
				if len(conjuncts(cj)) > 1 {
					establishes(cj, subst, depth, out)
					continue
				}
			}
			// a helper: the conjuncts of its final `return <expr>` under the parameter substitution
			if cl, ok := cj.(*ast.CallExpr); ok && subst == nil && depth < 2 {
				if hf, sub := helperOf(cl); hf != nil {
					list := hf.Decl.Body.List
					if len(list) > 0 {
						if ret, ok := list[len(list)-1].(*ast.ReturnStmt); ok && len(ret.Results) == 1 {
							establishes(ret.Results[0], sub, depth+1, out)
						}
					}
					continue
				}
			}
			// a disjunction of numeric-or-untyped predicates, all on the same side
			side, all := "", true
			for _, dj := range disjuncts(cj) {
				cl, ok := ast.Unparen(dj).(*ast.CallExpr)
				name := ""
				if ok {
					name = predName(cl)
					if subst != nil {
						name = predNameIn(cl)
					}
				}
				if !ok || !numericPreds[name] || len(cl.Args) != 1 {
					all = false
					break
				}
				s := argSide(cl.Args[0], subst)
				if s == "" || (side != "" && s != side) {
					all = false
					break
				}
				side = s
			}
			if all && side != "" {
				out[side] = true
			}
		}
	}
	n := 0
	walkWithStack(fn.Decl.Body, func(nd ast.Node, stack []ast.Node) bool {
		ret, ok := nd.(*ast.ReturnStmt)
		if !ok || len(stack) < 2 {
			return true
		}
		blk, ok := stack[len(stack)-1].(*ast.BlockStmt)
		if !ok {
			return true
		}
		ifs, ok := stack[len(stack)-2].(*ast.IfStmt)
		if !ok || ifs.Body != blk || len(blk.List) != 1 {
			return true // a return after a diagnostic is a rejection, not an acceptance
		}
		own := map[string]bool{}
		mentionsUntyped(ifs.Cond, nil, 0, own)
		if !(own["lhs"] && own["rhs"]) {
			return true
		}
		n++
		est := map[string]bool{}
		for i := len(stack) - 1; i >= 0; i-- {
			if _, isClause := stack[i].(*ast.CaseClause); isClause {
				break
			}
			if outer, ok := stack[i].(*ast.IfStmt); ok {
				// only when we are in its body (not in its else)
				if i+1 < len(stack) && stack[i+1] == ast.Node(outer.Body) {
					establishes(outer.Cond, nil, 0, est)
				}
			}
		}
		r.Check(est["lhs"] && est["rhs"], rule, fn.Name(), "untyped operand accepted only beside a number: "+exprStr(ifs.Cond), c.pos(ret.Pos()),
			"an operand pair is accepted because one side is an untyped literal, whatever the other side is: `true - 2` type-checks (and prints true), `b == 1` and an optional `x > 5` type-check, `\"a\" * 2` and `b < 2.5` reach QBE, which rejects the program")
		return true
	})
	r.Floor(rule, n, 4, "untyped-operand acceptances in checkBinaryExpr")
}

// predNameIn: the predicate name of a call written inside package typechecker (types.IsX) — same as predName but
// without access to the caller's info.
func predNameIn(cl *ast.CallExpr) string {
	if sel, ok := ast.Unparen(cl.Fun).(*ast.SelectorExpr); ok && exprStr(sel.X) == "types" {
		return sel.Sel.Name
	}
	return ""
}

func c03R15(c *Ctx, r *Report) {
	const rule = "C03.R15"
	r.Describe(rule, "typechecker.checkExpr, case *ast.BinaryExpr: after `resultType = <left operand type>` every path to `return resultType` passes a statement that makes resultType depend on the right operand type (an assignment from an expression mentioning it, or a condition on it guarding an assignment)")
	fn := c.LookupFn(pkgTC, "checkExpr")
	if !r.Anchor(rule, fn != nil, "typechecker.checkExpr") {
		return
	}
	info := fn.Info()
	var cc *ast.CaseClause
	ast.Inspect(fn.Decl.Body, func(x ast.Node) bool {
		if cl, ok := x.(*ast.CaseClause); ok && cc == nil {
			for _, t := range caseTypes(info, cl) {
				if nt := namedOf(t); nt != nil && nt.Obj().Name() == "BinaryExpr" {
					cc = cl
				}
			}
		}
		return true
	})
	if !r.Anchor(rule, cc != nil, "checkExpr: case *ast.BinaryExpr") {
		return
	}
	// the operand type variables: lhsType := checkExpr(…, e.X, …), rhsType := checkExpr(…, e.Y, …)
	var lhsT, rhsT, resT types.Object
	for _, st := range cc.Body {
		ast.Inspect(st, func(x ast.Node) bool {
			as, ok := x.(*ast.AssignStmt)
			if !ok || len(as.Lhs) != 1 || len(as.Rhs) != 1 {
				return true
			}
			cl, ok := as.Rhs[0].(*ast.CallExpr)
			if ok && isCallTo(info, cl, fn.Obj) && len(cl.Args) >= 3 && as.Tok == token.DEFINE {
				switch {
				case strings.HasSuffix(exprStr(cl.Args[2]), ".X") && lhsT == nil:
					lhsT = objOf(info, as.Lhs[0])
				case strings.HasSuffix(exprStr(cl.Args[2]), ".Y"):
					rhsT = objOf(info, as.Lhs[0])
				}
			}
			return true
		})
	}
	// resultType: the variable returned at the end of the clause
	for _, st := range cc.Body {
		ast.Inspect(st, func(x ast.Node) bool {
			if vs, ok := x.(*ast.ValueSpec); ok && len(vs.Names) == 1 && vs.Names[0].Name == "resultType" {
				resT = info.Defs[vs.Names[0]]
			}
			return true
		})
	}
	if !r.Anchor(rule, lhsT != nil && rhsT != nil && resT != nil, "checkExpr BinaryExpr: lhsType / rhsType / resultType") {
		return
	}
	mentions := func(n ast.Node, o types.Object) bool {
		found := false
		ast.Inspect(n, func(x ast.Node) bool {
			if id, ok := x.(*ast.Ident); ok && info.Uses[id] == o {
				found = true
			}
			return true
		})
		return found
	}
	assignsRes := func(n ast.Node) (ast.Expr, bool) {
		if as, ok := n.(*ast.AssignStmt); ok && len(as.Lhs) == 1 && len(as.Rhs) == 1 && objOf(info, as.Lhs[0]) == resT {
			return as.Rhs[0], true
		}
		return nil, false
	}
	// conditions on rhsType that guard an assignment to resultType
	guardConds := map[ast.Expr]bool{}
	for _, st := range cc.Body {
		ast.Inspect(st, func(x ast.Node) bool {
			if ifs, ok := x.(*ast.IfStmt); ok && mentions(ifs.Cond, rhsT) {
				hit := false
				ast.Inspect(ifs.Body, func(y ast.Node) bool {
					if _, ok := assignsRes(y); ok {
						hit = true
					}
					return true
				})
				if hit {
					guardConds[ifs.Cond] = true
				}
			}
			return true
		})
	}
	blk := &ast.BlockStmt{List: cc.Body, Lbrace: cc.Colon, Rbrace: cc.End()}
	nKill, nT := 0, 0
	hits := mustFlow(c.CFGOfBody(blk), FlowSpec{
		InitTrue: true,
		Kill: func(n ast.Node) bool {
			if rhs, ok := assignsRes(n); ok && mentions(rhs, lhsT) && !mentions(rhs, rhsT) {
				nKill++
				return true
			}
			return false
		},
		Gate: func(n ast.Node) bool {
			if rhs, ok := assignsRes(n); ok && mentions(rhs, rhsT) {
				return true
			}
			if e, ok := n.(ast.Expr); ok {
				for g := range guardConds {
					if g == e || (g.Pos() <= e.Pos() && e.End() <= g.End() && mentions(e, rhsT)) {
						return true
					}
				}
			}
			return false
		},
		Target: func(n ast.Node) bool {
			if ret, ok := n.(*ast.ReturnStmt); ok && len(ret.Results) == 1 && objOf(info, ret.Results[0]) == resT {
				nT++
				return true
			}
			return false
		},
	})
	where := c.pos(cc.Pos())
	if len(hits) > 0 && hits[0].Pos.IsValid() {
		where = c.pos(hits[0].Pos)
	}
	r.Check(nKill > 0 && nT > 0 && len(hits) == 0, rule, fn.Name(), "the type of an arithmetic expression depends on both operand types", where,
		"the result type of an arithmetic expression is taken from the left operand alone: `2 * 3.5` is an integer constant, so `let a: i32 = 2 + 3.5` is accepted and stores 5")
}

// ---- C20.R7: the TOML reader does not re-encode what it scans -----------------------------------------------

func init() {
	lateInits = append(lateInits, func() {
		props["C20"].Quick = append(props["C20"].Quick, c20R7)
		props["C20"].Explanation += " (R7) package toml never rebuilds text from decoded runes: the rune variable of a `range` over a string is only compared or classified (==, switch, unicode.IsX), and no []rune conversion is made — the values handed on are substrings of the input, so bytes that are not valid UTF-8 come back as written."
	})
}

func c20R7(c *Ctx, r *Report) {
	const rule = "C20.R7"
	r.Describe(rule, "package toml (non-test): the value variable of every `for … range <string>` is used only as an operand of a comparison, a switch tag / case value or an argument of a unicode.* predicate; no conversion to []rune")
	fns := c.AllFns(pkgTOML)
	if !r.Anchor(rule, len(fns) > 0, "package toml") {
		return
	}
	n := 0
	for _, fn := range fns {
		info := fn.Info()
		n++
		bad := ""
		walkWithStack(fn.Decl.Body, func(nd ast.Node, stack []ast.Node) bool {
			// []rune(s)
			if cl, ok := nd.(*ast.CallExpr); ok && len(cl.Args) == 1 {
				if tv, ok := info.Types[cl.Fun]; ok && tv.IsType() {
					if sl, ok := tv.Type.Underlying().(*types.Slice); ok {
						if b, ok := sl.Elem().Underlying().(*types.Basic); ok && b.Kind() == types.Int32 {
							if at, ok := info.TypeOf(cl.Args[0]).Underlying().(*types.Basic); ok && at.Info()&types.IsString != 0 {
								bad = "conversion to []rune at " + c.pos(cl.Pos())
							}
						}
					}
				}
			}
			rs, ok := nd.(*ast.RangeStmt)
			if !ok || rs.Value == nil {
				return true
			}
			if bt, ok := info.TypeOf(rs.X).Underlying().(*types.Basic); !ok || bt.Info()&types.IsString == 0 {
				return true
			}
			rv := objOf(info, rs.Value)
			if rv == nil {
				return true
			}
			walkWithStack(rs.Body, func(x ast.Node, st []ast.Node) bool {
				id, ok := x.(*ast.Ident)
				if !ok || info.Uses[id] != rv || len(st) == 0 {
					return true
				}
				switch p := st[len(st)-1].(type) {
				case *ast.BinaryExpr:
					switch p.Op {
					case token.EQL, token.NEQ, token.LSS, token.LEQ, token.GTR, token.GEQ:
						return true
					}
				case *ast.SwitchStmt:
					if p.Tag == ast.Expr(id) {
						return true
					}
				case *ast.CaseClause:
					return true
				case *ast.CallExpr:
					if f := callee(info, p); f != nil && f.Pkg() != nil && f.Pkg().Path() == "unicode" {
						return true
					}
				}
				bad = "the decoded rune " + id.Name + " is written back at " + c.pos(id.Pos())
				return true
			})
			return true
		})
		r.Check(bad == "", rule, fn.Name(), "scans without re-encoding", c.pos(fn.Decl.Pos()),
			bad+": a byte that is not valid UTF-8 decodes to U+FFFD and is written back as three other bytes — the value `a\\xffb`, which the writer emits unchanged, is read back as `a\\ufffdb`")
	}
	r.Floor(rule, n, 10, "functions of package toml")
}

// ---- C19.R9: the sign of a number literal -------------------------------------------------------------------

func init() {
	lateInits = append(lateInits, func() {
		props["C19"].Quick = append(props["C19"].Quick, c19R9)
		props["C19"].Explanation += " (R9) if the lexer's number pattern admits a leading minus sign, the number handler decides from the tokens already produced whether the sign belongs to the literal, and can emit it as the MINUS operator: `7-5` and `x -5` lex like `7 - 5`."
	})
}

func c19R9(c *Ctx, r *Report) {
	const rule = "C19.R9"
	r.Describe(rule, "lexer: when numeric.NumberPattern starts with an optional '-', the handler registered with it reads Lexer.Tokens (directly or through a lexer method) on a path before it pushes the NUMBER token, and refers to tokens.MINUS_TOKEN")
	pat, _ := c.lookupObj("internal/utils/numeric", "NumberPattern").(*types.Const)
	newFn := c.LookupFn(pkgLexer, "New")
	tokField := c.fieldObj(pkgLexer, "Lexer", "Tokens")
	if !r.Anchor(rule, pat != nil && newFn != nil && tokField != nil, "numeric.NumberPattern / lexer.New / Lexer.Tokens") {
		return
	}
	if !strings.HasPrefix(constant.StringVal(pat.Val()), "-?") {
		r.OK(rule, "numeric.NumberPattern", "the number pattern has no sign", c.pos(pat.Pos()), "a minus sign is always the operator token; negative literals are unary expressions")
		return
	}
	// the handler registered with NumberPattern
	info := newFn.Info()
	var handler *Fn
	ast.Inspect(newFn.Decl.Body, func(x ast.Node) bool {
		cl, ok := x.(*ast.CompositeLit)
		if !ok || len(cl.Elts) != 2 {
			return true
		}
		uses := false
		ast.Inspect(cl.Elts[0], func(y ast.Node) bool {
			if id, ok := y.(*ast.Ident); ok && info.Uses[id] == types.Object(pat) {
				uses = true
			}
			return true
		})
		if uses {
			if f, ok := objOf(info, cl.Elts[1]).(*types.Func); ok {
				handler = c.FnOf(f)
			}
		}
		return true
	})
	if !r.Anchor(rule, handler != nil, "lexer.New: handler registered with numeric.NumberPattern") {
		return
	}
	hinfo := handler.Info()
	readsTokens := func(fn *Fn) bool {
		hit := false
		ast.Inspect(fn.Decl.Body, func(x ast.Node) bool {
			if sel, ok := x.(*ast.SelectorExpr); ok && fn.Info().Uses[sel.Sel] == types.Object(tokField) {
				// a read: not the target of the append in push (lex.Tokens = append(lex.Tokens, …)) only
				hit = true
			}
			return true
		})
		return hit
	}
	looksBack, minus := false, false
	var firstPush token.Pos
	for _, cl := range callsIn(handler.Decl.Body, false) {
		f := callee(hinfo, cl)
		if f == nil {
			continue
		}
		if f.Name() == "push" {
			if firstPush == token.NoPos || cl.Pos() < firstPush {
				// the push of the NUMBER token
				if strings.Contains(exprStr(cl), "NUMBER_TOKEN") {
					firstPush = cl.Pos()
				}
			}
			continue
		}
		if hf := c.FnOf(f); hf != nil && f.Name() != "advance" && f.Name() != "remainder" && readsTokens(hf) {
			looksBack = true
		}
	}
	ast.Inspect(handler.Decl.Body, func(x ast.Node) bool {
		if sel, ok := x.(*ast.SelectorExpr); ok {
			if sel.Sel.Name == "MINUS_TOKEN" {
				minus = true
			}
			if hinfo.Uses[sel.Sel] == types.Object(tokField) {
				looksBack = true
			}
		}
		return true
	})
	r.Check(looksBack && minus && firstPush != token.NoPos, rule, handler.Name(), "the sign of a number depends on the preceding token", c.pos(handler.Decl.Pos()),
		"the number pattern takes a leading '-' into the literal and its handler never looks at what precedes it: `7-5` and `x -5` lex as two operands in a row (`expected ';'`) while `7 - 5` is a subtraction — the spacing decides whether the program compiles")
}

// ---- C10.R9: the parser classifies number tokens with the lexer's grammar -------------------------------------

func init() {
	lateInits = append(lateInits, func() {
		props["C10"].Quick = append(props["C10"].Quick, c10R9)
		props["C13"].Quick = append(props["C13"].Quick, c10R9)
		props["C10"].Explanation += " (R9) the number grammar of the lexer admits an exponent without a fraction (`1e5`); the parser decides between an integer and a float literal with a predicate of package numeric, or by testing for '.', 'e' and 'E' alike, so that no token with an exponent becomes an integer literal."
	})
}

func c10R9(c *Ctx, r *Report) {
	const rule = "C10.R9"
	r.Describe(rule, "parser.parsePrimary, case NUMBER_TOKEN: when numeric.FloatNumber makes the fraction optional before an exponent, the clause that sets Kind FLOAT is guarded by a call into package numeric or compares the characters against '.', 'e' and 'E'")
	fn := c.LookupFn(pkgParser, "(*Parser).parsePrimary")
	fl, _ := c.lookupObj("internal/utils/numeric", "FloatNumber").(*types.Const)
	if !r.Anchor(rule, fn != nil && fl != nil, "parser.parsePrimary / numeric.FloatNumber") {
		return
	}
	pat := constant.StringVal(fl.Val())
	if !strings.Contains(pat, ")?(?:[eE]") {
		r.OK(rule, "numeric.FloatNumber", "an exponent requires a fraction", c.pos(fl.Pos()), "every float token contains a '.'")
		return
	}
	cc := clauseOf(fn, "NUMBER_TOKEN", nil)
	if !r.Anchor(rule, cc != nil, "parsePrimary: case tokens.NUMBER_TOKEN") {
		return
	}
	info := fn.Info()
	usesNumeric := false
	chars := map[string]bool{}
	for _, st := range cc.Body {
		ast.Inspect(st, func(x ast.Node) bool {
			switch y := x.(type) {
			case *ast.CallExpr:
				if f := callee(info, y); f != nil && f.Pkg() != nil && strings.HasSuffix(f.Pkg().Path(), "internal/utils/numeric") {
					usesNumeric = true
				}
			case *ast.BasicLit:
				if y.Kind == token.CHAR {
					chars[y.Value] = true
				}
			}
			return true
		})
	}
	ok := usesNumeric || (chars["'.'"] && chars["'e'"] && chars["'E'"])
	r.Check(ok, rule, fn.Name(), "a number token with an exponent is a float literal", c.pos(cc.Pos()),
		"the lexer accepts `1e5` as one number token, and the parser calls it an integer literal because it contains no '.': `let a := 1e5;` reaches QBE as the integer \"1e5\" (\"invalid integer literal\"), `let b: f64 = 1e3;` fails with \"cannot use type 'unknown'\"")
}

// ---- C19.R10: a diagnostic that is located on one path is located on all -------------------------------------

func init() {
	lateInits = append(lateInits, func() {
		props["C19"].Quick = append(props["C19"].Quick, c19R10)
		props["C19"].Explanation += " (R10) a diagnostic variable that receives its source location inside a conditional (`if loc != nil { diag = diag.With…(loc, …) }`) has received one on every path on which it is added to the bag: the same error is not reported with a position for one layout of the file and without one (` --> :1:1`) for another."
	})
}

func c19R10(c *Ctx, r *Report) {
	const rule = "C19.R10"
	r.Describe(rule, "all packages: for every local diagnostic variable d with an assignment `d = d.With{PrimaryLabel,Label,SecondaryLabel,CodeHint}(…)` nested in `if v != nil` where v is a local declared without a value (nil until assigned), each `….Add(d)` is reached only on paths that passed such an assignment (or an initialisation that already carries a label)")
	locators := map[string]bool{"WithPrimaryLabel": true, "WithLabel": true, "WithSecondaryLabel": true, "WithCodeHint": true}
	isLocating := func(info *types.Info, e ast.Expr) bool {
		hit := false
		ast.Inspect(e, func(x ast.Node) bool {
			if cl, ok := x.(*ast.CallExpr); ok {
				if f := callee(info, cl); f != nil && locators[f.Name()] && f.Pkg() != nil && strings.HasSuffix(f.Pkg().Path(), "internal/diagnostics") {
					hit = true
				}
			}
			return true
		})
		return hit
	}
	n := 0
	for _, p := range c.Pkgs {
		for _, fn := range c.AllFns(relOf(p.PkgPath)) {
			info := fn.Info()
			// candidates: variables assigned a locating call inside an if body
			cands := map[types.Object]bool{}
			nilDeclared := map[types.Object]bool{}
			ast.Inspect(fn.Decl.Body, func(x ast.Node) bool {
				if vs, ok := x.(*ast.ValueSpec); ok && len(vs.Values) == 0 {
					for _, nm := range vs.Names {
						if o := info.Defs[nm]; o != nil {
							if _, isPtr := o.Type().Underlying().(*types.Pointer); isPtr {
								nilDeclared[o] = true
							}
						}
					}
				}
				return true
			})
			walkWithStack(fn.Decl.Body, func(nd ast.Node, stack []ast.Node) bool {
				as, ok := nd.(*ast.AssignStmt)
				if !ok || len(as.Lhs) != 1 || len(as.Rhs) != 1 || as.Tok != token.ASSIGN || !isLocating(info, as.Rhs[0]) {
					return true
				}
				o := objOf(info, as.Lhs[0])
				if o == nil {
					return true
				}
				for _, a := range stack {
					ifs, ok := a.(*ast.IfStmt)
					if !ok {
						continue
					}
					// the guard is `v != nil` for a local v declared without a value (`var v *T`): v is nil
					// unless one of the conditional assignments ran, so the unlocated path is feasible
					be, ok := isBinOp(ifs.Cond, token.NEQ)
					if !ok || exprStr(be.Y) != "nil" {
						continue
					}
					if v := objOf(info, be.X); v != nil && nilDeclared[v] {
						cands[o] = true
					}
				}
				return true
			})
			for o := range cands {
				isAdd := func(nd ast.Node) bool {
					return nodeCallsPred(nd, func(cl *ast.CallExpr) bool {
						sel, ok := ast.Unparen(cl.Fun).(*ast.SelectorExpr)
						return ok && sel.Sel.Name == "Add" && len(cl.Args) == 1 && objOf(info, cl.Args[0]) == o
					}) != nil
				}
				nAdd := 0
				hits := mustFlow(c.CFG(fn), FlowSpec{
					Gate: func(nd ast.Node) bool {
						switch s := nd.(type) {
						case *ast.AssignStmt:
							for i, l := range s.Lhs {
								if objOf(info, l) == o && i < len(s.Rhs) && isLocating(info, s.Rhs[i]) {
									return true
								}
							}
						case *ast.DeclStmt:
							ok := false
							ast.Inspect(s, func(x ast.Node) bool {
								if vs, isVS := x.(*ast.ValueSpec); isVS {
									for i, nm := range vs.Names {
										if info.Defs[nm] == o && i < len(vs.Values) && isLocating(info, vs.Values[i]) {
											ok = true
										}
									}
								}
								return true
							})
							return ok
						}
						return false
					},
					Target: func(nd ast.Node) bool {
						if isAdd(nd) {
							nAdd++
							return true
						}
						return false
					},
				})
				if nAdd == 0 {
					continue
				}
				n++
				where := c.pos(fn.Decl.Pos())
				if len(hits) > 0 && hits[0].Pos.IsValid() {
					where = c.pos(hits[0].Pos)
				}
				r.Check(len(hits) == 0, rule, fn.Name(), "diagnostic "+o.Name()+" is located on every path to the bag", where,
					"the diagnostic gets its location only inside a conditional and is added to the bag on the other path as well: for some layouts of the source (an empty file, a file of comments only) the same error is printed with ` --> :1:1` and no file name")
			}
		}
	}
	r.Note("%s: %d diagnostics are located under a nil test of a nil-declared local (expected 0 after D-96; selftest: the reverse of the D-96 repair)", rule, n)
}

// ---- C15.R11: different modules get different symbols ---------------------------------------------------------

func init() {
	lateInits = append(lateInits, func() {
		props["C15"].Quick = append(props["C15"].Quick, c15R11)
		props["C14"].Quick = append(props["C14"].Quick, c15R11)
		props["C15"].Explanation += " (R11) the name a module's import path contributes to linker symbols and generated file names (pipeline.sanitizeModuleName, the QBE and wasm function-name builders) is computed by a function that is not many-to-one by construction: no replacer that sends two different strings to the same text, no replacement of the path separator by a character that paths may contain, and an escape introducer that is itself escaped."
	})
}

func c15R11(c *Ctx, r *Report) {
	const rule = "C15.R11"
	r.Describe(rule, "pipeline.sanitizeModuleName, qbe.qbeFuncName, wasm.funcName: every function applied to the import path (transitively, inside the module) is free of strings.NewReplacer / ReplaceAll / Replace calls that map to an identifier character; a byte-wise encoder writes pairwise different constants and has a case for the character its escapes start with")
	type site struct{ pkg, fn, param string }
	sites := []site{{pkgPipe, "(*Pipeline).sanitizeModuleName", "importPath"}, {pkgQBE, "(*Generator).qbeFuncName", "importPath"}, {pkgWasm, "(*Generator).funcName", "importPath"}}
	var manyToOne func(f *types.Func, depth int) string
	manyToOne = func(f *types.Func, depth int) string {
		hf := c.FnOf(f)
		if hf == nil || hf.Decl == nil || hf.Decl.Body == nil || depth > 3 {
			return ""
		}
		info := hf.Info()
		bad := ""
		var consts []string
		hasUnderscoreCase := false
		ast.Inspect(hf.Decl.Body, func(x ast.Node) bool {
			switch y := x.(type) {
			case *ast.CaseClause:
				for _, e := range y.List {
					ast.Inspect(e, func(z ast.Node) bool {
						if bl, ok := z.(*ast.BasicLit); ok && bl.Value == "'_'" {
							hasUnderscoreCase = true
						}
						return true
					})
				}
			case *ast.CallExpr:
				g := callee(info, y)
				if g == nil {
					return true
				}
				if g.Pkg() != nil && g.Pkg().Path() == "strings" {
					switch g.Name() {
					case "NewReplacer":
						seen := map[string]string{}
						for i := 1; i < len(y.Args); i += 2 {
							v := constOf(info, y.Args[i])
							if v == nil || v.Kind() != constant.String {
								continue
							}
							nw := constant.StringVal(v)
							if prev, dup := seen[nw]; dup {
								bad = fmt.Sprintf("%s sends %s and %s to the same text %q", hf.Name(), prev, exprStr(y.Args[i-1]), nw)
							}
							seen[nw] = exprStr(y.Args[i-1])
						}
					case "ReplaceAll", "Replace":
						if len(y.Args) >= 3 {
							if v := constOf(info, y.Args[2]); v != nil && v.Kind() == constant.String {
								if nw := constant.StringVal(v); nw != "" && strings.Trim(nw, "abcdefghijklmnopqrstuvwxyzABCDEFGHIJKLMNOPQRSTUVWXYZ0123456789_") == "" {
									bad = fmt.Sprintf("%s replaces %s by %q, which the text may already contain", hf.Name(), exprStr(y.Args[1]), nw)
								}
							}
						}
					}
				}
				if g.Name() == "WriteString" && len(y.Args) == 1 {
					if v := constOf(info, y.Args[0]); v != nil && v.Kind() == constant.String {
						consts = append(consts, constant.StringVal(v))
					}
				}
				if g.Pkg() != nil && strings.HasPrefix(g.Pkg().Path(), Mod+"/") && g != f {
					if b := manyToOne(g, depth+1); b != "" && bad == "" {
						bad = b
					}
				}
			}
			return true
		})
		seen := map[string]bool{}
		intro := false
		for _, s := range consts {
			if seen[s] {
				bad = fmt.Sprintf("%s writes the code %q for two different bytes", hf.Name(), s)
			}
			seen[s] = true
			if strings.HasPrefix(s, "_") {
				intro = true
			}
		}
		if intro && !hasUnderscoreCase && bad == "" {
			bad = hf.Name() + " escapes with '_' but copies a literal '_' unchanged"
		}
		return bad
	}
	n := 0
	for _, sd := range sites {
		fn := c.LookupFn(sd.pkg, sd.fn)
		if !r.Anchor(rule, fn != nil, sd.pkg+"."+sd.fn) {
			continue
		}
		info := fn.Info()
		var param types.Object
		sig := fn.Obj.Type().(*types.Signature)
		for i := 0; i < sig.Params().Len(); i++ {
			if sig.Params().At(i).Name() == sd.param {
				param = sig.Params().At(i)
			}
		}
		if !r.Anchor(rule, param != nil, fn.Name()+": parameter "+sd.param) {
			continue
		}
		// calls whose argument (transitively nested) is the import path
		for _, cl := range callsIn(fn.Decl.Body, false) {
			uses := false
			for _, a := range cl.Args {
				ast.Inspect(a, func(x ast.Node) bool {
					if id, ok := x.(*ast.Ident); ok && info.Uses[id] == param {
						uses = true
					}
					return true
				})
			}
			g := callee(info, cl)
			if !uses || g == nil || g.Pkg() == nil || !strings.HasPrefix(g.Pkg().Path(), Mod+"/") {
				continue
			}
			n++
			bad := manyToOne(g, 0)
			r.Check(bad == "", rule, fn.Name(), "module name through "+g.Name()+" is one-to-one", c.pos(cl.Pos()),
				bad+": the modules col/a_b and col/a/b get the same object file (gen/col_a_b.o) and the same symbols, and the program fails to link (\"multiple definition of `col_a_b_Name'\")")
		}
	}
	r.Floor(rule, n, 3, "module-name encoders applied to an import path")
}

// ---- C03.R16: nominal identity includes the declaring module ------------------------------------------------

func init() {
	lateInits = append(lateInits, func() {
		props["C03"].Quick = append(props["C03"].Quick, c03R16)
		props["C12"].Quick = append(props["C12"].Quick, c03R16)
		props["C18"].Quick = append(props["C18"].Quick, c03R16)
		props["C03"].Explanation += " (R16) two named types are equal only if they are the same declaration: NamedType.Equals compares the declaring module (or the identity) besides the name, and every NamedType the compiler creates outside package types is given its module before it is published."
	})
}

func c03R16(c *Ctx, r *Report) {
	const rule = "C03.R16"
	r.Describe(rule, "types.(*NamedType).Equals: the accepting return compares, besides .Name, a second field of the two NamedTypes (or their identity); every types.NewNamed(...) result outside package types has that field assigned in the creating function")
	eq := c.LookupFn("internal/types", "(*NamedType).Equals")
	nn := c.LookupFn("internal/types", "NewNamed")
	if !r.Anchor(rule, eq != nil && nn != nil, "types.(*NamedType).Equals / types.NewNamed") {
		return
	}
	info := eq.Info()
	// fields compared between the receiver and the other value in a `return a.F == b.F && …`
	fields := map[string]bool{}
	identity := false
	ast.Inspect(eq.Decl.Body, func(x ast.Node) bool {
		ret, ok := x.(*ast.ReturnStmt)
		if !ok || len(ret.Results) != 1 {
			return true
		}
		for _, cj := range conjuncts(ret.Results[0]) {
			be, ok := isBinOp(cj, token.EQL)
			if !ok {
				continue
			}
			l, lok := ast.Unparen(be.X).(*ast.SelectorExpr)
			rr, rok := ast.Unparen(be.Y).(*ast.SelectorExpr)
			if lok && rok && l.Sel.Name == rr.Sel.Name && exprStr(l.X) != exprStr(rr.X) {
				fields[l.Sel.Name] = true
			}
			if !lok && !rok {
				if _, isPtr := info.TypeOf(be.X).Underlying().(*types.Pointer); isPtr {
					identity = true
				}
			}
		}
		return true
	})
	var extra []string
	for f := range fields {
		if f != "Name" {
			extra = append(extra, f)
		}
	}
	sort.Strings(extra)
	r.Check(identity || len(extra) > 0, rule, eq.Name(), "named types are equal only as the same declaration", c.pos(eq.Decl.Pos()),
		"two named types are equal as soon as their names are: a value of ma::P (4 bytes) is accepted where mb::P (16 bytes) is expected — `let q: mb::P = p;` and `mb::Show(p)` type-check, and the callee reads fields the value does not have")
	if identity || len(extra) == 0 {
		return
	}
	n := 0
	for _, p := range c.Pkgs {
		rel := relOf(p.PkgPath)
		if rel == "internal/types" {
			continue
		}
		for _, fn := range c.AllFns(rel) {
			finfo := fn.Info()
			for _, cl := range callsIn(fn.Decl.Body, true) {
				if !isCallTo(finfo, cl, nn.Obj) {
					continue
				}
				n++
				// the variable the result is bound to, and an assignment v.<extra> = … in the same function
				var v types.Object
				ast.Inspect(fn.Decl.Body, func(x ast.Node) bool {
					if as, ok := x.(*ast.AssignStmt); ok && len(as.Lhs) == 1 && len(as.Rhs) == 1 && as.Rhs[0] == ast.Expr(cl) {
						v = objOf(finfo, as.Lhs[0])
					}
					return true
				})
				set := false
				if v != nil {
					ast.Inspect(fn.Decl.Body, func(x ast.Node) bool {
						if as, ok := x.(*ast.AssignStmt); ok {
							for _, l := range as.Lhs {
								if sel, ok := ast.Unparen(l).(*ast.SelectorExpr); ok && objOf(finfo, sel.X) == v && sel.Sel.Name == extra[0] {
									set = true
								}
							}
						}
						return true
					})
				}
				r.Check(set, rule, fn.Name(), "new named type records its "+extra[0], c.pos(cl.Pos()),
					"a NamedType is created and published without the field that tells declarations of the same name apart: it compares equal to the type of that name in every module that leaves the field empty as well")
			}
		}
	}
	r.Floor(rule, n, 1, "NewNamed call sites outside package types")
}

// ---- C13.R18: the embedded QBE does not keep a spilled temporary in a register around a loop -----------------

func init() {
	lateInits = append(lateInits, func() {
		props["C13"].Quick = append(props["C13"].Quick, c13R18)
		props["C13"].Explanation += " (R18) in the embedded QBE's spill(), the registers a block hands to a forward successor are collected from liveon() through a helper that compares the loop depths of the two blocks and, for a successor outside the loop, drops temporaries that already have a spill slot: a value that is only used after a loop is not kept in a register at the loop header while the back edge has spilled it (rega() asserts that it cannot happen)."
	})
}

func c13R18(c *Ctx, r *Report) {
	const rule = "C13.R18"
	r.Describe(rule, "qbe/spill.c spill(): no liveon(v, …) fills the set that is then limited directly; every set obtained from liveon() reaches it through a static helper whose body compares two ->loop fields and tests a .slot against -1; rega.c keeps the assertion this protects")
	cf := cLoad(c, r, rule, "qbe/spill.c")
	if cf == nil {
		return
	}
	fn := cf.Funcs["spill"]
	if !r.Anchor(rule, fn != nil && fn.Body() != nil, "qbe/spill.c:spill") {
		return
	}
	// helpers: compare ->loop of two blocks and test .slot == -1
	helpers := map[string]bool{}
	for _, name := range cf.Order {
		h := cf.Funcs[name]
		loopCmp, slotTest := false, false
		h.Walk(func(x *CNode) bool {
			if x.Kind == "BinaryOperator" && (x.Opcode == "<=" || x.Opcode == "<" || x.Opcode == ">" || x.Opcode == ">=") && strings.Count(x.Src(), "->loop") == 2 {
				loopCmp = true
			}
			if x.Kind == "BinaryOperator" && (x.Opcode == "==" || x.Opcode == "!=") && strings.Contains(x.Src(), ".slot") && strings.Contains(x.Src(), "-1") {
				slotTest = true
			}
			return true
		})
		if loopCmp && slotTest && name != "spill" {
			helpers[name] = true
		}
	}
	// in spill(): the sets filled by liveon, and what happens to them
	var liveonSets []string
	limited := map[string]bool{}
	merged := map[string]bool{}
	var firstLiveon *CNode
	fn.Walk(func(x *CNode) bool {
		if x.Kind != "CallExpr" {
			return true
		}
		args := x.Args()
		switch {
		case x.Callee() == "liveon" && len(args) >= 1:
			liveonSets = append(liveonSets, args[0].Src())
			if firstLiveon == nil {
				firstLiveon = x
			}
		case x.Callee() == "limit2" && len(args) >= 1: // (limit() cuts the back-edge sets, which come from b->out)
			limited[args[0].Src()] = true
		case helpers[x.Callee()]:
			for _, a := range args {
				merged[a.Src()] = true
			}
		}
		return true
	})
	if !r.Anchor(rule, len(liveonSets) >= 2 && firstLiveon != nil, "spill(): liveon calls for the two successors") {
		return
	}
	bad := ""
	for _, s := range liveonSets {
		if limited[s] {
			bad = "liveon(" + s + ", …) fills the set that limit2 then cuts down: the successors' register sets are united as they are"
		} else if !merged[s] {
			bad = "the set " + s + " obtained from liveon() is not passed through a loop-depth aware helper"
		}
	}
	r.Check(bad == "" && len(helpers) > 0, rule, "qbe/spill.c:spill", "successor register sets are merged with regard to loop depth", c.cpos(cf, firstLiveon),
		bad+": a value that is live through a loop and spilled at its back edge stays in a register at the loop header — `let a: []i64 = [3]; let b: []i64 = [7]; for p in a { io::Println(p); } io::Println(len(b));` stops the compiler with `rega.c:597: Assertion x != -1 failed` (SIGABRT, no diagnostic)")
}

// ---- C03.R17: operators see through references --------------------------------------------------------------

func init() {
	lateInits = append(lateInits, func() {
		props["C03"].Quick = append(props["C03"].Quick, c03R17)
		props["C13"].Quick = append(props["C13"].Quick, c03R17)
		props["C03"].Explanation += " (R17) in the BinaryExpr case of checkExpr both operand types pass through a reference-stripping function before a literal is bound to them and before one of them becomes the type of the expression: `m + 1` with m: &'i32 is an i32, not a reference the back end is asked to add."
	})
}

func c03R17(c *Ctx, r *Report) {
	const rule = "C03.R17"
	r.Describe(rule, "typechecker.checkExpr, case *ast.BinaryExpr: every path to bindUntypedNumericLiteral(…) and to `resultType = <operand type>` has assigned that operand-type variable from a function that returns the Inner of a *types.ReferenceType")
	fn := c.LookupFn(pkgTC, "checkExpr")
	bind := c.LookupFn(pkgTC, "bindUntypedNumericLiteral")
	if !r.Anchor(rule, fn != nil && bind != nil, "typechecker.checkExpr / bindUntypedNumericLiteral") {
		return
	}
	info := fn.Info()
	var cc *ast.CaseClause
	ast.Inspect(fn.Decl.Body, func(x ast.Node) bool {
		if cl, ok := x.(*ast.CaseClause); ok && cc == nil {
			for _, t := range caseTypes(info, cl) {
				if nt := namedOf(t); nt != nil && nt.Obj().Name() == "BinaryExpr" {
					cc = cl
				}
			}
		}
		return true
	})
	if !r.Anchor(rule, cc != nil, "checkExpr: case *ast.BinaryExpr") {
		return
	}
	isStripper := func(f *types.Func) bool {
		hf := c.FnOf(f)
		if hf == nil || hf.Decl == nil || hf.Decl.Body == nil {
			return false
		}
		asserts, inner := false, false
		ast.Inspect(hf.Decl.Body, func(x ast.Node) bool {
			switch y := x.(type) {
			case *ast.TypeAssertExpr:
				if y.Type != nil && strings.HasSuffix(exprStr(y.Type), "ReferenceType") {
					asserts = true
				}
			case *ast.ReturnStmt:
				for _, e := range y.Results {
					if sel, ok := ast.Unparen(e).(*ast.SelectorExpr); ok && sel.Sel.Name == "Inner" {
						inner = true
					}
				}
			}
			return true
		})
		return asserts && inner
	}
	// the operand type variables
	var vars []types.Object
	for _, st := range cc.Body {
		ast.Inspect(st, func(x ast.Node) bool {
			as, ok := x.(*ast.AssignStmt)
			if !ok || len(as.Lhs) != 1 || len(as.Rhs) != 1 || as.Tok != token.DEFINE {
				return true
			}
			cl, ok := as.Rhs[0].(*ast.CallExpr)
			if ok && isCallTo(info, cl, fn.Obj) && len(cl.Args) >= 3 {
				s := exprStr(cl.Args[2])
				if strings.HasSuffix(s, ".X") || strings.HasSuffix(s, ".Y") {
					if o := objOf(info, as.Lhs[0]); o != nil {
						dup := false
						for _, v := range vars {
							dup = dup || v == o
						}
						if !dup {
							vars = append(vars, o)
						}
					}
				}
			}
			return true
		})
	}
	if !r.Anchor(rule, len(vars) >= 2, "checkExpr BinaryExpr: lhsType / rhsType") {
		return
	}
	blk := &ast.BlockStmt{List: cc.Body, Lbrace: cc.Colon, Rbrace: cc.End()}
	g := c.CFGOfBody(blk)
	for _, v := range vars {
		v := v
		nT := 0
		hits := mustFlow(g, FlowSpec{
			Gate: func(n ast.Node) bool {
				as, ok := n.(*ast.AssignStmt)
				if !ok || len(as.Lhs) != 1 || len(as.Rhs) != 1 || objOf(info, as.Lhs[0]) != v {
					return false
				}
				cl, ok := as.Rhs[0].(*ast.CallExpr)
				if !ok {
					return false
				}
				f := callee(info, cl)
				return f != nil && isStripper(f)
			},
			Target: func(n ast.Node) bool {
				hit := false
				inspectShallow(n, func(x ast.Node) bool {
					switch y := x.(type) {
					case *ast.CallExpr:
						if isCallTo(info, y, bind.Obj) {
							for _, a := range y.Args {
								if objOf(info, a) == v {
									hit = true
								}
							}
						}
					case *ast.AssignStmt:
						if len(y.Lhs) == 1 && len(y.Rhs) == 1 && exprStr(y.Lhs[0]) == "resultType" && objOf(info, y.Rhs[0]) == v {
							hit = true
						}
					}
					return true
				})
				if hit {
					nT++
				}
				return hit
			},
		})
		where := c.pos(cc.Pos())
		if len(hits) > 0 && hits[0].Pos.IsValid() {
			where = c.pos(hits[0].Pos)
		}
		r.Check(nT > 0 && len(hits) == 0, rule, fn.Name(), "operand type "+v.Name()+" is dereferenced before it types a literal or the expression", where,
			"an operand of reference type keeps that type: the literal beside it and the whole expression become references, and `let y := m + 1;` / `m = m * m;` with m: &'i32 reach QBE as pointer arithmetic on loaded values (\"invalid type for first operand in add\")")
	}
}

// ---- C07.R10–R12: mutating method calls, closures, re-borrows -----------------------------------------------

func init() {
	lateInits = append(lateInits, func() {
		props["C07"].Quick = append(props["C07"].Quick, c07R10, c07R11, c07R12)
		props["C07"].Explanation += " (R10) the borrow checker treats a call of a method whose receiver is a mutable reference as a write to the place it is called on. (R11) a closure literal is checked against the live loans: every captured variable is read at the point of the literal, and a captured reference keeps its loans until the end of the scope that holds them. (R12) a reference initialised by borrowing through another reference (`&'r.X`) takes over the loans that reference holds."
	})
}

// borrowClause: the case clause of borrowChecker.checkExpr for the HIR node type name.
func borrowClause(c *Ctx, fn *Fn, typeName string) *ast.CaseClause {
	var cc *ast.CaseClause
	ast.Inspect(fn.Decl.Body, func(x ast.Node) bool {
		if cl, ok := x.(*ast.CaseClause); ok && cc == nil {
			for _, t := range caseTypes(fn.Info(), cl) {
				if nt := namedOf(t); nt != nil && nt.Obj().Name() == typeName {
					cc = cl
				}
			}
		}
		return true
	})
	return cc
}

func c07R10(c *Ctx, r *Report) {
	const rule = "C07.R10"
	r.Describe(rule, "hir/analysis borrowChecker.checkExpr, case *hir.CallExpr: a branch guarded by a predicate that reads MethodInfo.Receiver and ReferenceType.Mutable calls checkWriteTarget (or checkAccess with accessWrite) on the selector's base")
	fn := c.LookupFn(pkgHIRAn, "(*borrowChecker).checkExpr")
	wt := c.LookupFn(pkgHIRAn, "(*borrowChecker).checkWriteTarget")
	if !r.Anchor(rule, fn != nil && wt != nil, "hir/analysis checkExpr / checkWriteTarget") {
		return
	}
	cc := borrowClause(c, fn, "CallExpr")
	if !r.Anchor(rule, cc != nil, "borrowChecker.checkExpr: case *hir.CallExpr") {
		return
	}
	info := fn.Info()
	readsReceiverMutability := func(f *types.Func) bool {
		hf := c.FnOf(f)
		if hf == nil || hf.Decl == nil || hf.Decl.Body == nil {
			return false
		}
		recv, mut := false, false
		ast.Inspect(hf.Decl.Body, func(x ast.Node) bool {
			if sel, ok := x.(*ast.SelectorExpr); ok {
				if sel.Sel.Name == "Receiver" {
					recv = true
				}
				if sel.Sel.Name == "Mutable" {
					mut = true
				}
			}
			return true
		})
		return recv && mut
	}
	ok := false
	for _, st := range cc.Body {
		ast.Inspect(st, func(x ast.Node) bool {
			ifs, isIf := x.(*ast.IfStmt)
			if !isIf {
				return true
			}
			guard := false
			ast.Inspect(ifs.Cond, func(y ast.Node) bool {
				if cl, isCall := y.(*ast.CallExpr); isCall {
					if f := callee(info, cl); f != nil && readsReceiverMutability(f) {
						guard = true
					}
				}
				return true
			})
			if guard && nodeCalls(info, ifs.Body, wt.Obj) != nil {
				ok = true
			}
			return true
		})
	}
	r.Check(ok, rule, fn.Name(), "a &'-receiver method call writes its receiver", c.pos(cc.Pos()),
		"a method call is checked like a field read, whatever the receiver of the method is: `let r: &Counter = &c; c.inc(); io::Println(r.Value);` with `fn (c: &'Counter) inc()` is accepted and the shared reference sees its referent change (prints 1)")
}

func c07R11(c *Ctx, r *Report) {
	const rule = "C07.R11"
	r.Describe(rule, "hir/analysis borrowChecker.checkExpr, case *hir.FuncLit: the clause ranges over the literal's Captures; in that loop a capture reaches checkRead / checkAccess, and a reference capture reaches a helper that assigns into a scope's lastUse map")
	fn := c.LookupFn(pkgHIRAn, "(*borrowChecker).checkExpr")
	rd := c.LookupFn(pkgHIRAn, "(*borrowChecker).checkRead")
	if !r.Anchor(rule, fn != nil && rd != nil, "hir/analysis checkExpr / checkRead") {
		return
	}
	cc := borrowClause(c, fn, "FuncLit")
	if !r.Anchor(rule, cc != nil, "borrowChecker.checkExpr: case *hir.FuncLit") {
		return
	}
	info := fn.Info()
	writesLastUse := func(f *types.Func) bool {
		hf := c.FnOf(f)
		if hf == nil || hf.Decl == nil || hf.Decl.Body == nil {
			return false
		}
		hit := false
		ast.Inspect(hf.Decl.Body, func(x ast.Node) bool {
			if as, ok := x.(*ast.AssignStmt); ok {
				for _, l := range as.Lhs {
					if ix, ok := ast.Unparen(l).(*ast.IndexExpr); ok && strings.HasSuffix(exprStr(ix.X), ".lastUse") {
						hit = true
					}
				}
			}
			return true
		})
		return hit
	}
	reads, holds := false, false
	for _, st := range cc.Body {
		ast.Inspect(st, func(x ast.Node) bool {
			rs, ok := x.(*ast.RangeStmt)
			if !ok || !strings.HasSuffix(exprStr(rs.X), ".Captures") {
				return true
			}
			for _, cl := range callsIn(rs.Body, false) {
				f := callee(info, cl)
				if f == nil {
					continue
				}
				if f == rd.Obj {
					reads = true
				}
				if writesLastUse(f) {
					holds = true
				}
			}
			return true
		})
	}
	r.Check(reads, rule, fn.Name(), "a captured variable is read where the closure is made", c.pos(cc.Pos()),
		"a closure literal is checked in isolation and its captures are not accesses of the enclosing function: `let r: &'i32 = &'x; let f := fn() -> i32 { return x; };` copies x while it is mutably borrowed")
	r.Check(holds, rule, fn.Name(), "a captured reference keeps its loans while the closure can run", c.pos(cc.Pos()),
		"the loans of a reference end at its last textual use even when a closure captured it: `let r: &'i32 = &'x; let f := fn() { r = 5; }; x = 3; f(); io::Println(x);` is accepted and prints 5 — x is written through r after the loan was considered over")
}

func c07R12(c *Ctx, r *Report) {
	const rule = "C07.R12"
	r.Describe(rule, "hir/analysis borrowChecker.checkBorrowInit: besides the branch for a non-reference base there is a branch that ranges over b.bindings[<base of the borrowed place>] and calls addBinding for the declared name")
	fn := c.LookupFn(pkgHIRAn, "(*borrowChecker).checkBorrowInit")
	ab := c.LookupFn(pkgHIRAn, "(*borrowChecker).addBinding")
	if !r.Anchor(rule, fn != nil && ab != nil, "hir/analysis checkBorrowInit / addBinding") {
		return
	}
	info := fn.Info()
	ok := false
	ast.Inspect(fn.Decl.Body, func(x ast.Node) bool {
		rs, isRange := x.(*ast.RangeStmt)
		if !isRange {
			return true
		}
		ix, isIx := ast.Unparen(rs.X).(*ast.IndexExpr)
		if !isIx || !strings.HasSuffix(exprStr(ix.X), ".bindings") || !strings.HasSuffix(exprStr(ix.Index), ".base") {
			return true
		}
		if nodeCalls(info, rs.Body, ab.Obj) != nil {
			ok = true
		}
		return true
	})
	r.Check(ok, rule, fn.Name(), "a borrow through a reference takes over that reference's loans", c.pos(fn.Decl.Pos()),
		"a reference initialised with `&'r.X` records no loan because its base is a reference: after r's last use `let a: &'i32 = &'r.X; p.X = 5; a = 7;` is accepted and p.X is written through a while p is assigned directly")
}

// ---- C07.R13: a mutable loan that is handed on rests in its first holder ---------------------------------------

func init() {
	lateInits = append(lateInits, func() {
		props["C07"].Quick = append(props["C07"].Quick, c07R13)
		props["C07"].Explanation += " (R13) when the loans of a mutable reference are handed on to another reference variable (`let r2: &'T = f(r)`), bindRefFromExpr records it in a map of the checker, and both the read and the write-target check of a reference variable consult that map and report a use of the first holder."
	})
}

func c07R13(c *Ctx, r *Report) {
	const rule = "C07.R13"
	r.Describe(rule, "hir/analysis: bindRefFromExpr, in the loop over b.bindings[sym] that calls addBinding, assigns b.<M>[sym] under a test of held.mutable; checkRead and checkWriteTarget call a function that indexes b.<M> and reaches reportBorrowError")
	bind := c.LookupFn(pkgHIRAn, "(*borrowChecker).bindRefFromExpr")
	rd := c.LookupFn(pkgHIRAn, "(*borrowChecker).checkRead")
	wt := c.LookupFn(pkgHIRAn, "(*borrowChecker).checkWriteTarget")
	rep := c.LookupFn(pkgHIRAn, "(*borrowChecker).reportBorrowError")
	ab := c.LookupFn(pkgHIRAn, "(*borrowChecker).addBinding")
	if !r.Anchor(rule, bind != nil && rd != nil && wt != nil && rep != nil && ab != nil, "hir/analysis bindRefFromExpr / checkRead / checkWriteTarget / reportBorrowError / addBinding") {
		return
	}
	info := bind.Info()
	field := ""
	ast.Inspect(bind.Decl.Body, func(x ast.Node) bool {
		rs, ok := x.(*ast.RangeStmt)
		if !ok || nodeCalls(info, rs.Body, ab.Obj) == nil {
			return true
		}
		ast.Inspect(rs.Body, func(y ast.Node) bool {
			ifs, ok := y.(*ast.IfStmt)
			if !ok || !strings.Contains(exprStr(ifs.Cond), ".mutable") {
				return true
			}
			ast.Inspect(ifs.Body, func(z ast.Node) bool {
				if as, ok := z.(*ast.AssignStmt); ok && len(as.Lhs) == 1 {
					if ix, ok := ast.Unparen(as.Lhs[0]).(*ast.IndexExpr); ok {
						if sel, ok := ast.Unparen(ix.X).(*ast.SelectorExpr); ok && exprStr(sel.X) == "b" {
							field = sel.Sel.Name
						}
					}
				}
				return true
			})
			return true
		})
		return true
	})
	r.Check(field != "", rule, bind.Name(), "a mutable loan handed on is recorded", c.pos(bind.Decl.Pos()),
		"the loans of a mutable reference are copied to a second reference variable and nothing records it: `let r2: &'i32 = same(r); r = 2; r2 = 3; r += 10;` is accepted — two live mutable references to x")
	if field == "" {
		return
	}
	consults := func(fn *Fn) bool {
		finfo := fn.Info()
		for _, cl := range callsIn(fn.Decl.Body, false) {
			f := callee(finfo, cl)
			hf := c.FnOf(f)
			if f == nil || hf == nil || hf.Decl == nil || hf.Decl.Body == nil {
				continue
			}
			reads := false
			ast.Inspect(hf.Decl.Body, func(x ast.Node) bool {
				if ix, ok := x.(*ast.IndexExpr); ok {
					if sel, ok := ast.Unparen(ix.X).(*ast.SelectorExpr); ok && sel.Sel.Name == field {
						reads = true
					}
				}
				return true
			})
			if reads && nodeCalls(hf.Info(), hf.Decl.Body, rep.Obj) != nil {
				return true
			}
		}
		return false
	}
	r.Check(consults(rd), rule, rd.Name(), "reading a reference variable consults "+field, c.pos(rd.Decl.Pos()),
		"a reference variable whose mutable loan was handed on can still be read: two usable references to one place, one of them mutable")
	r.Check(consults(wt), rule, wt.Name(), "writing through a reference variable consults "+field, c.pos(wt.Decl.Pos()),
		"a reference variable whose mutable loan was handed on can still be written through: `r = 2; r2 = 3;` both reach x")
}

// ---- C11.R12: `**=` does not narrow ---------------------------------------------------------------------------

func init() {
	lateInits = append(lateInits, func() {
		props["C11"].Quick = append(props["C11"].Quick, c11R12)
		props["C03"].Quick = append(props["C03"].Quick, c11R12)
		props["C11"].Explanation += " (R12) a compound assignment with the power operator compares the type `**` yields (types.GetPowerResultType) with the type of the target and reports a difference: `z **= e` with z: i32 does not store an f64 into an i32."
	})
}

func c11R12(c *Ctx, r *Report) {
	const rule = "C11.R12"
	r.Describe(rule, "typechecker.checkAssignStmt: a branch that tests requiredOp against tokens.EXP_TOKEN calls types.GetPowerResultType, compares its result with the target type by Equals, and adds a diagnostic")
	fn := c.LookupFn(pkgTC, "checkAssignStmt")
	gp := c.LookupFn("internal/types", "GetPowerResultType")
	bagAdd := c.LookupFn("internal/diagnostics", "(*DiagnosticBag).Add")
	if !r.Anchor(rule, fn != nil && gp != nil && bagAdd != nil, "typechecker.checkAssignStmt / types.GetPowerResultType / DiagnosticBag.Add") {
		return
	}
	info := fn.Info()
	ok := false
	ast.Inspect(fn.Decl.Body, func(x ast.Node) bool {
		ifs, isIf := x.(*ast.IfStmt)
		if !isIf || !strings.Contains(exprStr(ifs.Cond), "EXP_TOKEN") {
			return true
		}
		var resVar types.Object
		ast.Inspect(ifs.Body, func(y ast.Node) bool {
			if as, isAs := y.(*ast.AssignStmt); isAs && len(as.Lhs) == 1 && len(as.Rhs) == 1 {
				if cl, isCall := as.Rhs[0].(*ast.CallExpr); isCall && isCallTo(info, cl, gp.Obj) {
					resVar = objOf(info, as.Lhs[0])
				}
			}
			return true
		})
		if resVar == nil {
			return true
		}
		ast.Inspect(ifs.Body, func(y ast.Node) bool {
			inner, isIf := y.(*ast.IfStmt)
			if !isIf {
				return true
			}
			cmp := false
			ast.Inspect(inner.Cond, func(z ast.Node) bool {
				if cl, isCall := z.(*ast.CallExpr); isCall && strings.HasSuffix(exprStr(cl.Fun), ".Equals") && len(cl.Args) == 1 && objOf(info, cl.Args[0]) == resVar {
					cmp = true
				}
				return true
			})
			if cmp && nodeCalls(info, inner.Body, bagAdd.Obj) != nil {
				ok = true
			}
			return true
		})
		return true
	})
	r.Check(ok, rule, fn.Name(), "`**=` requires the target to have the type `**` yields", c.pos(fn.Decl.Pos()),
		"a compound assignment with the power operator is checked like a binary expression only: `let z: i32 = 3; let e: f64 = 2.0; z **= e;` passes the type checker (an implicit f64 -> i32) and QBE rejects the program (\"invalid type for first operand in arg\"); `z **= 2` on an i32 or f32 fails the same way")
}

// ---- C13.R19: the amd64 instruction templates of the embedded QBE use existing conversion instructions ------

func init() {
	lateInits = append(lateInits, func() {
		props["C13"].Quick = append(props["C13"].Quick, c13R19)
		props["C01"].Quick = append(props["C01"].Quick, c13R19)
		props["C13"].Explanation += " (R19) every cvt* mnemonic in the instruction templates of qbe/amd64/emit.c and win64_emit.c is one of the SSE scalar conversions the assembler knows (cvtss2sd, cvtsd2ss, cvttss2si, cvttsd2si, cvtsi2ss, cvtsi2sd, also written with the %k class suffix)."
	})
}

func c13R19(c *Ctx, r *Report) {
	const rule = "C13.R19"
	r.Describe(rule, "qbe/amd64/emit.c, qbe/amd64/win64_emit.c: each string template that starts with `cvt` names an SSE scalar conversion instruction (the %k suffix stands for s/d resp. l/q)")
	valid := map[string]bool{"cvtss2sd": true, "cvtsd2ss": true, "cvttss2si": true, "cvttsd2si": true, "cvtss2si": true, "cvtsd2si": true, "cvtsi2ss": true, "cvtsi2sd": true,
		"cvttss2si%k": true, "cvttsd2si%k": true, "cvtsi2%k": true, "cvtss2si%k": true, "cvtsd2si%k": true}
	re := regexp.MustCompile(`"(cvt[a-z0-9%]*)[ "]`)
	n := 0
	for _, rel := range []string{"qbe/amd64/emit.c", "qbe/amd64/win64_emit.c"} {
		data, err := os.ReadFile(filepath.Join(c.RepoDir, rel))
		if !r.Anchor(rule, err == nil, rel) {
			continue
		}
		for i, line := range strings.Split(string(data), "\n") {
			for _, m := range re.FindAllStringSubmatch(line, -1) {
				n++
				r.Check(valid[m[1]], rule, rel, "template "+m[1]+" is an x86 instruction", fmt.Sprintf("%s:%d", rel, i+1),
					"the template names `"+m[1]+"`, which is not an x86 instruction: a program that converts a run-time f64 to f32 (`id(2.5) as f32`) compiles to assembly the assembler rejects (\"no such instruction\", build failed) while the same cast of a constant is folded and works")
			}
		}
	}
	r.Floor(rule, n, 8, "cvt* templates")
}

// ---- C02.R11: float -> sub-word integer casts are reduced to the declared width natively ----------------------

func init() {
	lateInits = append(lateInits, func() {
		props["C02"].Quick = append(props["C02"].Quick, c02R11)
		props["C01"].Quick = append(props["C01"].Quick, c02R11)
		props["C02"].Explanation += " (R11) in the QBE emitCast the float-to-integer branch defines its result, on every path, through emitSubWordWrap or emitFloatToUnsigned, or on the false edge of a test for the 8- and 16-bit widths — as the wasm emitCast wraps every i32-represented target (C01.R3)."
	})
}

func c02R11(c *Ctx, r *Report) {
	const rule = "C02.R11"
	r.Describe(rule, "qbe emitCast: in the branch `isFloat(from) && isInteger(to)`, every path to `g.valueTypes[c.Result] = …` has called emitSubWordWrap / emitFloatToUnsigned or crossed the false edge of a test that mentions both 8 and 16")
	fn := c.LookupFn(pkgQBE, "(*Generator).emitCast")
	wrap := c.LookupFn(pkgQBE, "(*Generator).emitSubWordWrap")
	f2u := c.LookupFn(pkgQBE, "(*Generator).emitFloatToUnsigned")
	if !r.Anchor(rule, fn != nil && wrap != nil && f2u != nil, "qbe emitCast / emitSubWordWrap / emitFloatToUnsigned") {
		return
	}
	info := fn.Info()
	var branch *ast.IfStmt
	ast.Inspect(fn.Decl.Body, func(x ast.Node) bool {
		if ifs, ok := x.(*ast.IfStmt); ok && branch == nil {
			s := exprStr(ifs.Cond)
			if strings.Contains(s, "isFloat(fromType)") && strings.Contains(s, "isInteger(toType)") {
				branch = ifs
			}
		}
		return true
	})
	if !r.Anchor(rule, branch != nil, "emitCast: if g.isFloat(fromType) && g.isInteger(toType)") {
		return
	}
	nT := 0
	hits := mustFlow(c.CFGOfBody(branch.Body), FlowSpec{
		Gate: func(n ast.Node) bool {
			return nodeCalls(info, n, wrap.Obj) != nil || nodeCalls(info, n, f2u.Obj) != nil
		},
		EdgeGate: func(b *cfg.Block, succ int) bool {
			cond := condOf(b)
			if cond == nil || succ != 1 {
				return false
			}
			s := exprStr(cond)
			return strings.Contains(s, "8") && strings.Contains(s, "16") && !strings.Contains(s, "!=")
		},
		Target: func(n ast.Node) bool {
			as, ok := n.(*ast.AssignStmt)
			if !ok || len(as.Lhs) != 1 {
				return false
			}
			ix, ok := as.Lhs[0].(*ast.IndexExpr)
			if ok && strings.HasSuffix(exprStr(ix.X), ".valueTypes") {
				nT++
				return true
			}
			return false
		},
	})
	where := c.pos(branch.Pos())
	if len(hits) > 0 && hits[0].Pos.IsValid() {
		where = c.pos(hits[0].Pos)
	}
	r.Check(nT > 0 && len(hits) == 0, rule, fn.Name(), "float -> i8/i16 is reduced to the declared width", where,
		"a float is converted to a word and called an i8 / i16 without reducing it: `(300.0 as i8) as i32` is 300 natively and 44 on wasm")
}

// ---- C12.R8: no method receiver is dropped silently ------------------------------------------------------------

func init() {
	lateInits = append(lateInits, func() {
		props["C12"].Quick = append(props["C12"].Quick, c12R8)
		props["C03"].Quick = append(props["C03"].Quick, c12R8)
		props["C12"].Explanation += " (R8) collector.extractReceiverTypeName reports a diagnostic on every path that returns an invalid receiver, and its reference branch recognises the same base type nodes (identifier, module::Type) as the by-value forms: `fn (c: &lib::Counter) Leak()` is refused like `fn (c: lib::Counter) Leak()`."
	})
}

func c12R8(c *Ctx, r *Report) {
	const rule = "C12.R8"
	r.Describe(rule, "collector.extractReceiverTypeName: every `return …, false` is dominated by a Diagnostics.Add; the AST node types type-asserted on receiverType and returned as valid are also type-asserted on the Base of the *ast.ReferenceType branch")
	fn := c.LookupFn(pkgCollector, "extractReceiverTypeName")
	bagAdd := c.LookupFn("internal/diagnostics", "(*DiagnosticBag).Add")
	if !r.Anchor(rule, fn != nil && bagAdd != nil, "collector.extractReceiverTypeName / DiagnosticBag.Add") {
		return
	}
	info := fn.Info()
	nRet := 0
	hits := mustFlow(c.CFG(fn), FlowSpec{
		Gate: func(n ast.Node) bool { return nodeCalls(info, n, bagAdd.Obj) != nil },
		Target: func(n ast.Node) bool {
			ret, ok := n.(*ast.ReturnStmt)
			if !ok || len(ret.Results) != 3 {
				return false
			}
			if v := constOf(info, ret.Results[2]); v != nil && !boolVal(v) {
				nRet++
				return true
			}
			return false
		},
	})
	where := c.pos(fn.Decl.Pos())
	if len(hits) > 0 && hits[0].Pos.IsValid() {
		where = c.pos(hits[0].Pos)
	}
	r.Check(nRet > 0 && len(hits) == 0, rule, fn.Name(), "an invalid receiver is reported", where,
		"a receiver type is declared invalid without a diagnostic: the method is dropped silently, `ferret -t` accepts `fn (c: &lib::Counter) Leak() -> i32 { return c.secret; }` (a method on a foreign type reading its private field) and `fn (a: []i32) Sum()`")
	// sibling agreement: by-value forms vs. the reference branch
	asserted := func(root ast.Node, subject string) map[string]bool {
		out := map[string]bool{}
		ast.Inspect(root, func(x ast.Node) bool {
			if ta, ok := x.(*ast.TypeAssertExpr); ok && ta.Type != nil && exprStr(ta.X) == subject {
				out[exprStr(ta.Type)] = true
			}
			return true
		})
		return out
	}
	var refBranch *ast.IfStmt
	var refVar string
	ast.Inspect(fn.Decl.Body, func(x ast.Node) bool {
		ifs, ok := x.(*ast.IfStmt)
		if !ok || ifs.Init == nil {
			return true
		}
		if as, ok := ifs.Init.(*ast.AssignStmt); ok && len(as.Rhs) == 1 {
			if ta, ok := as.Rhs[0].(*ast.TypeAssertExpr); ok && ta.Type != nil && strings.HasSuffix(exprStr(ta.Type), "ReferenceType") {
				refBranch = ifs
				refVar = exprStr(as.Lhs[0])
			}
		}
		return true
	})
	if !r.Anchor(rule, refBranch != nil, "extractReceiverTypeName: branch for *ast.ReferenceType") {
		return
	}
	sig := fn.Obj.Type().(*types.Signature)
	subject := sig.Params().At(1).Name()
	top := asserted(fn.Decl.Body, subject)
	inRef := asserted(refBranch.Body, refVar+".Base")
	for _, t := range sortedKeys(top) {
		if strings.HasSuffix(t, "IdentifierExpr") || strings.HasSuffix(t, "ScopeResolutionExpr") {
			r.Check(inRef[t], rule, fn.Name(), "reference receiver handles base "+t, c.pos(refBranch.Pos()),
				"the by-value receiver form recognises "+t+" and the reference form does not: a `&module::Type` receiver falls through as unsupported")
		}
	}
}

// ---- C12.R9: a named type is resolved through its module, never by its bare name ------------------------------

func init() {
	lateInits = append(lateInits, func() {
		props["C12"].Quick = append(props["C12"].Quick, c12R9)
		props["C01"].Quick = append(props["C01"].Quick, c12R9)
		props["C12"].Explanation += " (R9) in the type checker and in MIR generation the by-name type lookup (lookupTypeSymbol) receives the Name of a NamedType only inside lookupNamedTypeSymbol, which consults the type's Module first: the private fields, the methods and the method symbols of `lib::Counter` are those of lib's declaration even when this module declares a `Counter` too or does not import lib directly."
	})
}

func c12R9(c *Ctx, r *Report) {
	const rule = "C12.R9"
	r.Describe(rule, "typechecker, mir/gen: every call of a function named lookupTypeSymbol whose name argument is <NamedType>.Name (directly or through a local initialised from it) is in a function named lookupNamedTypeSymbol, and that function reads the .Module field")
	n := 0
	for _, rel := range []string{pkgTC, pkgMIRGen} {
		wrapperSeen := false
		for _, fn := range c.AllFns(rel) {
			info := fn.Info()
			defs := localDefs(fn)
			fromNamed := func(e ast.Expr) bool {
				isNamedName := func(x ast.Expr) bool {
					sel, ok := ast.Unparen(x).(*ast.SelectorExpr)
					if !ok || sel.Sel.Name != "Name" {
						return false
					}
					nt := namedOf(info.TypeOf(sel.X))
					return nt != nil && nt.Obj().Name() == "NamedType"
				}
				if isNamedName(e) {
					return true
				}
				if o := objOf(info, e); o != nil {
					for _, d := range defs[o] {
						if isNamedName(d) {
							return true
						}
					}
				}
				return false
			}
			isWrapper := strings.HasSuffix(fn.Obj.Name(), "lookupNamedTypeSymbol")
			if isWrapper {
				wrapperSeen = true
				readsModule := false
				ast.Inspect(fn.Decl.Body, func(x ast.Node) bool {
					if sel, ok := x.(*ast.SelectorExpr); ok && sel.Sel.Name == "Module" {
						readsModule = true
					}
					return true
				})
				r.Check(readsModule, rule, fn.Name(), "resolves through NamedType.Module", c.pos(fn.Decl.Pos()), "the named-type lookup does not consult the module the type records")
			}
			for _, cl := range callsIn(fn.Decl.Body, true) {
				f := callee(info, cl)
				if f == nil || f.Name() != "lookupTypeSymbol" {
					continue
				}
				for _, a := range cl.Args {
					if !fromNamed(a) {
						continue
					}
					n++
					r.Check(isWrapper, rule, fn.Name(), "by-name lookup of "+exprStr(a), c.pos(cl.Pos()),
						"the symbol of a named type is looked up by its bare name, this module first: with `type Counter` declared here and in lib, `lib::NewCounter().Get()` calls this module's Get (prints 8 instead of 107), and a type reached through an intermediate module is not found at all, so the private-field guard of casts lets `mid::Get() as Mirror` through")
				}
			}
		}
		r.Check(wrapperSeen, rule, rel, "has a lookupNamedTypeSymbol", "-", "anchor: no module-aware named-type lookup in this package")
	}
	r.Floor(rule, n, 2, "by-name lookups of a NamedType")
}

// ---- C03.R18: an undefined type name is an error ------------------------------------------------------------------

func init() {
	lateInits = append(lateInits, func() {
		props["C03"].Quick = append(props["C03"].Quick, c03R18)
		props["C03"].Explanation += " (R18) TypeFromTypeNodeWithContext turns an identifier into a built-in type only under a test of the name beyond `!= unknown` (FromTypeName makes a type of any name), and, with a context, reports a diagnostic before it gives up on a type name."
	})
}

func c03R18(c *Ctx, r *Report) {
	const rule = "C03.R18"
	r.Describe(rule, "typechecker.TypeFromTypeNodeWithContext, case *ast.IdentifierExpr: the return of the FromTypeName result is guarded by a second test besides Equals(TypeUnknown); every `return types.TypeUnknown` of the clause is reached through a call that adds a diagnostic or across the false edge of the `ctx != nil` test")
	fn := c.LookupFn(pkgTC, "TypeFromTypeNodeWithContext")
	ftn := c.LookupFn("internal/types", "FromTypeName")
	bagAdd := c.LookupFn("internal/diagnostics", "(*DiagnosticBag).Add")
	if !r.Anchor(rule, fn != nil && ftn != nil && bagAdd != nil, "typechecker.TypeFromTypeNodeWithContext / types.FromTypeName / DiagnosticBag.Add") {
		return
	}
	info := fn.Info()
	var cc *ast.CaseClause
	ast.Inspect(fn.Decl.Body, func(x ast.Node) bool {
		if cl, ok := x.(*ast.CaseClause); ok && cc == nil {
			for _, t := range caseTypes(info, cl) {
				if nt := namedOf(t); nt != nil && nt.Obj().Name() == "IdentifierExpr" {
					cc = cl
				}
			}
		}
		return true
	})
	if !r.Anchor(rule, cc != nil, "TypeFromTypeNodeWithContext: case *ast.IdentifierExpr") {
		return
	}
	// (b) the primitive result
	var prim types.Object
	for _, st := range cc.Body {
		if as, ok := st.(*ast.AssignStmt); ok && len(as.Lhs) == 1 && len(as.Rhs) == 1 {
			if cl, ok := as.Rhs[0].(*ast.CallExpr); ok && isCallTo(info, cl, ftn.Obj) {
				prim = objOf(info, as.Lhs[0])
			}
		}
	}
	if r.Anchor(rule, prim != nil, "IdentifierExpr clause: x := types.FromTypeName(…)") {
		okGuard, seen := false, false
		for _, st := range cc.Body {
			ifs, ok := st.(*ast.IfStmt)
			if !ok || len(ifs.Body.List) == 0 {
				continue
			}
			ret, ok := ifs.Body.List[len(ifs.Body.List)-1].(*ast.ReturnStmt)
			if !ok || len(ret.Results) != 1 || objOf(info, ret.Results[0]) != prim {
				continue
			}
			seen = true
			for _, cj := range conjuncts(ifs.Cond) {
				s := exprStr(cj)
				if !strings.Contains(s, "Equals(") {
					okGuard = true
				}
			}
		}
		r.Check(seen && okGuard, rule, fn.Name(), "a built-in type name is validated", c.pos(cc.Pos()),
			"any identifier becomes a primitive type of that name: `type P struct { .X: Bar };` with Bar undeclared compiles to an executable, `fn id(a: Foo) -> Foo` is stopped only by the back end (\"unsupported alloca type\")")
	}
	// (a) giving up is reported
	callsAdd := func(n ast.Node) bool {
		hit := false
		inspectShallow(n, func(x ast.Node) bool {
			cl, ok := x.(*ast.CallExpr)
			if !ok {
				return true
			}
			f := callee(info, cl)
			if f == nil {
				return true
			}
			if f == bagAdd.Obj {
				hit = true
			} else if f.Pkg() == fn.Obj.Pkg() && f != fn.Obj && reachesAdd(c, f, bagAdd.Obj, 0) {
				hit = true
			}
			return true
		})
		return hit
	}
	nT := 0
	blk := &ast.BlockStmt{List: cc.Body, Lbrace: cc.Colon, Rbrace: cc.End()}
	// the reporting statement sits in `if ctx != nil && mod != nil { report }`: its false edge is the no-context use
	ctxGuard := map[ast.Expr]bool{}
	ast.Inspect(blk, func(x ast.Node) bool {
		if ifs, ok := x.(*ast.IfStmt); ok && strings.Contains(exprStr(ifs.Cond), "ctx != nil") {
			for _, st := range ifs.Body.List {
				if callsAdd(st) {
					ctxGuard[ifs.Cond] = true
				}
			}
		}
		return true
	})
	hits := mustFlow(c.CFGOfBody(blk), FlowSpec{
		Gate: callsAdd,
		EdgeGate: func(b *cfg.Block, succ int) bool {
			cond := condOf(b)
			if cond == nil || succ != 1 {
				return false
			}
			for g := range ctxGuard {
				if g == cond {
					return true
				}
				for _, cj := range conjuncts(g) {
					if cj == cond {
						return true
					}
				}
			}
			return false
		},
		Target: func(n ast.Node) bool {
			ret, ok := n.(*ast.ReturnStmt)
			if ok && len(ret.Results) == 1 && strings.HasSuffix(exprStr(ret.Results[0]), "TypeUnknown") {
				nT++
				return true
			}
			return false
		},
	})
	where := c.pos(cc.Pos())
	if len(hits) > 0 && hits[0].Pos.IsValid() {
		where = c.pos(hits[0].Pos)
	}
	r.Check(nT > 0 && len(hits) == 0, rule, fn.Name(), "an unknown type name is reported", where,
		"the conversion gives up on a type name without a diagnostic: the declaration is accepted with an unknown type, which every later check skips")
}

// ---- C10.R10: the length of an array type is read with the literal grammar, and must be a constant -----------

func init() {
	lateInits = append(lateInits, func() {
		props["C10"].Quick = append(props["C10"].Quick, c10R10)
		props["C03"].Quick = append(props["C03"].Quick, c10R10)
		props["C04"].Quick = append(props["C04"].Quick, c10R10)
		props["C10"].Explanation += " (R10) the length in an array type `[N]T` is evaluated by a function that reaches the integer-literal parser (parseIntLiteral) and not a scanf-style conversion, and a length that does not evaluate is reported instead of silently making the type a dynamic array."
	})
}

func c10R10(c *Ctx, r *Report) {
	const rule = "C10.R10"
	r.Describe(rule, "typechecker.TypeFromTypeNodeWithContext, case *ast.ArrayType: the function applied to the Len expression reaches parseIntLiteral within the package and no function on the way calls fmt.Sscan*; the clause adds a diagnostic on a path where the length did not evaluate")
	fn := c.LookupFn(pkgTC, "TypeFromTypeNodeWithContext")
	pil := c.LookupFn(pkgTC, "parseIntLiteral")
	bagAdd := c.LookupFn("internal/diagnostics", "(*DiagnosticBag).Add")
	if !r.Anchor(rule, fn != nil && pil != nil && bagAdd != nil, "typechecker.TypeFromTypeNodeWithContext / parseIntLiteral / DiagnosticBag.Add") {
		return
	}
	info := fn.Info()
	var cc *ast.CaseClause
	ast.Inspect(fn.Decl.Body, func(x ast.Node) bool {
		if cl, ok := x.(*ast.CaseClause); ok && cc == nil {
			for _, t := range caseTypes(info, cl) {
				if nt := namedOf(t); nt != nil && nt.Obj().Name() == "ArrayType" {
					cc = cl
				}
			}
		}
		return true
	})
	if !r.Anchor(rule, cc != nil, "TypeFromTypeNodeWithContext: case *ast.ArrayType") {
		return
	}
	// reaches: f (transitively, same package, depth <= 4) calls parseIntLiteral; scans: some function on the way calls fmt.Sscan*
	var reach func(f *types.Func, depth int, seen map[*types.Func]bool) (bool, bool)
	reach = func(f *types.Func, depth int, seen map[*types.Func]bool) (reaches, scans bool) {
		if f == pil.Obj {
			return true, false
		}
		hf := c.FnOf(f)
		if hf == nil || hf.Decl == nil || hf.Decl.Body == nil || depth > 4 || seen[f] {
			return false, false
		}
		seen[f] = true
		for _, cl := range callsIn(hf.Decl.Body, true) {
			g := callee(hf.Info(), cl)
			if g == nil || g.Pkg() == nil {
				continue
			}
			if g.Pkg().Path() == "fmt" && strings.HasPrefix(g.Name(), "Sscan") {
				scans = true
			}
			if g.Pkg() == fn.Obj.Pkg() {
				r2, s2 := reach(g, depth+1, seen)
				reaches = reaches || r2
				scans = scans || s2
			}
		}
		return
	}
	evaluated, scanned := false, false
	for _, st := range cc.Body {
		for _, cl := range callsIn(st, false) {
			usesLen := false
			for _, a := range cl.Args {
				if strings.HasSuffix(exprStr(a), ".Len") {
					usesLen = true
				}
			}
			f := callee(info, cl)
			if !usesLen || f == nil || f.Pkg() != fn.Obj.Pkg() {
				continue
			}
			r1, s1 := reach(f, 0, map[*types.Func]bool{})
			evaluated = evaluated || r1
			scanned = scanned || s1
		}
	}
	r.Check(evaluated && !scanned, rule, fn.Name(), "the array length is read with the integer-literal grammar", c.pos(cc.Pos()),
		"the length of `[N]T` is converted with a decimal scan: `[0x3]i32` is an array of 0 elements and `[1_0]i32` one of 1 — the literal does not keep its value")
	reports := false
	for _, st := range cc.Body {
		ast.Inspect(st, func(x ast.Node) bool {
			cl, ok := x.(*ast.CallExpr)
			if !ok {
				return true
			}
			f := callee(info, cl)
			if f == nil {
				return true
			}
			if f == bagAdd.Obj {
				reports = true
			} else if f.Pkg() == fn.Obj.Pkg() && f != fn.Obj && reachesAdd(c, f, bagAdd.Obj, 0) {
				for _, a := range cl.Args {
					if strings.Contains(exprStr(a), ".Len") {
						reports = true
					}
				}
			}
			return true
		})
	}
	r.Check(reports, rule, fn.Name(), "a length that is not a constant is reported", c.pos(cc.Pos()),
		"an array type whose length does not evaluate silently becomes a dynamic array: `const N := 2; let a: [N]i32 = [1, 2, 3];`, `[1+1]i32` and `[-1]i32` accept three elements")
}

// reachesAdd: f calls add directly or through same-package helpers (depth <= 2).
func reachesAdd(c *Ctx, f, add *types.Func, depth int) bool {
	hf := c.FnOf(f)
	if hf == nil || hf.Decl == nil || hf.Decl.Body == nil || depth > 2 {
		return false
	}
	for _, cl := range callsIn(hf.Decl.Body, true) {
		g := callee(hf.Info(), cl)
		if g == nil {
			continue
		}
		if g == add {
			return true
		}
		if g.Pkg() == f.Pkg() && g != f && reachesAdd(c, g, add, depth+1) {
			return true
		}
	}
	return false
}

// ---- C06.R9: an immutable reference in the place chain need not have a name ---------------------------------------

func init() {
	lateInits = append(lateInits, func() {
		props["C06"].Quick = append(props["C06"].Quick, c06R9)
		props["C07"].Quick = append(props["C07"].Quick, c06R9)
		props["C06"].Explanation += " (R9) the mutability gate finds an immutable reference anywhere in the place chain: in findImmutableRefInChain the selector and the index case return the result of a test of the base expression's own type (a call result, a struct field or an array element holding a &T), checkMutability accepts a finding without a symbol, and the &'-receiver method call tests the type of the value it is called on."
	})
}

func c06R9(c *Ctx, r *Report) {
	const rule = "C06.R9"
	r.Describe(rule, "typechecker.findImmutableRefInChain: the *ast.SelectorExpr and *ast.IndexExpr clauses return the result of a function that reads ReferenceType.Mutable on the base expression; checkMutability treats a non-nil location as a finding; checkSelectorExpr calls that function on the receiver expression of a &'-receiver method")
	fn := c.LookupFn(pkgTC, "findImmutableRefInChain")
	cm := c.LookupFn(pkgTC, "checkMutability")
	cs := c.LookupFn(pkgTC, "checkSelectorExpr")
	fld := c.fieldObj(pkgTypes, "ReferenceType", "Mutable")
	if !r.Anchor(rule, fn != nil && cm != nil && cs != nil && fld != nil, "typechecker findImmutableRefInChain / checkMutability / checkSelectorExpr / ReferenceType.Mutable") {
		return
	}
	readsMutable := func(f *types.Func) bool {
		hf := c.FnOf(f)
		if hf == nil || hf.Decl == nil || hf.Decl.Body == nil || f == fn.Obj {
			return false
		}
		hit := false
		ast.Inspect(hf.Decl.Body, func(x ast.Node) bool {
			if sel, ok := x.(*ast.SelectorExpr); ok && hf.Info().Uses[sel.Sel] == fld {
				hit = true
			}
			return true
		})
		return hit
	}
	info := fn.Info()
	for _, tn := range []string{"SelectorExpr", "IndexExpr"} {
		var cc *ast.CaseClause
		ast.Inspect(fn.Decl.Body, func(x ast.Node) bool {
			if cl, ok := x.(*ast.CaseClause); ok && cc == nil {
				for _, t := range caseTypes(info, cl) {
					if nt := namedOf(t); nt != nil && nt.Obj().Name() == tn {
						cc = cl
					}
				}
			}
			return true
		})
		if !r.Anchor(rule, cc != nil, "findImmutableRefInChain: case *ast."+tn) {
			continue
		}
		ok := false
		for _, st := range cc.Body {
			ast.Inspect(st, func(x ast.Node) bool {
				ret, isRet := x.(*ast.ReturnStmt)
				if !isRet {
					return true
				}
				for _, e := range ret.Results {
					if cl, isCall := ast.Unparen(e).(*ast.CallExpr); isCall {
						if f := callee(info, cl); f != nil && readsMutable(f) {
							for _, a := range cl.Args {
								if strings.HasSuffix(exprStr(a), ".X") {
									ok = true
								}
							}
						}
					}
				}
				return true
			})
		}
		r.Check(ok, rule, fn.Name(), "case "+tn+": the type of the base expression is tested", c.pos(cc.Pos()),
			"only variables are recognised as immutable references: a &T that is a call result, a struct field or an array element is written through — `type Holder struct { .P: &Point }; h.P.X = 5;` and `let arr: [1]&Point = [&p]; arr[0].X = 5;` change p")
	}
	// checkMutability: a location alone is a finding
	locOnly := false
	ast.Inspect(cm.Decl.Body, func(x ast.Node) bool {
		if ifs, ok := x.(*ast.IfStmt); ok {
			s := exprStr(ifs.Cond)
			if strings.Contains(s, "loc != nil") {
				ast.Inspect(ifs.Body, func(y ast.Node) bool {
					if id, ok := y.(*ast.Ident); ok && id.Name == "MutabilityImmutableRef" {
						locOnly = true
					}
					return true
				})
			}
		}
		return true
	})
	r.Check(locOnly, rule, cm.Name(), "an unnamed immutable reference is a finding", c.pos(cm.Decl.Pos()), "checkMutability reports an immutable reference only when a symbol was found: the unnamed ones are dropped")
	// checkSelectorExpr: &'-receiver call on a value of immutable reference type
	csInfo := cs.Info()
	recvTest := false
	for _, cl := range callsIn(cs.Decl.Body, true) {
		if f := callee(csInfo, cl); f != nil && readsMutable(f) && f.Name() != "checkMutability" {
			for _, a := range cl.Args {
				if strings.HasSuffix(exprStr(a), ".X") {
					recvTest = true
				}
			}
		}
	}
	r.Check(recvTest, rule, cs.Name(), "a &'-receiver method is not called on an immutable reference value", c.pos(cs.Decl.Pos()),
		"`get(&p).bump()` with `fn get(p: &Point) -> &Point` and `fn (p: &'Point) bump()` is accepted and changes p through the immutable reference")
}

// ---- C06.R10: a copy that shares storage is recognised through structs, fixed arrays and optionals --------------

func init() {
	lateInits = append(lateInits, func() {
		props["C06"].Quick = append(props["C06"].Quick, c06R10)
		props["C06"].Explanation += " (R10) the predicate with which reportMutableAliasOfImmutable decides that a copy shares storage with its source is recursive: it has a case for maps, one for arrays (dynamic, or by their element), and one for structs that visits every field."
	})
}

func c06R10(c *Ctx, r *Report) {
	const rule = "C06.R10"
	r.Describe(rule, "typechecker.reportMutableAliasOfImmutable: the sharing test is a call to a function whose type switch has cases *types.MapType, *types.ArrayType and *types.StructType, and whose struct case calls the function itself inside a range over .Fields")
	fn := c.LookupFn(pkgTC, "reportMutableAliasOfImmutable")
	if !r.Anchor(rule, fn != nil, "typechecker.reportMutableAliasOfImmutable") {
		return
	}
	info := fn.Info()
	ok, where := false, c.pos(fn.Decl.Pos())
	// the sharing test: a same-package callee, or a callee of one (the test may be wrapped in a helper that
	// also looks through references)
	var candidates []*types.Func
	for _, cl := range callsIn(fn.Decl.Body, false) {
		f := callee(info, cl)
		hf := c.FnOf(f)
		if f == nil || hf == nil || hf.Decl == nil || hf.Decl.Body == nil || f.Pkg() != fn.Obj.Pkg() {
			continue
		}
		candidates = append(candidates, f)
		for _, cl2 := range callsIn(hf.Decl.Body, false) {
			if g := callee(hf.Info(), cl2); g != nil && g.Pkg() == fn.Obj.Pkg() {
				candidates = append(candidates, g)
			}
		}
	}
	for _, f := range candidates {
		hf := c.FnOf(f)
		if hf == nil || hf.Decl == nil || hf.Decl.Body == nil {
			continue
		}
		cases := map[string]*ast.CaseClause{}
		ast.Inspect(hf.Decl.Body, func(x ast.Node) bool {
			if cc, isCC := x.(*ast.CaseClause); isCC {
				for _, t := range caseTypes(hf.Info(), cc) {
					if nt := namedOf(t); nt != nil {
						cases[nt.Obj().Name()] = cc
					}
				}
			}
			return true
		})
		if cases["MapType"] == nil || cases["ArrayType"] == nil || cases["StructType"] == nil {
			continue
		}
		recursive := false
		for _, st := range cases["StructType"].Body {
			ast.Inspect(st, func(x ast.Node) bool {
				rs, isRange := x.(*ast.RangeStmt)
				if isRange && strings.HasSuffix(exprStr(rs.X), ".Fields") && nodeCalls(hf.Info(), rs.Body, f) != nil {
					recursive = true
				}
				return true
			})
		}
		if recursive {
			ok = true
			where = c.pos(hf.Decl.Pos())
		}
	}
	r.Check(ok, rule, fn.Name(), "storage shared through a field or an element is recognised", where,
		"only a value that is itself a dynamic array or a map counts as sharing storage when copied: `const s: S = {.Items = [1, 2, 3]}; let t := s; t.Items[0] = 9;` is accepted and changes the constant's array")
}

// ---- C15.R12: every module's functions carry the module prefix ---------------------------------------------------

func init() {
	lateInits = append(lateInits, func() {
		props["C15"].Quick = append(props["C15"].Quick, c15R12)
		props["C15"].Explanation += " (R12) in both back ends the function-name builder leaves a name without the module prefix only for `main` or an empty import path: the functions of the entry module are prefixed like all others, so none of them can coincide with the prefixed name of another module's function."
	})
}

func c15R12(c *Ctx, r *Report) {
	const rule = "C15.R12"
	r.Describe(rule, "qbe.qbeFuncName, wasm.funcName: the condition under which the module prefix is added is a conjunction of tests of the function name against \"main\" and of the import path against \"\" only")
	for _, sd := range []struct{ pkg, fn string }{{pkgQBE, "(*Generator).qbeFuncName"}, {pkgWasm, "(*Generator).funcName"}} {
		fn := c.LookupFn(sd.pkg, sd.fn)
		if !r.Anchor(rule, fn != nil, sd.pkg+"."+sd.fn) {
			continue
		}
		info := fn.Info()
		var guard *ast.IfStmt
		ast.Inspect(fn.Decl.Body, func(x ast.Node) bool {
			if ifs, ok := x.(*ast.IfStmt); ok && guard == nil {
				if len(ifs.Body.List) > 0 {
					if _, isRet := ifs.Body.List[len(ifs.Body.List)-1].(*ast.ReturnStmt); isRet {
						guard = ifs
					}
				}
			}
			return true
		})
		if !r.Anchor(rule, guard != nil, fn.Name()+": if … { return prefix + … }") {
			continue
		}
		bad := ""
		for _, cj := range conjuncts(guard.Cond) {
			be, ok := isBinOp(cj, token.NEQ)
			if !ok {
				bad = exprStr(cj)
				continue
			}
			v := constOf(info, be.Y)
			o := objOf(info, be.X)
			if v == nil || v.Kind() != constant.String || o == nil || !isParamOf(fn, o) {
				bad = exprStr(cj)
				continue
			}
			if s := constant.StringVal(v); s != "main" && s != "" {
				bad = exprStr(cj)
			}
		}
		r.Check(bad == "", rule, fn.Name(), "only main goes without the module prefix", c.pos(guard.Pos()),
			"the prefix is left off under the further condition `"+bad+"`: the functions of that module keep their source names, and one of them can spell the prefixed name of another module's function — `fn mang_0a_F()` in the entry module and `F` in module mang/a are both emitted as mang_0a_F (\"multiple definition\", link failure)")
	}
}

// ---- C01.R18: a captured variable is boxed where it is declared ---------------------------------------------------

func init() {
	lateInits = append(lateInits, func() {
		props["C01"].Quick = append(props["C01"].Quick, c01R18)
		props["C09"].Quick = append(props["C09"].Quick, c01R18)
		props["C01"].Explanation += " (R18) a local variable that a function literal captures gets its heap box at its declaration: HIR generation marks the symbol of every capture (Symbol.Captured), and lowerDeclItem calls boxCapturedIdent under a test of that mark — so the box exists on every path that reads the variable, also when the literal sits in a branch that is not taken or in a loop whose condition was lowered before it."
	})
}

func c01R18(c *Ctx, r *Report) {
	const rule = "C01.R18"
	r.Describe(rule, "hir/gen lowerFuncLit assigns Symbol.Captured = true inside a range over the literal's Captures; mir/gen lowerDeclItem calls boxCapturedIdent under a condition that reads Symbol.Captured; the field is written nowhere else")
	fld := c.fieldObj(pkgSymbols, "Symbol", "Captured")
	lf := c.LookupFn("internal/hir/gen", "(*Generator).lowerFuncLit")
	ld := c.LookupFn(pkgMIRGen, "(*functionBuilder).lowerDeclItem")
	box := c.LookupFn(pkgMIRGen, "(*functionBuilder).boxCapturedIdent")
	if !r.Anchor(rule, lf != nil && ld != nil && box != nil, "hir/gen lowerFuncLit / mir/gen lowerDeclItem / boxCapturedIdent") {
		return
	}
	if fld == nil {
		r.Fail(rule, ld.Name(), "captured variables are boxed at their declaration", c.pos(ld.Decl.Pos()),
			"symbols carry no mark for `captured by a function literal`: the heap box of a captured variable is made where the literal is lowered, and every read lowered after that point uses the box — also on paths that never ran the literal. `let total := 10; if flag { let add := fn(n: i32) { total = total + n; }; add(5); } return total;` crashes with SIGSEGV for flag == false, and a `while n < 4 { let h := fn() -> i32 { return n * 10; }; …; n = n + 1; }` never ends")
		return
	}
	// (a) marking
	marks := false
	ast.Inspect(lf.Decl.Body, func(x ast.Node) bool {
		rs, ok := x.(*ast.RangeStmt)
		if !ok || !strings.HasSuffix(exprStr(rs.X), ".Captures") {
			return true
		}
		ast.Inspect(rs.Body, func(y ast.Node) bool {
			if as, ok := y.(*ast.AssignStmt); ok && len(as.Lhs) == 1 && len(as.Rhs) == 1 {
				if sel, ok := ast.Unparen(as.Lhs[0]).(*ast.SelectorExpr); ok && lf.Info().Uses[sel.Sel] == fld {
					if v := constOf(lf.Info(), as.Rhs[0]); v != nil && boolVal(v) {
						marks = true
					}
				}
			}
			return true
		})
		return true
	})
	r.Check(marks, rule, lf.Name(), "every capture marks its symbol", c.pos(lf.Decl.Pos()), "a function literal's captures are not marked on their symbols: the declaration cannot know that the variable needs a box")
	// (b) boxing at the declaration
	boxes := false
	ast.Inspect(ld.Decl.Body, func(x ast.Node) bool {
		ifs, ok := x.(*ast.IfStmt)
		if !ok {
			return true
		}
		reads := false
		ast.Inspect(ifs.Cond, func(y ast.Node) bool {
			if sel, ok := y.(*ast.SelectorExpr); ok && ld.Info().Uses[sel.Sel] == fld {
				reads = true
			}
			return true
		})
		if reads && nodeCalls(ld.Info(), ifs.Body, box.Obj) != nil {
			boxes = true
		}
		return true
	})
	r.Check(boxes, rule, ld.Name(), "captured variables are boxed at their declaration", c.pos(ld.Decl.Pos()),
		"the box of a captured variable is made only where the literal is lowered: reads lowered later use it on paths that never created it (SIGSEGV when the literal's branch is not taken), reads lowered earlier keep the stack slot (a loop condition never sees the updates)")
	// (c) writers
	n := 0
	for _, p := range c.Pkgs {
		for _, fn := range c.AllFns(relOf(p.PkgPath)) {
			ast.Inspect(fn.Decl.Body, func(x ast.Node) bool {
				as, ok := x.(*ast.AssignStmt)
				if !ok {
					return true
				}
				for _, l := range as.Lhs {
					if sel, ok := ast.Unparen(l).(*ast.SelectorExpr); ok && fn.Info().Uses[sel.Sel] == fld {
						n++
						r.Check(fn.Obj == lf.Obj, rule, fn.Name(), "writes Symbol.Captured", c.pos(as.Pos()), "the capture mark is written outside the lowering of function literals")
					}
				}
				return true
			})
		}
	}
	r.Floor(rule, n, 1, "writes of Symbol.Captured")
}

// ---- C13.R20 / C13.R21: a phi names the block its value arrives from ----------------------------------------------

func init() {
	lateInits = append(lateInits, func() {
		props["C13"].Quick = append(props["C13"].Quick, c13R20, c13R21)
		props["C01"].Quick = append(props["C01"].Quick, c13R20, c13R21)
		props["C13"].Explanation += " (R20) in MIR generation the predecessor of a phi operand whose value was produced by lowering a sub-expression or a block is the builder's current block after that lowering, not the block that was current before it. (R21) the QBE emitter names phi predecessors through a placeholder that is resolved once the function is emitted, and every label under which an instruction emitter continues a block is registered as that block's exit (emitContinuationLabel); labels emitted directly are dead ends (panic, ret)."
	})
}

func c13R20(c *Ctx, r *Report) {
	const rule = "C13.R20"
	r.Describe(rule, "mir/gen: for every mir.PhiIncoming{Pred: V.ID}, V is assigned from b.current, or no lowerExpr/lowerBlock/lowerValueExpr call lies between b.setBlock(V) and the next setBlock")
	n := 0
	lowering := map[string]bool{"lowerExpr": true, "lowerBlock": true, "lowerValueExpr": true, "lowerCall": true, "lowerNode": true}
	for _, fn := range c.AllFns(pkgMIRGen) {
		info := fn.Info()
		defs := localDefs(fn)
		var incomings []*ast.CompositeLit
		ast.Inspect(fn.Decl.Body, func(x ast.Node) bool {
			if cl, ok := x.(*ast.CompositeLit); ok {
				if nt := namedOf(info.TypeOf(cl)); nt != nil && nt.Obj().Name() == "PhiIncoming" {
					incomings = append(incomings, cl)
				}
			}
			return true
		})
		if len(incomings) == 0 {
			continue
		}
		// textual order of the setBlock calls and the lowering calls
		type ev struct {
			pos    token.Pos
			set    types.Object
			isLow  bool
			lowStr string
		}
		var evs []ev
		for _, cl := range callsIn(fn.Decl.Body, false) {
			f := callee(info, cl)
			if f == nil {
				continue
			}
			if f.Name() == "setBlock" && len(cl.Args) == 1 {
				evs = append(evs, ev{pos: cl.Pos(), set: objOf(info, cl.Args[0])})
			} else if lowering[f.Name()] {
				evs = append(evs, ev{pos: cl.Pos(), isLow: true, lowStr: exprStr(cl)})
			}
		}
		sort.Slice(evs, func(i, j int) bool { return evs[i].pos < evs[j].pos })
		for _, inc := range incomings {
			for _, e := range inc.Elts {
				kv, ok := e.(*ast.KeyValueExpr)
				if !ok || exprStr(kv.Key) != "Pred" {
					continue
				}
				sel, ok := ast.Unparen(kv.Value).(*ast.SelectorExpr)
				if !ok || sel.Sel.Name != "ID" {
					continue
				}
				v := objOf(info, sel.X)
				if v == nil {
					continue
				}
				n++
				fromCurrent := false
				for _, d := range defs[v] {
					if s := exprStr(d); s == "b.current" {
						fromCurrent = true
					}
				}
				bad := ""
				if !fromCurrent {
					active := false
					for _, e := range evs {
						if e.pos > inc.Pos() {
							break
						}
						if !e.isLow {
							active = e.set == v
							continue
						}
						if active {
							bad = e.lowStr
						}
					}
				}
				r.Check(bad == "", rule, fn.Name(), "phi operand from "+v.Name()+" names the block the value arrives from", c.pos(inc.Pos()),
					"the phi names the block "+v.Name()+" as predecessor although "+bad+" was lowered in it afterwards and may have moved to another block: `div(1, 0) catch e { if e == \"x\" { … } io::Println(e); } -1` is rejected by QBE (\"predecessors not matched in phi\")")
			}
		}
	}
	r.Floor(rule, n, 4, "phi operands in mir/gen")
}

func c13R21(c *Ctx, r *Report) {
	const rule = "C13.R21"
	r.Describe(rule, "qbe: emitPhi does not call blockName for its predecessors (they are placeholders resolved by a function that reads blockExit); an emitLine of a `@label` in an instruction emitter is followed within the same statement list by the emission of `ret`, or goes through emitContinuationLabel")
	phi := c.LookupFn(pkgQBE, "(*Generator).emitPhi")
	bn := c.LookupFn(pkgQBE, "(*Generator).blockName")
	cont := c.LookupFn(pkgQBE, "(*Generator).emitContinuationLabel")
	emitLine := c.LookupFn(pkgQBE, "(*Generator).emitLine")
	if !r.Anchor(rule, phi != nil && bn != nil && emitLine != nil, "qbe emitPhi / blockName / emitLine") {
		return
	}
	r.Check(cont != nil && nodeCalls(phi.Info(), phi.Decl.Body, bn.Obj) == nil, rule, phi.Name(), "phi predecessors are resolved after the function is emitted", c.pos(phi.Decl.Pos()),
		"the phi names the MIR block of its predecessor, but an inline run-time check may have continued that block under another label: `flag && [10, 20, 30][one()] == 20` is rejected by QBE (\"predecessors not matched in phi\")")
	if cont == nil {
		return
	}
	n := 0
	for _, fn := range c.AllFns(pkgQBE) {
		if fn.Obj == cont.Obj || fn.Obj.Name() == "emitBlock" || fn.Obj.Name() == "emitFunction" {
			continue
		}
		info := fn.Info()
		ast.Inspect(fn.Decl.Body, func(x ast.Node) bool {
			var list []ast.Stmt
			switch b := x.(type) {
			case *ast.BlockStmt:
				list = b.List
			case *ast.CaseClause:
				list = b.Body
			default:
				return true
			}
			for i, st := range list {
				es, ok := st.(*ast.ExprStmt)
				if !ok {
					continue
				}
				cl, ok := es.X.(*ast.CallExpr)
				if !ok || !isCallTo(info, cl, emitLine.Obj) || len(cl.Args) != 1 {
					continue
				}
				isLabel := false
				ast.Inspect(cl.Args[0], func(y ast.Node) bool {
					if bl, ok := y.(*ast.BasicLit); ok && bl.Kind == token.STRING && strings.HasPrefix(strings.Trim(bl.Value, "\"`"), "@") {
						isLabel = true
					}
					return true
				})
				if !isLabel {
					continue
				}
				n++
				deadEnd := false
				for j := i + 1; j < len(list) && j <= i+5; j++ {
					if es2, ok := list[j].(*ast.ExprStmt); ok {
						if cl2, ok := es2.X.(*ast.CallExpr); ok && isCallTo(info, cl2, emitLine.Obj) && len(cl2.Args) == 1 {
							if v := constOf(info, cl2.Args[0]); v != nil && v.Kind() == constant.String && strings.HasPrefix(constant.StringVal(v), "ret") {
								deadEnd = true
							}
						}
						if cl2, ok := es2.X.(*ast.CallExpr); ok && isCallTo(info, cl2, cont.Obj) {
							break
						}
					}
				}
				r.Check(deadEnd, rule, fn.Name(), "inline label "+exprStr(cl.Args[0])+" is a dead end", c.pos(cl.Pos()),
					"an instruction emitter opens a label and goes on emitting the block under it without registering it: phis in the successors name a block that does not jump to them")
			}
			return true
		})
	}
	r.Floor(rule, n, 3, "inline labels in instruction emitters")
}

// ---- C18.R9: 16- and 32-byte payloads of a tagged slot are copied before use ----------------------------------------

func init() {
	lateInits = append(lateInits, func() {
		props["C18"].Quick = append(props["C18"].Quick, c18R9)
		props["C16"].Quick = append(props["C16"].Quick, c18R9)
		props["C18"].Explanation += " (R9) in the C runtime's print_union the payload pointer, which lies 4 bytes behind the tag, is never cast to a pointer to a 128- or 256-bit number type: those payloads are copied into a local of their type (memcpy) before they are read, since the compiler may load them with instructions that need 16-byte alignment."
	})
}

func c18R9(c *Ctx, r *Report) {
	const rule = "C18.R9"
	r.Describe(rule, "runtime/libs/io.c print_union: no cast of the payload pointer (the variable defined as the argument plus a non-multiple of 16) to `ferret_{i,u,f}{128,256} *`")
	cf := cLoad(c, r, rule, "runtime/libs/io.c")
	if cf == nil {
		return
	}
	fn := cf.Funcs["print_union"]
	if !r.Anchor(rule, fn != nil && fn.Body() != nil, "io.c:print_union") {
		return
	}
	// the payload variable: initialised with `<cast>param + <n>`
	payload := ""
	fn.Walk(func(x *CNode) bool {
		if x.Kind == "VarDecl" && len(x.Inner) == 1 {
			src := x.Inner[0].Src()
			if strings.Contains(src, "+ 4") || strings.Contains(src, "+4") {
				payload = x.Name
			}
		}
		return true
	})
	if !r.Anchor(rule, payload != "", "print_union: payload pointer = union_ptr + 4") {
		return
	}
	n := 0
	bad := ""
	var badNode *CNode
	fn.Walk(func(x *CNode) bool {
		if x.Kind != "CStyleCastExpr" || len(x.Inner) != 1 {
			return true
		}
		o := x.Inner[0].strip()
		if o == nil || o.Ref != payload {
			return true
		}
		n++
		t := x.Type
		for _, big := range []string{"i128", "u128", "f128", "i256", "u256", "f256"} {
			if strings.Contains(t, "ferret_"+big) {
				bad = t
				badNode = x
			}
		}
		return true
	})
	where := c.cpos(cf, fn)
	if badNode != nil {
		where = c.cpos(cf, badNode)
	}
	r.Check(bad == "", rule, "io.c:print_union", "wide payloads are copied to aligned storage", where,
		"the payload at offset 4 of the slot is used in place as `"+bad+"`: `let f: f128 = 1.5; io::Println(f);` dies with SIGSEGV (an aligned 16-byte load from an address that is 4 mod 16)")
	r.Floor(rule, n, 8, "casts of the payload pointer in print_union")
}

// ---- C18.R10: a phi of a value that lives in memory is a phi of addresses ---------------------------------------

func init() {
	lateInits = append(lateInits, func() {
		props["C18"].Quick = append(props["C18"].Quick, c18R10)
		props["C01"].Quick = append(props["C01"].Quick, c18R10)
		props["C18"].Explanation += " (R10) the QBE emitPhi tests needsByRefType on the phi's type before it asks for the QBE type: a merge of struct, fixed-array or interface values merges their addresses, like every other instruction result of such a type."
	})
}

func c18R10(c *Ctx, r *Report) {
	const rule = "C18.R10"
	r.Describe(rule, "qbe emitPhi: the call of qbeType is preceded by an if on needsByRefType(<phi type>) whose body re-types the phi as a reference")
	fn := c.LookupFn(pkgQBE, "(*Generator).emitPhi")
	nb := c.LookupFn(pkgQBE, "(*Generator).needsByRefType")
	qt := c.LookupFn(pkgQBE, "(*Generator).qbeType")
	if !r.Anchor(rule, fn != nil && nb != nil && qt != nil, "qbe emitPhi / needsByRefType / qbeType") {
		return
	}
	info := fn.Info()
	var qtPos token.Pos
	for _, cl := range callsIn(fn.Decl.Body, false) {
		if isCallTo(info, cl, qt.Obj) && (qtPos == token.NoPos || cl.Pos() < qtPos) {
			qtPos = cl.Pos()
		}
	}
	ok := false
	ast.Inspect(fn.Decl.Body, func(x ast.Node) bool {
		ifs, isIf := x.(*ast.IfStmt)
		if !isIf || ifs.Pos() > qtPos || nodeCalls(info, ifs.Cond, nb.Obj) == nil {
			return true
		}
		ast.Inspect(ifs.Body, func(y ast.Node) bool {
			if cl, isCall := y.(*ast.CallExpr); isCall {
				if f := callee(info, cl); f != nil && f.Name() == "NewReference" {
					ok = true
				}
			}
			return true
		})
		return true
	})
	r.Check(ok && qtPos != token.NoPos, rule, fn.Name(), "a phi of a by-reference type merges addresses", c.pos(fn.Decl.Pos()),
		"the phi asks for the QBE type of a struct: `let v := div(1) catch d;` with a struct Ok payload is refused by the native back end (\"qbe: unsupported type struct { … }\") although the same shape with `?? d` on an optional compiles")
}

// ---- C04.R9: the constant walk is sound across control flow, and decides a use where it stands -----------------

func init() {
	lateInits = append(lateInits, func() {
		props["C04"].Quick = append(props["C04"].Quick, c04R9)
		props["C08"].Quick = append(props["C08"].Quick, c04R9)
		props["C09"].Quick = append(props["C09"].Quick, c04R9)
		props["C04"].Explanation += " (R9) the constant-propagation walk of hir/analysis forgets, after every statement that may or may not run (if/else, loop body, match arm, catch handler, closure body) — and before a loop — the variables assigned inside it; it folds a decided index and a decided match pattern into the tree at the point of use; and (R1) it drops the values of variables when the function is done, so that code generation can only see literals and constants."
	})
}

func c04R9(c *Ctx, r *Report) {
	const rule = "C04.R9"
	r.Describe(rule, "hir/analysis walkNodeConstEval: in the IfStmt, ForStmt, WhileStmt and MatchStmt cases the last walk of a body is followed by forgetAssigned (loops: also preceded by one); catch handlers and closure bodies go through walkConditional, which forgets after the walk; forgetAssigned sets ConstValue = nil; the assignment / ++ / -- / &' sites call markAssigned; checkArrayBounds stores a literal into the IndexExpr's Index and the MatchStmt case folds the pattern")
	wn := c.LookupFn(pkgHIRAn, "walkNodeConstEval")
	we := c.LookupFn(pkgHIRAn, "walkExprConstEval")
	wa := c.LookupFn(pkgHIRAn, "walkAssignConstEval")
	fa := c.LookupFn(pkgHIRAn, "forgetAssigned")
	ma := c.LookupFn(pkgHIRAn, "markAssigned")
	cab := c.LookupFn(pkgHIRAn, "checkArrayBounds")
	if !r.Anchor(rule, wn != nil && we != nil && wa != nil && cab != nil, "hir/analysis walkNodeConstEval / walkExprConstEval / walkAssignConstEval / checkArrayBounds") {
		return
	}
	if fa == nil || ma == nil {
		r.Fail(rule, wn.Name(), "conditional statements forget what they assign", c.pos(wn.Decl.Pos()),
			"the walk follows the statements in textual order and keeps one value per variable: after `if never() { i = 3; }` the index i is 3, inside `while i < 4 { a[i]; i = i + 1; }` it is the value of the last assignment — a fixed-array access compiles to another element than the one the program indexes, and a valid index into a dynamic array is rejected at compile time")
		return
	}
	info := wn.Info()
	isBodyWalk := func(cl *ast.CallExpr) bool {
		f := callee(info, cl)
		if f == nil || !(f.Name() == "walkBlockConstEval" || f.Name() == "walkNodeConstEval") || len(cl.Args) != 3 {
			return false
		}
		s := exprStr(cl.Args[2])
		return strings.HasSuffix(s, ".Body") || strings.HasSuffix(s, ".Else")
	}
	for _, tn := range []string{"IfStmt", "ForStmt", "WhileStmt", "MatchStmt"} {
		var cc *ast.CaseClause
		ast.Inspect(wn.Decl.Body, func(x ast.Node) bool {
			if cl, ok := x.(*ast.CaseClause); ok && cc == nil {
				for _, t := range caseTypes(info, cl) {
					if nt := namedOf(t); nt != nil && nt.Obj().Name() == tn {
						cc = cl
					}
				}
			}
			return true
		})
		if !r.Anchor(rule, cc != nil, "walkNodeConstEval: case *hir."+tn) {
			continue
		}
		var firstBody, lastBody, firstForget, lastForget token.Pos
		for _, st := range cc.Body {
			for _, cl := range callsIn(st, false) {
				if isBodyWalk(cl) {
					if firstBody == token.NoPos {
						firstBody = cl.Pos()
					}
					lastBody = cl.Pos()
				}
				if isCallTo(info, cl, fa.Obj) {
					if firstForget == token.NoPos {
						firstForget = cl.Pos()
					}
					lastForget = cl.Pos()
				}
			}
		}
		ok := lastBody != token.NoPos && lastForget > lastBody
		if tn == "ForStmt" || tn == "WhileStmt" {
			ok = ok && firstForget != token.NoPos && firstForget < firstBody
		}
		r.Check(ok, rule, wn.Name(), "case "+tn+": what the body assigns is forgotten", c.pos(cc.Pos()),
			"the body of this statement is walked like straight-line code: a value assigned in a branch that is not taken, or in a later iteration, is believed at every use that follows in the text")
	}
	// forgetAssigned really forgets
	nils := false
	ast.Inspect(fa.Decl.Body, func(x ast.Node) bool {
		if as, ok := x.(*ast.AssignStmt); ok && len(as.Lhs) == 1 && len(as.Rhs) == 1 {
			if sel, ok := ast.Unparen(as.Lhs[0]).(*ast.SelectorExpr); ok && sel.Sel.Name == "ConstValue" {
				if tv, ok := fa.Info().Types[as.Rhs[0]]; ok && tv.IsNil() {
					nils = true
				}
			}
		}
		return true
	})
	r.Check(nils, rule, fa.Name(), "sets ConstValue = nil", c.pos(fa.Decl.Pos()), "forgetAssigned no longer clears the value")
	// the mutation sites are collected
	for _, site := range []struct {
		fn   *Fn
		what string
	}{{wa, "assignment"}, {we, "++ / -- / &'"}} {
		r.Check(nodeCalls(site.fn.Info(), site.fn.Decl.Body, ma.Obj) != nil, rule, site.fn.Name(), site.what+" marks its target as assigned", c.pos(site.fn.Decl.Pos()),
			"a way of changing a variable is not collected: the statement that contains it does not forget the variable")
	}
	// catch handlers and closure bodies
	wc := c.LookupFn(pkgHIRAn, "walkConditional")
	wcc := c.LookupFn(pkgHIRAn, "walkCatchClauseConstEval")
	if r.Anchor(rule, wc != nil && wcc != nil, "hir/analysis walkConditional / walkCatchClauseConstEval") {
		r.Check(nodeCalls(wcc.Info(), wcc.Decl.Body, wc.Obj) != nil, rule, wcc.Name(), "a catch handler is walked as a conditional", c.pos(wcc.Decl.Pos()), "what an error handler assigns is believed on the path without an error")
		r.Check(nodeCalls(we.Info(), we.Decl.Body, wc.Obj) != nil, rule, we.Name(), "a closure body is walked as a conditional", c.pos(we.Decl.Pos()), "what a closure assigns is believed whether or not it has run")
		r.Check(nodeCalls(wc.Info(), wc.Decl.Body, fa.Obj) != nil, rule, wc.Name(), "forgets after the walk", c.pos(wc.Decl.Pos()), "walkConditional does not forget")
	}
	// folding at the point of use
	folds := func(fn *Fn, field string) bool {
		hit := false
		ast.Inspect(fn.Decl.Body, func(x ast.Node) bool {
			if as, ok := x.(*ast.AssignStmt); ok && len(as.Lhs) == 1 {
				if sel, ok := ast.Unparen(as.Lhs[0]).(*ast.SelectorExpr); ok && sel.Sel.Name == field {
					hit = true
				}
			}
			return true
		})
		return hit
	}
	r.Check(folds(cab, "Index"), rule, cab.Name(), "a decided index is folded into the tree", c.pos(cab.Decl.Pos()),
		"the index is checked with the value it has here but stays a variable in the tree: code generation evaluates it again when the walk is over — `let i := 0; io::Println(a[i]); i = 2;` reads a[2]")
	fm := c.LookupFn(pkgHIRAn, "foldMatchPattern")
	r.Check(fm != nil && folds(fm, "Pattern") && nodeCalls(info, wn.Decl.Body, fm.Obj) != nil, rule, wn.Name(), "a match pattern that names a variable is folded", c.pos(wn.Decl.Pos()),
		"a pattern that names a variable is compared with the value the variable has when the walk is over: `let j := 1; match v { j => … } j = 2;` compares v with 2")
}

// ---- C11.R13 / C18.R11: 64-bit integers into f128, and the alignment the runtime may assume --------------------

func init() {
	lateInits = append(lateInits, func() {
		props["C11"].Quick = append(props["C11"].Quick, c11R13)
		props["C18"].Quick = append(props["C18"].Quick, c18R11)
		props["C16"].Quick = append(props["C16"].Quick, c18R11)
		props["C11"].Explanation += " (R13) an integer type with more than 53 value bits is not converted to a wide float through f64: largeFromSmallFunc has its own conversion for i64/u64 -> f128. The conversions into f256 (whose runtime representation is a double) are a recorded finding."
		props["C18"].Explanation += " (R11) a C typedef of a 16-byte scalar (__float128, __int128) in the runtime's headers states the 8-byte alignment the compiler's layout gives such values."
	})
}

func c11R13(c *Ctx, r *Report) {
	const rule = "C11.R13"
	r.Describe(rule, "mir/gen largeFromSmallFunc: in the clause of each wide float target, the sources i64 and u64 return a runtime function other than …_from_f64_ptr (every implicit integer -> float pair of the type checker's table with more than 53 source bits)")
	fn := c.LookupFn(pkgMIRGen, "largeFromSmallFunc")
	if !r.Anchor(rule, fn != nil, "mir/gen.largeFromSmallFunc") {
		return
	}
	info := fn.Info()
	// clauses of the switch on toName
	n := 0
	ast.Inspect(fn.Decl.Body, func(x ast.Node) bool {
		cc, ok := x.(*ast.CaseClause)
		if !ok {
			return true
		}
		for _, e := range cc.List {
			s := exprStr(e)
			for _, target := range []string{"TYPE_F128", "TYPE_F256"} {
				if !strings.Contains(s, target) {
					continue
				}
				n++
				// does the clause single out the 64-bit sources?
				own := map[string]bool{}
				for _, st := range cc.Body {
					ast.Inspect(st, func(y ast.Node) bool {
						inner, ok := y.(*ast.CaseClause)
						if !ok {
							return true
						}
						direct := false
						for _, st2 := range inner.Body {
							if ret, ok := st2.(*ast.ReturnStmt); ok && len(ret.Results) > 0 {
								if v := constOf(info, ret.Results[0]); v != nil && v.Kind() == constant.String && !strings.Contains(constant.StringVal(v), "from_f64") {
									direct = true
								}
							}
						}
						if direct {
							for _, ie := range inner.List {
								own[exprStr(ie)] = true
							}
						}
						return true
					})
				}
				ok64 := false
				for k := range own {
					if strings.Contains(k, "TYPE_I64") {
						for k2 := range own {
							if strings.Contains(k2, "TYPE_U64") {
								ok64 = true
							}
						}
					}
				}
				what := strings.ToLower(strings.TrimPrefix(target, "TYPE_"))
				r.Check(ok64, rule, fn.Name(), "i64/u64 -> "+what+" does not pass through f64", c.pos(cc.Pos()),
					"a 64-bit integer is converted to "+what+" by way of f64, which keeps 53 bits: 9007199254740993 and 9007199254740992 compare equal after the implicit conversion the type checker calls lossless")
			}
		}
		return true
	})
	r.Floor(rule, n, 2, "wide float targets in largeFromSmallFunc")
}

func c18R11(c *Ctx, r *Report) {
	const rule = "C18.R11"
	r.Describe(rule, "runtime/core/*.h: every `typedef __float128 …` / `typedef [unsigned] __int128 …` carries __attribute__((aligned(8))), the alignment DataLayout.AlignOf gives 16-byte primitives (clamped to the pointer alignment)")
	re := regexp.MustCompile(`typedef\s+(unsigned\s+)?(__float128|__int128)\b[^;]*;`)
	n := 0
	files, _ := filepath.Glob(filepath.Join(c.RepoDir, "runtime", "core", "*.h"))
	for _, f := range files {
		data, err := os.ReadFile(f)
		if err != nil {
			continue
		}
		rel, _ := filepath.Rel(c.RepoDir, f)
		for _, m := range re.FindAllStringIndex(string(data), -1) {
			decl := string(data[m[0]:m[1]])
			line := 1 + strings.Count(string(data[:m[0]]), "\n")
			n++
			r.Check(strings.Contains(decl, "aligned(8)"), rule, rel, "16-byte scalar typedef states 8-byte alignment", fmt.Sprintf("%s:%d", rel, line),
				"the C type promises 16-byte alignment while the compiler places such values on 8-byte boundaries (alloc8 slots, struct fields, payloads): the runtime reads and writes them with aligned 16-byte moves — `let a: i64 = …; let fa: f128 = a;` dies with SIGSEGV")
		}
	}
	r.Floor(rule, n, 1, "16-byte scalar typedefs in the runtime headers")
}

// ---- C02.R12: a declaration without a value starts from the zero value ------------------------------------------

func init() {
	lateInits = append(lateInits, func() {
		props["C02"].Quick = append(props["C02"].Quick, c02R12)
		props["C01"].Quick = append(props["C01"].Quick, c02R12)
		props["C17"].Quick = append(props["C17"].Quick, c02R12)
		props["C02"].Explanation += " (R12) MIR generation stores a zero value into the slot of a declaration that has no initialiser (numbers, bool, str, optionals, maps and dynamic arrays): both back ends then start such a variable from the same value on every execution of the declaration, and the native one is not handed a slot that is read but never written."
	})
}

func c02R12(c *Ctx, r *Report) {
	const rule = "C02.R12"
	r.Describe(rule, "mir/gen: the function that lowers a declaration item's value stores, after the branch for `item.Value != nil`, the result of a helper whose type switch has cases for PrimitiveType, OptionalType, MapType and ArrayType")
	var fn *Fn
	for _, name := range []string{"(*functionBuilder).lowerDeclItemValue", "(*functionBuilder).lowerDeclItem"} {
		if f := c.LookupFn(pkgMIRGen, name); f != nil {
			fn = f
			break
		}
	}
	store := c.LookupFn(pkgMIRGen, "(*functionBuilder).emitStore")
	if !r.Anchor(rule, fn != nil && store != nil, "mir/gen lowerDeclItem(Value) / emitStore") {
		return
	}
	info := fn.Info()
	// the `if item.Value != nil { … }` statement
	var valueIf *ast.IfStmt
	for _, st := range fn.Decl.Body.List {
		if ifs, ok := st.(*ast.IfStmt); ok {
			if be, ok := isBinOp(ifs.Cond, token.NEQ); ok && strings.HasSuffix(exprStr(be.X), ".Value") && exprStr(be.Y) == "nil" {
				valueIf = ifs
			}
		}
	}
	if !r.Anchor(rule, valueIf != nil, fn.Name()+": if item.Value != nil") {
		return
	}
	ok := false
	for _, st := range fn.Decl.Body.List {
		if st.Pos() < valueIf.End() {
			continue
		}
		for _, cl := range callsIn(st, false) {
			f := callee(info, cl)
			hf := c.FnOf(f)
			if f == nil || hf == nil || hf.Decl == nil || hf.Decl.Body == nil || f.Pkg() != fn.Obj.Pkg() {
				continue
			}
			cases := map[string]bool{}
			ast.Inspect(hf.Decl.Body, func(x ast.Node) bool {
				if cc, isCC := x.(*ast.CaseClause); isCC {
					for _, t := range caseTypes(hf.Info(), cc) {
						if nt := namedOf(t); nt != nil {
							cases[nt.Obj().Name()] = true
						}
					}
				}
				return true
			})
			if cases["PrimitiveType"] && cases["OptionalType"] && cases["MapType"] && cases["ArrayType"] && nodeCalls(info, st, store.Obj) != nil {
				ok = true
			}
		}
	}
	r.Check(ok, rule, fn.Name(), "a declaration without a value is given its zero value", c.pos(valueIf.End()),
		"a declaration without an initialiser only reserves its slot: natively `while i < 3 { let x: i32; io::Println(x); x = i + 7; … }` prints 0 7 8 (the slot is shared by the iterations) and wasm prints 0 0 0; `let s: str; io::Println(s);` and `let m: map[i32]i32; m[1] = 2;` are refused by QBE (\"slot is read but never stored to\") while wasm runs them")
}

// ---- C09.R6: a match pattern that names a value works whether or not the compiler knows the value --------------

func init() {
	lateInits = append(lateInits, func() {
		props["C09"].Quick = append(props["C09"].Quick, c09R6b)
		props["C09"].Explanation += " (R6b) lowerMatch compares a pattern that names a variable or constant with the value the name has at run time when matchCaseConstValue cannot evaluate it: `const k := one(); match v { k => … }` compiles like `const k := 1; …`."
	})
}

func c09R6b(c *Ctx, r *Report) {
	const rule = "C09.R6b"
	r.Describe(rule, "mir/gen lowerMatch: between the failure of matchCaseConstValue and the `unsupported match pattern` report there is a branch for *hir.Ident patterns that lowers the identifier (lowerValueExpr / lowerExpr / loadIdent)")
	fn := c.LookupFn(pkgMIRGen, "(*functionBuilder).lowerMatch")
	mc := c.LookupFn(pkgMIRGen, "(*functionBuilder).matchCaseConstValue")
	if !r.Anchor(rule, fn != nil && mc != nil, "mir/gen lowerMatch / matchCaseConstValue") {
		return
	}
	info := fn.Info()
	ok := false
	ast.Inspect(fn.Decl.Body, func(x ast.Node) bool {
		ifs, isIf := x.(*ast.IfStmt)
		if !isIf {
			return true
		}
		// if ident, isIdent := clause.Pattern.(*hir.Ident); …
		asg, isAs := ifs.Init.(*ast.AssignStmt)
		if !isAs || len(asg.Rhs) != 1 {
			return true
		}
		ta, isTA := asg.Rhs[0].(*ast.TypeAssertExpr)
		if !isTA || ta.Type == nil || !strings.HasSuffix(exprStr(ta.Type), "hir.Ident") || !strings.HasSuffix(exprStr(ta.X), ".Pattern") {
			return true
		}
		for _, cl := range callsIn(ifs.Body, false) {
			if f := callee(info, cl); f != nil && (f.Name() == "lowerValueExpr" || f.Name() == "lowerExpr" || f.Name() == "loadIdent") {
				ok = true
			}
		}
		return true
	})
	r.Check(ok, rule, fn.Name(), "a pattern naming a value is compared at run time when it is not a compile-time constant", c.pos(fn.Decl.Pos()),
		"a pattern is accepted only if the compiler can evaluate it: `const k := 1; match v { k => … }` compiles, `const k := one(); match v { k => … }` is refused (\"MIR lowering unsupported: match pattern\") — whether the program is accepted depends on what can be evaluated early")
}

// ---- C16.R12: a wide division by zero does not yield a number ------------------------------------------------------

func init() {
	lateInits = append(lateInits, func() {
		props["C16"].Quick = append(props["C16"].Quick, c16R12)
		props["C16"].Explanation += " (R12) the division primitive of the wide-integer runtime calls the panic helper in its zero-divisor branch instead of handing back 0 as quotient and remainder."
	})
}

func c16R12(c *Ctx, r *Report) {
	const rule = "C16.R12"
	r.Describe(rule, "runtime/core/bigint.c ferret_div_mod_u_limbs: the if statement whose condition tests the divisor with ferret_is_zero_limbs calls ferret_global_panic in its body")
	cf := cLoad(c, r, rule, "runtime/core/bigint.c")
	if cf == nil {
		return
	}
	fn := cf.Funcs["ferret_div_mod_u_limbs"]
	if !r.Anchor(rule, fn != nil && fn.Body() != nil && len(fn.Params()) >= 2, "bigint.c:ferret_div_mod_u_limbs(numer, denom, …)") {
		return
	}
	denom := fn.Params()[1].Name
	found, panics := false, false
	var at *CNode
	fn.Walk(func(x *CNode) bool {
		if x.Kind != "IfStmt" || len(x.Inner) < 2 {
			return true
		}
		cond := x.Inner[0]
		isZeroTest := false
		cond.Walk(func(y *CNode) bool {
			if y.Kind == "CallExpr" && y.Callee() == "ferret_is_zero_limbs" {
				for _, a := range y.Args() {
					if s := a.strip(); s != nil && s.Ref == denom {
						isZeroTest = true
					}
				}
			}
			return true
		})
		if !isZeroTest {
			return true
		}
		found = true
		at = x
		x.Inner[1].Walk(func(y *CNode) bool {
			if y.Kind == "CallExpr" && y.Callee() == "ferret_global_panic" {
				panics = true
			}
			return true
		})
		return true
	})
	where := c.cpos(cf, fn)
	if at != nil {
		where = c.cpos(cf, at)
	}
	r.Check(found && panics, rule, "bigint.c:ferret_div_mod_u_limbs", "a zero divisor stops the program", where,
		"the zero-divisor branch returns quotient 0 and remainder 0: `let one: i128 = 1; let z := zero(); io::Println(one / z);` prints 0 and goes on (the same program with i64 stops)")
}

// ---- C12.R10: the receiver exemption of the private-field gate is for receivers of that type ------------------

func init() {
	lateInits = append(lateInits, func() {
		props["C12"].Quick = append(props["C12"].Quick, c12R10)
		props["C12"].Explanation += " (R10) the private-field gate exempts a receiver only if it was declared with the struct's own type: the condition that sets the exemption calls a predicate that compares the receiver's declared type (OriginalType before narrowing) with the type whose field is selected."
	})
}

func c12R10(c *Ctx, r *Report) {
	const rule = "C12.R10"
	r.Describe(rule, "typechecker.checkSelectorExpr: the condition with `Kind == SymbolReceiver` that grants access to a private field has a second conjunct calling a function that reads Symbol.OriginalType and compares types with Equals")
	fn := c.LookupFn(pkgTC, "checkSelectorExpr")
	recvKind, _ := c.lookupObj(pkgSymbols, "SymbolReceiver").(*types.Const)
	orig := c.fieldObj(pkgSymbols, "Symbol", "OriginalType")
	if !r.Anchor(rule, fn != nil && recvKind != nil && orig != nil, "typechecker.checkSelectorExpr / SymbolReceiver / Symbol.OriginalType") {
		return
	}
	info := fn.Info()
	ok := false
	var at token.Pos
	ast.Inspect(fn.Decl.Body, func(x ast.Node) bool {
		ifs, isIf := x.(*ast.IfStmt)
		if !isIf {
			return true
		}
		kindTest, declTest := false, false
		for _, cj := range conjuncts(ifs.Cond) {
			if b, isEq := isBinOp(cj, token.EQL); isEq && (constObj(info, b.Y) == recvKind || constObj(info, b.X) == recvKind) {
				kindTest = true
				continue
			}
			if cl, isCall := ast.Unparen(cj).(*ast.CallExpr); isCall {
				if f := callee(info, cl); f != nil {
					if hf := c.FnOf(f); hf != nil && hf.Decl != nil && hf.Decl.Body != nil {
						readsOrig, equals := false, false
						ast.Inspect(hf.Decl.Body, func(y ast.Node) bool {
							if sel, isSel := y.(*ast.SelectorExpr); isSel {
								if hf.Info().Uses[sel.Sel] == types.Object(orig) {
									readsOrig = true
								}
								if sel.Sel.Name == "Equals" {
									equals = true
								}
							}
							return true
						})
						if readsOrig && equals {
							declTest = true
						}
					}
				}
			}
		}
		if kindTest {
			at = ifs.Pos()
			if declTest {
				ok = true
			}
		}
		return true
	})
	where := c.pos(fn.Decl.Pos())
	if at != token.NoPos {
		where = c.pos(at)
	}
	r.Check(ok, rule, fn.Name(), "the receiver exemption requires the receiver to be declared with the struct's type", where,
		"any receiver symbol opens the private fields of whatever type it currently has: `type Either union { Counter, i32 }; fn (u: Either) Leak() -> i32 { if u is Counter { return u.secret; } return 0; }` — a method of Either reads Counter's private field through the narrowed receiver")
}

// ---- C02.R13: the native signed remainder does not trap for a divisor of -1 ----------------------------------------

func init() {
	lateInits = append(lateInits, func() {
		props["C02"].Quick = append(props["C02"].Quick, c02R13)
		props["C01"].Quick = append(props["C01"].Quick, c02R13)
		props["C02"].Explanation += " (R13) the QBE emitBinary replaces the divisor of a signed `rem` under a comparison with -1 before it emits the instruction: MIN % -1 is 0 as on wasm, not a hardware trap."
	})
}

func c02R13(c *Ctx, r *Report) {
	const rule = "C02.R13"
	r.Describe(rule, "qbe emitBinary: an if on `op == \"rem\"` precedes the emission of the operation; its body emits a comparison of the right operand with -1 and reassigns the variable that is emitted as the right operand")
	fn := c.LookupFn(pkgQBE, "(*Generator).emitBinary")
	if !r.Anchor(rule, fn != nil, "qbe.(*Generator).emitBinary") {
		return
	}
	info := fn.Info()
	ok := false
	ast.Inspect(fn.Decl.Body, func(x ast.Node) bool {
		ifs, isIf := x.(*ast.IfStmt)
		if !isIf {
			return true
		}
		be, isEq := isBinOp(ifs.Cond, token.EQL)
		if !isEq {
			return true
		}
		v := constOf(info, be.Y)
		if v == nil || v.Kind() != constant.String || constant.StringVal(v) != "rem" {
			return true
		}
		cmpMinusOne, reassigns := false, false
		ast.Inspect(ifs.Body, func(y ast.Node) bool {
			switch z := y.(type) {
			case *ast.BasicLit:
				if z.Kind == token.STRING && strings.Contains(z.Value, "-1") {
					cmpMinusOne = true
				}
			case *ast.AssignStmt:
				if z.Tok == token.ASSIGN && len(z.Lhs) == 1 && exprStr(z.Lhs[0]) == "right" {
					reassigns = true
				}
			}
			return true
		})
		if cmpMinusOne && reassigns {
			ok = true
		}
		return true
	})
	r.Check(ok, rule, fn.Name(), "signed rem guards the divisor -1", c.pos(fn.Decl.Pos()),
		"`rem` is emitted with the operands as they are: `fn rem(a: i32, b: i32) -> i32 { return a % b; }` called with (-2147483648, -1) dies with SIGFPE natively and yields 0 on wasm")
}

// ---- C02.R14: the wasm heap grows ---------------------------------------------------------------------------------

func init() {
	lateInits = append(lateInits, func() {
		props["C02"].Quick = append(props["C02"].Quick, c02R14)
		props["C02"].Explanation += " (R14) the allocator of the JavaScript runtime (text lint, nothing here parses JavaScript: the body of `function ferret_alloc` is cut out by brace matching) calls memory.grow, and the wasm module declares its memory without a maximum (limits flag 0x00), so a program that allocates more than the initial pages keeps running as it does natively."
	})
}

func c02R14(c *Ctx, r *Report) {
	const rule = "C02.R14"
	r.Describe(rule, "runtime/wasm/runtime.js: the body of function ferret_alloc contains a call memory.grow(…) guarded by a comparison with memory.buffer.byteLength; codegen/wasm encodeLimits starts the limits with the byte 0x00 (no maximum)")
	data, err := os.ReadFile(filepath.Join(c.RepoDir, "runtime", "wasm", "runtime.js"))
	if !r.Anchor(rule, err == nil, "runtime/wasm/runtime.js") {
		return
	}
	src := string(data)
	i := strings.Index(src, "function ferret_alloc(")
	if !r.Anchor(rule, i >= 0, "runtime.js: function ferret_alloc") {
		return
	}
	j := strings.Index(src[i:], "{")
	depth, end := 0, -1
	for k := i + j; k < len(src); k++ {
		switch src[k] {
		case '{':
			depth++
		case '}':
			depth--
			if depth == 0 {
				end = k
			}
		}
		if end >= 0 {
			break
		}
	}
	if !r.Anchor(rule, end > 0, "runtime.js: body of ferret_alloc") {
		return
	}
	body := src[i+j : end]
	line := 1 + strings.Count(src[:i], "\n")
	r.Check(strings.Contains(body, "memory.grow(") && strings.Contains(body, "byteLength"), rule, "runtime.js:ferret_alloc", "the heap grows when it reaches the end of the memory", fmt.Sprintf("runtime/wasm/runtime.js:%d", line),
		"the allocator only advances a pointer: a loop that declares a variable 20000 times, or 50000 appends, runs natively and traps on wasm (\"memory access out of bounds\") once the first page is used up")
	el := c.LookupFn(pkgWasm, "encodeLimits")
	if r.Anchor(rule, el != nil, "wasm.encodeLimits") {
		noMax := false
		ast.Inspect(el.Decl.Body, func(x ast.Node) bool {
			if cl, ok := x.(*ast.CompositeLit); ok && len(cl.Elts) >= 1 {
				if v := constOf(el.Info(), cl.Elts[0]); v != nil && intVal(v) == 0 {
					noMax = true
				}
			}
			return true
		})
		r.Check(noMax, rule, el.Name(), "memory limits have no maximum", c.pos(el.Decl.Pos()), "the memory is declared with a maximum (or the flag is not 0x00): memory.grow beyond it fails")
	}
}

// ---- C02.R15: Print does not end the line on wasm ---------------------------------------------------------------------

func init() {
	lateInits = append(lateInits, func() {
		props["C02"].Quick = append(props["C02"].Quick, c02R15)
		props["C02"].Explanation += " (R15) in the JavaScript runtime (text lint) ferret_std_io_Print does not call console.log, which ends the line, and ferret_std_io_Println writes the newline itself."
	})
}

// jsFuncBody cuts the body of `function name(` out of JavaScript source by brace matching ("" if absent).
func jsFuncBody(src, name string) (string, int) {
	i := strings.Index(src, "function "+name+"(")
	if i < 0 {
		return "", 0
	}
	j := strings.Index(src[i:], "{")
	if j < 0 {
		return "", 0
	}
	depth := 0
	for k := i + j; k < len(src); k++ {
		switch src[k] {
		case '{':
			depth++
		case '}':
			depth--
			if depth == 0 {
				return src[i+j : k+1], 1 + strings.Count(src[:i], "\n")
			}
		}
	}
	return "", 0
}

func c02R15(c *Ctx, r *Report) {
	const rule = "C02.R15"
	r.Describe(rule, "runtime/wasm/runtime.js: the body of ferret_std_io_Print contains no console.log call; the body of ferret_std_io_Println writes \"\\n\"")
	data, err := os.ReadFile(filepath.Join(c.RepoDir, "runtime", "wasm", "runtime.js"))
	if !r.Anchor(rule, err == nil, "runtime/wasm/runtime.js") {
		return
	}
	pr, line := jsFuncBody(string(data), "ferret_std_io_Print")
	pl, _ := jsFuncBody(string(data), "ferret_std_io_Println")
	if !r.Anchor(rule, pr != "" && pl != "", "runtime.js: ferret_std_io_Print / ferret_std_io_Println") {
		return
	}
	r.Check(!strings.Contains(pr, "console.log(") && strings.Contains(pl, `"\n"`), rule, "runtime.js:ferret_std_io_Print", "Print leaves the line open, Println ends it", fmt.Sprintf("runtime/wasm/runtime.js:%d", line),
		"Print goes through console.log, which ends the line, and Println is the same function: `io::Print(1); io::Print(2); io::Println(3);` prints 123 natively and three lines on wasm")
}

// ---- C02.R16: floats are printed alike ------------------------------------------------------------------------------

func init() {
	lateInits = append(lateInits, func() {
		props["C02"].Quick = append(props["C02"].Quick, c02R16)
		props["C02"].Explanation += " (R16) the JavaScript runtime (text lint) does not print a float with JavaScript's own number-to-string conversion: printUnion hands f32/f64 payloads to a formatter, as the native runtime prints them with %.6g / %.15g and a `.0` for integral values."
	})
}

func c02R16(c *Ctx, r *Report) {
	const rule = "C02.R16"
	r.Describe(rule, "runtime/wasm/runtime.js printUnion: no `String(dv.getFloat32(` / `String(dv.getFloat64(`; the float payloads are passed to another function of the file")
	data, err := os.ReadFile(filepath.Join(c.RepoDir, "runtime", "wasm", "runtime.js"))
	if !r.Anchor(rule, err == nil, "runtime/wasm/runtime.js") {
		return
	}
	body, line := jsFuncBody(string(data), "printUnion")
	if !r.Anchor(rule, body != "", "runtime.js: printUnion") {
		return
	}
	raw := strings.Contains(body, "String(dv.getFloat32(") || strings.Contains(body, "String(dv.getFloat64(")
	formatted := regexp.MustCompile(`[A-Za-z_][A-Za-z0-9_]*\(dv\.getFloat64\(`).FindString(body)
	r.Check(!raw && formatted != "" && !strings.HasPrefix(formatted, "String("), rule, "runtime.js:printUnion", "floats go through the runtime's formatter", fmt.Sprintf("runtime/wasm/runtime.js:%d", line),
		"a float is printed with JavaScript's String(): `let z: f64 = 0.0; io::Println(z);` prints 0.0 natively and 0 on wasm, an f32 0.1 prints 0.1 and 0.10000000149011612")
}

// ---- C03.R19: a composite literal has a form its expected type can take ------------------------------------------------

func init() {
	lateInits = append(lateInits, func() {
		props["C03"].Quick = append(props["C03"].Quick, c03R19)
		props["C03"].Explanation += " (R19) checkCompositeLit reports a literal whose form cannot make a value of the expected type: any composite literal for a primitive type, key/value elements for an array, plain elements for a map."
	})
}

func c03R19(c *Ctx, r *Report) {
	const rule = "C03.R19"
	r.Describe(rule, "typechecker.checkCompositeLit: a branch on *types.PrimitiveType, the *types.ArrayType branch (under a *ast.KeyValueExpr assertion) and the *types.MapType branch (in the else of the key/value test) each reach Diagnostics.Add")
	fn := c.LookupFn(pkgTC, "checkCompositeLit")
	bagAdd := c.LookupFn("internal/diagnostics", "(*DiagnosticBag).Add")
	if !r.Anchor(rule, fn != nil && bagAdd != nil, "typechecker.checkCompositeLit / DiagnosticBag.Add") {
		return
	}
	info := fn.Info()
	reports := func(n ast.Node) bool {
		hit := false
		ast.Inspect(n, func(x ast.Node) bool {
			if cl, ok := x.(*ast.CallExpr); ok {
				if f := callee(info, cl); f != nil && (f == bagAdd.Obj || (f.Pkg() == fn.Obj.Pkg() && f != fn.Obj && reachesAdd(c, f, bagAdd.Obj, 0) && strings.HasPrefix(f.Name(), "report"))) {
					hit = true
				}
			}
			return true
		})
		return hit
	}
	found := map[string]bool{}
	for _, st := range fn.Decl.Body.List {
		ifs, ok := st.(*ast.IfStmt)
		if !ok || ifs.Init == nil {
			continue
		}
		as, ok := ifs.Init.(*ast.AssignStmt)
		if !ok || len(as.Rhs) != 1 {
			continue
		}
		ta, ok := as.Rhs[0].(*ast.TypeAssertExpr)
		if !ok || ta.Type == nil {
			continue
		}
		t := exprStr(ta.Type)
		switch {
		case strings.HasSuffix(t, "PrimitiveType"):
			found["primitive"] = reports(ifs.Body)
		case strings.HasSuffix(t, "ArrayType"):
			// the report sits under a *ast.KeyValueExpr assertion
			ast.Inspect(ifs.Body, func(x ast.Node) bool {
				if inner, ok := x.(*ast.IfStmt); ok && inner.Init != nil && strings.Contains(exprStr(inner.Init.(*ast.AssignStmt).Rhs[0]), "KeyValueExpr") && reports(inner.Body) {
					found["array"] = true
				}
				return true
			})
		case strings.HasSuffix(t, "MapType"):
			ast.Inspect(ifs.Body, func(x ast.Node) bool {
				if inner, ok := x.(*ast.IfStmt); ok && inner.Else != nil && reports(inner.Else) {
					found["map"] = true
				}
				return true
			})
		}
	}
	for _, k := range []string{"primitive", "array", "map"} {
		r.Check(found[k], rule, fn.Name(), "a literal of the wrong form for a "+k+" type is reported", c.pos(fn.Decl.Pos()),
			"the literal is accepted whatever its form: `let x: i32 = [1, 2];`, `let a: []i32 = { .X = 1 };` and `let m: map[str]i32 = [1, 2];` pass the type checker and are stopped only by MIR lowering (\"unsupported: composite literal\")")
	}
}
