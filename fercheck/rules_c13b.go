package main

import (
	"go/ast"
	"go/token"
	"go/types"
	"golang.org/x/tools/go/cfg"
	"strings"
)

func init() {
	lateInits = append(lateInits, func() { props["C13"].Quick = append(props["C13"].Quick, c13R10) })
}

// C13.R10: an error value that has not been examined is not overwritten by a value that may be nil.
// (Reported failure must survive until it is returned or tested: "exits with status 0 exactly when no error".)
func c13R10(c *Ctx, r *Report) {
	const rule = "C13.R10"
	r.Describe(rule, "driver packages (main, compiler, pipeline, codegen): on no path is an error variable that holds an unexamined result overwritten by a possibly-nil value")
	errType := types.Universe.Lookup("error").Type()
	nFns, nVars := 0, 0
	for _, p := range c.Pkgs {
		rel := relOf(p.PkgPath)
		if !(rel == "" || rel == "." || strings.HasPrefix(rel, "internal/compiler") || strings.HasPrefix(rel, "internal/pipeline") || strings.HasPrefix(rel, "internal/codegen")) {
			continue
		}
		if strings.HasSuffix(rel, "qbe_embeddings") && false {
			continue
		}
		for _, fn := range c.AllFns(rel) {
			info := fn.Info()
			// error-typed locals with at least two assignments
			assigns := map[types.Object][]ast.Node{}
			ast.Inspect(fn.Decl.Body, func(x ast.Node) bool {
				if _, ok := x.(*ast.FuncLit); ok {
					return false
				}
				as, ok := x.(*ast.AssignStmt)
				if !ok {
					return true
				}
				for _, l := range as.Lhs {
					id, ok := l.(*ast.Ident)
					if !ok || id.Name == "_" {
						continue
					}
					o := info.Defs[id]
					if o == nil {
						o = info.Uses[id]
					}
					if v, ok := o.(*types.Var); ok && !v.IsField() && types.Identical(v.Type(), errType) && v.Parent() != v.Pkg().Scope() {
						assigns[o] = append(assigns[o], as)
					}
				}
				return true
			})
			analysed := false
			for v, sites := range assigns {
				if len(sites) < 2 {
					continue
				}
				analysed = true
				nVars++
				isAssign := func(n ast.Node) (*ast.AssignStmt, bool) {
					as, ok := n.(*ast.AssignStmt)
					if !ok {
						return nil, false
					}
					for _, l := range as.Lhs {
						if id, ok := l.(*ast.Ident); ok && (info.Defs[id] == v || info.Uses[id] == v) {
							return as, true
						}
					}
					return nil, false
				}
				// assignment that cannot store nil over a pending error: `if y != nil { v = y }`
				guardedNonNil := map[*ast.AssignStmt]bool{}
				walkWithStack(fn.Decl.Body, func(n ast.Node, stack []ast.Node) bool {
					as, ok := isAssign(n)
					if !ok || len(as.Lhs) != 1 || len(as.Rhs) != 1 {
						return true
					}
					src := objOf(info, as.Rhs[0])
					if src == nil {
						return true
					}
					for i := len(stack) - 1; i >= 0; i-- {
						if ifs, ok := stack[i].(*ast.IfStmt); ok {
							for _, cj := range conjuncts(ifs.Cond) {
								if be, ok := isBinOp(cj, token.NEQ); ok && objOf(info, be.X) == src && exprStr(be.Y) == "nil" {
									inBody := false
									ast.Inspect(ifs.Body, func(y ast.Node) bool {
										if y == ast.Node(as) {
											inBody = true
										}
										return true
									})
									if inBody {
										guardedNonNil[as] = true
									}
								}
							}
						}
					}
					return true
				})
				readsVar := func(n ast.Node) bool {
					// any rvalue use of v in the node (condition, return, argument, right-hand side)
					found := false
					inspectShallow(n, func(x ast.Node) bool {
						if as, ok := x.(*ast.AssignStmt); ok {
							for _, rh := range as.Rhs {
								if mentionsVar(info, rh, v) {
									found = true
								}
							}
							for _, l := range as.Lhs {
								if _, isId := l.(*ast.Ident); !isId && mentionsVar(info, l, v) {
									found = true
								}
							}
							return false
						}
						if id, ok := x.(*ast.Ident); ok && info.Uses[id] == v {
							found = true
						}
						return true
					})
					return found
				}
				hits := mustFlow(c.CFG(fn), FlowSpec{
					InitTrue: true,
					Target: func(n ast.Node) bool {
						as, ok := isAssign(n)
						return ok && !guardedNonNil[as]
					},
					Kill: func(n ast.Node) bool {
						as, ok := isAssign(n)
						if !ok {
							return false
						}
						// storing the literal nil leaves nothing pending
						if len(as.Lhs) == len(as.Rhs) {
							for i, l := range as.Lhs {
								if id, ok := l.(*ast.Ident); ok && (info.Defs[id] == v || info.Uses[id] == v) && exprStr(as.Rhs[i]) == "nil" {
									return false
								}
							}
						}
						return true
					},
					Gate: func(n ast.Node) bool {
						if _, ok := isAssign(n); ok {
							as := n.(*ast.AssignStmt)
							for _, rh := range as.Rhs {
								if mentionsVar(info, rh, v) {
									return true
								}
							}
							return false
						}
						return readsVar(n)
					},
				})
				where := c.pos(fn.Decl.Pos())
				if len(hits) > 0 && hits[0].Pos.IsValid() {
					where = c.pos(hits[0].Pos)
				}
				r.Check(len(hits) == 0, rule, fn.Name(), "error variable "+v.Name()+" is examined before it is overwritten", where,
					"a path overwrites "+v.Name()+" while it still holds a result nobody looked at, with a value that may be nil: a failure recorded earlier is forgotten and the run continues as if it had succeeded (exit status 0, artifacts written)")
			}
			if analysed {
				nFns++
			}
		}
	}
	r.Floor(rule, nFns, 5, "functions with a re-assigned error variable")
	r.Note("%s: %d error variables with two or more assignments analysed", rule, nVars)
}

func init() {
	lateInits = append(lateInits, func() { props["C13"].Quick = append(props["C13"].Quick, c13R11) })
}

// C13.R11: results of parser functions that can return nil are not dereferenced before a nil test.
func c13R11(c *Ctx, r *Report) {
	const rule = "C13.R11"
	r.Describe(rule, "parser: the result of a parse function that has a `return nil` path is selected from (x.Field, x.Method()) only where x is known to be non-nil")
	const pkgParser = "internal/frontend/parser"
	// nil-returning functions of the package (pointer / interface results, explicit `return nil`)
	nilable := map[*types.Func]bool{}
	for _, fn := range c.AllFns(pkgParser) {
		sig := fn.Obj.Type().(*types.Signature)
		if sig.Results().Len() != 1 {
			continue
		}
		switch sig.Results().At(0).Type().Underlying().(type) {
		case *types.Pointer, *types.Interface:
		default:
			continue
		}
		ast.Inspect(fn.Decl.Body, func(x ast.Node) bool {
			if _, ok := x.(*ast.FuncLit); ok {
				return false
			}
			if ret, ok := x.(*ast.ReturnStmt); ok && len(ret.Results) == 1 && exprStr(ret.Results[0]) == "nil" {
				nilable[fn.Obj] = true
			}
			return true
		})
	}
	r.Floor(rule, len(nilable), 5, "parser functions with a `return nil` path")
	nSites := 0
	for _, fn := range c.AllFns(pkgParser) {
		info := fn.Info()
		// variables assigned from a nilable call
		vars := map[types.Object]*ast.CallExpr{}
		ast.Inspect(fn.Decl.Body, func(x ast.Node) bool {
			as, ok := x.(*ast.AssignStmt)
			if !ok || len(as.Lhs) != 1 || len(as.Rhs) != 1 {
				return true
			}
			cl, ok := as.Rhs[0].(*ast.CallExpr)
			if !ok {
				return true
			}
			if f := callee(info, cl); f != nil && nilable[f] {
				if id, ok := as.Lhs[0].(*ast.Ident); ok && id.Name != "_" {
					o := info.Defs[id]
					if o == nil {
						o = info.Uses[id]
					}
					if o != nil {
						vars[o] = cl
					}
				}
			}
			return true
		})
		for v, call := range vars {
			derefs := func(n ast.Node) bool {
				found := false
				inspectShallow(n, func(x ast.Node) bool {
					if sel, ok := x.(*ast.SelectorExpr); ok {
						if id, ok := ast.Unparen(sel.X).(*ast.Ident); ok && info.Uses[id] == v {
							found = true
						}
					}
					if st, ok := x.(*ast.StarExpr); ok {
						if id, ok := ast.Unparen(st.X).(*ast.Ident); ok && info.Uses[id] == v {
							found = true
						}
					}
					return true
				})
				return found
			}
			any := false
			ast.Inspect(fn.Decl.Body, func(x ast.Node) bool {
				if st, ok := x.(ast.Stmt); ok && derefs(st) {
					any = true
				}
				return true
			})
			if !any {
				continue
			}
			nSites++
			isDef := func(n ast.Node) bool {
				as, ok := n.(*ast.AssignStmt)
				if !ok {
					return false
				}
				for _, l := range as.Lhs {
					if id, ok := l.(*ast.Ident); ok && (info.Defs[id] == v || info.Uses[id] == v) {
						return true
					}
				}
				return false
			}
			hits := mustFlow(c.CFG(fn), FlowSpec{
				InitTrue: true,
				Kill:     isDef,
				EdgeGate: func(b *cfg.Block, succ int) bool {
					cond := condOf(b)
					if cond == nil {
						return false
					}
					if succ == 0 {
						for _, cj := range conjuncts(cond) {
							if be, ok := isBinOp(cj, token.NEQ); ok && objOf(info, be.X) == v && exprStr(be.Y) == "nil" {
								return true
							}
						}
					} else {
						for _, d := range disjuncts(cond) {
							if be, ok := isBinOp(d, token.EQL); ok && objOf(info, be.X) == v && exprStr(be.Y) == "nil" {
								return true
							}
						}
					}
					return false
				},
				Target: func(n ast.Node) bool {
					if isDef(n) {
						// `x := f(); ` itself is not a dereference; x.f on the RHS of a later assignment is
						as := n.(*ast.AssignStmt)
						for _, rh := range as.Rhs {
							if derefs(rh) {
								return true
							}
						}
						return false
					}
					// a condition `x != nil && x.F` tests before it selects
					if e, ok := n.(ast.Expr); ok {
						for _, cj := range conjuncts(e) {
							if be, ok := isBinOp(cj, token.NEQ); ok && objOf(info, be.X) == v && exprStr(be.Y) == "nil" {
								return false
							}
						}
						for _, d := range disjuncts(e) {
							if be, ok := isBinOp(d, token.EQL); ok && objOf(info, be.X) == v && exprStr(be.Y) == "nil" {
								return false
							}
						}
					}
					return derefs(n)
				},
			})
			where := c.pos(call.Pos())
			if len(hits) > 0 && hits[0].Pos.IsValid() {
				where = c.pos(hits[0].Pos)
			}
			r.Check(len(hits) == 0, rule, fn.Name(), "result "+v.Name()+" of "+exprStr(call.Fun)+" tested before it is selected from", where,
				exprStr(call.Fun)+" returns nil after reporting a syntax error; "+v.Name()+" is then dereferenced on a path without a nil test: the malformed input crashes the compiler instead of producing the diagnostic")
		}
	}
	r.Floor(rule, nSites, 1, "dereferenced results of nil-returning parse functions")
}
