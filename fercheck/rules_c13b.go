package main

import (
	"go/ast"
	"go/token"
	"go/types"
	"strings"
)

func init() { lateInits = append(lateInits, func() { props["C13"].Quick = append(props["C13"].Quick, c13R10) }) }

// C13.R10: an error value that has not been examined is not overwritten by a value that may be nil.
// (Reported failure must survive until it is returned or tested: "exits with status 0 exactly when no error".)
func c13R10(c *Ctx, r *Report) {
	const rule = "C13.R10"
	r.Describe(rule, "driver packages (main, compiler, pipeline, codegen): on no path is an error variable that holds an unexamined result overwritten by a possibly-nil value")
	errType := types.Universe.Lookup("error").Type()
	nFns, nVars := 0, 0
	for _, p := range c.Pkgs {
		rel := relOf(p.PkgPath)
		if !(rel == "" || rel == "." || strings.HasPrefix(rel, "internal/compiler") || strings.HasPrefix(rel, "internal/pipeline") || strings.HasPrefix(rel, "internal/codegen")) {
			continue
		}
		if strings.HasSuffix(rel, "qbe_embeddings") && false {
			continue
		}
		for _, fn := range c.AllFns(rel) {
			info := fn.Info()
			// error-typed locals with at least two assignments
			assigns := map[types.Object][]ast.Node{}
			ast.Inspect(fn.Decl.Body, func(x ast.Node) bool {
				if _, ok := x.(*ast.FuncLit); ok {
					return false
				}
				as, ok := x.(*ast.AssignStmt)
				if !ok {
					return true
				}
				for _, l := range as.Lhs {
					id, ok := l.(*ast.Ident)
					if !ok || id.Name == "_" {
						continue
					}
					o := info.Defs[id]
					if o == nil {
						o = info.Uses[id]
					}
					if v, ok := o.(*types.Var); ok && !v.IsField() && types.Identical(v.Type(), errType) && v.Parent() != v.Pkg().Scope() {
						assigns[o] = append(assigns[o], as)
					}
				}
				return true
			})
			analysed := false
			for v, sites := range assigns {
				if len(sites) < 2 {
					continue
				}
				analysed = true
				nVars++
				isAssign := func(n ast.Node) (*ast.AssignStmt, bool) {
					as, ok := n.(*ast.AssignStmt)
					if !ok {
						return nil, false
					}
					for _, l := range as.Lhs {
						if id, ok := l.(*ast.Ident); ok && (info.Defs[id] == v || info.Uses[id] == v) {
							return as, true
						}
					}
					return nil, false
				}
				// assignment that cannot store nil over a pending error: `if y != nil { v = y }`
				guardedNonNil := map[*ast.AssignStmt]bool{}
				walkWithStack(fn.Decl.Body, func(n ast.Node, stack []ast.Node) bool {
					as, ok := isAssign(n)
					if !ok || len(as.Lhs) != 1 || len(as.Rhs) != 1 {
						return true
					}
					src := objOf(info, as.Rhs[0])
					if src == nil {
						return true
					}
					for i := len(stack) - 1; i >= 0; i-- {
						if ifs, ok := stack[i].(*ast.IfStmt); ok {
							for _, cj := range conjuncts(ifs.Cond) {
								if be, ok := isBinOp(cj, token.NEQ); ok && objOf(info, be.X) == src && exprStr(be.Y) == "nil" {
									inBody := false
									ast.Inspect(ifs.Body, func(y ast.Node) bool {
										if y == ast.Node(as) {
											inBody = true
										}
										return true
									})
									if inBody {
										guardedNonNil[as] = true
									}
								}
							}
						}
					}
					return true
				})
				readsVar := func(n ast.Node) bool {
					// any rvalue use of v in the node (condition, return, argument, right-hand side)
					found := false
					inspectShallow(n, func(x ast.Node) bool {
						if as, ok := x.(*ast.AssignStmt); ok {
							for _, rh := range as.Rhs {
								if mentionsVar(info, rh, v) {
									found = true
								}
							}
							for _, l := range as.Lhs {
								if _, isId := l.(*ast.Ident); !isId && mentionsVar(info, l, v) {
									found = true
								}
							}
							return false
						}
						if id, ok := x.(*ast.Ident); ok && info.Uses[id] == v {
							found = true
						}
						return true
					})
					return found
				}
				hits := mustFlow(c.CFG(fn), FlowSpec{
					InitTrue: true,
					Target: func(n ast.Node) bool {
						as, ok := isAssign(n)
						return ok && !guardedNonNil[as]
					},
					Kill: func(n ast.Node) bool {
						as, ok := isAssign(n)
						if !ok {
							return false
						}
						// storing the literal nil leaves nothing pending
						if len(as.Lhs) == len(as.Rhs) {
							for i, l := range as.Lhs {
								if id, ok := l.(*ast.Ident); ok && (info.Defs[id] == v || info.Uses[id] == v) && exprStr(as.Rhs[i]) == "nil" {
									return false
								}
							}
						}
						return true
					},
					Gate: func(n ast.Node) bool {
						if _, ok := isAssign(n); ok {
							as := n.(*ast.AssignStmt)
							for _, rh := range as.Rhs {
								if mentionsVar(info, rh, v) {
									return true
								}
							}
							return false
						}
						return readsVar(n)
					},
				})
				where := c.pos(fn.Decl.Pos())
				if len(hits) > 0 && hits[0].Pos.IsValid() {
					where = c.pos(hits[0].Pos)
				}
				r.Check(len(hits) == 0, rule, fn.Name(), "error variable "+v.Name()+" is examined before it is overwritten", where,
					"a path overwrites "+v.Name()+" while it still holds a result nobody looked at, with a value that may be nil: a failure recorded earlier is forgotten and the run continues as if it had succeeded (exit status 0, artifacts written)")
			}
			if analysed {
				nFns++
			}
		}
	}
	r.Floor(rule, nFns, 5, "functions with a re-assigned error variable")
	r.Note("%s: %d error variables with two or more assignments analysed", rule, nVars)
}
