package main

// Second batch of rules added after round 2 of the seeded changes and the defects the seeding agents reported.

import (
	"fmt"
	"go/ast"
	"go/token"
	"go/types"
	"strings"

	"golang.org/x/tools/go/ssa"
)

func init() {
	lateInits = append(lateInits, func() {
		props["C11"].Quick = append(props["C11"].Quick, c11R6)
		props["C03"].Quick = append(props["C03"].Quick, c03R7)
		props["C12"].Quick = append(props["C12"].Quick, c12R4, c03R7)
		props["C15"].Quick = append(props["C15"].Quick, c15R7)
		props["C13"].Quick = append(props["C13"].Quick, c15R7)
		props["C17"].Quick = append(props["C17"].Quick, c17R8)
		props["C19"].Quick = append(props["C19"].Quick, c19R4b)
		props["C14"].Quick = append(props["C14"].Quick, c14R6)
		props["C11"].Explanation += " (R6) components of composite types (array elements, map keys/values, optional and result payloads) are related through storedElementCompatibility, which grants an implicit conversion only to untyped literals and references."
		props["C03"].Explanation += " (R7) struct literals: a field initialised twice is reported; a literal whose expected type is T? is checked as a literal of T (every expected-type kind that can hold a literal is dispatched)."
		props["C12"].Explanation += " (R4) every walker that handles a catch clause visits both the handler block and the fallback value on every path."
		props["C15"].Explanation += " (R7) inside the concurrent region a channel send happens only inside the body of a spawned goroutine, never on the spawning path (a spawner that waits for a worker slot while holding one deadlocks)."
		props["C17"].Explanation += " (R8) the element pointer handed to ferret_array_append / ferret_array_set by the compiler is a fresh stack slot (or a freshly boxed union), never an address that may point into the array being grown."
		props["C19"].Explanation += " (R4b) Position.Line/Column are read outside diagnostics/source/tokens only in the reviewed places (message texts, doc attachment, the narrowing scope key)."
		props["C14"].Explanation += " (R6) slices that are appended to inside the concurrent region are not iterated in sequential code without being sorted."
	})
}

// ---- C11.R6 ---------------------------------------------------------------------------------------------

func c11R6(c *Ctx, r *Report) {
	const rule = "C11.R6"
	r.Describe(rule, "checkCompositeTypeCompatibility relates component types only through storedElementCompatibility; that helper returns an implicit classification only for untyped or reference components and otherwise Incompatible")
	comp := c.LookupFn(pkgTC, "checkCompositeTypeCompatibility")
	ctc := c.LookupFn(pkgTC, "checkTypeCompatibility")
	sec := c.LookupFn(pkgTC, "storedElementCompatibility")
	if !r.Anchor(rule, comp != nil && ctc != nil, "typechecker.checkCompositeTypeCompatibility / checkTypeCompatibility") {
		return
	}
	info := comp.Info()
	n := 0
	for _, call := range callsIn(comp.Decl.Body, false) {
		if len(call.Args) != 2 {
			continue
		}
		isComponent := func(e ast.Expr) bool {
			s := exprStr(e)
			for _, suf := range []string{".Element", ".Key", ".Value", ".Inner", ".Ok", ".Err"} {
				if strings.HasSuffix(s, suf) {
					return true
				}
			}
			return false
		}
		if !isComponent(call.Args[0]) || !isComponent(call.Args[1]) {
			continue
		}
		n++
		ok := sec != nil && isCallTo(info, call, sec.Obj)
		r.Check(ok, rule, comp.Name(), "components "+exprStr(call.Args[0])+" / "+exprStr(call.Args[1])+" related by storedElementCompatibility", c.pos(call.Pos()),
			"component types of a composite are related with the rule for plain values: `[2]i32` is then implicitly usable as `[2]i64` although the stored elements are not converted (the memory is reinterpreted: b[0] reads -4294967297)")
	}
	r.Floor(rule, n, 6, "component comparisons in checkCompositeTypeCompatibility")
	if sec != nil {
		sinfo := sec.Info()
		// last statement returns the constant Incompatible; every earlier `return compat` (other than the first guard) sits under an IsUntyped / both-reference test
		last := sec.Decl.Body.List[len(sec.Decl.Body.List)-1]
		okLast := false
		if ret, isRet := last.(*ast.ReturnStmt); isRet && len(ret.Results) == 1 {
			if o := constObj(sinfo, ret.Results[0]); o != nil && o.Name() == "Incompatible" {
				okLast = true
			}
		}
		r.Check(okLast, rule, sec.Name(), "falls through to Incompatible", c.pos(sec.Decl.Pos()), "a component conversion that changes the stored representation is no longer refused")
		bad := 0
		walkWithStack(sec.Decl.Body, func(nd ast.Node, stack []ast.Node) bool {
			ret, isRet := nd.(*ast.ReturnStmt)
			if !isRet || len(ret.Results) != 1 || constObj(sinfo, ret.Results[0]) != nil {
				return true
			}
			// returns a variable: must be under `compat != ImplicitCastable`, an IsUntyped test, or a both-reference test
			guarded := false
			for i := len(stack) - 1; i >= 0; i-- {
				if ifs, isIf := stack[i].(*ast.IfStmt); isIf {
					cs := exprStr(ifs.Cond)
					if strings.Contains(cs, "!= ImplicitCastable") || strings.Contains(cs, "IsUntyped") || (strings.Contains(cs, "IsRef") && strings.Contains(cs, "&&")) {
						guarded = true
					}
				}
			}
			if !guarded {
				bad++
			}
			return true
		})
		r.Check(bad == 0, rule, sec.Name(), "implicit classification only for untyped / reference components", c.pos(sec.Decl.Pos()), fmt.Sprintf("%d return(s) hand back the plain-value classification without the untyped-literal or reference test", bad))
	}
}

// ---- C03.R7 ---------------------------------------------------------------------------------------------

func c03R7(c *Ctx, r *Report) {
	const rule = "C03.R7"
	r.Describe(rule, "composite literals: checkCompositeLit dispatches Array, Map, Struct and Optional(inner) targets; validateStructLiteral reports a field that is initialised twice")
	ccl := c.LookupFn(pkgTC, "checkCompositeLit")
	vsl := c.LookupFn(pkgTC, "validateStructLiteral")
	bagAdd := c.LookupFn("internal/diagnostics", "(*DiagnosticBag).Add")
	if !r.Anchor(rule, ccl != nil && vsl != nil && bagAdd != nil, "typechecker.checkCompositeLit / validateStructLiteral / DiagnosticBag.Add") {
		return
	}
	kinds := map[string]bool{}
	ast.Inspect(ccl.Decl.Body, func(x ast.Node) bool {
		if ta, ok := x.(*ast.TypeAssertExpr); ok && ta.Type != nil {
			s := exprStr(ta.Type)
			kinds[strings.TrimPrefix(s, "*types.")] = true
		}
		return true
	})
	for _, k := range []string{"ArrayType", "MapType", "StructType", "OptionalType"} {
		r.Check(kinds[k], rule, ccl.Name(), "expected type "+k+" is dispatched", c.pos(ccl.Decl.Pos()),
			"a composite literal whose expected type is a "+k+" is not checked at all: wrong element/field types, unknown fields and other modules' private fields go through (e.g. `let p: Box? = { .V = s }`)")
	}
	// duplicate field: an if whose init looks the field name up in the table of seen fields and whose body reports
	vinfo := vsl.Info()
	dup := false
	ast.Inspect(vsl.Decl.Body, func(x ast.Node) bool {
		ifs, ok := x.(*ast.IfStmt)
		if !ok || ifs.Init == nil {
			return true
		}
		as, ok := ifs.Init.(*ast.AssignStmt)
		if !ok || len(as.Rhs) != 1 || len(as.Lhs) != 2 {
			return true
		}
		ix, ok := as.Rhs[0].(*ast.IndexExpr)
		if !ok || !strings.HasSuffix(exprStr(ix.Index), ".Name") {
			return true
		}
		if _, isMap := vinfo.TypeOf(ix.X).Underlying().(*types.Map); !isMap {
			return true
		}
		if objOf(vinfo, ifs.Cond) == objOf(vinfo, as.Lhs[1]) && nodeCalls(vinfo, ifs.Body, bagAdd.Obj) != nil {
			dup = true
		}
		return true
	})
	r.Check(dup, rule, vsl.Name(), "a field initialised twice is reported", c.pos(vsl.Decl.Pos()),
		"`{ .X = 1, .X = big }` is accepted: only the first value is compared with the field's type, the last one is stored")
}

// ---- C12.R4 ---------------------------------------------------------------------------------------------

var c12R4Reviewed = map[string]string{
	"semantics/typechecker.checkCatchClause": "leaves early only when the callee is not a function returning a result type, which checkCallExpr / validateResultTypeHandling have reported as errors",
}

func c12R4(c *Ctx, r *Report) {
	const rule = "C12.R4"
	r.Describe(rule, "resolver / type checker / borrow checker: the code that handles a catch clause visits Handler and Fallback on every path (nil tests excepted)")
	type site struct{ pkg, label string }
	n := 0
	for _, s := range []site{{"internal/semantics/resolver", "resolver"}, {pkgTC, "type checker"}, {pkgHIRAn, "borrow checker / analysis"}} {
		for _, fn := range c.AllFns(s.pkg) {
			info := fn.Info()
			// a region that visits one of the two children must visit the other: find functions (or case clauses) that
			// mention both `.Handler` and `.Fallback`? No — the defect is *not* mentioning one on some path. Take every
			// function that receives or selects a CatchClause and calls a walker on one child.
			var clauseExprs = map[string]bool{}
			ast.Inspect(fn.Decl.Body, func(x ast.Node) bool {
				sel, ok := x.(*ast.SelectorExpr)
				if !ok || (sel.Sel.Name != "Handler" && sel.Sel.Name != "Fallback") {
					return true
				}
				if nt := namedOf(info.TypeOf(sel.X)); nt != nil && nt.Obj().Name() == "CatchClause" {
					clauseExprs[exprStr(sel.X)] = true
				}
				return true
			})
			for ce := range clauseExprs {
				visits := func(child string) func(ast.Node) bool {
					return func(nd ast.Node) bool {
						found := false
						// also inside function literals handed to a helper (withTempScope(func() { … }))
						ast.Inspect(nd, func(x ast.Node) bool {
							if cl, ok := x.(*ast.CallExpr); ok {
								for _, a := range cl.Args {
									if exprStr(a) == ce+"."+child {
										found = true
									}
								}
							}
							// do not descend into nested statements of control constructs: those are separate CFG nodes
							switch x.(type) {
							case *ast.IfStmt, *ast.ForStmt, *ast.RangeStmt, *ast.SwitchStmt, *ast.TypeSwitchStmt, *ast.BlockStmt:
								if x != nd {
									if _, isLitBody := nd.(*ast.ExprStmt); !isLitBody {
										return false
									}
								}
							}
							return !found
						})
						return found
					}
				}
				anyH, anyF := false, false
				ast.Inspect(fn.Decl.Body, func(x ast.Node) bool {
					if st, ok := x.(ast.Stmt); ok {
						if visits("Handler")(st) {
							anyH = true
						}
						if visits("Fallback")(st) {
							anyF = true
						}
					}
					return true
				})
				if !anyH || !anyF {
					continue // this code handles only one of the two children (or only reads them)
				}
				if reason, ok := c12R4Reviewed[fn.Name()]; ok {
					r.OK(rule, fn.Name(), s.label+": "+ce+" (reviewed: "+reason+")", c.pos(fn.Decl.Pos()), "reviewed exception")
					continue
				}
				n++
				// regions: every case clause that visits a child of this clause expression (the same spelling, e.g.
				// `e.Catch`, can denote different variables in different cases); the function body when there is none
				var regions []*ast.BlockStmt
				ast.Inspect(fn.Decl.Body, func(x ast.Node) bool {
					cc, ok := x.(*ast.CaseClause)
					if !ok {
						return true
					}
					has := false
					for _, st := range cc.Body {
						ast.Inspect(st, func(y ast.Node) bool {
							if s2, ok := y.(ast.Stmt); ok && (visits("Handler")(s2) || visits("Fallback")(s2)) {
								has = true
							}
							return !has
						})
					}
					if has {
						regions = append(regions, &ast.BlockStmt{List: cc.Body, Lbrace: cc.Colon, Rbrace: cc.End()})
						return false
					}
					return true
				})
				if len(regions) == 0 {
					regions = []*ast.BlockStmt{fn.Decl.Body}
				}
				for ri, region := range regions {
					for _, child := range []string{"Handler", "Fallback"} {
						okAll := visitedOnAllPaths(c, info, region, visits(child), ce+"."+child)
						r.Check(okAll, rule, fn.Name(), fmt.Sprintf("%s: %s.%s visited on every path (site %d)", s.label, ce, child, ri+1), c.pos(region.Pos()),
							"a catch clause with both a handler block and a fallback value is walked only partly: names in the unvisited part escape this phase's checks (e.g. a private `module::name` in the fallback value is never export-checked)")
					}
				}
			}
		}
	}
	r.Floor(rule, n, 3, "catch-clause handling sites")
}

// enclosingRegion: the innermost case-clause body (or the function body) that contains all statements matching pred.
func enclosingRegion(fn *Fn, pred func(ast.Stmt) bool) *ast.BlockStmt {
	region := fn.Decl.Body
	ast.Inspect(fn.Decl.Body, func(x ast.Node) bool {
		cc, ok := x.(*ast.CaseClause)
		if !ok {
			return true
		}
		inside, outside := 0, 0
		ast.Inspect(fn.Decl.Body, func(y ast.Node) bool {
			if st, ok := y.(ast.Stmt); ok && pred(st) {
				if st.Pos() >= cc.Pos() && st.End() <= cc.End() {
					inside++
				} else {
					outside++
				}
			}
			return true
		})
		if inside > 0 && outside == 0 {
			region = &ast.BlockStmt{List: cc.Body, Lbrace: cc.Colon, Rbrace: cc.End()}
		}
		return true
	})
	return region
}

// visitedOnAllPaths: every exit of region has passed a visiting node, or a `child == nil` true edge / `child != nil` false edge.
func visitedOnAllPaths(c *Ctx, info *types.Info, region *ast.BlockStmt, visits func(ast.Node) bool, child string) bool {
	isNilTest := func(e ast.Expr, op token.Token) bool {
		be, ok := isBinOp(e, op)
		return ok && exprStr(be.X) == child && exprStr(be.Y) == "nil"
	}
	hits := mustFlowNilAware(c.CFGOfBody(region), visits, func(cond ast.Expr, succ int) bool {
		if succ == 0 {
			for _, d := range disjuncts(cond) {
				if isNilTest(d, token.EQL) {
					return true
				}
			}
			// `clause == nil`-style early outs are handled by AtReturn paths that never reach a visit: accept `X == nil`
			// where X is a prefix of child
			for _, d := range disjuncts(cond) {
				if be, ok := isBinOp(d, token.EQL); ok && exprStr(be.Y) == "nil" && strings.HasPrefix(child, exprStr(be.X)+".") {
					return true
				}
			}
		} else {
			for _, cj := range conjuncts(cond) {
				if isNilTest(cj, token.NEQ) {
					return true
				}
				if be, ok := isBinOp(cj, token.NEQ); ok && exprStr(be.Y) == "nil" && strings.HasPrefix(child, exprStr(be.X)+".") {
					return true
				}
			}
		}
		return false
	})
	return hits == 0
}

// ---- C15.R7 ---------------------------------------------------------------------------------------------

func c15R7(c *Ctx, r *Report) {
	const rule = "C15.R7"
	r.Describe(rule, "concurrent region: channel sends occur only inside the function literal of a `go` statement (a worker may wait for a slot; the spawning path may not)")
	region, sites := c.concurrentRegion()
	if !r.Anchor(rule, len(sites) > 0, "go statements of the module") {
		return
	}
	n := 0
	for f := range region {
		fn := c.fnOfSSA(f)
		if fn == nil || f.Parent() != nil {
			continue // literals are inspected through their enclosing declaration
		}
		n++
		walkWithStack(fn.Decl.Body, func(nd ast.Node, stack []ast.Node) bool {
			send, ok := nd.(*ast.SendStmt)
			if !ok {
				return true
			}
			// inside the literal of a go statement?
			inGo := false
			for i := len(stack) - 1; i >= 0; i-- {
				if lit, isLit := stack[i].(*ast.FuncLit); isLit {
					for j := i - 1; j >= 0; j-- {
						if gs, isGo := stack[j].(*ast.GoStmt); isGo {
							if cl := gs.Call; cl != nil && ast.Unparen(cl.Fun) == ast.Expr(lit) {
								inGo = true
							}
						}
					}
					break
				}
			}
			r.Check(inGo, rule, fn.Name(), "channel send "+exprStr(send.Chan)+" <- … inside the spawned goroutine", c.pos(send.Pos()),
				"a function running on a parser goroutine blocks on a channel send before it spawns: when every holder of a slot is itself waiting to spawn (a module with as many importing children as there are slots) all of them wait for ever — an acyclic project never builds and a cyclic one is never reported")
			return true
		})
	}
	r.Floor(rule, n, 3, "declared functions in the concurrent region")
}

func (c *Ctx) fnOfSSA(f *ssa.Function) *Fn {
	if f == nil || f.Object() == nil {
		return nil
	}
	fo, _ := f.Object().(*types.Func)
	if fo == nil {
		return nil
	}
	fn := c.FnOf(fo)
	if fn == nil || fn.Decl == nil || fn.Decl.Body == nil {
		return nil
	}
	return fn
}

// ---- C17.R8 ---------------------------------------------------------------------------------------------

func c17R8(c *Ctx, r *Report) {
	const rule = "C17.R8"
	r.Describe(rule, "mir/gen: the element pointer passed to ferret_array_append is a fresh alloca (or, for union elements, the box produced by the coercion)")
	alloca := c.LookupFn(pkgMIRGen, "(*functionBuilder).emitAlloca")
	coerce := c.LookupFn(pkgMIRGen, "(*functionBuilder).coerceValueForAssign")
	if !r.Anchor(rule, alloca != nil && coerce != nil, "mir/gen emitAlloca / coerceValueForAssign") {
		return
	}
	n := 0
	for _, fn := range c.AllFns(pkgMIRGen) {
		info := fn.Info()
		defs := localDefs(fn)
		ast.Inspect(fn.Decl.Body, func(x ast.Node) bool {
			lit, ok := x.(*ast.CompositeLit)
			if !ok {
				return true
			}
			nt := namedOf(info.TypeOf(lit))
			if nt == nil || nt.Obj().Name() != "Call" {
				return true
			}
			target, args := "", ast.Expr(nil)
			for _, e := range lit.Elts {
				if kv, ok := e.(*ast.KeyValueExpr); ok {
					switch exprStr(kv.Key) {
					case "Target":
						if v := constOf(info, kv.Value); v != nil {
							target, _ = strOf(v)
						}
					case "Args":
						args = kv.Value
					}
				}
			}
			if target != "ferret_array_append" {
				return true
			}
			al, ok := args.(*ast.CompositeLit)
			if !ok || len(al.Elts) != 2 {
				return true
			}
			n++
			ptr := al.Elts[1]
			userArray := true
			if ao := objOf(info, al.Elts[0]); ao != nil && len(defs[ao]) > 0 {
				userArray = false
				for _, d := range defs[ao] {
					if dc, isCall := ast.Unparen(d).(*ast.CallExpr); isCall {
						if f := callee(info, dc); f != nil && f.Name() != "nextValueID" {
							userArray = true
						}
					} else {
						userArray = true
					}
				}
			}
			fresh := func(e ast.Expr) bool {
				cl, ok := ast.Unparen(e).(*ast.CallExpr)
				if !ok {
					return false
				}
				if isCallTo(info, cl, alloca.Obj) || isCallTo(info, cl, coerce.Obj) {
					return true
				}
				// a helper of this package all of whose returns hand back a slot it allocated itself
				hf := c.FnOf(callee(info, cl))
				if hf == nil || hf.Decl.Body == nil {
					return false
				}
				hinfo := hf.Info()
				hdefs := localDefs(hf)
				all, nRet := true, 0
				ast.Inspect(hf.Decl.Body, func(y ast.Node) bool {
					ret, isRet := y.(*ast.ReturnStmt)
					if !isRet || len(ret.Results) != 1 {
						return true
					}
					nRet++
					okRet := false
					if rc, isCall := ast.Unparen(ret.Results[0]).(*ast.CallExpr); isCall && isCallTo(hinfo, rc, alloca.Obj) {
						okRet = true
					}
					if o := objOf(hinfo, ret.Results[0]); o != nil && len(hdefs[o]) > 0 {
						okRet = true
						for _, d := range hdefs[o] {
							dc, isCall := ast.Unparen(d).(*ast.CallExpr)
							if !isCall || !isCallTo(hinfo, dc, alloca.Obj) {
								okRet = false
							}
						}
					}
					if !okRet {
						all = false
					}
					return true
				})
				return all && nRet > 0
			}
			ok2 := fresh(ptr)
			if o := objOf(info, ptr); o != nil && len(defs[o]) > 0 {
				ok2 = true
				for _, d := range defs[o] {
					if fresh(d) {
						continue
					}
					// valuePtr := value  where value itself comes from the coercion (union elements): an existing
					// address is acceptable only when the destination array was created right here, i.e. it is
					// not a value lowered from a user expression that the element could point into
					if o2 := objOf(info, d); o2 != nil && !userArray {
						inner := false
						for _, d2 := range defs[o2] {
							if fresh(d2) {
								inner = true
							}
						}
						if inner {
							continue
						}
					}
					ok2 = false
				}
			}
			r.Check(ok2, rule, fn.Name(), "element pointer "+exprStr(ptr)+" is a fresh slot", c.pos(lit.Pos()),
				"the address handed to ferret_array_append can be the address of an existing value: when it points into the array being appended to and the array has to grow, the runtime reallocates first and then copies from the freed block (use after free; the stored element is garbage)")
			return true
		})
	}
	r.Floor(rule, n, 2, "ferret_array_append call sites")
}

// ---- C19.R4b --------------------------------------------------------------------------------------------

var c19R4bReviewed = map[string]string{
	"hir/analysis.(*CFGBuilder).findMissingReturnBranches": "line number inside a diagnostic message",
	"hir/analysis.checkCatchHandlerReturns":                "line number inside a diagnostic message",
	"hir/analysis.findMissingReturnBranches":               "line number inside a diagnostic message",
	"semantics/typechecker.checkBlock":                     "narrowing scope key: written and looked up with the same (line, column) pair of the block, both components kept apart",
	"hir/analysis.AnalyzeReturns":                          "line number inside a diagnostic message",
	"semantics/typechecker.storeNarrowingArtifacts":        "narrowing scope key (see checkBlock)",
	"frontend/parser.(*Parser).takeDocComment":             "doc attachment",
	"frontend/parser.(*Parser).collectCommentGroup":        "doc attachment",
	"frontend/parser.(*Parser).advance":                    "doc attachment bookkeeping (line of the last non-comment token)",
	"frontend/parser.(*Parser).advanceRaw":                 "doc attachment bookkeeping",
}

func c19R4b(c *Ctx, r *Report) {
	const rule = "C19.R4b"
	r.Describe(rule, "Position.Line / Position.Column are read outside diagnostics, source and tokens only in the reviewed functions (a name, key or decision computed from positions changes with the layout)")
	line := c.fieldObj(pkgSource, "Position", "Line")
	col := c.fieldObj(pkgSource, "Position", "Column")
	if !r.Anchor(rule, line != nil && col != nil, "source.Position.Line / Column") {
		return
	}
	n := 0
	for _, p := range c.Pkgs {
		rel := relOf(p.PkgPath)
		if rel == "internal/diagnostics" || rel == "internal/source" || rel == "internal/tokens" || rel == "tools" || rel == "internal/frontend/lexer" {
			continue
		}
		for _, fn := range c.AllFns(rel) {
			info := fn.Info()
			reads := false
			var at token.Pos
			ast.Inspect(fn.Decl.Body, func(x ast.Node) bool {
				if sel, ok := x.(*ast.SelectorExpr); ok && (info.Uses[sel.Sel] == line || info.Uses[sel.Sel] == col) {
					reads = true
					at = sel.Pos()
				}
				return true
			})
			if !reads {
				continue
			}
			n++
			_, ok := c19R4bReviewed[fn.Name()]
			r.Check(ok, rule, fn.Name(), "reads Position.Line/Column (reviewed use)", c.pos(at),
				"a line/column number is read by compiler logic outside the reviewed places: anything derived from it (a generated name such as line*1000+column, a map key, a comparison) changes — or collides — when blanks are inserted, so the layout of the source changes the meaning of the program")
		}
	}
	r.Floor(rule, n, 3, "functions reading line/column outside diagnostics")
	// helpers of the position packages that compute a decision (non-string result) from a line or column: their
	// callers in compiler logic are position readers too
	helpers := map[*types.Func]bool{}
	for _, rel := range []string{"internal/source", "internal/diagnostics", "internal/tokens"} {
		for _, fn := range c.AllFns(rel) {
			sig := fn.Obj.Type().(*types.Signature)
			if sig.Results().Len() != 1 {
				continue
			}
			if b, ok := sig.Results().At(0).Type().Underlying().(*types.Basic); !ok || b.Info()&(types.IsBoolean|types.IsInteger) == 0 {
				continue
			}
			info := fn.Info()
			ast.Inspect(fn.Decl.Body, func(x ast.Node) bool {
				if sel, ok := x.(*ast.SelectorExpr); ok && (info.Uses[sel.Sel] == line || info.Uses[sel.Sel] == col) {
					helpers[fn.Obj] = true
				}
				return true
			})
		}
	}
	for _, p := range c.Pkgs {
		rel := relOf(p.PkgPath)
		if rel == "internal/diagnostics" || rel == "internal/source" || rel == "internal/tokens" || rel == "tools" || rel == "internal/frontend/lexer" {
			continue
		}
		for _, fn := range c.AllFns(rel) {
			info := fn.Info()
			for _, cl := range callsIn(fn.Decl.Body, true) {
				f := callee(info, cl)
				if f == nil || !helpers[f] {
					continue
				}
				_, ok := c19R4bReviewed[fn.Name()]
				r.Check(ok, rule, fn.Name(), "calls "+funcKey(f)+", which decides from a line/column number", c.pos(cl.Pos()),
					"compiler logic takes a decision from "+funcKey(f)+", which compares line or column numbers: two tokens on the same line are indistinguishable for it, so inserting a line break between them changes the decision (a use before its declaration on the same line is accepted, on separate lines rejected)")
			}
		}
	}
	r.Note("%s: %d position-deciding helpers in source/diagnostics/tokens", rule, len(helpers))
}

// ---- C14.R6 ---------------------------------------------------------------------------------------------

// fields of shared (mutex-protected) objects that are appended to in the concurrent region but whose element order is fixed
var c14R6Reviewed = map[string]string{
	"DepGraph":    "DepGraph[m] is appended to only by the goroutine that parses m, in the source order of m's imports",
	"diagnostics": "the diagnostic list is stably sorted before emission (C14.R3)",
}

func ownerHasMutex(t types.Type) bool {
	if p, ok := t.(*types.Pointer); ok {
		t = p.Elem()
	}
	st, ok := t.Underlying().(*types.Struct)
	if !ok {
		return false
	}
	for i := 0; i < st.NumFields(); i++ {
		if nt := namedOf(st.Field(i).Type()); nt != nil && nt.Obj().Pkg() != nil && nt.Obj().Pkg().Path() == "sync" && (nt.Obj().Name() == "Mutex" || nt.Obj().Name() == "RWMutex") {
			return true
		}
	}
	return false
}

func c14R6(c *Ctx, r *Report) {
	const rule = "C14.R6"
	r.Describe(rule, "slices stored in struct fields and appended to inside the concurrent region are ranged over in sequential code only after sorting (or inside a sorted-after / order-insensitive loop)")
	region, _ := c.concurrentRegion()
	// fields F with `x.F[k] = append(x.F[k], …)` or `x.F = append(x.F, …)` in a region function
	fields := map[*types.Var]string{}
	for f := range region {
		fn := c.fnOfSSA(f)
		if fn == nil {
			continue
		}
		info := fn.Info()
		ast.Inspect(fn.Decl.Body, func(x ast.Node) bool {
			as, ok := x.(*ast.AssignStmt)
			if !ok || len(as.Lhs) != 1 || len(as.Rhs) != 1 {
				return true
			}
			cl, ok := as.Rhs[0].(*ast.CallExpr)
			if !ok || exprStr(cl.Fun) != "append" {
				return true
			}
			l := as.Lhs[0]
			if ix, ok := l.(*ast.IndexExpr); ok {
				l = ix.X
			}
			if sel, ok := l.(*ast.SelectorExpr); ok {
				if fv, ok := info.Uses[sel.Sel].(*types.Var); ok && fv.IsField() && ownerHasMutex(info.TypeOf(sel.X)) {
					if _, reviewed := c14R6Reviewed[fv.Name()]; !reviewed {
						fields[fv] = fn.Name()
					}
				}
			}
			return true
		})
	}
	n := 0
	for _, p := range c.Pkgs {
		rel := relOf(p.PkgPath)
		if rel == "tools" || rel == "toml" {
			continue
		}
		for _, fn := range c.AllFns(rel) {
			info := fn.Info()
			ast.Inspect(fn.Decl.Body, func(x ast.Node) bool {
				rs, ok := x.(*ast.RangeStmt)
				if !ok {
					return true
				}
				e := ast.Unparen(rs.X)
				if ix, ok := e.(*ast.IndexExpr); ok {
					e = ix.X
				}
				sel, ok := e.(*ast.SelectorExpr)
				if !ok {
					return true
				}
				fv, ok := info.Uses[sel.Sel].(*types.Var)
				if !ok || fields[fv] == "" {
					return true
				}
				if _, isSlice := info.TypeOf(rs.X).Underlying().(*types.Slice); !isSlice {
					return true
				}
				n++
				class, why := classifyMapRange(c, fn, rs)
				r.Check(class != "sensitive", rule, fn.Name(), "range "+exprStr(rs.X)+" (filled by "+fields[fv]+" on parser goroutines) is order-insensitive", c.pos(rs.Pos()),
					"the order of this slice is the order in which the parser goroutines finished; the loop lets that order reach an order-dependent effect ("+why+"), so the module order, and with it diagnostics and generated code, varies between runs")
				return true
			})
		}
	}
	r.Note("%s: %d field(s) appended to in the concurrent region, %d sequential range site(s)", rule, len(fields), n)
}

func init() {
	lateInits = append(lateInits, func() {
		props["C03"].Quick = append(props["C03"].Quick, c03R8)
		props["C11"].Quick = append(props["C11"].Quick, c03R8)
		props["C03"].Explanation += " (R8) the operands of `??` and of a range are related to each other: the default is checked against the optional's payload type, typed range bounds/step must have one type."
	})
}

// C03.R8: operand relations of `a ?? b` and `a..b:c`.
func c03R8(c *Ctx, r *Report) {
	const rule = "C03.R8"
	r.Describe(rule, "checkExpr: case CoalescingExpr checks Default against the payload type (checkAssignLike / typed checkExpr); case RangeExpr compares the bound types with Equals and reports a mismatch")
	ce := c.LookupFn(pkgTC, "checkExpr")
	cal := c.LookupFn(pkgTC, "checkAssignLike")
	bagAdd := c.LookupFn("internal/diagnostics", "(*DiagnosticBag).Add")
	unknownVar := c.lookupObj(pkgTypes, "TypeUnknown")
	if !r.Anchor(rule, ce != nil && cal != nil && bagAdd != nil && unknownVar != nil, "typechecker.checkExpr / checkAssignLike / DiagnosticBag.Add / TypeUnknown") {
		return
	}
	info := ce.Info()
	clause := func(kind string) *ast.CaseClause {
		var out *ast.CaseClause
		ast.Inspect(ce.Decl.Body, func(x ast.Node) bool {
			if cc, ok := x.(*ast.CaseClause); ok && out == nil {
				for _, t := range caseTypes(info, cc) {
					if nt := namedOf(t); nt != nil && nt.Obj().Name() == kind {
						out = cc
					}
				}
			}
			return true
		})
		return out
	}
	if cc := clause("CoalescingExpr"); r.Anchor(rule, cc != nil, "checkExpr: case *ast.CoalescingExpr") {
		related := false
		for _, st := range cc.Body {
			for _, call := range callsIn(st, false) {
				mentionsDefault := false
				for _, a := range call.Args {
					if strings.HasSuffix(exprStr(a), ".Default") {
						mentionsDefault = true
					}
				}
				if !mentionsDefault {
					continue
				}
				if isCallTo(info, call, cal.Obj) {
					related = true
				}
				if isCallTo(info, call, ce.Obj) && len(call.Args) == 4 && objOf(info, call.Args[3]) != unknownVar {
					related = true
				}
			}
		}
		r.Check(related, rule, ce.Name(), "`a ?? b`: b checked against the payload type of a", c.pos(cc.Pos()),
			"the default of `??` is checked without an expected type: `o ?? x` with o: i32? and x: i64 is accepted and the value is silently narrowed (5000000000 becomes 705032704); `o ?? 5` with o: str? is accepted")
	}
	// map index: index type -> key type, implicit conversions only
	if cie := c.LookupFn(pkgTC, "checkIndexExpr"); r.Anchor(rule, cie != nil, "typechecker.checkIndexExpr") {
		ctc := c.LookupFn(pkgTC, "checkTypeCompatibility")
		iinfo := cie.Info()
		idxParam := cie.ParamNamed("indexType")
		okDir, okSet := false, false
		ast.Inspect(cie.Decl.Body, func(x ast.Node) bool {
			ifs, isIf := x.(*ast.IfStmt)
			if !isIf {
				return true
			}
			var call *ast.CallExpr
			ast.Inspect(ifs, func(y ast.Node) bool {
				if cl, ok := y.(*ast.CallExpr); ok && ctc != nil && isCallTo(iinfo, cl, ctc.Obj) && call == nil {
					call = cl
				}
				return true
			})
			if call == nil || len(call.Args) != 2 {
				return true
			}
			if !(strings.HasSuffix(exprStr(call.Args[0]), ".Key") || strings.HasSuffix(exprStr(call.Args[1]), ".Key")) {
				return true
			}
			if idxParam != nil && objOf(iinfo, call.Args[0]) == idxParam && strings.HasSuffix(exprStr(call.Args[1]), ".Key") {
				okDir = true
			}
			cs := exprStr(ifs.Cond)
			if strings.Contains(cs, "ImplicitCastable") && !strings.Contains(cs, "ExplicitCastable") {
				okSet = true
			}
			return true
		})
		r.Check(okDir && okSet, rule, cie.Name(), "map index converts to the key type implicitly", c.pos(cie.Decl.Pos()),
			fmt.Sprintf("the index of a map is related to the key type in the right direction=%v, restricted to identical/implicit=%v: otherwise `m[k]` with m: map[i32]V and k: i64 is accepted and k is silently narrowed", okDir, okSet))
	}
	if cc := clause("RangeExpr"); r.Anchor(rule, cc != nil, "checkExpr: case *ast.RangeExpr") {
		// an Error report under a condition that contains a negated Equals call
		ok := false
		for _, st := range cc.Body {
			ast.Inspect(st, func(x ast.Node) bool {
				ifs, isIf := x.(*ast.IfStmt)
				if !isIf || nodeCalls(info, ifs.Body, bagAdd.Obj) == nil {
					return true
				}
				for _, cj := range conjuncts(ifs.Cond) {
					if u, isNot := ast.Unparen(cj).(*ast.UnaryExpr); isNot && u.Op == token.NOT {
						if cl, isCall := ast.Unparen(u.X).(*ast.CallExpr); isCall {
							if sel, isSel := cl.Fun.(*ast.SelectorExpr); isSel && sel.Sel.Name == "Equals" {
								ok = true
							}
						}
					}
				}
				return true
			})
		}
		r.Check(ok, rule, ce.Name(), "`a..b:c`: bound types compared, mismatch reported", c.pos(cc.Pos()),
			"the bounds of a range are not related to each other: `for i in s..e` with s: i32 = -2 and e: u64 converts -2 to 2^64-2 without a cast and the loop never runs")
	}
}

func init() {
	lateInits = append(lateInits, func() {
		props["C03"].Quick = append(props["C03"].Quick, c03R9)
		props["C03"].Explanation += " (R9) every unary operator the parser can build has an operand rule in checkExpr (an error report in the branch for that operator)."
	})
}

// C03.R9: unary operators have operand rules.
func c03R9(c *Ctx, r *Report) {
	const rule = "C03.R9"
	r.Describe(rule, "checkExpr, case UnaryExpr: every operator token for which the parser builds a UnaryExpr is named in the case, and the branch for it can report an error")
	ce := c.LookupFn(pkgTC, "checkExpr")
	bagAdd := c.LookupFn("internal/diagnostics", "(*DiagnosticBag).Add")
	if !r.Anchor(rule, ce != nil && bagAdd != nil, "typechecker.checkExpr / DiagnosticBag.Add") {
		return
	}
	// operators: tokens matched by parser functions that build ast.UnaryExpr
	ops := map[string]bool{}
	for _, pf := range c.AllFns("internal/frontend/parser") {
		builds := false
		ast.Inspect(pf.Decl.Body, func(n ast.Node) bool {
			if cl, ok := n.(*ast.CompositeLit); ok {
				if nt := namedOf(pf.Info().TypeOf(cl)); nt != nil && nt.Obj().Name() == "UnaryExpr" {
					builds = true
				}
			}
			return true
		})
		if !builds {
			continue
		}
		for _, call := range callsIn(pf.Decl.Body, false) {
			if f := callee(pf.Info(), call); f != nil && f.Name() == "match" {
				for _, a := range call.Args {
					if o := constObj(pf.Info(), a); o != nil && strings.HasSuffix(o.Name(), "_TOKEN") {
						ops[o.Name()] = true
					}
				}
			}
		}
	}
	r.Floor(rule, len(ops), 3, "unary operator tokens built by the parser")
	info := ce.Info()
	var clause *ast.CaseClause
	ast.Inspect(ce.Decl.Body, func(x ast.Node) bool {
		if cc, ok := x.(*ast.CaseClause); ok && clause == nil {
			for _, t := range caseTypes(info, cc) {
				if nt := namedOf(t); nt != nil && nt.Obj().Name() == "UnaryExpr" {
					clause = cc
				}
			}
		}
		return true
	})
	if !r.Anchor(rule, clause != nil, "checkExpr: case *ast.UnaryExpr") {
		return
	}
	// token -> can a report be reached in a region that names the token?
	reports := map[string]bool{}
	named := map[string]bool{}
	var visit func(n ast.Node)
	visit = func(n ast.Node) {
		ast.Inspect(n, func(x ast.Node) bool {
			switch y := x.(type) {
			case *ast.CaseClause:
				for _, e := range y.List {
					if o := constObj(info, e); o != nil {
						named[o.Name()] = true
						for _, st := range y.Body {
							if nodeCallsDeep(info, st, bagAdd.Obj) || callsReporter(c, info, st, bagAdd.Obj) {
								reports[o.Name()] = true
							}
						}
					}
				}
			case *ast.IfStmt:
				for _, d := range disjuncts(y.Cond) {
					if be, ok := isBinOp(d, token.EQL); ok {
						if o := constObj(info, be.Y); o != nil && strings.HasSuffix(o.Name(), "_TOKEN") {
							named[o.Name()] = true
							if nodeCallsDeep(info, y.Body, bagAdd.Obj) || callsReporter(c, info, y.Body, bagAdd.Obj) {
								reports[o.Name()] = true
							}
						}
					}
				}
			}
			return true
		})
	}
	for _, st := range clause.Body {
		visit(st)
	}
	reviewed := map[string]string{
		"PLUS_PLUS_TOKEN":   "built as PrefixExpr by the same parser function; operand rule in checkIncDecTarget (C06.R1)",
		"MINUS_MINUS_TOKEN": "built as PrefixExpr by the same parser function; operand rule in checkIncDecTarget (C06.R1)",
	}
	for _, op := range sortedKeys(ops) {
		if why, ok := reviewed[op]; ok {
			r.OK(rule, ce.Name(), "unary "+op+" (reviewed: "+why+")", c.pos(clause.Pos()), "reviewed exception")
			continue
		}
		r.Check(named[op] && reports[op], rule, ce.Name(), "unary "+op+" has an operand rule", c.pos(clause.Pos()),
			fmt.Sprintf("the unary operator %s is accepted with any operand (named in the case: %v, can report: %v): `let b := !n` with n: i32 compiles, `-flag` on a bool compiles", op, named[op], reports[op]))
	}
}

func nodeCallsDeep(info *types.Info, n ast.Node, f *types.Func) bool {
	found := false
	ast.Inspect(n, func(x ast.Node) bool {
		if cl, ok := x.(*ast.CallExpr); ok && isCallTo(info, cl, f) {
			found = true
		}
		return !found
	})
	return found
}

// callsReporter: n calls a function of the module that itself reports (one level), e.g. checkBorrowExpr.
func callsReporter(c *Ctx, info *types.Info, n ast.Node, bagAdd *types.Func) bool {
	found := false
	ast.Inspect(n, func(x ast.Node) bool {
		if cl, ok := x.(*ast.CallExpr); ok {
			if hf := c.FnOf(callee(info, cl)); hf != nil && hf.Decl.Body != nil && nodeCallsDeep(hf.Info(), hf.Decl.Body, bagAdd) {
				found = true
			}
		}
		return !found
	})
	return found
}

func init() {
	lateInits = append(lateInits, func() {
		props["C01"].Quick = append(props["C01"].Quick, c01R8)
		props["C01"].Explanation += " (R8) scalar by-value parameters are given an entry-block slot before the body is lowered, and identifier reads / address-of consult that slot before the incoming SSA value."
	})
}

// C01.R8: parameters are variables from the first statement on.
func c01R8(c *Ctx, r *Report) {
	const rule = "C01.R8"
	r.Describe(rule, "mir/gen: buildFuncBody spills scalar by-value parameters (emitAllocaInEntry + emitStoreInEntry) before lowerBlock; loadIdent and addrForIdent look the parameter slot up before falling back to the incoming value")
	bfb := c.LookupFn(pkgMIRGen, "(*functionBuilder).buildFuncBody")
	allocE := c.LookupFn(pkgMIRGen, "(*functionBuilder).emitAllocaInEntry")
	storeE := c.LookupFn(pkgMIRGen, "(*functionBuilder).emitStoreInEntry")
	lowerBlock := c.LookupFn(pkgMIRGen, "(*functionBuilder).lowerBlock")
	if !r.Anchor(rule, bfb != nil && allocE != nil && storeE != nil && lowerBlock != nil, "mir/gen buildFuncBody / emitAllocaInEntry / emitStoreInEntry / lowerBlock") {
		return
	}
	info := bfb.Info()
	// the spill loop: a range over the parameters whose body allocates and stores in the entry block
	spillLoop := false
	var loop *ast.RangeStmt
	ast.Inspect(bfb.Decl.Body, func(x ast.Node) bool {
		if rs, ok := x.(*ast.RangeStmt); ok && strings.HasSuffix(exprStr(rs.X), ".Params") {
			if nodeCallsDeep(info, rs.Body, allocE.Obj) && nodeCallsDeep(info, rs.Body, storeE.Obj) {
				spillLoop = true
				loop = rs
			}
		}
		return true
	})
	r.Check(spillLoop, rule, bfb.Name(), "parameters spilled to entry-block slots", c.pos(bfb.Decl.Pos()),
		"by-value parameters are spilled lazily at their first assignment: reads lowered before that point (the condition of an enclosing loop) keep using the incoming value, so `while n > 0 { …; n = n - 1; }` on a parameter n never sees n change")
	if loop != nil {
		// … and the loop comes before the body is lowered
		var lb *ast.CallExpr
		for _, cl := range callsIn(bfb.Decl.Body, false) {
			if isCallTo(info, cl, lowerBlock.Obj) {
				lb = cl
			}
		}
		r.Check(lb != nil && loop.End() < lb.Pos(), rule, bfb.Name(), "spill precedes lowerBlock(body)", c.pos(loop.Pos()), "the parameter slots are created after the body has been lowered")
	}
	for _, name := range []string{"loadIdent", "addrForIdent"} {
		fn := c.LookupFn(pkgMIRGen, "(*functionBuilder)."+name)
		if !r.Anchor(rule, fn != nil, "mir/gen "+name) {
			continue
		}
		// first use of paramSlots must come before the first use of paramsByName
		firstSlots, firstByName := token.NoPos, token.NoPos
		ast.Inspect(fn.Decl.Body, func(x ast.Node) bool {
			if sel, ok := x.(*ast.SelectorExpr); ok {
				switch sel.Sel.Name {
				case "paramSlots":
					if firstSlots == token.NoPos {
						firstSlots = sel.Pos()
					}
				case "paramsByName":
					if firstByName == token.NoPos {
						firstByName = sel.Pos()
					}
				}
			}
			return true
		})
		r.Check(firstSlots != token.NoPos && (firstByName == token.NoPos || firstSlots < firstByName), rule, fn.Name(), "parameter slot consulted before the incoming value", c.pos(fn.Decl.Pos()),
			"identifier lowering returns the incoming SSA value of a parameter although the parameter has storage: writes to it are not seen by this read")
	}
}

func init() {
	lateInits = append(lateInits, func() {
		props["C01"].Quick = append(props["C01"].Quick, c01R9)
		props["C18"].Quick = append(props["C18"].Quick, c01R9)
		props["C10"].Quick = append(props["C10"].Quick, c10R6)
		props["C01"].Explanation += " (R9) by-value aggregate parameters and receivers (struct, fixed array, large integer), which arrive as pointers, are registered with their declared type wherever a signature wraps them in a reference, and buildFuncBody copies them into an entry-block slot."
		props["C10"].Explanation += " (R6) in MIR lowering a minus sign applied to an integer literal is emitted as one constant of the expression's type, and other unary operands are converted to the type of the operation."
	})
}

// C01.R9: by-value aggregates are copied by the callee.
func c01R9(c *Ctx, r *Report) {
	const rule = "C01.R9"
	r.Describe(rule, "mir/gen: every signature lowering that wraps a by-ref-represented parameter/receiver type in a reference records the declared type (byValueParams); buildFuncBody memcpy's those parameters into an entry-block slot")
	n := 0
	for _, fn := range c.AllFns(pkgMIRGen) {
		info := fn.Info()
		wraps, records := 0, false
		ast.Inspect(fn.Decl.Body, func(x ast.Node) bool {
			ifs, ok := x.(*ast.IfStmt)
			if ok {
				if cl, isCall := ast.Unparen(ifs.Cond).(*ast.CallExpr); isCall {
					if f := callee(info, cl); f != nil && f.Name() == "needsByRefType" {
						for _, st := range ifs.Body.List {
							if as, isAs := st.(*ast.AssignStmt); isAs && len(as.Rhs) == 1 {
								if rc, isRC := as.Rhs[0].(*ast.CallExpr); isRC && strings.HasSuffix(exprStr(rc.Fun), "NewReference") {
									wraps++
								}
							}
						}
					}
				}
			}
			if as, ok := x.(*ast.AssignStmt); ok && len(as.Lhs) == 1 {
				if ix, isIx := as.Lhs[0].(*ast.IndexExpr); isIx && strings.HasSuffix(exprStr(ix.X), ".byValueParams") {
					records = true
				}
			}
			return true
		})
		if wraps == 0 {
			continue
		}
		// only signature lowerings create parameters
		makesParam := false
		for _, cl := range callsIn(fn.Decl.Body, false) {
			if f := callee(info, cl); f != nil && f.Name() == "newParam" {
				makesParam = true
			}
		}
		if !makesParam {
			continue
		}
		n++
		if fn.Obj.Name() == "buildInterfaceWrapper" {
			r.OK(rule, fn.Name(), "reviewed: interface thunk — forwards the pointers unchanged to the real method, whose own signature lowering records the declared types", c.pos(fn.Decl.Pos()), "reviewed exception")
			continue
		}
		r.Check(records, rule, fn.Name(), "declared type of reference-wrapped parameters recorded", c.pos(fn.Decl.Pos()),
			"a by-value struct / fixed array / large integer parameter is turned into a pointer parameter without remembering that it is by value: the callee then works on the caller's storage or on a pointer stored into an aggregate-sized slot (`fn modp(p: P) { p.X = 99; … }` returns garbage)")
	}
	r.Floor(rule, n, 2, "signature lowerings wrapping by-ref parameter types")
	bfb := c.LookupFn(pkgMIRGen, "(*functionBuilder).buildFuncBody")
	memcpy := c.LookupFn(pkgMIRGen, "(*functionBuilder).emitMemcpy")
	if r.Anchor(rule, bfb != nil && memcpy != nil, "mir/gen buildFuncBody / emitMemcpy") {
		ok := false
		ast.Inspect(bfb.Decl.Body, func(x ast.Node) bool {
			if ifs, isIf := x.(*ast.IfStmt); isIf && ifs.Init != nil && strings.Contains(exprStr(ifs.Init.(*ast.AssignStmt).Rhs[0]), "byValueParams") {
				if nodeCallsDeep(bfb.Info(), ifs.Body, memcpy.Obj) {
					ok = true
				}
			}
			return true
		})
		r.Check(ok, rule, bfb.Name(), "by-value aggregates copied into an entry-block slot", c.pos(bfb.Decl.Pos()), "the callee no longer copies by-value aggregate parameters: writes to the parameter change the caller's value (or garbage is read)")
	}
}

// C10.R6: negated integer literals in MIR lowering.
func c10R6(c *Ctx, r *Report) {
	const rule = "C10.R6"
	r.Describe(rule, "mir/gen lowerExpr, case UnaryExpr: a negated integer literal is emitted as a constant of the expression's type before the operand is lowered; other operands are converted with castValue")
	le := c.LookupFn(pkgMIRGen, "(*functionBuilder).lowerExpr")
	cast := c.LookupFn(pkgMIRGen, "(*functionBuilder).castValue")
	ec := c.LookupFn(pkgMIRGen, "(*functionBuilder).emitConst")
	elc := c.LookupFn(pkgMIRGen, "(*functionBuilder).emitLargeConst")
	if !r.Anchor(rule, le != nil && cast != nil && ec != nil && elc != nil, "mir/gen lowerExpr / castValue / emitConst / emitLargeConst") {
		return
	}
	info := le.Info()
	var clause *ast.CaseClause
	ast.Inspect(le.Decl.Body, func(x ast.Node) bool {
		if cc, ok := x.(*ast.CaseClause); ok && clause == nil {
			for _, t := range caseTypes(info, cc) {
				if nt := namedOf(t); nt != nil && nt.Obj().Name() == "UnaryExpr" {
					clause = cc
				}
			}
		}
		return true
	})
	if !r.Anchor(rule, clause != nil, "lowerExpr: case *hir.UnaryExpr") {
		return
	}
	// first lowerExpr(e.X) call position; a constant emission typed e.Type must come earlier (under the literal test)
	var firstLower, firstConst token.Pos
	hasCast := false
	for _, st := range clause.Body {
		ast.Inspect(st, func(x ast.Node) bool {
			cl, ok := x.(*ast.CallExpr)
			if !ok {
				return true
			}
			if isCallTo(info, cl, le.Obj) && firstLower == token.NoPos && len(cl.Args) == 1 && strings.HasSuffix(exprStr(cl.Args[0]), ".X") {
				firstLower = cl.Pos()
			}
			if (isCallTo(info, cl, ec.Obj) || isCallTo(info, cl, elc.Obj)) && firstConst == token.NoPos && len(cl.Args) >= 1 && strings.HasSuffix(exprStr(cl.Args[0]), ".Type") {
				firstConst = cl.Pos()
			}
			if isCallTo(info, cl, cast.Obj) {
				hasCast = true
			}
			return true
		})
	}
	r.Check(firstConst != token.NoPos && firstLower != token.NoPos && firstConst < firstLower, rule, le.Name(), "negated literal emitted as a constant of the expression's type", c.pos(clause.Pos()),
		"`- 5` is lowered as a unary minus on a 32-bit literal whatever the expected type: `let j: i64 = - 5` is rejected by the back end, `let j: i128 = - 5` crashes, `let g: i64 = - 9223372036854775808` prints garbage")
	r.Check(hasCast, rule, le.Name(), "unary operand converted to the type of the operation", c.pos(clause.Pos()), "the operand of a unary operator keeps its own (default) numeric type while the operation is emitted with the expression's type")
}
