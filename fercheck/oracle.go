package main

import (
	"math/big"
	"strconv"
)

// Oracle facts about Ferret's numeric types, independent of /repo's tables.

type numFacts struct {
	Name     string
	Int      bool
	Float    bool
	Signed   bool
	Bits     int
	SigBits  int // floats: significand precision in bits incl. hidden bit
	ExpRange int // floats: max binary exponent (emax)
}

var numTypes = []string{"i8", "i16", "i32", "i64", "i128", "i256", "u8", "u16", "u32", "u64", "u128", "u256", "f32", "f64", "f128", "f256", "byte"}
var intTypes12 = []string{"i8", "i16", "i32", "i64", "i128", "i256", "u8", "u16", "u32", "u64", "u128", "u256"}

// IEEE-754 binary32/64/128 and binary256 (octuple): precision 24/53/113/237, emax 127/1023/16383/262143.
var floatSig = map[string][2]int{"f32": {24, 127}, "f64": {53, 1023}, "f128": {113, 16383}, "f256": {237, 262143}}

func factsOf(name string) (numFacts, bool) {
	if name == "byte" {
		return numFacts{Name: name, Int: true, Signed: false, Bits: 8}, true
	}
	if len(name) < 2 {
		return numFacts{}, false
	}
	n, err := strconv.Atoi(name[1:])
	if err != nil {
		return numFacts{}, false
	}
	switch name[0] {
	case 'i', 'u':
		switch n {
		case 8, 16, 32, 64, 128, 256:
			return numFacts{Name: name, Int: true, Signed: name[0] == 'i', Bits: n}, true
		}
	case 'f':
		if s, ok := floatSig[name]; ok {
			return numFacts{Name: name, Float: true, Signed: true, Bits: n, SigBits: s[0], ExpRange: s[1]}, true
		}
	}
	return numFacts{}, false
}

func (f numFacts) minMax() (*big.Int, *big.Int) {
	one := big.NewInt(1)
	if f.Signed {
		hi := new(big.Int).Lsh(one, uint(f.Bits-1))
		lo := new(big.Int).Neg(hi)
		return lo, hi.Sub(hi, one)
	}
	hi := new(big.Int).Lsh(one, uint(f.Bits))
	return big.NewInt(0), hi.Sub(hi, one)
}

// losslessOracle: every value of s is exactly representable in t.
func losslessOracle(s, t numFacts) bool {
	switch {
	case s.Int && t.Int:
		slo, shi := s.minMax()
		tlo, thi := t.minMax()
		return slo.Cmp(tlo) >= 0 && shi.Cmp(thi) <= 0
	case s.Int && t.Float:
		// largest odd-ish magnitude needs Bits (unsigned) or Bits-1 (signed) significant bits;
		// the signed minimum -2^(Bits-1) is a power of two and needs one bit.
		need := s.Bits
		if s.Signed {
			need = s.Bits - 1
		}
		return need <= t.SigBits && s.Bits <= t.ExpRange
	case s.Float && t.Float:
		return s.SigBits <= t.SigBits && s.ExpRange <= t.ExpRange
	default: // float -> int never
		return false
	}
}
