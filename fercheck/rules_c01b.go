package main

import (
	"fmt"
	"go/ast"
	"go/constant"
	"go/token"
	"go/types"
	"sort"
	"strings"

	"golang.org/x/tools/go/cfg"
)

func init() {
	props["C01"].Quick = append(props["C01"].Quick, c01R3, c01R6, c02R3)
	props["C02"].Quick = append(props["C02"].Quick, c01R3, c02R3)
	props["C01"].Explanation = "Structural necessary conditions of native-code correctness: (R2) QBE instruction-selection tables agree with the QBE IL reference for every operator x scalar type; (R3) every arithmetic result, negation and narrowing cast of an 8/16-bit integer type is reduced to the declared width in both back ends (the wrap helper runs on every path to the definition of the result, or the path is the helper's own not-applicable branch); (R6) mir/gen.exprType has a case for every HIR expression kind that carries a Type (a nil answer silently disables conversions and boxing); (C02.R3) in both back ends the signedness that selects an extension / int->float conversion is that of the source type and the one that selects a float->int truncation is that of the target type. Does not decide semantic preservation of the individual lowerings, closures, ABI, QBE itself or the C runtime."
	props["C02"].Explanation = "Structural necessary conditions of back-end agreement: (R1) wasm encoding constants match the WebAssembly binary format; (R2) wasm selection tables pick the spec instruction for every operator x value type x signedness; (R3) cast lowering in both back ends takes signedness from the same side (source for extension and int->float, target for float->int); (C01.R3) both back ends reduce 8/16-bit arithmetic and casts to the declared width. Does not decide the JS runtime's behaviour or features only one target supports."
}

// guardedMustCall: on every path of g to a target node, a gate node occurs first, or the path leaves an
// `if cond { ...gate... }` through its false edge (the guard of the gate decides applicability).
// guardFilter, when set, decides whether the condition of an `if cond { gate }` may stand for "not applicable".
var guardFilter func(ifs *ast.IfStmt) bool

func guardedMustCall(g *cfg.CFG, root ast.Node, isGate func(ast.Node) bool, isTarget func(ast.Node) bool, atReturn bool) (hits []FlowHit, nTargets int) {
	guardOf := map[ast.Expr]bool{}
	ast.Inspect(root, func(n ast.Node) bool {
		if ifs, ok := n.(*ast.IfStmt); ok {
			for _, st := range ifs.Body.List {
				if isGate(st) && (guardFilter == nil || guardFilter(ifs)) {
					guardOf[ifs.Cond] = true
				}
			}
		}
		return true
	})
	hits = mustFlow(g, FlowSpec{
		Gate: isGate,
		EdgeGate: func(b *cfg.Block, succ int) bool {
			cond := condOf(b)
			return cond != nil && succ == 1 && guardOf[cond]
		},
		Target: func(n ast.Node) bool {
			if isTarget != nil && isTarget(n) {
				nTargets++
				return true
			}
			return false
		},
		AtReturn: atReturn,
	})
	return hits, nTargets
}

// clauseOf finds, in fn, the case clause of a switch whose case list names constant `name` (e.g. MINUS_TOKEN).
func clauseOf(fn *Fn, name string, within ast.Node) *ast.CaseClause {
	var out *ast.CaseClause
	root := ast.Node(fn.Decl.Body)
	if within != nil {
		root = within
	}
	ast.Inspect(root, func(n ast.Node) bool {
		if cc, ok := n.(*ast.CaseClause); ok && out == nil {
			for _, e := range cc.List {
				if o := objOf(fn.Info(), e); o != nil && o.Name() == name {
					out = cc
				}
			}
		}
		return true
	})
	return out
}

func mentionsIdent(n ast.Node, name string) bool {
	found := false
	inspectShallow(n, func(x ast.Node) bool {
		if id, ok := x.(*ast.Ident); ok && id.Name == name {
			found = true
		}
		return true
	})
	return found
}

// C01.R3: sub-word integers wrap at their declared width.
func c01R3(c *Ctx, r *Report) {
	const rule = "C01.R3"
	r.Describe(rule, "8/16-bit integer results are reduced to the declared width: QBE emitBinary(arithmetic), emitUnary(-), handleIntegerCast; wasm emitBinary, emitUnary(-, i32), emitCast")
	qWrap := c.LookupFn(pkgQBE, "(*Generator).emitSubWordWrap")
	wWrap := c.LookupFn(pkgWasm, "subWordWrap")
	if !r.Anchor(rule, qWrap != nil, "qbe.(*Generator).emitSubWordWrap") || !r.Anchor(rule, wWrap != nil, "wasm.subWordWrap") {
		return
	}
	type site struct {
		pkg, fn, clause, inner string
		gate                   *Fn
		target                 func(info *types.Info, n ast.Node) bool // nil: end of region
		what                   string
	}
	valueTypesDef := func(info *types.Info, n ast.Node) bool {
		as, ok := n.(*ast.AssignStmt)
		if !ok || len(as.Lhs) != 1 {
			return false
		}
		ix, ok := as.Lhs[0].(*ast.IndexExpr)
		return ok && strings.HasSuffix(exprStr(ix.X), ".valueTypes")
	}
	localSet := func(info *types.Info, n ast.Node) bool { return mentionsIdent(n, "opcodeLocalSet") }
	sites := []site{
		{pkgQBE, "(*Generator).emitBinary", "PLUS_TOKEN", "", qWrap, valueTypesDef, "arithmetic result"},
		{pkgQBE, "(*Generator).emitUnary", "MINUS_TOKEN", "", qWrap, valueTypesDef, "negation"},
		{pkgWasm, "(*Generator).emitBinary", "", "", wWrap, localSet, "arithmetic result"},
		{pkgWasm, "(*Generator).emitUnary", "MINUS_TOKEN", "valTypeI32", wWrap, nil, "negation (i32 value type)"},
		{pkgWasm, "(*Generator).emitCast", "", "", wWrap, localSet, "cast to an i32-represented type"},
	}
	defer func() { guardFilter = nil }()
	toks := loadTokens(c)
	for _, s := range sites {
		fn := c.LookupFn(s.pkg, s.fn)
		if !r.Anchor(rule, fn != nil, s.pkg+"."+s.fn) {
			continue
		}
		info := fn.Info()
		// A guard may depend on the *type* (sub-word or not) and on "is a comparison". A guard that depends on the
		// operator in any other way is accepted only if the operators it exempts are the bitwise/logical ones, whose
		// result cannot leave the operand range (decided by evaluating the predicate over every operator token).
		guardFilter = func(ifs *ast.IfStmt) bool {
			okAll := true
			for _, cj := range conjuncts(ifs.Cond) {
				e := ast.Unparen(cj)
				neg := false
				if u, isNot := e.(*ast.UnaryExpr); isNot && u.Op == token.NOT {
					neg = true
					e = ast.Unparen(u.X)
				}
				cl, isCall := e.(*ast.CallExpr)
				if !isCall {
					continue // comparisons of locals (bits > 0, toVal == valTypeI32 …)
				}
				f := callee(info, cl)
				if f == nil {
					okAll = false
					continue
				}
				switch f.Name() {
				case "subWordIntBits", "isCompareToken":
					continue
				}
				hf := c.FnOf(f)
				if hf == nil || len(cl.Args) != 1 || !strings.HasSuffix(exprStr(cl.Args[0]), ".Op") {
					okAll = false
					continue
				}
				pe := newPEval(c)
				for _, name := range sortedKeys(toks.byName) {
					res, err := pe.Call(hf, []Val{toks.byName[name]})
					if err != nil || len(res) != 1 {
						continue
					}
					bv, isConst := res[0].(constant.Value)
					if !isConst || bv.Kind() != constant.Bool {
						okAll = false
						continue
					}
					wraps := boolVal(bv) != neg // guard true => the wrap runs
					if !wraps {
						switch name {
						case "BIT_AND_TOKEN", "BIT_OR_TOKEN", "BIT_XOR_TOKEN", "AND_TOKEN", "OR_TOKEN",
							"LESS_TOKEN", "LESS_EQUAL_TOKEN", "GREATER_TOKEN", "GREATER_EQUAL_TOKEN", "DOUBLE_EQUAL_TOKEN", "NOT_EQUAL_TOKEN":
						case "PLUS_TOKEN", "MINUS_TOKEN", "MUL_TOKEN", "DIV_TOKEN", "MOD_TOKEN": // (** is lowered by its own clause)
							okAll = false
						}
					}
				}
			}
			return okAll
		}
		var root ast.Node = fn.Decl.Body
		var g *cfg.CFG
		if s.clause != "" {
			cc := clauseOf(fn, s.clause, nil)
			if cc != nil && s.inner != "" {
				cc = clauseOf(fn, s.inner, cc)
			}
			if !r.Anchor(rule, cc != nil, fn.Name()+": case "+s.clause+" "+s.inner) {
				continue
			}
			blk := &ast.BlockStmt{List: cc.Body, Lbrace: cc.Colon, Rbrace: cc.End()}
			root = blk
			g = c.CFGOfBody(blk)
		} else {
			g = c.CFG(fn)
		}
		isGate := func(n ast.Node) bool { return nodeCalls(info, n, s.gate.Obj) != nil }
		var tgt func(ast.Node) bool
		if s.target != nil {
			tgt = func(n ast.Node) bool { return s.target(info, n) }
		}
		hits, nT := guardedMustCall(g, root, isGate, tgt, s.target == nil)
		if s.target != nil && nT == 0 {
			r.Fail(rule, fn.Name(), s.what, c.pos(fn.Decl.Pos()), "anchor: the definition of the result was not found in this region")
			continue
		}
		where := c.pos(fn.Decl.Pos())
		if len(hits) > 0 && hits[0].Pos.IsValid() {
			where = c.pos(hits[0].Pos)
		}
		r.Check(len(hits) == 0, rule, fn.Name(), "sub-word wrap before "+s.what, where,
			"a path defines the result without reducing it to the declared width: i8/i16/u8/u16 values live in a 32-bit temporary, so `x + y` with x: u8 = 250, y: u8 = 10 compares as 260 and `(a + b) as i32` does not wrap")
	}
	// QBE narrowing casts use the same helper
	hic := c.LookupFn(pkgQBE, "(*Generator).handleIntegerCast")
	if r.Anchor(rule, hic != nil, "qbe.(*Generator).handleIntegerCast") {
		// the branch for targets narrower than 32 bits: every exit of it has reduced the value
		var sub *ast.IfStmt
		ast.Inspect(hic.Decl.Body, func(x ast.Node) bool {
			if ifs, ok := x.(*ast.IfStmt); ok && sub == nil {
				for _, cj := range conjuncts(ifs.Cond) {
					if be, ok := isBinOp(cj, token.LSS); ok {
						if v := constOf(hic.Info(), be.Y); v != nil && intVal(v) == 32 {
							sub = ifs
						}
					}
				}
			}
			return true
		})
		if r.Anchor(rule, sub != nil, "handleIntegerCast: if … toBits < 32 {…}") {
			hinfo := hic.Info()
			hits := mustFlow(c.CFGOfBody(sub.Body), FlowSpec{
				Gate:     func(n ast.Node) bool { return nodeCalls(hinfo, n, qWrap.Obj) != nil },
				AtReturn: true,
			})
			where := c.pos(sub.Pos())
			if len(hits) > 0 && hits[0].Pos.IsValid() {
				where = c.pos(hits[0].Pos)
			}
			r.Check(len(hits) == 0, rule, hic.Name(), "every cast to an 8/16-bit integer reduces the value", where,
				"a cast to i8/i16/u8/u16 can leave handleIntegerCast without emitSubWordWrap: e.g. a 'widening' i8 -> u16 keeps the sign-extended upper bits while the value stays in a register, so `(y as u16) == 65480` differs from the same test on a variable holding the cast")
		}
	}
	// the helpers choose sign- vs zero-extension by the signedness of the type they are given
	isS := c.LookupFn(pkgQBE, "(*Generator).isSigned")
	isU := c.LookupFn(pkgQBE, "(*Generator).isUnsigned")
	wU := c.LookupFn(pkgWasm, "isUnsignedType")
	if r.Anchor(rule, isS != nil && isU != nil && wU != nil, "isSigned / isUnsigned / isUnsignedType") {
		typParam := func(fn *Fn) types.Object {
			sig := fn.Obj.Type().(*types.Signature)
			for i := 0; i < sig.Params().Len(); i++ {
				if nt := namedOf(sig.Params().At(i).Type()); nt != nil && nt.Obj().Name() == "SemType" {
					return sig.Params().At(i)
				}
			}
			return nil
		}
		for _, h := range []struct {
			fn    *Fn
			preds []*types.Func
		}{{qWrap, []*types.Func{isS.Obj, isU.Obj}}, {wWrap, []*types.Func{wU.Obj}}} {
			tp := typParam(h.fn)
			okSign := false
			for _, call := range callsIn(h.fn.Decl.Body, false) {
				if isCallTo(h.fn.Info(), call, h.preds...) && len(call.Args) == 1 && objOf(h.fn.Info(), call.Args[0]) == tp && tp != nil {
					okSign = true
				}
			}
			r.Check(okSign, rule, h.fn.Name(), "extension kind from the type's signedness", c.pos(h.fn.Decl.Pos()), "the wrap helper no longer distinguishes signed (sign-extend) from unsigned (mask) types")
		}
	}
}

// C01.R6: exprType is exhaustive over typed HIR expressions.
func c01R6(c *Ctx, r *Report) {
	const rule = "C01.R6"
	r.Describe(rule, "mir/gen.(*functionBuilder).exprType has a case for every HIR expression kind with a `Type types.SemType` field")
	fn := c.LookupFn(pkgMIRGen, "(*functionBuilder).exprType")
	if !r.Anchor(rule, fn != nil, "mir/gen.(*functionBuilder).exprType") {
		return
	}
	hirPkg := c.ByPath[Mod+"/internal/hir"]
	if !r.Anchor(rule, hirPkg != nil, "package internal/hir") {
		return
	}
	exprIface, _ := hirPkg.Types.Scope().Lookup("Expr").Type().Underlying().(*types.Interface)
	if !r.Anchor(rule, exprIface != nil, "hir.Expr") {
		return
	}
	covered := map[string]bool{}
	sigp := fn.Obj.Type().(*types.Signature).Params()
	if !r.Anchor(rule, sigp.Len() == 1, "exprType(expr)") {
		return
	}
	for _, ts := range typeSwitchesOn(fn.Info(), fn.Decl.Body, sigp.At(0)) {
		for _, cc := range ts.Body.List {
			for _, t := range caseTypes(fn.Info(), cc.(*ast.CaseClause)) {
				if nt := namedOf(t); nt != nil {
					covered[nt.Obj().Name()] = true
				}
			}
		}
	}
	var kinds []string
	sc := hirPkg.Types.Scope()
	for _, name := range sc.Names() {
		tn, ok := sc.Lookup(name).(*types.TypeName)
		if !ok {
			continue
		}
		st, ok := tn.Type().Underlying().(*types.Struct)
		if !ok || !types.Implements(types.NewPointer(tn.Type()), exprIface) {
			continue
		}
		for i := 0; i < st.NumFields(); i++ {
			if f := st.Field(i); f.Name() == "Type" {
				if nt := namedOf(f.Type()); nt != nil && nt.Obj().Name() == "SemType" {
					kinds = append(kinds, name)
				}
			}
		}
	}
	sort.Strings(kinds)
	r.Floor(rule, len(kinds), 25, "typed HIR expression kinds")
	for _, k := range kinds {
		r.Check(covered[k], rule, fn.Name(), "case *hir."+k, c.pos(fn.Decl.Pos()),
			"exprType answers nil for *hir."+k+": callers read nil as 'nothing to convert', so a conversion or boxing of such an operand is silently skipped (a cast of a cast loses the outer cast; a cast passed to io::Println is not boxed and the program crashes)")
	}
}

// signPredArgs lists the arguments whose signedness is tested inside n: direct calls of the sign predicates, and calls of
// one-level wrappers whose body applies a sign predicate to its own parameter.
func signPredArgs(c *Ctx, pkgRel string, info *types.Info, n ast.Node, preds map[*types.Func]bool) []ast.Expr {
	var out []ast.Expr
	inspectShallow(n, func(x ast.Node) bool {
		call, ok := x.(*ast.CallExpr)
		if !ok {
			return true
		}
		f := callee(info, call)
		if f == nil {
			return true
		}
		if preds[f] && len(call.Args) == 1 {
			out = append(out, call.Args[0])
			return true
		}
		// wrapper?
		if w := c.FnOf(f); w != nil && w.Decl != nil && w.Decl.Body != nil && f.Pkg() != nil && strings.HasSuffix(f.Pkg().Path(), pkgRel) {
			sig := f.Type().(*types.Signature)
			for _, inner := range callsIn(w.Decl.Body, false) {
				if g := callee(w.Info(), inner); g != nil && preds[g] && len(inner.Args) == 1 {
					po := objOf(w.Info(), inner.Args[0])
					for i := 0; i < sig.Params().Len() && i < len(call.Args); i++ {
						if sig.Params().At(i) == po {
							out = append(out, call.Args[i])
						}
					}
				}
			}
		}
		return true
	})
	return out
}

// C02.R3: the side whose signedness selects a conversion.
func c02R3(c *Ctx, r *Report) {
	const rule = "C02.R3"
	r.Describe(rule, "cast lowering: extension and int->float use the source type's signedness, float->int uses the target's (QBE emitCast/handleIntegerCast, wasm emitCast)")
	// ---- QBE
	ec := c.LookupFn(pkgQBE, "(*Generator).emitCast")
	hic := c.LookupFn(pkgQBE, "(*Generator).handleIntegerCast")
	isS := c.LookupFn(pkgQBE, "(*Generator).isSigned")
	isU := c.LookupFn(pkgQBE, "(*Generator).isUnsigned")
	if r.Anchor(rule, ec != nil && hic != nil && isS != nil && isU != nil, "qbe emitCast / handleIntegerCast / isSigned / isUnsigned") {
		preds := map[*types.Func]bool{isS.Obj: true, isU.Obj: true}
		// handleIntegerCast: parameters by type/position: (resultName, operand, fromQ, fromType, toQ, toType)
		sig := hic.Obj.Type().(*types.Signature)
		var sem []*types.Var
		for i := 0; i < sig.Params().Len(); i++ {
			if nt := namedOf(sig.Params().At(i).Type()); nt != nil && nt.Obj().Name() == "SemType" {
				sem = append(sem, sig.Params().At(i))
			}
		}
		if r.Anchor(rule, len(sem) == 2, "handleIntegerCast(…, fromType, …, toType)") {
			from, to := sem[0], sem[1]
			// call sites pass (fromType, toType) in this order
			for _, call := range callsIn(ec.Decl.Body, false) {
				if isCallTo(ec.Info(), call, hic.Obj) {
					var args []string
					for i := 0; i < sig.Params().Len(); i++ {
						if sig.Params().At(i) == from || sig.Params().At(i) == to {
							args = append(args, exprStr(call.Args[i]))
						}
					}
					r.Check(len(args) == 2 && args[0] == "fromType" && args[1] == "toType", rule, ec.Name(), "handleIntegerCast called with (source, target)", c.pos(call.Pos()), "source and target types are swapped at the call")
				}
			}
			// the w->l widening branch: the if whose condition compares the from-class with "w" and the to-class with "l"
			found := false
			ast.Inspect(hic.Decl.Body, func(n ast.Node) bool {
				ifs, ok := n.(*ast.IfStmt)
				if !ok {
					return true
				}
				cs := exprStr(ifs.Cond)
				if !(strings.Contains(cs, `"w"`) && strings.Contains(cs, `"l"`)) {
					return true
				}
				found = true
				args := signPredArgs(c, pkgQBE, hic.Info(), ifs.Body, preds)
				ok2 := len(args) > 0
				for _, a := range args {
					if objOf(hic.Info(), a) != from {
						ok2 = false
					}
				}
				r.Check(ok2, rule, hic.Name(), "word->long extension chosen by the source type", c.pos(ifs.Pos()),
					fmt.Sprintf("the sign/zero extension of a 32-bit value to 64 bits is selected by %v instead of the source type: u32 4000000000 widened to i64 becomes negative (or i32 -1 widened to u64 loses its sign extension)", exprStrs(args)))
				return true
			})
			r.Check(found, rule, hic.Name(), "word->long branch present", c.pos(hic.Decl.Pos()), "anchor: the w->l widening branch was not found")
		}
		// emitCast: int->float branch uses the source, float->int the target
		info := ec.Info()
		nBr := 0
		ast.Inspect(ec.Decl.Body, func(n ast.Node) bool {
			ifs, ok := n.(*ast.IfStmt)
			if !ok {
				return true
			}
			cs := exprStr(ifs.Cond)
			var want string
			switch cs {
			case "g.isInteger(fromType) && g.isFloat(toType)":
				want = "fromType"
			case "g.isFloat(fromType) && g.isInteger(toType)":
				want = "toType"
			default:
				return true
			}
			nBr++
			args := signPredArgs(c, pkgQBE, info, ifs.Body, preds)
			ok2 := len(args) > 0
			for _, a := range args {
				if exprStr(a) != want {
					ok2 = false
				}
			}
			r.Check(ok2, rule, ec.Name(), "branch `"+cs+"`: signedness of "+want, c.pos(ifs.Pos()),
				fmt.Sprintf("the unsigned special case of this conversion is selected by %v instead of %s", exprStrs(args), want))
			return true
		})
		r.Check(nBr == 2, rule, ec.Name(), "int->float and float->int branches present", c.pos(ec.Decl.Pos()), "anchor: the two int/float conversion branches of emitCast were not both found")
	}
	// ---- wasm
	wc := c.LookupFn(pkgWasm, "(*Generator).emitCast")
	co := c.LookupFn(pkgWasm, "castOpcode")
	wU := c.LookupFn(pkgWasm, "isUnsignedType")
	if r.Anchor(rule, wc != nil && co != nil && wU != nil, "wasm emitCast / castOpcode / isUnsignedType") {
		info := wc.Info()
		var call *ast.CallExpr
		for _, cl := range callsIn(wc.Decl.Body, false) {
			if isCallTo(info, cl, co.Obj) {
				call = cl
			}
		}
		if r.Anchor(rule, call != nil && len(call.Args) == 3, "wasm emitCast: castOpcode(from, to, unsigned)") {
			// definitions of the third argument
			type def struct {
				arg   string
				guard string
			}
			var defs []def
			if cl, ok := ast.Unparen(call.Args[2]).(*ast.CallExpr); ok && isCallTo(info, cl, wU.Obj) {
				defs = append(defs, def{exprStr(cl.Args[0]), ""})
			} else if v := objOf(info, call.Args[2]); v != nil {
				walkWithStack(wc.Decl.Body, func(n ast.Node, stack []ast.Node) bool {
					as, ok := n.(*ast.AssignStmt)
					if !ok || len(as.Lhs) != 1 || len(as.Rhs) != 1 || objOf(info, as.Lhs[0]) != v {
						return true
					}
					cl, ok := ast.Unparen(as.Rhs[0]).(*ast.CallExpr)
					if !ok || !isCallTo(info, cl, wU.Obj) {
						defs = append(defs, def{"?" + exprStr(as.Rhs[0]), ""})
						return true
					}
					guard := ""
					for i := len(stack) - 1; i >= 0; i-- {
						if ifs, ok := stack[i].(*ast.IfStmt); ok {
							if ifs.Else != nil && ifs.Else.Pos() <= as.Pos() && as.End() <= ifs.Else.End() {
								continue // in the else branch of a dispatch on something else (the bool target)
							}
							guard = exprStr(ifs.Cond)
							break
						}
					}
					defs = append(defs, def{exprStr(cl.Args[0]), guard})
					return true
				})
			}
			srcOK, tgtOK, other := false, false, []string{}
			for _, d := range defs {
				switch {
				case d.arg == "fromType" && d.guard == "":
					srcOK = true
				case d.arg == "c.Type" && strings.Contains(d.guard, "valTypeF32") && strings.Contains(d.guard, "valTypeF64") && strings.Contains(d.guard, "fromVal") && !strings.Contains(d.guard, "!="):
					tgtOK = true
				default:
					other = append(other, d.arg+" if "+d.guard)
				}
			}
			r.Check(srcOK, rule, wc.Name(), "integer source: signedness of the source type", c.pos(call.Pos()), "extension / int->float conversion is not selected by isUnsignedType(fromType)")
			r.Check(tgtOK && len(other) == 0, rule, wc.Name(), "float source: signedness of the target type", c.pos(call.Pos()),
				fmt.Sprintf("float->int truncation is selected by the source type's signedness (a float is never unsigned): `f as u32` with f >= 2^31 traps in wasm where the native target yields the value; other definitions: %v", other))
		}
	}
}

func exprStrs(es []ast.Expr) []string {
	var out []string
	for _, e := range es {
		out = append(out, exprStr(e))
	}
	return out
}

var _ = token.NoPos

func init() { props["C01"].Quick = append(props["C01"].Quick, c01R4) }

// C01.R4: `lhs op= rhs` reads lhs before rhs is evaluated (left-to-right evaluation), in every lowering path.
func c01R4(c *Ctx, r *Report) {
	const rule = "C01.R4"
	r.Describe(rule, "mir/gen: in every function that combines a current value with a lowered right-hand side (emitBinary(op, cur, rhs…)), the read that defines cur precedes lowerExpr(rhs) on every path (or the path is the plain-assignment branch)")
	emitBin := c.LookupFn(pkgMIRGen, "(*functionBuilder).emitBinary")
	lower := c.LookupFn(pkgMIRGen, "(*functionBuilder).lowerExpr")
	load := c.LookupFn(pkgMIRGen, "(*functionBuilder).emitLoad")
	emitInstr := c.LookupFn(pkgMIRGen, "(*functionBuilder).emitInstr")
	if !r.Anchor(rule, emitBin != nil && lower != nil && load != nil && emitInstr != nil, "mir/gen emitBinary / lowerExpr / emitLoad / emitInstr") {
		return
	}
	n := 0
	// wrappers: functions that receive the current value as a parameter, lower the right-hand side (also a
	// parameter) themselves and combine the two. The argument is evaluated before the call, so for a wrapper
	// the obligation moves to its call sites: the argument is a value read before the call.
	wrappers := map[*types.Func]int{} // wrapper -> index of the `cur` parameter
	for _, fn := range c.AllFns(pkgMIRGen) {
		info := fn.Info()
		sig := fn.Obj.Type().(*types.Signature)
		for _, call := range callsIn(fn.Decl.Body, false) {
			if !isCallTo(info, call, emitBin.Obj) || len(call.Args) < 3 {
				continue
			}
			o := objOf(info, call.Args[1])
			if o == nil || !isParamOf(fn, o) {
				continue
			}
			lowersParam := nodeCallsPred(fn.Decl.Body, func(cl *ast.CallExpr) bool {
				if !isCallTo(info, cl, lower.Obj) || len(cl.Args) != 1 {
					return false
				}
				po := objOf(info, cl.Args[0])
				return po != nil && isParamOf(fn, po)
			}) != nil
			if !lowersParam {
				continue
			}
			for i := 0; i < sig.Params().Len(); i++ {
				if sig.Params().At(i) == o {
					wrappers[fn.Obj] = i
				}
			}
			r.OK(rule, fn.Name(), "the current value is a parameter", c.pos(fn.Decl.Pos()), "evaluated by the caller before the right-hand side is lowered here")
		}
	}
	wrapperCall := func(info *types.Info, cl *ast.CallExpr) (int, bool) {
		for w, idx := range wrappers {
			if isCallTo(info, cl, w) && len(cl.Args) > idx {
				return idx, true
			}
		}
		return 0, false
	}
	for _, fn := range c.AllFns(pkgMIRGen) {
		info := fn.Info()
		curVars := map[types.Object]bool{}
		for _, call := range callsIn(fn.Decl.Body, false) {
			if isCallTo(info, call, emitBin.Obj) && len(call.Args) >= 3 {
				if o := objOf(info, call.Args[1]); o != nil {
					curVars[o] = true
				}
			}
			if idx, ok := wrapperCall(info, call); ok {
				if o := objOf(info, call.Args[idx]); o != nil {
					curVars[o] = true
				} else {
					r.Fail(rule, fn.Name(), "current value passed to "+exprStr(call.Fun)+" is a variable", c.pos(call.Pos()), "the current value of a compound assignment is not a variable whose defining read can be ordered against the right-hand side")
				}
			}
		}
		if len(curVars) == 0 {
			continue
		}
		isRhsLower := func(nd ast.Node) bool {
			return nodeCallsPred(nd, func(cl *ast.CallExpr) bool {
				if _, ok := wrapperCall(info, cl); ok {
					return true // the right-hand side is lowered inside the wrapper
				}
				if !isCallTo(info, cl, lower.Obj) || len(cl.Args) != 1 {
					return false
				}
				s := exprStr(cl.Args[0])
				return s == "rhs" || strings.HasSuffix(s, ".Rhs")
			}) != nil
		}
		hasTarget := false
		ast.Inspect(fn.Decl.Body, func(x ast.Node) bool {
			if st, ok := x.(ast.Stmt); ok && isRhsLower(st) {
				hasTarget = true
			}
			return true
		})
		if !hasTarget {
			continue
		}
		// reads defining a cur variable: cur := b.emitLoad(…)   |   b.emitInstr(&mir.X{Result: cur, …}) for a reading instruction
		isRead := func(nd ast.Node) bool {
			if as, ok := nd.(*ast.AssignStmt); ok && len(as.Lhs) == 1 && len(as.Rhs) == 1 {
				if cl, ok := as.Rhs[0].(*ast.CallExpr); ok && isCallTo(info, cl, load.Obj) && curVars[objOf(info, as.Lhs[0])] {
					return true
				}
			}
			hit := false
			inspectShallow(nd, func(x ast.Node) bool {
				cl, ok := x.(*ast.CallExpr)
				if !ok || !isCallTo(info, cl, emitInstr.Obj) || len(cl.Args) != 1 {
					return true
				}
				ast.Inspect(cl.Args[0], func(y ast.Node) bool {
					lit, ok := y.(*ast.CompositeLit)
					if !ok {
						return true
					}
					nt := namedOf(info.TypeOf(lit))
					if nt == nil || !(nt.Obj().Name() == "ArrayGet" || nt.Obj().Name() == "OptionalUnwrap" || nt.Obj().Name() == "MapGet" || nt.Obj().Name() == "Load") {
						return true
					}
					for _, e := range lit.Elts {
						if kv, ok := e.(*ast.KeyValueExpr); ok && exprStr(kv.Key) == "Result" && curVars[objOf(info, kv.Value)] {
							hit = true
						}
					}
					return true
				})
				return true
			})
			return hit
		}
		anyRead := false
		ast.Inspect(fn.Decl.Body, func(x ast.Node) bool {
			if st, ok := x.(ast.Stmt); ok && isRead(st) {
				anyRead = true
			}
			return true
		})
		if !anyRead {
			continue // the left operand is not a read of a place (e.g. binary expression lowering)
		}
		n++
		hits := mustFlow(c.CFG(fn), FlowSpec{
			Gate: isRead,
			EdgeGate: func(b *cfg.Block, succ int) bool {
				cond := condOf(b)
				if cond == nil || succ != 1 {
					return false
				}
				// not a compound assignment: false edge of `… && X.Kind != tokens.EQUALS_TOKEN`
				for _, cj := range conjuncts(cond) {
					if be, ok := isBinOp(cj, token.NEQ); ok && strings.HasSuffix(exprStr(be.X), ".Kind") && strings.HasSuffix(exprStr(be.Y), "EQUALS_TOKEN") {
						return true
					}
				}
				return false
			},
			Target: isRhsLower,
		})
		where := c.pos(fn.Decl.Pos())
		if len(hits) > 0 && hits[0].Pos.IsValid() {
			where = c.pos(hits[0].Pos)
		}
		r.Check(len(hits) == 0, rule, fn.Name(), "target read before the right-hand side is evaluated", where,
			"a compound assignment path evaluates the right-hand side before it reads the target: when the right-hand side changes the target (closure, &' receiver), `x op= f()` differs from `x = x op f()` and from the other assignment forms")
	}
	r.Floor(rule, n, 3, "functions lowering a compound assignment")
}

func init() {
	lateInits = append(lateInits, func() {
		props["C02"].Quick = append(props["C02"].Quick, c02R4, c02R5)
		props["C04"].Quick = append(props["C04"].Quick, c02R4)
		props["C09"].Quick = append(props["C09"].Quick, c01R3)
	})
}

// reviewed i32.const immediates written with the unsigned encoder: function -> operand -> reason
var c02R4Reviewed = map[string]string{
	"entryIdx":           "block-dispatch tag: written and compared with the same (injective) byte encoding, never used as a number",
	"idx":                "block-dispatch tag (see entryIdx)",
	"blockIndex[t.Then]": "block-dispatch tag (see entryIdx)",
	"blockIndex[t.Else]": "block-dispatch tag (see entryIdx)",
	"blockIndex[target]": "block-dispatch tag (see entryIdx)",
}

// C02.R4: the immediate of i32.const / i64.const is a signed LEB128.
func c02R4(c *Ctx, r *Report) {
	const rule = "C02.R4"
	r.Describe(rule, "wasm: every i32.const / i64.const opcode is followed by encodeS32 / encodeS64 of its operand (unsigned LEB decodes 64..127 as negative); reviewed block-tag sites excepted")
	s32 := c.LookupFn(pkgWasm, "encodeS32")
	s64 := c.LookupFn(pkgWasm, "encodeS64")
	u32 := c.LookupFn(pkgWasm, "encodeU32")
	c32 := c.lookupObj(pkgWasm, "opcodeI32Const")
	c64 := c.lookupObj(pkgWasm, "opcodeI64Const")
	if !r.Anchor(rule, s32 != nil && s64 != nil && u32 != nil && c32 != nil && c64 != nil, "wasm encodeS32/encodeS64/encodeU32/opcodeI32Const/opcodeI64Const") {
		return
	}
	n := 0
	for _, fn := range c.AllFns(pkgWasm) {
		info := fn.Info()
		ast.Inspect(fn.Decl.Body, func(x ast.Node) bool {
			var list []ast.Stmt
			switch b := x.(type) {
			case *ast.BlockStmt:
				list = b.List
			case *ast.CaseClause:
				list = b.Body
			default:
				return true
			}
			for i, st := range list {
				as, ok := st.(*ast.AssignStmt)
				if !ok || len(as.Rhs) != 1 {
					continue
				}
				cl, ok := as.Rhs[0].(*ast.CallExpr)
				if !ok || exprStr(cl.Fun) != "append" || len(cl.Args) != 2 {
					continue
				}
				op := objOf(info, cl.Args[1])
				if op != c32 && op != c64 {
					continue
				}
				n++
				wantFn, wantName := s32.Obj, "encodeS32"
				if op == c64 {
					wantFn, wantName = s64.Obj, "encodeS64"
				}
				construct := fmt.Sprintf("%s immediate", op.Name())
				if i+1 >= len(list) {
					r.Fail(rule, fn.Name(), construct, c.pos(st.Pos()), "the constant opcode is not followed by its immediate in the same block")
					continue
				}
				nx, ok := list[i+1].(*ast.AssignStmt)
				var enc *ast.CallExpr
				if ok && len(nx.Rhs) == 1 {
					if a2, ok := nx.Rhs[0].(*ast.CallExpr); ok && exprStr(a2.Fun) == "append" && len(a2.Args) == 2 {
						enc, _ = ast.Unparen(a2.Args[1]).(*ast.CallExpr)
					}
				}
				if enc == nil {
					r.Fail(rule, fn.Name(), construct, c.pos(st.Pos()), "the statement after the constant opcode does not append an encoded immediate")
					continue
				}
				arg := ""
				if len(enc.Args) == 1 {
					arg = exprStr(enc.Args[0])
				}
				if isCallTo(info, enc, u32.Obj) {
					if reason, ok := c02R4Reviewed[arg]; ok {
						r.OK(rule, fn.Name(), construct+" "+arg+" (reviewed: "+reason+")", c.pos(st.Pos()), "reviewed exception")
						continue
					}
				}
				r.Check(isCallTo(info, enc, wantFn), rule, fn.Name(), construct+" "+arg+" encoded with "+wantName, c.pos(nx.Pos()),
					"the immediate of "+op.Name()+" is a signed LEB128; written with "+exprStr(enc.Fun)+" a value with bit 6 of its last LEB byte set (64..127, 8192..16383, …) is decoded as negative: base+offset becomes base+offset-128")
			}
			return true
		})
	}
	r.Floor(rule, n, 20, "i32.const / i64.const emission sites")
}

// C02.R5: string data for the assembler uses only escapes gas decodes to exactly one byte.
func c02R5(c *Ctx, r *Report) {
	const rule = "C02.R5"
	r.Describe(rule, "QBE escapeString: every escape it can write is one of \\\\ \\\" \\n \\r \\t \\b \\f or a 3-digit octal; no \\x escapes (gas reads all following hex digits)")
	fn := c.LookupFn(pkgQBE, "escapeString")
	if !r.Anchor(rule, fn != nil, "qbe.escapeString") {
		return
	}
	info := fn.Info()
	n := 0
	ast.Inspect(fn.Decl.Body, func(x ast.Node) bool {
		lit, ok := x.(*ast.BasicLit)
		if !ok || lit.Kind != token.STRING {
			return true
		}
		v := constOf(info, lit)
		if v == nil {
			return true
		}
		s, _ := strOf(v)
		if !strings.HasPrefix(s, "\\") {
			return true
		}
		n++
		ok2 := false
		switch s {
		case "\\\\", "\\\"", "\\n", "\\r", "\\t", "\\b", "\\f", "\\":
			ok2 = true
		}
		if strings.HasPrefix(s, "\\%03o") {
			ok2 = true
		}
		r.Check(ok2, rule, fn.Name(), "escape "+fmt.Sprintf("%q", s), c.pos(lit.Pos()),
			"this escape is not decoded byte-for-byte by the assembler (a \\x escape swallows every following hex digit): the native string differs from the bytes the wasm data segment holds")
		return true
	})
	r.Floor(rule, n, 4, "escape sequences written by escapeString")
}

func init() {
	lateInits = append(lateInits, func() {
		props["C01"].Quick = append(props["C01"].Quick, c02R3b)
		props["C02"].Quick = append(props["C02"].Quick, c02R3b)
		props["C11"].Quick = append(props["C11"].Quick, c02R3b)
	})
}

// C02.R3b: when the QBE emitter widens a 32-bit operand to 64 bits, the signedness it consults is that of the
// operand being widened — the type variable and the operand name come from the same MIR value id.
func c02R3b(c *Ctx, r *Report) {
	const rule = "C02.R3b"
	r.Describe(rule, "QBE: every word->long extension (ensureLong(id, sign) calls and open-coded extsw/extuw selections) takes the signedness from valueTypes[id] of the same value id it extends")
	isS := c.LookupFn(pkgQBE, "(*Generator).isSigned")
	isU := c.LookupFn(pkgQBE, "(*Generator).isUnsigned")
	vname := c.LookupFn(pkgQBE, "(*Generator).valueName")
	if !r.Anchor(rule, isS != nil && isU != nil && vname != nil, "qbe isSigned / isUnsigned / valueName") {
		return
	}
	ens := c.LookupFn(pkgQBE, "(*Generator).ensureLong") // optional helper
	n := 0
	for _, fn := range c.AllFns(pkgQBE) {
		info := fn.Info()
		defs := localDefs(fn)
		// value id behind a type expression: T := g.valueTypes[ID]  (or the index expression itself)
		var idOfType func(e ast.Expr, depth int) string
		idOfType = func(e ast.Expr, depth int) string {
			e = ast.Unparen(e)
			if ix, ok := e.(*ast.IndexExpr); ok && strings.HasSuffix(exprStr(ix.X), ".valueTypes") {
				return exprStr(ix.Index)
			}
			if o := objOf(info, e); o != nil && depth < 3 {
				ids := map[string]bool{}
				for _, d := range defs[o] {
					ids[idOfType(d, depth+1)] = true
				}
				if len(ids) == 1 {
					for k := range ids {
						return k
					}
				}
			}
			return ""
		}
		// value id behind an operand name: O := g.valueName(ID)
		var idOfOperand func(e ast.Expr, depth int) string
		idOfOperand = func(e ast.Expr, depth int) string {
			e = ast.Unparen(e)
			if cl, ok := e.(*ast.CallExpr); ok && isCallTo(info, cl, vname.Obj) && len(cl.Args) == 1 {
				return exprStr(cl.Args[0])
			}
			if o := objOf(info, e); o != nil && depth < 3 {
				ids := map[string]bool{}
				for _, d := range defs[o] {
					if id := idOfOperand(d, depth+1); id != "" {
						ids[id] = true
					}
				}
				if len(ids) == 1 {
					for k := range ids {
						return k
					}
				}
			}
			return ""
		}
		signArg := func(e ast.Expr) ast.Expr {
			e = ast.Unparen(e)
			if u, ok := e.(*ast.UnaryExpr); ok && u.Op == token.NOT {
				e = ast.Unparen(u.X)
			}
			if cl, ok := e.(*ast.CallExpr); ok && isCallTo(info, cl, isS.Obj, isU.Obj) && len(cl.Args) == 1 {
				return cl.Args[0]
			}
			return nil
		}
		// (a) ensureLong(id, sign)
		if ens != nil && fn.Obj != ens.Obj {
			for _, call := range callsIn(fn.Decl.Body, false) {
				if !isCallTo(info, call, ens.Obj) || len(call.Args) != 2 {
					continue
				}
				n++
				want := exprStr(call.Args[0])
				got := ""
				if t := signArg(call.Args[1]); t != nil {
					got = idOfType(t, 0)
				}
				r.Check(got == want, rule, fn.Name(), "ensureLong("+want+", …): signedness of the same value", c.pos(call.Pos()),
					fmt.Sprintf("the operand %s is extended to 64 bits with the signedness of %q: a u32 >= 2^31 compared with an i64 is sign-extended (or a negative i32 zero-extended) and the comparison gives the wrong answer", want, got))
			}
		}
		// (b) open-coded: if g.isSigned(T) { …ext… O } else { …ext… O }
		ast.Inspect(fn.Decl.Body, func(x ast.Node) bool {
			ifs, ok := x.(*ast.IfStmt)
			if !ok {
				return true
			}
			t := signArg(ifs.Cond)
			if t == nil {
				return true
			}
			// extension lines in the branches
			var operands []ast.Expr
			for _, br := range []ast.Node{ifs.Body, ifs.Else} {
				if br == nil {
					continue
				}
				for _, call := range callsIn(br, false) {
					f := callee(info, call)
					if f == nil || f.Name() != "Sprintf" || len(call.Args) < 3 {
						continue
					}
					if v := constOf(info, call.Args[0]); v != nil {
						s, _ := strOf(v)
						if strings.Contains(s, "=l extsw %s") || strings.Contains(s, "=l extuw %s") {
							operands = append(operands, call.Args[len(call.Args)-1])
						}
					}
				}
			}
			if len(operands) == 0 {
				return true
			}
			n++
			tid := idOfType(t, 0)
			okAll := tid != ""
			var oids []string
			for _, o := range operands {
				oid := idOfOperand(o, 0)
				oids = append(oids, oid)
				if oid != tid {
					okAll = false
				}
			}
			r.Check(okAll, rule, fn.Name(), "extsw/extuw of "+strings.Join(oids, ",")+" chosen by the type of the same value", c.pos(ifs.Pos()),
				fmt.Sprintf("the extension of %v is selected by the signedness of %q", oids, tid))
			return true
		})
	}
	r.Floor(rule, n, 3, "word->long extension sites in the QBE emitter")
}
