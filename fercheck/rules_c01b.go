package main

import (
	"fmt"
	"go/ast"
	"go/token"
	"go/types"
	"sort"
	"strings"

	"golang.org/x/tools/go/cfg"
)

func init() {
	props["C01"].Quick = append(props["C01"].Quick, c01R3, c01R6, c02R3)
	props["C02"].Quick = append(props["C02"].Quick, c01R3, c02R3)
	props["C01"].Explanation = "Structural necessary conditions of native-code correctness: (R2) QBE instruction-selection tables agree with the QBE IL reference for every operator x scalar type; (R3) every arithmetic result, negation and narrowing cast of an 8/16-bit integer type is reduced to the declared width in both back ends (the wrap helper runs on every path to the definition of the result, or the path is the helper's own not-applicable branch); (R6) mir/gen.exprType has a case for every HIR expression kind that carries a Type (a nil answer silently disables conversions and boxing); (C02.R3) in both back ends the signedness that selects an extension / int->float conversion is that of the source type and the one that selects a float->int truncation is that of the target type. Does not decide semantic preservation of the individual lowerings, closures, ABI, QBE itself or the C runtime."
	props["C02"].Explanation = "Structural necessary conditions of back-end agreement: (R1) wasm encoding constants match the WebAssembly binary format; (R2) wasm selection tables pick the spec instruction for every operator x value type x signedness; (R3) cast lowering in both back ends takes signedness from the same side (source for extension and int->float, target for float->int); (C01.R3) both back ends reduce 8/16-bit arithmetic and casts to the declared width. Does not decide the JS runtime's behaviour or features only one target supports."
}

// guardedMustCall: on every path of g to a target node, a gate node occurs first, or the path leaves an
// `if cond { ...gate... }` through its false edge (the guard of the gate decides applicability).
func guardedMustCall(g *cfg.CFG, root ast.Node, isGate func(ast.Node) bool, isTarget func(ast.Node) bool, atReturn bool) (hits []FlowHit, nTargets int) {
	guardOf := map[ast.Expr]bool{}
	ast.Inspect(root, func(n ast.Node) bool {
		if ifs, ok := n.(*ast.IfStmt); ok {
			for _, st := range ifs.Body.List {
				if isGate(st) {
					guardOf[ifs.Cond] = true
				}
			}
		}
		return true
	})
	hits = mustFlow(g, FlowSpec{
		Gate: isGate,
		EdgeGate: func(b *cfg.Block, succ int) bool {
			cond := condOf(b)
			return cond != nil && succ == 1 && guardOf[cond]
		},
		Target: func(n ast.Node) bool {
			if isTarget != nil && isTarget(n) {
				nTargets++
				return true
			}
			return false
		},
		AtReturn: atReturn,
	})
	return hits, nTargets
}

// clauseOf finds, in fn, the case clause of a switch whose case list names constant `name` (e.g. MINUS_TOKEN).
func clauseOf(fn *Fn, name string, within ast.Node) *ast.CaseClause {
	var out *ast.CaseClause
	root := ast.Node(fn.Decl.Body)
	if within != nil {
		root = within
	}
	ast.Inspect(root, func(n ast.Node) bool {
		if cc, ok := n.(*ast.CaseClause); ok && out == nil {
			for _, e := range cc.List {
				if o := objOf(fn.Info(), e); o != nil && o.Name() == name {
					out = cc
				}
			}
		}
		return true
	})
	return out
}

func mentionsIdent(n ast.Node, name string) bool {
	found := false
	inspectShallow(n, func(x ast.Node) bool {
		if id, ok := x.(*ast.Ident); ok && id.Name == name {
			found = true
		}
		return true
	})
	return found
}

// C01.R3: sub-word integers wrap at their declared width.
func c01R3(c *Ctx, r *Report) {
	const rule = "C01.R3"
	r.Describe(rule, "8/16-bit integer results are reduced to the declared width: QBE emitBinary(arithmetic), emitUnary(-), handleIntegerCast; wasm emitBinary, emitUnary(-, i32), emitCast")
	qWrap := c.LookupFn(pkgQBE, "(*Generator).emitSubWordWrap")
	wWrap := c.LookupFn(pkgWasm, "subWordWrap")
	if !r.Anchor(rule, qWrap != nil, "qbe.(*Generator).emitSubWordWrap") || !r.Anchor(rule, wWrap != nil, "wasm.subWordWrap") {
		return
	}
	type site struct {
		pkg, fn, clause, inner string
		gate                   *Fn
		target                 func(info *types.Info, n ast.Node) bool // nil: end of region
		what                   string
	}
	valueTypesDef := func(info *types.Info, n ast.Node) bool {
		as, ok := n.(*ast.AssignStmt)
		if !ok || len(as.Lhs) != 1 {
			return false
		}
		ix, ok := as.Lhs[0].(*ast.IndexExpr)
		return ok && strings.HasSuffix(exprStr(ix.X), ".valueTypes")
	}
	localSet := func(info *types.Info, n ast.Node) bool { return mentionsIdent(n, "opcodeLocalSet") }
	sites := []site{
		{pkgQBE, "(*Generator).emitBinary", "PLUS_TOKEN", "", qWrap, valueTypesDef, "arithmetic result"},
		{pkgQBE, "(*Generator).emitUnary", "MINUS_TOKEN", "", qWrap, valueTypesDef, "negation"},
		{pkgWasm, "(*Generator).emitBinary", "", "", wWrap, localSet, "arithmetic result"},
		{pkgWasm, "(*Generator).emitUnary", "MINUS_TOKEN", "valTypeI32", wWrap, nil, "negation (i32 value type)"},
		{pkgWasm, "(*Generator).emitCast", "", "", wWrap, localSet, "cast to an i32-represented type"},
	}
	for _, s := range sites {
		fn := c.LookupFn(s.pkg, s.fn)
		if !r.Anchor(rule, fn != nil, s.pkg+"."+s.fn) {
			continue
		}
		info := fn.Info()
		var root ast.Node = fn.Decl.Body
		var g *cfg.CFG
		if s.clause != "" {
			cc := clauseOf(fn, s.clause, nil)
			if cc != nil && s.inner != "" {
				cc = clauseOf(fn, s.inner, cc)
			}
			if !r.Anchor(rule, cc != nil, fn.Name()+": case "+s.clause+" "+s.inner) {
				continue
			}
			blk := &ast.BlockStmt{List: cc.Body, Lbrace: cc.Colon, Rbrace: cc.End()}
			root = blk
			g = c.CFGOfBody(blk)
		} else {
			g = c.CFG(fn)
		}
		isGate := func(n ast.Node) bool { return nodeCalls(info, n, s.gate.Obj) != nil }
		var tgt func(ast.Node) bool
		if s.target != nil {
			tgt = func(n ast.Node) bool { return s.target(info, n) }
		}
		hits, nT := guardedMustCall(g, root, isGate, tgt, s.target == nil)
		if s.target != nil && nT == 0 {
			r.Fail(rule, fn.Name(), s.what, c.pos(fn.Decl.Pos()), "anchor: the definition of the result was not found in this region")
			continue
		}
		where := c.pos(fn.Decl.Pos())
		if len(hits) > 0 && hits[0].Pos.IsValid() {
			where = c.pos(hits[0].Pos)
		}
		r.Check(len(hits) == 0, rule, fn.Name(), "sub-word wrap before "+s.what, where,
			"a path defines the result without reducing it to the declared width: i8/i16/u8/u16 values live in a 32-bit temporary, so `x + y` with x: u8 = 250, y: u8 = 10 compares as 260 and `(a + b) as i32` does not wrap")
	}
	// QBE narrowing casts use the same helper
	hic := c.LookupFn(pkgQBE, "(*Generator).handleIntegerCast")
	if r.Anchor(rule, hic != nil, "qbe.(*Generator).handleIntegerCast") {
		r.Check(nodeCalls(hic.Info(), hic.Decl.Body, qWrap.Obj) != nil, rule, hic.Name(), "narrowing cast uses emitSubWordWrap", c.pos(hic.Decl.Pos()), "casts to 8/16-bit integers no longer reduce the value")
	}
	// the helpers choose sign- vs zero-extension by the signedness of the type they are given
	isS := c.LookupFn(pkgQBE, "(*Generator).isSigned")
	isU := c.LookupFn(pkgQBE, "(*Generator).isUnsigned")
	wU := c.LookupFn(pkgWasm, "isUnsignedType")
	if r.Anchor(rule, isS != nil && isU != nil && wU != nil, "isSigned / isUnsigned / isUnsignedType") {
		typParam := func(fn *Fn) types.Object {
			sig := fn.Obj.Type().(*types.Signature)
			for i := 0; i < sig.Params().Len(); i++ {
				if nt := namedOf(sig.Params().At(i).Type()); nt != nil && nt.Obj().Name() == "SemType" {
					return sig.Params().At(i)
				}
			}
			return nil
		}
		for _, h := range []struct {
			fn    *Fn
			preds []*types.Func
		}{{qWrap, []*types.Func{isS.Obj, isU.Obj}}, {wWrap, []*types.Func{wU.Obj}}} {
			tp := typParam(h.fn)
			okSign := false
			for _, call := range callsIn(h.fn.Decl.Body, false) {
				if isCallTo(h.fn.Info(), call, h.preds...) && len(call.Args) == 1 && objOf(h.fn.Info(), call.Args[0]) == tp && tp != nil {
					okSign = true
				}
			}
			r.Check(okSign, rule, h.fn.Name(), "extension kind from the type's signedness", c.pos(h.fn.Decl.Pos()), "the wrap helper no longer distinguishes signed (sign-extend) from unsigned (mask) types")
		}
	}
}

// C01.R6: exprType is exhaustive over typed HIR expressions.
func c01R6(c *Ctx, r *Report) {
	const rule = "C01.R6"
	r.Describe(rule, "mir/gen.(*functionBuilder).exprType has a case for every HIR expression kind with a `Type types.SemType` field")
	fn := c.LookupFn(pkgMIRGen, "(*functionBuilder).exprType")
	if !r.Anchor(rule, fn != nil, "mir/gen.(*functionBuilder).exprType") {
		return
	}
	hirPkg := c.ByPath[Mod+"/internal/hir"]
	if !r.Anchor(rule, hirPkg != nil, "package internal/hir") {
		return
	}
	exprIface, _ := hirPkg.Types.Scope().Lookup("Expr").Type().Underlying().(*types.Interface)
	if !r.Anchor(rule, exprIface != nil, "hir.Expr") {
		return
	}
	covered := map[string]bool{}
	sigp := fn.Obj.Type().(*types.Signature).Params()
	if !r.Anchor(rule, sigp.Len() == 1, "exprType(expr)") {
		return
	}
	for _, ts := range typeSwitchesOn(fn.Info(), fn.Decl.Body, sigp.At(0)) {
		for _, cc := range ts.Body.List {
			for _, t := range caseTypes(fn.Info(), cc.(*ast.CaseClause)) {
				if nt := namedOf(t); nt != nil {
					covered[nt.Obj().Name()] = true
				}
			}
		}
	}
	var kinds []string
	sc := hirPkg.Types.Scope()
	for _, name := range sc.Names() {
		tn, ok := sc.Lookup(name).(*types.TypeName)
		if !ok {
			continue
		}
		st, ok := tn.Type().Underlying().(*types.Struct)
		if !ok || !types.Implements(types.NewPointer(tn.Type()), exprIface) {
			continue
		}
		for i := 0; i < st.NumFields(); i++ {
			if f := st.Field(i); f.Name() == "Type" {
				if nt := namedOf(f.Type()); nt != nil && nt.Obj().Name() == "SemType" {
					kinds = append(kinds, name)
				}
			}
		}
	}
	sort.Strings(kinds)
	r.Floor(rule, len(kinds), 25, "typed HIR expression kinds")
	for _, k := range kinds {
		r.Check(covered[k], rule, fn.Name(), "case *hir."+k, c.pos(fn.Decl.Pos()),
			"exprType answers nil for *hir."+k+": callers read nil as 'nothing to convert', so a conversion or boxing of such an operand is silently skipped (a cast of a cast loses the outer cast; a cast passed to io::Println is not boxed and the program crashes)")
	}
}

// signPredArgs lists the arguments whose signedness is tested inside n: direct calls of the sign predicates, and calls of
// one-level wrappers whose body applies a sign predicate to its own parameter.
func signPredArgs(c *Ctx, pkgRel string, info *types.Info, n ast.Node, preds map[*types.Func]bool) []ast.Expr {
	var out []ast.Expr
	inspectShallow(n, func(x ast.Node) bool {
		call, ok := x.(*ast.CallExpr)
		if !ok {
			return true
		}
		f := callee(info, call)
		if f == nil {
			return true
		}
		if preds[f] && len(call.Args) == 1 {
			out = append(out, call.Args[0])
			return true
		}
		// wrapper?
		if w := c.FnOf(f); w != nil && w.Decl != nil && w.Decl.Body != nil && f.Pkg() != nil && strings.HasSuffix(f.Pkg().Path(), pkgRel) {
			sig := f.Type().(*types.Signature)
			for _, inner := range callsIn(w.Decl.Body, false) {
				if g := callee(w.Info(), inner); g != nil && preds[g] && len(inner.Args) == 1 {
					po := objOf(w.Info(), inner.Args[0])
					for i := 0; i < sig.Params().Len() && i < len(call.Args); i++ {
						if sig.Params().At(i) == po {
							out = append(out, call.Args[i])
						}
					}
				}
			}
		}
		return true
	})
	return out
}

// C02.R3: the side whose signedness selects a conversion.
func c02R3(c *Ctx, r *Report) {
	const rule = "C02.R3"
	r.Describe(rule, "cast lowering: extension and int->float use the source type's signedness, float->int uses the target's (QBE emitCast/handleIntegerCast, wasm emitCast)")
	// ---- QBE
	ec := c.LookupFn(pkgQBE, "(*Generator).emitCast")
	hic := c.LookupFn(pkgQBE, "(*Generator).handleIntegerCast")
	isS := c.LookupFn(pkgQBE, "(*Generator).isSigned")
	isU := c.LookupFn(pkgQBE, "(*Generator).isUnsigned")
	if r.Anchor(rule, ec != nil && hic != nil && isS != nil && isU != nil, "qbe emitCast / handleIntegerCast / isSigned / isUnsigned") {
		preds := map[*types.Func]bool{isS.Obj: true, isU.Obj: true}
		// handleIntegerCast: parameters by type/position: (resultName, operand, fromQ, fromType, toQ, toType)
		sig := hic.Obj.Type().(*types.Signature)
		var sem []*types.Var
		for i := 0; i < sig.Params().Len(); i++ {
			if nt := namedOf(sig.Params().At(i).Type()); nt != nil && nt.Obj().Name() == "SemType" {
				sem = append(sem, sig.Params().At(i))
			}
		}
		if r.Anchor(rule, len(sem) == 2, "handleIntegerCast(…, fromType, …, toType)") {
			from, to := sem[0], sem[1]
			// call sites pass (fromType, toType) in this order
			for _, call := range callsIn(ec.Decl.Body, false) {
				if isCallTo(ec.Info(), call, hic.Obj) {
					var args []string
					for i := 0; i < sig.Params().Len(); i++ {
						if sig.Params().At(i) == from || sig.Params().At(i) == to {
							args = append(args, exprStr(call.Args[i]))
						}
					}
					r.Check(len(args) == 2 && args[0] == "fromType" && args[1] == "toType", rule, ec.Name(), "handleIntegerCast called with (source, target)", c.pos(call.Pos()), "source and target types are swapped at the call")
				}
			}
			// the w->l widening branch: the if whose condition compares the from-class with "w" and the to-class with "l"
			found := false
			ast.Inspect(hic.Decl.Body, func(n ast.Node) bool {
				ifs, ok := n.(*ast.IfStmt)
				if !ok {
					return true
				}
				cs := exprStr(ifs.Cond)
				if !(strings.Contains(cs, `"w"`) && strings.Contains(cs, `"l"`)) {
					return true
				}
				found = true
				args := signPredArgs(c, pkgQBE, hic.Info(), ifs.Body, preds)
				ok2 := len(args) > 0
				for _, a := range args {
					if objOf(hic.Info(), a) != from {
						ok2 = false
					}
				}
				r.Check(ok2, rule, hic.Name(), "word->long extension chosen by the source type", c.pos(ifs.Pos()),
					fmt.Sprintf("the sign/zero extension of a 32-bit value to 64 bits is selected by %v instead of the source type: u32 4000000000 widened to i64 becomes negative (or i32 -1 widened to u64 loses its sign extension)", exprStrs(args)))
				return true
			})
			r.Check(found, rule, hic.Name(), "word->long branch present", c.pos(hic.Decl.Pos()), "anchor: the w->l widening branch was not found")
		}
		// emitCast: int->float branch uses the source, float->int the target
		info := ec.Info()
		nBr := 0
		ast.Inspect(ec.Decl.Body, func(n ast.Node) bool {
			ifs, ok := n.(*ast.IfStmt)
			if !ok {
				return true
			}
			cs := exprStr(ifs.Cond)
			var want string
			switch cs {
			case "g.isInteger(fromType) && g.isFloat(toType)":
				want = "fromType"
			case "g.isFloat(fromType) && g.isInteger(toType)":
				want = "toType"
			default:
				return true
			}
			nBr++
			args := signPredArgs(c, pkgQBE, info, ifs.Body, preds)
			ok2 := len(args) > 0
			for _, a := range args {
				if exprStr(a) != want {
					ok2 = false
				}
			}
			r.Check(ok2, rule, ec.Name(), "branch `"+cs+"`: signedness of "+want, c.pos(ifs.Pos()),
				fmt.Sprintf("the unsigned special case of this conversion is selected by %v instead of %s", exprStrs(args), want))
			return true
		})
		r.Check(nBr == 2, rule, ec.Name(), "int->float and float->int branches present", c.pos(ec.Decl.Pos()), "anchor: the two int/float conversion branches of emitCast were not both found")
	}
	// ---- wasm
	wc := c.LookupFn(pkgWasm, "(*Generator).emitCast")
	co := c.LookupFn(pkgWasm, "castOpcode")
	wU := c.LookupFn(pkgWasm, "isUnsignedType")
	if r.Anchor(rule, wc != nil && co != nil && wU != nil, "wasm emitCast / castOpcode / isUnsignedType") {
		info := wc.Info()
		var call *ast.CallExpr
		for _, cl := range callsIn(wc.Decl.Body, false) {
			if isCallTo(info, cl, co.Obj) {
				call = cl
			}
		}
		if r.Anchor(rule, call != nil && len(call.Args) == 3, "wasm emitCast: castOpcode(from, to, unsigned)") {
			// definitions of the third argument
			type def struct {
				arg   string
				guard string
			}
			var defs []def
			if cl, ok := ast.Unparen(call.Args[2]).(*ast.CallExpr); ok && isCallTo(info, cl, wU.Obj) {
				defs = append(defs, def{exprStr(cl.Args[0]), ""})
			} else if v := objOf(info, call.Args[2]); v != nil {
				walkWithStack(wc.Decl.Body, func(n ast.Node, stack []ast.Node) bool {
					as, ok := n.(*ast.AssignStmt)
					if !ok || len(as.Lhs) != 1 || len(as.Rhs) != 1 || objOf(info, as.Lhs[0]) != v {
						return true
					}
					cl, ok := ast.Unparen(as.Rhs[0]).(*ast.CallExpr)
					if !ok || !isCallTo(info, cl, wU.Obj) {
						defs = append(defs, def{"?" + exprStr(as.Rhs[0]), ""})
						return true
					}
					guard := ""
					for i := len(stack) - 1; i >= 0; i-- {
						if ifs, ok := stack[i].(*ast.IfStmt); ok {
							guard = exprStr(ifs.Cond)
							break
						}
					}
					defs = append(defs, def{exprStr(cl.Args[0]), guard})
					return true
				})
			}
			srcOK, tgtOK, other := false, false, []string{}
			for _, d := range defs {
				switch {
				case d.arg == "fromType" && d.guard == "":
					srcOK = true
				case d.arg == "c.Type" && strings.Contains(d.guard, "valTypeF32") && strings.Contains(d.guard, "valTypeF64") && strings.Contains(d.guard, "fromVal") && !strings.Contains(d.guard, "!="):
					tgtOK = true
				default:
					other = append(other, d.arg+" if "+d.guard)
				}
			}
			r.Check(srcOK, rule, wc.Name(), "integer source: signedness of the source type", c.pos(call.Pos()), "extension / int->float conversion is not selected by isUnsignedType(fromType)")
			r.Check(tgtOK && len(other) == 0, rule, wc.Name(), "float source: signedness of the target type", c.pos(call.Pos()),
				fmt.Sprintf("float->int truncation is selected by the source type's signedness (a float is never unsigned): `f as u32` with f >= 2^31 traps in wasm where the native target yields the value; other definitions: %v", other))
		}
	}
}

func exprStrs(es []ast.Expr) []string {
	var out []string
	for _, e := range es {
		out = append(out, exprStr(e))
	}
	return out
}

var _ = token.NoPos
