package main

import (
	"fmt"
	"go/ast"
	"go/constant"
	"go/token"
	"go/types"
	"math/big"
	"strings"

	"golang.org/x/tools/go/cfg"
)

const pkgNumeric = "internal/utils/numeric"

func init() {
	register("C10", &propSpec{
		Explanation: "Structural necessary conditions of exact literal range checking and value preservation: (R1) at every literal position (initialiser/assignment, call argument, return value) checkFitness runs before the value is accepted; (R1b) both operand types handed to checkBinaryExpr (binary expressions and compound assignments) went through bindUntypedNumericLiteral against the other operand, the step that range-checks a literal operand and gives it the other operand's type; (R2) every conversion of literal text to a number follows one base convention — optional '-', 0x/0o/0b prefix, otherwise decimal — no Go base-0 parsing (leading-zero octal), decimal-only parsers are recorded findings; (R3) the range tables (int64 fast path bounds, big-integer bounds, bit sizes and signedness per type name) equal the exact two's-complement bounds for all twelve types; (R4) large (128/256-bit) constants are normalised through the same parser and materialised by the matching from_string helper. Does not decide ferret_parse_uint or QBE's own constant parsing.",
		Quick:       []ruleFn{c10R1, c10R1b, c10R2, c10R3, typeTablesRule("C10.R3t"), c10R4},
	})
}

// C10.R1: fitness before acceptance.
func c10R1(c *Ctx, r *Report) {
	const rule = "C10.R1"
	r.Describe(rule, "checkFitness runs between every typed check of an initialiser/argument/return value and its acceptance")
	checkExpr := c.LookupFn(pkgTC, "checkExpr")
	fitness := c.LookupFn(pkgTC, "checkFitness")
	fits := c.LookupFn(pkgTC, "fitsInType")
	compat := c.LookupFn(pkgTC, "checkTypeCompatibility")
	bagAdd := c.LookupFn("internal/diagnostics", "(*DiagnosticBag).Add")
	unknownVar := c.lookupObj(pkgTypes, "TypeUnknown")
	if !r.Anchor(rule, checkExpr != nil && fitness != nil && fits != nil && compat != nil && bagAdd != nil && unknownVar != nil, "checkExpr / checkFitness / fitsInType / checkTypeCompatibility") {
		return
	}
	sites := []struct{ fn, what string }{
		{"checkNode", "return values (error, success and plain returns)"},
		{"validateCallArgumentTypes", "call arguments (regular and variadic)"},
		{"checkAssignLike", "initialisers and assignments"},
	}
	for _, s := range sites {
		fn := c.LookupFn(pkgTC, s.fn)
		if !r.Anchor(rule, fn != nil, "typechecker."+s.fn) {
			continue
		}
		info := fn.Info()
		isTyped := func(call *ast.CallExpr) bool {
			return isCallTo(info, call, checkExpr.Obj) && len(call.Args) == 4 && objOf(info, call.Args[3]) != unknownVar
		}
		nTyped := 0
		for _, cl := range callsIn(fn.Decl.Body, false) {
			if isTyped(cl) {
				nTyped++
			}
		}
		if s.fn == "checkNode" {
			// only the ReturnStmt obligations: those whose checked expression is n.Result
			isTyped = func(call *ast.CallExpr) bool {
				return isCallTo(info, call, checkExpr.Obj) && len(call.Args) == 4 && objOf(info, call.Args[3]) != unknownVar && strings.HasSuffix(exprStr(call.Args[2]), ".Result")
			}
		}
		g := c.CFG(fn)
		reported := mustFlowStates(g, FlowSpec{Gate: func(n ast.Node) bool { return nodeCalls(info, n, bagAdd.Obj) != nil }})
		hits := mustFlow(g, FlowSpec{
			InitTrue: true,
			Kill:     func(n ast.Node) bool { return nodeCallsPred(n, isTyped) != nil && !reported[n] },
			Gate: func(n ast.Node) bool {
				return nodeCalls(info, n, fitness.Obj) != nil || nodeCalls(info, n, bagAdd.Obj) != nil
			},
			EdgeGate: func(b *cfg.Block, succ int) bool {
				cond := condOf(b)
				return cond != nil && impliesDischarge(info, cond, succ == 0, unknownVar, nil)
			},
			Target: func(n ast.Node) bool { return nodeCalls(info, n, compat.Obj) != nil },
		})
		r.Check(len(hits) == 0 && nTyped > 0, rule, fn.Name(), "checkFitness before acceptance: "+s.what, c.pos(fn.Decl.Pos()),
			"a path reaches the compatibility decision for a typed position without running checkFitness: an out-of-range literal there is accepted and silently wrapped")
	}
	// checkFitness decides integers through fitsInType(value, target) and reports with an Error when it fails
	finfo := fitness.Info()
	okShape := false
	ast.Inspect(fitness.Decl.Body, func(n ast.Node) bool {
		ifs, ok := n.(*ast.IfStmt)
		if !ok {
			return true
		}
		if u, ok := ast.Unparen(ifs.Cond).(*ast.UnaryExpr); ok && u.Op == token.NOT {
			if cl, ok := ast.Unparen(u.X).(*ast.CallExpr); ok && isCallTo(finfo, cl, fits.Obj) && nodeCalls(finfo, ifs.Body, bagAdd.Obj) != nil {
				// the failing branch must make checkFitness return false
				retFalse := false
				ast.Inspect(ifs.Body, func(x ast.Node) bool {
					if ret, ok := x.(*ast.ReturnStmt); ok && len(ret.Results) == 1 {
						if v := constOf(finfo, ret.Results[0]); v != nil && !boolVal(v) {
							retFalse = true
						}
					}
					return true
				})
				okShape = retFalse
			}
		}
		return true
	})
	r.Check(okShape, rule, fitness.Name(), "!fitsInType => Error + return false", c.pos(fitness.Decl.Pos()), "an integer literal outside the target range is no longer reported by checkFitness")
	// fitsInType: integers use bit size and signedness of the *target* type name
	tinfo := fits.Info()
	bs := c.LookupFn(pkgTypes, "GetNumberBitSize")
	sg := c.LookupFn(pkgTypes, "IsSigned")
	ok := bs != nil && sg != nil && nodeCalls(tinfo, fits.Decl.Body, bs.Obj) != nil && nodeCalls(tinfo, fits.Decl.Body, sg.Obj) != nil
	var fitsCall *ast.CallExpr
	for _, cl := range callsIn(fits.Decl.Body, false) {
		if f := callee(tinfo, cl); f != nil && f.Name() == "FitsInBitSize" {
			fitsCall = cl
		}
	}
	r.Check(ok && fitsCall != nil, rule, fits.Name(), "range from GetNumberBitSize / IsSigned of the target", c.pos(fits.Decl.Pos()), "the integer range check no longer derives width and signedness from the target type")
}

// C10.R1b: literal operands of binary operators and compound assignments are bound (fitness + type).
func c10R1b(c *Ctx, r *Report) {
	const rule = "C10.R1b"
	r.Describe(rule, "every checkBinaryExpr call: each operand type was produced by bindUntypedNumericLiteral on every path, or is the typed context of the other operand's binding")
	cbe := c.LookupFn(pkgTC, "checkBinaryExpr")
	bind := c.LookupFn(pkgTC, "bindUntypedNumericLiteral")
	fitness := c.LookupFn(pkgTC, "checkFitness")
	if !r.Anchor(rule, cbe != nil && bind != nil && fitness != nil, "typechecker.checkBinaryExpr / bindUntypedNumericLiteral / checkFitness") {
		return
	}
	r.Check(nodeCalls(bind.Info(), bind.Decl.Body, fitness.Obj) != nil, rule, bind.Name(), "binding runs checkFitness", c.pos(bind.Decl.Pos()), "bindUntypedNumericLiteral no longer range-checks the literal against the other operand's type")
	n := 0
	for _, fn := range c.AllFns(pkgTC) {
		if fn.Decl.Body == nil {
			continue
		}
		info := fn.Info()
		for _, call := range callsIn(fn.Decl.Body, false) {
			if !isCallTo(info, call, cbe.Obj) || len(call.Args) != 5 {
				continue
			}
			n++
			g := c.CFG(fn)
			// bound[v]: assigned from bind(...) on every path; ctxOf[v]: v is the otherType argument of a bind call whose result var is bound
			boundOn := func(v types.Object) (bool, types.Object) {
				var other types.Object
				hits := mustFlow(g, FlowSpec{
					Gate: func(nd ast.Node) bool {
						as, ok := nd.(*ast.AssignStmt)
						if !ok || len(as.Lhs) != 1 || len(as.Rhs) != 1 || objOf(info, as.Lhs[0]) != v {
							return false
						}
						cl, ok := ast.Unparen(as.Rhs[0]).(*ast.CallExpr)
						if !ok || !isCallTo(info, cl, bind.Obj) || len(cl.Args) != 6 {
							return false
						}
						other = objOf(info, cl.Args[4])
						return true
					},
					Target: func(nd ast.Node) bool {
						return nodeCallsPred(nd, func(x *ast.CallExpr) bool { return x == call }) != nil
					},
				})
				return len(hits) == 0, other
			}
			lv, rv := objOf(info, call.Args[3]), objOf(info, call.Args[4])
			lb, lo := false, types.Object(nil)
			rb, ro := false, types.Object(nil)
			if lv != nil {
				lb, lo = boundOn(lv)
			}
			if rv != nil {
				rb, ro = boundOn(rv)
			}
			okL := lb || (rb && ro == lv && lv != nil)
			okR := rb || (lb && lo == rv && rv != nil)
			r.Check(okL && okR, rule, fn.Name(), "operands of checkBinaryExpr("+exprStr(call.Args[2])+") bound", c.pos(call.Pos()),
				fmt.Sprintf("an operand type reaches checkBinaryExpr without bindUntypedNumericLiteral (left bound=%v, right bound=%v): an untyped literal operand there is neither range-checked against the other operand's type nor given it, so `x op= 1000` on an i8 is accepted and the literal is lowered as a 32-bit constant whatever the target width", okL, okR))
		}
	}
	r.Floor(rule, n, 2, "checkBinaryExpr call sites")
}

// C10.R2: one base convention.
func c10R2(c *Ctx, r *Report) {
	const rule = "C10.R2"
	r.Describe(rule, "literal text -> number conversions: no base-0 parsing; base comes from the shared prefix splitter or is decimal-only only at reviewed sites")
	split := c.LookupFn(pkgNumeric, "splitIntegerLiteral")
	if !r.Anchor(rule, split != nil, "numeric.splitIntegerLiteral") {
		return
	}
	// the splitter: underscores removed, optional '-', prefixes 0x/0o/0b through IsHexadecimal/IsOctal/IsBinary, else 10
	sinfo := split.Info()
	bases := map[int64]bool{}
	ast.Inspect(split.Decl.Body, func(n ast.Node) bool {
		if ret, ok := n.(*ast.ReturnStmt); ok && len(ret.Results) == 3 {
			if v := constOf(sinfo, ret.Results[1]); v != nil {
				bases[intVal(v)] = true
			}
		}
		return true
	})
	r.Check(len(bases) == 4 && bases[16] && bases[8] && bases[2] && bases[10], rule, split.Name(), "bases {16, 8, 2, 10}", c.pos(split.Decl.Pos()), fmt.Sprintf("the literal splitter must map 0x/0o/0b to 16/8/2 and everything else to 10; found %v", bases))
	for _, h := range []string{"IsHexadecimal", "IsOctal", "IsBinary"} {
		f := c.LookupFn(pkgNumeric, h)
		r.Check(f != nil && nodeCalls(sinfo, split.Decl.Body, f.Obj) != nil, rule, split.Name(), "prefix test "+h, c.pos(split.Decl.Pos()), "the splitter no longer recognises the prefix through "+h+" (the same regular expressions the lexer's NumberPattern is built from)")
	}
	n := 0
	for _, p := range c.Pkgs {
		rel := relOf(p.PkgPath)
		if !strings.HasPrefix(rel, "internal/") || rel == "internal/utils/fs" {
			continue
		}
		for _, fn := range c.AllFns(rel) {
			info := fn.Info()
			for _, call := range callsIn(fn.Decl.Body, true) {
				f := callee(info, call)
				if f == nil || f.Pkg() == nil {
					continue
				}
				var baseArg ast.Expr
				kind := ""
				switch {
				case f.Pkg().Path() == "strconv" && (f.Name() == "ParseInt" || f.Name() == "ParseUint") && len(call.Args) == 3:
					baseArg, kind = call.Args[1], "strconv."+f.Name()
				case f.Pkg().Path() == "math/big" && f.Name() == "SetString" && len(call.Args) == 2:
					baseArg, kind = call.Args[1], "big.Int.SetString"
				case f.Pkg().Path() == "strconv" && f.Name() == "Atoi":
					kind = "strconv.Atoi"
				default:
					continue
				}
				n++
				construct := kind + "(" + exprStr(call.Args[0]) + ")"
				if kind == "strconv.Atoi" {
					r.Fail(rule, fn.Name(), construct, c.pos(call.Pos()), "decimal-only conversion of text in a compiler package: a prefixed literal (0x..) would be rejected or misread")
					continue
				}
				v := constOf(info, baseArg)
				switch {
				case v == nil:
					// base computed: must come from splitIntegerLiteral in the same function
					r.Check(nodeCalls(info, fn.Decl.Body, split.Obj) != nil, rule, fn.Name(), construct+" base from splitter", c.pos(call.Pos()), "the numeric base is computed by something other than numeric.splitIntegerLiteral")
				case intVal(v) == 0:
					r.Fail(rule, fn.Name(), construct+" base 0", c.pos(call.Pos()), "Go's base-0 convention reads a decimal literal with a leading zero as octal (\"0755\" = 493) while the lexer and the range check treat it as decimal: the accepted value and the observed value differ")
				case intVal(v) == 10:
					// decimal-only: acceptable only where the text is known to be normalised decimal
					r.Fail(rule, fn.Name(), construct+" base 10", c.pos(call.Pos()), "decimal-only parsing of constant text: hexadecimal, octal and binary literals accepted by the front end are rejected here, so the same program compiles for one target and not for the other")
				default:
					r.OK(rule, fn.Name(), construct, c.pos(call.Pos()), "fixed non-decimal base")
				}
			}
		}
	}
	r.Floor(rule, n, 2, "text-to-integer conversion sites")
}

// C10.R3: bound tables.
func c10R3(c *Ctx, r *Report) {
	const rule = "C10.R3"
	r.Describe(rule, "Int64Value.FitsInBitSize bounds and numeric.FitsInBitSize bound construction equal the exact two's-complement bounds")
	m := c.LookupFn(pkgNumeric, "(*Int64Value).FitsInBitSize")
	if !r.Anchor(rule, m != nil, "numeric.(*Int64Value).FitsInBitSize") {
		return
	}
	info := m.Info()
	signedP := m.ParamNamed("signed")
	bitP := m.ParamNamed("bitSize")
	var top *ast.IfStmt
	for _, st := range m.Decl.Body.List {
		if ifs, ok := st.(*ast.IfStmt); ok && usesVar(info, ifs.Cond, signedP) {
			top = ifs
		}
	}
	if !r.Anchor(rule, top != nil && top.Else != nil && bitP != nil, "if signed {...} else {...} in Int64Value.FitsInBitSize") {
		return
	}
	checkBranch := func(body *ast.BlockStmt, signed bool) {
		label := map[bool]string{true: "signed", false: "unsigned"}[signed]
		// unsigned: a preceding `if v.value < 0 { return false }`
		lower := new(big.Int)
		hasLowerGuard := false
		var sw *ast.SwitchStmt
		for _, st := range body.List {
			switch x := st.(type) {
			case *ast.IfStmt:
				if b, ok := isBinOp(x.Cond, token.LSS); ok && strings.HasSuffix(exprStr(b.X), ".value") {
					if v := constOf(info, b.Y); v != nil && intVal(v) == 0 && len(x.Body.List) == 1 {
						if ret, ok := x.Body.List[0].(*ast.ReturnStmt); ok && len(ret.Results) == 1 {
							if rv := constOf(info, ret.Results[0]); rv != nil && !boolVal(rv) {
								hasLowerGuard = true
							}
						}
					}
				}
			case *ast.SwitchStmt:
				if usesVar(info, x.Tag, bitP) {
					sw = x
				}
			}
		}
		if !signed {
			r.Check(hasLowerGuard, rule, m.Name(), "unsigned: negative values rejected first", c.pos(body.Pos()), "a negative literal can pass the unsigned range check")
		}
		if sw == nil {
			r.Fail(rule, m.Name(), label+": switch on bitSize", c.pos(body.Pos()), "bound table not found")
			return
		}
		seen := map[int64]bool{}
		for _, cc := range caseClauses(sw.Body) {
			if cc.List == nil {
				continue
			}
			res := clauseReturn(cc)
			for _, x := range cc.List {
				bits := intVal(constOf(info, x))
				seen[bits] = true
				f := numFacts{Int: true, Signed: signed, Bits: int(bits)}
				lo, hi := f.minMax()
				construct := fmt.Sprintf("%s %d-bit bounds", label, bits)
				if len(res) != 1 {
					r.Fail(rule, m.Name(), construct, c.pos(cc.Pos()), "case is not a single return")
					continue
				}
				if v := constOf(info, res[0]); v != nil {
					// `return true`: only sound when every int64 (non-negative for unsigned) fits
					i64 := numFacts{Int: true, Signed: true, Bits: 64}
					ilo, ihi := i64.minMax()
					if !signed {
						ilo = lower
					}
					r.Check(boolVal(v) && lo.Cmp(ilo) <= 0 && hi.Cmp(ihi) >= 0, rule, m.Name(), construct, c.pos(cc.Pos()), fmt.Sprintf("`return %s` for %d-bit: not every int64 value in range fits / the case rejects everything", valString(v), bits))
					continue
				}
				glo, ghi, ok := intervalOf(info, res[0], ".value")
				if !signed && glo == nil {
					glo = lower
				}
				r.Check(ok && glo != nil && ghi != nil && glo.Cmp(lo) == 0 && ghi.Cmp(hi) == 0, rule, m.Name(), construct, c.pos(cc.Pos()),
					fmt.Sprintf("accepts [%v, %v] but the type's range is [%v, %v]", glo, ghi, lo, hi))
			}
		}
		for _, b := range []int64{8, 16, 32, 64, 128, 256} {
			r.Check(seen[b], rule, m.Name(), fmt.Sprintf("%s case %d", label, b), c.pos(sw.Pos()), "bit size missing from the fast-path table (falls to default)")
		}
	}
	checkBranch(top.Body, true)
	if eb, ok := top.Else.(*ast.BlockStmt); ok {
		checkBranch(eb, false)
	}
	// numeric.FitsInBitSize (big path): bounds built as Lsh(±1, bits-1) / Lsh(1, bits)-1, inclusive comparisons
	f := c.LookupFn(pkgNumeric, "FitsInBitSize")
	if !r.Anchor(rule, f != nil, "numeric.FitsInBitSize") {
		return
	}
	finfo := f.Info()
	var shifts []string
	ast.Inspect(f.Decl.Body, func(n ast.Node) bool {
		call, ok := n.(*ast.CallExpr)
		if !ok {
			return true
		}
		if g := callee(finfo, call); g != nil && g.Name() == "Lsh" && len(call.Args) == 2 {
			base := "?"
			if inner, ok := ast.Unparen(call.Args[0]).(*ast.CallExpr); ok && len(inner.Args) == 1 {
				if v := constOf(finfo, inner.Args[0]); v != nil {
					base = v.ExactString()
				}
			}
			shifts = append(shifts, base+"<<"+strings.ReplaceAll(exprStr(call.Args[1]), " ", ""))
		}
		return true
	})
	want := map[string]bool{"-1<<uint(bitSize-1)": false, "1<<uint(bitSize-1)": false, "1<<uint(bitSize)": false}
	for _, s := range shifts {
		if _, ok := want[s]; ok {
			want[s] = true
		}
	}
	all := true
	for _, v := range want {
		all = all && v
	}
	r.Check(all && len(shifts) == 3, rule, f.Name(), "bounds -2^(n-1), 2^(n-1)-1, 2^n-1", c.pos(f.Decl.Pos()), fmt.Sprintf("big-integer bounds are not built as Lsh(-1,n-1), Lsh(1,n-1)-1, Lsh(1,n)-1; found %v", shifts))
	// comparisons inclusive: Cmp(min) >= 0, Cmp(max) <= 0; Sign() < 0 rejects for unsigned
	var cmps []string
	ast.Inspect(f.Decl.Body, func(n ast.Node) bool {
		if b, ok := n.(*ast.BinaryExpr); ok {
			if call, ok := ast.Unparen(b.X).(*ast.CallExpr); ok {
				if g := callee(finfo, call); g != nil && (g.Name() == "Cmp" || g.Name() == "Sign") {
					arg := ""
					if len(call.Args) == 1 {
						arg = exprStr(call.Args[0])
					}
					cmps = append(cmps, g.Name()+"("+arg+")"+b.Op.String()+exprStr(b.Y))
				}
			}
		}
		return true
	})
	wantC := []string{"Cmp(min)>=0", "Cmp(max)<=0", "Sign()<0", "Cmp(max)<=0"}
	r.Check(strings.Join(cmps, ",") == strings.Join(wantC, ","), rule, f.Name(), "inclusive comparisons", c.pos(f.Decl.Pos()), fmt.Sprintf("range comparisons must be value>=min && value<=max (signed) and value>=0 && value<=max (unsigned); found %v", cmps))
	r.Exhaust[rule] = true
}

// intervalOf reads `X >= a && X <= b` (any order / strictness) over an expression ending in suffix.
func intervalOf(info *types.Info, e ast.Expr, suffix string) (lo, hi *big.Int, ok bool) {
	ok = true
	for _, cj := range conjuncts(e) {
		b, isCmp := isBinOp(cj, token.GEQ, token.GTR, token.LEQ, token.LSS)
		if !isCmp {
			return nil, nil, false
		}
		x, y, op := b.X, b.Y, b.Op
		if !strings.HasSuffix(exprStr(x), suffix) {
			// constant on the left: flip
			x, y = y, x
			switch op {
			case token.GEQ:
				op = token.LEQ
			case token.GTR:
				op = token.LSS
			case token.LEQ:
				op = token.GEQ
			case token.LSS:
				op = token.GTR
			}
		}
		v := constOf(info, y)
		if v == nil || !strings.HasSuffix(exprStr(x), suffix) {
			return nil, nil, false
		}
		bi, okb := new(big.Int).SetString(constant.ToInt(v).ExactString(), 10)
		if !okb {
			return nil, nil, false
		}
		switch op {
		case token.GEQ:
			lo = bi
		case token.GTR:
			lo = new(big.Int).Add(bi, big.NewInt(1))
		case token.LEQ:
			hi = bi
		case token.LSS:
			hi = new(big.Int).Sub(bi, big.NewInt(1))
		}
	}
	return lo, hi, ok
}

// C10.R4: large constants.
func c10R4(c *Ctx, r *Report) {
	const rule = "C10.R4"
	r.Describe(rule, "emitLargeConst normalises through numeric.StringToBigInt and calls ferret_<type>_from_string_ptr; inferIntType / large type names agree")
	fn := c.LookupFn(pkgMIRGen, "(*functionBuilder).emitLargeConst")
	stb := c.LookupFn(pkgNumeric, "StringToBigInt")
	if !r.Anchor(rule, fn != nil && stb != nil, "mir/gen.emitLargeConst / numeric.StringToBigInt") {
		return
	}
	info := fn.Info()
	r.Check(nodeCalls(info, fn.Decl.Body, stb.Obj) != nil, rule, fn.Name(), "normalises with numeric.StringToBigInt", c.pos(fn.Decl.Pos()), "large integer constants are no longer parsed with the front end's literal convention before being handed to the runtime (which only understands decimal)")
	// Target: "ferret_" + typeName + "_from_string_ptr"
	okTarget := false
	ast.Inspect(fn.Decl.Body, func(n ast.Node) bool {
		kv, ok := n.(*ast.KeyValueExpr)
		if !ok {
			return true
		}
		if id, ok := kv.Key.(*ast.Ident); ok && id.Name == "Target" {
			s := strings.ReplaceAll(exprStr(kv.Value), " ", "")
			if s == `"ferret_"+typeName+"_from_string_ptr"` {
				okTarget = true
			}
		}
		return true
	})
	r.Check(okTarget, rule, fn.Name(), "calls ferret_<type>_from_string_ptr", c.pos(fn.Decl.Pos()), "the materialising runtime call is not the from_string helper of the constant's own type")
	// a fast path that bypasses the string parse must not exist unless it distinguishes signedness by value range:
	// any call target other than from_string in this function is reported
	var others []string
	walkWithStack(fn.Decl.Body, func(n ast.Node, stack []ast.Node) bool {
		kv, ok := n.(*ast.KeyValueExpr)
		if !ok {
			return true
		}
		if id, ok := kv.Key.(*ast.Ident); ok && id.Name == "Target" {
			s := strings.ReplaceAll(exprStr(kv.Value), " ", "")
			if s == `"ferret_"+typeName+"_from_string_ptr"` {
				return true
			}
			// a shortcut through a 64-bit helper is exact only under big.Int.IsInt64() (signed helper) /
			// IsUint64() (unsigned helper); any other size test (BitLen, digit count) is off by the sign bit
			exact := false
			for _, a := range stack {
				if ifs, ok := a.(*ast.IfStmt); ok && containsNode(ifs.Body, kv) {
					for _, cl := range callsIn(ifs.Cond, false) {
						if f := callee(info, cl); f != nil && f.Pkg() != nil && f.Pkg().Path() == "math/big" && (f.Name() == "IsInt64" || f.Name() == "IsUint64") {
							exact = true
						}
					}
				}
			}
			if !exact {
				others = append(others, s)
			}
		}
		return true
	})
	r.Check(len(others) == 0, rule, fn.Name(), "constants bypass from_string only under an exact 64-bit range test", c.pos(fn.Decl.Pos()), fmt.Sprintf("emitLargeConst also materialises constants through %v without an IsInt64()/IsUint64() guard: a magnitude test (BitLen) admits values in [2^63, 2^64) that the signed 64-bit helper sign-extends wrongly", others))
	_ = cfg.KindBody
}
