package main

import (
	"fmt"
	"go/ast"
	"go/constant"
	"go/token"
	"sort"
	"strconv"
	"strings"

	"golang.org/x/tools/go/ssa"
)

func init() {
	register("C14", &propSpec{
		Explanation: "Structural necessary conditions of deterministic compilation: (R2) no range over a Go map has an order-dependent effect on diagnostics or generated code (every map range in the compiler classified keyed/fold/sorted, or a reviewed exception).",
		Quick:       []ruleFn{c14R2},
	})
}

// reviewed exceptions: key -> reason. Keyed by function + ranged expression, never by line.
var mapRangeReviewed = map[string]string{
	"codegen/wasm.(*Generator).collectImports | range g.funcs":            "ensureImport writes g.imports[name] (a set keyed by the constant import name); the only order-dependent effect is which internal error ('conflicting signatures', 'missing arg type') is returned first when two functions each trigger one — every request for one import name uses one constant signature and wasmValueType never fails, so neither arises from a program; resolveCallTarget's diagnostics go to the bag, whose emission is sorted",
	"hir/analysis.(*borrowChecker).releaseExpiredRefs | range scope.refs": "collects the expired reference symbols, then releases each by key (releaseBinding deletes b.bindings[sym] and drops that loan); releases of distinct symbols are independent and emit no diagnostic",
	"hir/analysis.(*borrowChecker).popScope | range scope.refs":           "releases every loan of the closing scope by key; no diagnostic, independent entries",
	"colors.ConvertANSIToHTML | range ansiToHTMLColors":                   "sequential strings.ReplaceAll over a constant table; order-independent under the side condition checked by C14.R2b (no key is a substring of another key or of a replacement)",
}

func c14R2(c *Ctx, r *Report) {
	const rule = "C14.R2"
	r.Describe(rule, "every range over a map is order-insensitive (keyed write / commutative fold / sorted before use)")
	// package tools is a separate utility binary; package toml writes project files, not compiler output (see C20)
	sites := findMapRanges(c, func(rel string) bool { return rel != "tools" && rel != "toml" })
	sort.Slice(sites, func(i, j int) bool { return sites[i].Key < sites[j].Key })
	counts := map[string]int{}
	for _, s := range sites {
		counts[s.Class]++
		if s.Class != "sensitive" {
			r.OK(rule, s.Fn.Name(), "range "+exprStr(s.Stmt.X), c.pos(s.Stmt.Pos()), s.Class+" "+s.Why)
			continue
		}
		if reason, ok := mapRangeReviewed[s.Key]; ok {
			r.OK(rule, s.Fn.Name(), "range "+exprStr(s.Stmt.X), c.pos(s.Stmt.Pos()), "reviewed exception: "+reason)
			continue
		}
		r.Fail(rule, s.Fn.Name(), "range "+exprStr(s.Stmt.X), c.pos(s.Stmt.Pos()),
			"iteration order of a Go map reaches an order-dependent effect: "+s.Why)
	}
	c14R2b(c, r)
	var cs []string
	for k, v := range counts {
		cs = append(cs, k+"="+itoa(v))
	}
	sort.Strings(cs)
	r.Note("C14.R2: %d map ranges: %s", len(sites), strings.Join(cs, " "))
	r.Floor(rule, len(sites), 30, "map range sites")
}

func itoa(i int) string {
	return strings.TrimSpace(strings.Replace(strings.Repeat(" ", 0)+string(rune(0)), "\x00", "", -1) + fmtInt(i))
}
func fmtInt(i int) string {
	if i == 0 {
		return "0"
	}
	neg := i < 0
	if neg {
		i = -i
	}
	var b []byte
	for i > 0 {
		b = append([]byte{byte('0' + i%10)}, b...)
		i /= 10
	}
	if neg {
		b = append([]byte{'-'}, b...)
	}
	return string(b)
}

// c14R2b: side condition of the ConvertANSIToHTML exception, read from the table literal.
func c14R2b(c *Ctx, r *Report) {
	const rule = "C14.R2"
	p := c.ByPath[Mod+"/colors"]
	if p == nil {
		return
	}
	obj := p.Types.Scope().Lookup("ansiToHTMLColors")
	if obj == nil {
		return // table gone: the range site itself is then reported or absent
	}
	var keys, vals []string
	var litPos token.Pos
	for _, f := range p.Syntax {
		ast.Inspect(f, func(n ast.Node) bool {
			vs, ok := n.(*ast.ValueSpec)
			if !ok {
				return true
			}
			for i, nm := range vs.Names {
				if p.TypesInfo.Defs[nm] != obj || i >= len(vs.Values) {
					continue
				}
				cl, ok := vs.Values[i].(*ast.CompositeLit)
				if !ok {
					continue
				}
				litPos = cl.Pos()
				for _, el := range cl.Elts {
					if kv, ok := el.(*ast.KeyValueExpr); ok {
						k, v := constOf(p.TypesInfo, kv.Key), constOf(p.TypesInfo, kv.Value)
						if k != nil && v != nil {
							keys = append(keys, constant.StringVal(k))
							vals = append(vals, constant.StringVal(v))
						}
					}
				}
			}
			return true
		})
	}
	ok := len(keys) > 0
	why := ""
	for i, k := range keys {
		for j, k2 := range keys {
			if i != j && strings.Contains(k2, k) {
				ok, why = false, "key "+strconvQuote(k)+" is a substring of key "+strconvQuote(k2)
			}
		}
		for _, v := range vals {
			if strings.Contains(v, k) {
				ok, why = false, "key "+strconvQuote(k)+" occurs in a replacement"
			}
		}
	}
	r.Check(ok, rule, "colors.ConvertANSIToHTML", "table ansiToHTMLColors is prefix-free", c.pos(litPos), "replacement order matters: "+why)
}

func strconvQuote(s string) string { return strconv.Quote(s) }

const pkgDiag = "internal/diagnostics"

func init() {
	props["C14"].Quick = append(props["C14"].Quick, c14R1, c14R3, c14R5)
	props["C14"].Explanation = "Structural necessary conditions of deterministic compilation: (R1) no function reachable from a parser goroutine writes package-level state; (R2) no range over a Go map has an order-dependent effect (every map range classified keyed/fold/sorted or a reviewed exception); (R3) diagnostics are emitted only after a stable sort, appended only under the bag's lock, and Emit is called only from the sorted emission loop; (R5) no wall-clock, random, pid or pointer-formatting source feeds compiler output. Does not cover the Go runtime, QBE, as or ld."
}

// C14.R1: no function in the concurrent region writes package-level state.
func c14R1(c *Ctx, r *Report) {
	const rule = "C14.R1"
	r.Describe(rule, "functions reachable from a parser goroutine do not write / atomically update package-level variables")
	region, sites := c.concurrentRegion()
	r.Check(len(sites) >= 1, rule, "module", "go statements found", "-", "no go statement found: concurrent region empty (anchor)")
	r.Floor(rule, len(region), 100, "functions in the concurrent region")
	type hit struct{ fn, global, kind, pos string }
	var hits []hit
	for f := range region {
		for _, b := range f.Blocks {
			for _, in := range b.Instrs {
				switch x := in.(type) {
				case *ssa.Store:
					if g := globalRoot(x.Addr, 0); g != nil {
						hits = append(hits, hit{ssaName(f), g.Name(), "store", ssaPos(c, f, in)})
					}
				case *ssa.MapUpdate:
					if g := globalRoot(x.Map, 0); g != nil {
						hits = append(hits, hit{ssaName(f), g.Name(), "map update", ssaPos(c, f, in)})
					}
				case *ssa.Call:
					cal := x.Call.StaticCallee()
					if cal == nil || cal.Pkg == nil || cal.Pkg.Pkg.Path() != "sync/atomic" {
						continue
					}
					nm := cal.Name()
					if !(strings.HasPrefix(nm, "Add") || strings.HasPrefix(nm, "Store") || strings.HasPrefix(nm, "Swap") || strings.HasPrefix(nm, "CompareAndSwap") || strings.HasPrefix(nm, "And") || strings.HasPrefix(nm, "Or")) {
						continue
					}
					var target ssa.Value
					if len(x.Call.Args) > 0 {
						target = x.Call.Args[0]
					}
					if g := globalRoot(target, 0); g != nil {
						hits = append(hits, hit{ssaName(f), g.Name(), "atomic " + nm, ssaPos(c, f, in)})
					}
				}
			}
		}
	}
	sort.Slice(hits, func(i, j int) bool { return hits[i].fn+hits[i].global < hits[j].fn+hits[j].global })
	for _, h := range hits {
		if strings.HasSuffix(h.fn, ".init") {
			continue
		}
		r.Fail(rule, h.fn, h.kind+" of package-level "+h.global, h.pos,
			"a function reachable from the concurrently running parsers updates process-global state; the values observed (e.g. generated names) depend on the goroutine schedule")
	}
	if len(hits) == 0 {
		r.OK(rule, "concurrent region", "no package-level writes", "-", itoa(len(region))+" functions scanned")
	}
}

// C14.R3: diagnostics are ordered by a stable sort before emission.
func c14R3(c *Ctx, r *Report) {
	const rule = "C14.R3"
	r.Describe(rule, "diagnostics: appended under the lock, sorted with a stable sort before emission, Emit called only from the sorted loop")
	emitAll := c.LookupFn(pkgDiag, "(*DiagnosticBag).emitAll")
	sortFn := c.LookupFn(pkgDiag, "sortDiagnostics")
	emit := c.LookupFn(pkgDiag, "(*Emitter).Emit")
	add := c.LookupFn(pkgDiag, "(*DiagnosticBag).Add")
	diagsField := c.fieldObj(pkgDiag, "DiagnosticBag", "diagnostics")
	mu := c.fieldObj(pkgDiag, "DiagnosticBag", "mu")
	if !r.Anchor(rule, emitAll != nil && sortFn != nil && emit != nil && add != nil && diagsField != nil && mu != nil, "diagnostics.{emitAll,sortDiagnostics,Emitter.Emit,DiagnosticBag.Add,diagnostics,mu}") {
		return
	}
	info := emitAll.Info()
	g := c.CFG(emitAll)
	hits := mustFlow(g, FlowSpec{
		Gate:   func(n ast.Node) bool { return nodeCalls(info, n, sortFn.Obj) != nil },
		Target: func(n ast.Node) bool { return nodeCalls(info, n, emit.Obj) != nil }})
	r.Check(len(hits) == 0, rule, emitAll.Name(), "sortDiagnostics before Emit", c.pos(emitAll.Decl.Pos()), "diagnostics can be emitted in append order, which depends on the goroutine schedule of the parsers")
	// the slice that is sorted is the slice that is emitted
	var sortedArg, rangedX string
	ast.Inspect(emitAll.Decl.Body, func(n ast.Node) bool {
		if call, ok := n.(*ast.CallExpr); ok && isCallTo(info, call, sortFn.Obj) && len(call.Args) == 1 {
			sortedArg = exprStr(call.Args[0])
		}
		if rs, ok := n.(*ast.RangeStmt); ok && nodeCalls(info, rs.Body, emit.Obj) != nil {
			rangedX = exprStr(rs.X)
		}
		return true
	})
	r.Check(sortedArg != "" && sortedArg == rangedX, rule, emitAll.Name(), "the sorted slice is the emitted slice", c.pos(emitAll.Decl.Pos()), fmt.Sprintf("sorted %q but emitting %q", sortedArg, rangedX))
	// who-may-call Emit
	for _, p := range c.Pkgs {
		for _, fn := range c.AllFns(relOf(p.PkgPath)) {
			for _, call := range callsIn(fn.Decl.Body, true) {
				if isCallTo(p.TypesInfo, call, emit.Obj) {
					r.Check(fn.Obj == emitAll.Obj, rule, fn.Name(), "calls Emitter.Emit", c.pos(call.Pos()), "a diagnostic is emitted outside the sorted emission loop (order would follow the schedule)")
				}
			}
		}
	}
	// stable sort
	sinfo := sortFn.Info()
	nSort := 0
	for _, call := range callsIn(sortFn.Decl.Body, false) {
		f := callee(sinfo, call)
		if f == nil || f.Pkg() == nil {
			continue
		}
		switch f.Pkg().Path() {
		case "sort":
			nSort++
			r.Check(f.Name() == "SliceStable" || f.Name() == "Stable", rule, sortFn.Name(), "sort."+f.Name()+" is stable", c.pos(call.Pos()),
				"diagnostics on the same file and line keep their relative order only under a stable sort; with an unstable sort the order of equal keys depends on the append order of other modules")
		case "slices":
			if strings.HasPrefix(f.Name(), "Sort") {
				nSort++
				r.Check(strings.HasPrefix(f.Name(), "SortStable"), rule, sortFn.Name(), "slices."+f.Name()+" is stable", c.pos(call.Pos()),
					"diagnostics on the same file and line keep their relative order only under a stable sort")
			}
		}
	}
	r.Floor(rule, nSort, 1, "sort calls in sortDiagnostics")
	// Add appends under db.mu
	ainfo := add.Info()
	ag := c.CFG(add)
	ahits := mustFlow(ag, FlowSpec{
		Gate: func(n ast.Node) bool {
			return shallowHas(n, func(x ast.Node) bool { return isMutexCall(ainfo, x, mu, "Lock") })
		},
		Kill: func(n ast.Node) bool {
			return shallowHas(n, func(x ast.Node) bool { return isMutexCall(ainfo, x, mu, "Unlock") })
		},
		Target: func(n ast.Node) bool {
			as, ok := n.(*ast.AssignStmt)
			if !ok {
				return false
			}
			for _, l := range as.Lhs {
				if fieldOf(ainfo, l) == diagsField {
					return true
				}
			}
			return false
		}})
	r.Check(len(ahits) == 0, rule, add.Name(), "append under db.mu", c.pos(add.Decl.Pos()), "the diagnostics slice is appended without the bag's mutex (lost diagnostics under concurrent parsing)")
	// every other writer of db.diagnostics holds the lock too
	for _, fn := range c.AllFns(pkgDiag) {
		if fn.Obj == add.Obj {
			continue
		}
		finfo := fn.Info()
		writes := false
		ast.Inspect(fn.Decl.Body, func(n ast.Node) bool {
			if as, ok := n.(*ast.AssignStmt); ok {
				for _, l := range as.Lhs {
					if fieldOf(finfo, l) == diagsField {
						writes = true
					}
				}
			}
			return true
		})
		if !writes {
			continue
		}
		fg := c.CFG(fn)
		h := mustFlow(fg, FlowSpec{
			Gate: func(n ast.Node) bool {
				return shallowHas(n, func(x ast.Node) bool { return isMutexCall(finfo, x, mu, "Lock") })
			},
			Target: func(n ast.Node) bool {
				as, ok := n.(*ast.AssignStmt)
				if !ok {
					return false
				}
				for _, l := range as.Lhs {
					if fieldOf(finfo, l) == diagsField {
						return true
					}
				}
				return false
			}})
		r.Check(len(h) == 0, rule, fn.Name(), "writes diagnostics under db.mu", c.pos(fn.Decl.Pos()), "the diagnostics slice is written without the bag's mutex")
	}
}

// C14.R5: other nondeterminism sources.
func c14R5(c *Ctx, r *Report) {
	const rule = "C14.R5"
	r.Describe(rule, "no wall clock, random source, pid or %p formatting in compiler packages (reviewed exceptions by function)")
	reviewed := map[string]string{
		"codegen/qbe_embeddings.enumTypeKey | %p": "the formatted address is only a key of the per-module enum-table cache (g.enumTables); the emitted table name is $enumtbl<counter>",
		"mir/gen.interfaceKey | %p":               "fallback for an interface type without ID; the key is used for the vtable cache only (g.vtables key), emitted names are __vtable_<counter>; the emission order no longer depends on the key",
	}
	n := 0
	for _, p := range c.Pkgs {
		rel := relOf(p.PkgPath)
		if rel == "tools" || rel == "toml" || rel == "colors" {
			continue
		}
		info := p.TypesInfo
		for _, fn := range c.AllFns(rel) {
			for _, call := range callsIn(fn.Decl.Body, true) {
				f := callee(info, call)
				if f == nil || f.Pkg() == nil {
					continue
				}
				n++
				what := ""
				switch f.Pkg().Path() {
				case "time":
					if f.Name() == "Now" || f.Name() == "Since" {
						what = "time." + f.Name()
					}
				case "math/rand", "math/rand/v2", "crypto/rand":
					what = f.Pkg().Path() + "." + f.Name()
				case "os":
					if f.Name() == "Getpid" || f.Name() == "Getppid" || f.Name() == "Hostname" {
						what = "os." + f.Name()
					}
				case "fmt":
					for _, a := range call.Args {
						if v := constOf(info, a); v != nil && v.Kind() == constant.String && strings.Contains(constant.StringVal(v), "%p") {
							what = "%p"
						}
					}
				}
				if what == "" {
					continue
				}
				key := fn.Name() + " | " + what
				if reason, ok := reviewed[key]; ok {
					r.OK(rule, fn.Name(), what, c.pos(call.Pos()), "reviewed: "+reason)
					continue
				}
				r.Fail(rule, fn.Name(), what, c.pos(call.Pos()), "a value that differs between two runs on the same input ("+what+") is computed in a compiler package; if it reaches diagnostics or generated code the output is not reproducible")
			}
		}
	}
	r.Floor(rule, n, 3000, "resolved call sites scanned")
}
