package main

import (
	"go/ast"
	"go/types"
	"strings"

	"golang.org/x/tools/go/cfg"
)

// C11.R4: the positions where the type checker accepts an implicit numeric conversion convert the value.
// The accepted pair table (R1) only makes the conversion lossless if the representation is actually
// changed (sign/zero extension, int->float, 64-bit -> large integer): a value stored or passed with the
// narrow representation is read back with the wide one.
func c11R4(c *Ctx, r *Report) {
	const rule = "C11.R4"
	r.Describe(rule, "MIR lowering: on every path to the store/argument/return/payload of an implicitly converted position a numeric coercion helper runs first; the helpers reach emitCast/emitLargeCast")
	names := []string{"castValue", "widenNumericValue", "coerceValueForAssign", "emitCast", "emitLargeCast", "emitStore", "emitInstr", "boxInterfaceValue"}
	fns := map[string]*Fn{}
	for _, n := range names {
		fns[n] = c.LookupFn(pkgMIRGen, "(*functionBuilder)."+n)
		if n == "widenNumericValue" && fns[n] == nil {
			// optional intermediate helper: without it the sites must use castValue / coerceValueForAssign directly
			fns[n] = &Fn{}
			continue
		}
		if !r.Anchor(rule, fns[n] != nil, "mir/gen.(*functionBuilder)."+n) {
			return
		}
	}
	calls := func(fn *Fn, callee string) bool {
		if fn.Decl == nil || fns[callee].Obj == nil {
			return false
		}
		return nodeCalls(fn.Info(), fn.Decl.Body, fns[callee].Obj) != nil
	}
	// helper chain
	r.Check(calls(fns["castValue"], "emitCast") && calls(fns["castValue"], "emitLargeCast"), rule, fns["castValue"].Name(), "castValue -> emitCast / emitLargeCast", c.pos(fns["castValue"].Decl.Pos()), "castValue no longer emits a cast for differing types")
	if fns["widenNumericValue"].Decl != nil {
		r.Check(calls(fns["widenNumericValue"], "castValue"), rule, fns["widenNumericValue"].Name(), "widenNumericValue -> castValue", c.pos(fns["widenNumericValue"].Decl.Pos()), "the implicit-widening helper no longer converts")
	}
	r.Check(calls(fns["coerceValueForAssign"], "widenNumericValue") || calls(fns["coerceValueForAssign"], "castValue"), rule, fns["coerceValueForAssign"].Name(), "coerceValueForAssign -> numeric conversion", c.pos(fns["coerceValueForAssign"].Decl.Pos()), "assignment coercion boxes unions and interfaces but leaves a narrower numeric value unconverted: `let c: i64 = a` with a: i32 = -7 reads back 4294967289")

	isNumCoercer := func(info *types.Info, n ast.Node) bool {
		return nodeCalls(info, n, fns["castValue"].Obj) != nil || (fns["widenNumericValue"].Obj != nil && nodeCalls(info, n, fns["widenNumericValue"].Obj) != nil) || nodeCalls(info, n, fns["coerceValueForAssign"].Obj) != nil
	}
	// coercing wrappers: a builder method that converts to a type it receives as a parameter on every path
	// to a value-returning return (returns of mir.InvalidValue give up; a string concatenation yields a new
	// string, there is no number to widen). A call to such a method converts like the helpers do.
	directNumCoercer := isNumCoercer
	concat := c.LookupFn(pkgMIRGen, "(*functionBuilder).emitStringConcat")
	wrappers := []*types.Func{}
	for _, w := range c.AllFns(pkgMIRGen) {
		sig := w.Obj.Type().(*types.Signature)
		if sig.Recv() == nil || sig.Results().Len() != 1 || namedOf(sig.Results().At(0).Type()) == nil || namedOf(sig.Results().At(0).Type()).Obj().Name() != "ValueID" {
			continue
		}
		winfo := w.Info()
		toParam := false
		for _, cl := range callsIn(w.Decl.Body, false) {
			if isCallTo(winfo, cl, fns["coerceValueForAssign"].Obj) && len(cl.Args) == 4 {
				if o := objOf(winfo, cl.Args[2]); o != nil && isParamOf(w, o) {
					toParam = true
				}
			}
		}
		if !toParam || w.Obj == fns["coerceValueForAssign"].Obj {
			continue
		}
		nRet := 0
		hits := mustFlow(c.CFG(w), FlowSpec{
			Gate: func(n ast.Node) bool { return directNumCoercer(winfo, n) },
			Target: func(n ast.Node) bool {
				ret, ok := n.(*ast.ReturnStmt)
				if !ok || len(ret.Results) != 1 {
					return false
				}
				if sel, ok := ret.Results[0].(*ast.SelectorExpr); ok && sel.Sel.Name == "InvalidValue" {
					return false
				}
				if cl, ok := ret.Results[0].(*ast.CallExpr); ok && concat != nil && isCallTo(winfo, cl, concat.Obj) {
					return false
				}
				nRet++
				return true
			},
		})
		if nRet > 0 && len(hits) == 0 {
			wrappers = append(wrappers, w.Obj)
			r.OK(rule, w.Name(), "coercing wrapper: converts to its type parameter before every value it returns", c.pos(w.Decl.Pos()), "calls to it count as a numeric coercion")
		}
	}
	isNumCoercer = func(info *types.Info, n ast.Node) bool {
		if directNumCoercer(info, n) {
			return true
		}
		for _, w := range wrappers {
			if nodeCalls(info, n, w) != nil {
				return true
			}
		}
		return false
	}
	isCoercer := func(info *types.Info, n ast.Node) bool {
		// boxInterfaceValue is the conversion of the interface-typed positions (nothing numeric to widen there)
		return isNumCoercer(info, n) || nodeCalls(info, n, fns["boxInterfaceValue"].Obj) != nil
	}
	mirLit := func(info *types.Info, n ast.Node, typeName string) bool {
		found := false
		inspectShallow(n, func(x ast.Node) bool {
			if cl, ok := x.(*ast.CompositeLit); ok {
				if nt := namedOf(info.TypeOf(cl)); nt != nil && nt.Obj().Name() == typeName && nt.Obj().Pkg() != nil && nt.Obj().Pkg().Name() == "mir" {
					found = true
				}
			}
			return true
		})
		return found
	}
	type site struct {
		fn, what string
		sink     func(info *types.Info, n ast.Node) bool
	}
	storeSink := func(info *types.Info, n ast.Node) bool { return nodeCalls(info, n, fns["emitStore"].Obj) != nil }
	sites := []site{
		{"lowerDeclItem", "initialiser store", storeSink},
		{"lowerAssign", "assignment store", storeSink},
		{"lowerStructLiteralInto", "struct literal field store", storeSink},
		{"lowerArrayLiteralInto", "array literal element store", storeSink},
		{"lowerIndexAssign", "indexed element store", storeSink},
		{"lowerReturn", "returned value", func(info *types.Info, n ast.Node) bool {
			if storeSink(info, n) {
				return true
			}
			// b.current.Term = &mir.Return{HasValue: true, ...}
			hit := false
			inspectShallow(n, func(x ast.Node) bool {
				if cl, ok := x.(*ast.CompositeLit); ok && mirLit(info, cl, "Return") {
					for _, e := range cl.Elts {
						if kv, ok := e.(*ast.KeyValueExpr); ok && exprStr(kv.Key) == "HasValue" {
							if v := constOf(info, kv.Value); v != nil && boolVal(v) {
								hit = true
							}
						}
					}
				}
				return true
			})
			return hit
		}},
		{"lowerCallArgs", "argument appended to the call", func(info *types.Info, n ast.Node) bool {
			hit := false
			inspectShallow(n, func(x ast.Node) bool {
				if cl, ok := x.(*ast.CallExpr); ok {
					if id, ok := cl.Fun.(*ast.Ident); ok && id.Name == "append" && info.Uses[id] == types.Universe.Lookup("append") {
						hit = true
					}
				}
				return true
			})
			return hit
		}},
		{"lowerBuiltinAppendCall", "appended element store", storeSink},
		{"lowerResultUnwrap", "catch fallback merged with the ok value", func(info *types.Info, n ast.Node) bool { return mirLit(info, n, "Phi") }},
		{"lowerExpr", "default of ??", func(info *types.Info, n ast.Node) bool {
			// &mir.OptionalUnwrap{… HasDefault: true|hasDefault …}
			hit := false
			inspectShallow(n, func(x ast.Node) bool {
				if cl, ok := x.(*ast.CompositeLit); ok && mirLit(info, cl, "OptionalUnwrap") {
					for _, e := range cl.Elts {
						if kv, ok := e.(*ast.KeyValueExpr); ok && exprStr(kv.Key) == "HasDefault" {
							if v := constOf(info, kv.Value); v == nil || boolVal(v) {
								hit = true
							}
						}
					}
				}
				return true
			})
			return hit
		}},
		{"lowerExpr", "optional payload", func(info *types.Info, n ast.Node) bool { return mirLit(info, n, "OptionalSome") }},
		{"lowerExpr", "result ok payload", func(info *types.Info, n ast.Node) bool { return mirLit(info, n, "ResultOk") }},
		{"lowerExpr", "result error payload", func(info *types.Info, n ast.Node) bool { return mirLit(info, n, "ResultErr") }},
	}
	for _, s := range sites {
		fn := c.LookupFn(pkgMIRGen, "(*functionBuilder)."+s.fn)
		if !r.Anchor(rule, fn != nil, "mir/gen.(*functionBuilder)."+s.fn) {
			continue
		}
		// the site may delegate its body to one helper of the same receiver (lowerDeclItem ->
		// lowerDeclItemValue): the obligation is checked where the sink is
		if nodeCallsPred(fn.Decl.Body, func(cl *ast.CallExpr) bool { return s.sink(fn.Info(), cl) }) == nil {
			for _, cl := range callsIn(fn.Decl.Body, false) {
				if g := callee(fn.Info(), cl); g != nil && strings.HasPrefix(g.Name(), s.fn) && g != fn.Obj {
					if gf := c.FnOf(g); gf != nil && gf.Decl != nil && gf.Decl.Body != nil {
						fn = gf
						break
					}
				}
			}
		}
		info := fn.Info()
		nSinks := 0
		g := c.CFG(fn)
		// an `if <applicability> { v = coerce(v) }` discharges its own false edge: the guard decides whether
		// there is anything to convert (payload type present, parameter type known)
		guardOf := map[ast.Expr]bool{}
		ast.Inspect(fn.Decl.Body, func(n ast.Node) bool {
			if ifs, ok := n.(*ast.IfStmt); ok {
				direct := false
				for _, st := range ifs.Body.List {
					if isNumCoercer(info, st) {
						direct = true
					}
				}
				if direct {
					guardOf[ifs.Cond] = true
				}
			}
			return true
		})
		hits := mustFlow(g, FlowSpec{
			Gate: func(n ast.Node) bool { return isCoercer(info, n) },
			EdgeGate: func(b *cfg.Block, succ int) bool {
				cond := condOf(b)
				return cond != nil && succ == 1 && guardOf[cond]
			},
			Target: func(n ast.Node) bool {
				if s.sink(info, n) {
					nSinks++
					return true
				}
				return false
			},
		})
		if nSinks == 0 {
			r.Fail(rule, fn.Name(), s.what, c.pos(fn.Decl.Pos()), "anchor: no sink of this kind found in the function (rule instance vanished)")
			continue
		}
		where := c.pos(fn.Decl.Pos())
		if len(hits) > 0 {
			where = c.pos(hits[0].Pos)
		}
		r.Check(len(hits) == 0, rule, fn.Name(), "numeric coercion before "+s.what, where,
			"a path reaches the "+s.what+" without castValue/widenNumericValue/coerceValueForAssign: a value the type checker implicitly widened keeps its narrow representation and is read back as a different number")
	}
}
