package main

// Round-6 rules: invariants behind the sixth batch of seeded changes.

import (
	"go/ast"
	"go/token"
	"go/types"
	"os"
	"path/filepath"
	"strings"
)

func init() {
	lateInits = append(lateInits, func() {
		props["C04"].Quick = append(props["C04"].Quick, c04R10)
		props["C01"].Quick = append(props["C01"].Quick, c04R10)
		props["C08"].Quick = append(props["C08"].Quick, c04R10)
		props["C09"].Quick = append(props["C09"].Quick, c04R10)
		props["C02"].Quick = append(props["C02"].Quick, c02R17)
		props["C03"].Quick = append(props["C03"].Quick, c03R21)
		props["C07"].Quick = append(props["C07"].Quick, c07R14)
		props["C04"].Quick = append(props["C04"].Quick, c07R14)
		props["C10"].Quick = append(props["C10"].Quick, c10R12)
		props["C03"].Quick = append(props["C03"].Quick, c10R12)
		props["C11"].Quick = append(props["C11"].Quick, c11R18)
		props["C12"].Quick = append(props["C12"].Quick, c12R14)
		props["C14"].Quick = append(props["C14"].Quick, c14R11)
		props["C20"].Quick = append(props["C20"].Quick, c20R8)
		props["C13"].Quick = append(props["C13"].Quick, c13R24)
		props["C04"].Explanation += " (R10) the join discipline of the constant-propagation walk is complete: the if-clause collects what both the then- and the else-branch assign, rememberAssigned snapshots every collected symbol (also one without a value, so that restore puts 'no value' back before the other branch is walked), and a collecting walk descends into closure bodies (an append inside a closure makes the array's recorded literal length stale)."
		props["C02"].Explanation += " (R17, text lint over runtime.js) ferret_string_len counts bytes of linear memory: its body does not decode the string (the native runtime's strlen counts UTF-8 bytes, a decoded JavaScript string's length counts UTF-16 units)."
		props["C03"].Explanation += " (R21) the entries analyzeStructCompatibility produces begin with the bare name of a field of the target struct — that first word is what validateStructLiteral looks the offending initialiser up by, and an entry it cannot look up is dropped without a diagnostic."
		props["C07"].Explanation += " (R14) removeBorrowEntry releases one loan per call (it returns from inside its loop and does not filter the whole list): a loan handed on to a second holder is recorded twice on purpose, one entry per holder."
		props["C10"].Explanation += " (R12) where the type checker replaces a field of the module's checking state (the return type the literals of `return` are fitted to, the current scope) and restores it with a deferred assignment, no return stands between the replacement and the defer."
		props["C11"].Explanation += " (R18) checkTypeCompatibility never turns 'not Incompatible' into ImplicitCastable: a result of its own recursion is promoted to an accepting result only through isImplicitlyCompatible or a comparison with an accepting constant (ExplicitCastable is also 'not Incompatible')."
		props["C12"].Explanation += " (R14) checkAssignStmt returns before it has checked the target expression — the only visit of the target's selectors by the private-field rule — only where reportMutabilityError reported an error; a warning-only result (value receiver) goes on."
		props["C14"].Explanation += " (R11) no function of the concurrent region reads a count of the shared diagnostic bag (ErrorCount, HasErrors, …): what other parser goroutines have reported so far is schedule dependent."
		props["C20"].Explanation += " (R8) package toml keeps no package-level state (no package-level variable of map, slice, pointer, channel or struct-with-mutex type): parsing a file is a function of the file's bytes, so a second parse cannot hand back what a caller did to the result of the first."
		props["C13"].Explanation += " (R24) the alias checks of ref.go ask for the type of a value (inferExprType type-checks the body of a function literal each time) only after the syntactic guard rootIdentifierOfPlace(value) == nil has returned: a closure bound by `let` is not checked twice per nesting level (2^depth)."
	})
}

// ---- C04.R10 ----------------------------------------------------------------------------------------------

func c04R10(c *Ctx, r *Report) {
	const rule = "C04.R10"
	r.Describe(rule, "hir/analysis: (a) in walkNodeConstEval's IfStmt clause the collectWithin calls cover both n.Body and n.Else; (b) rememberAssigned records r.values[sym] unconditionally for every collected symbol; (c) in walkExprConstEval's FuncLit clause the body is walked when a collector is active")
	wn := c.LookupFn(pkgHIRAn, "walkNodeConstEval")
	we := c.LookupFn(pkgHIRAn, "walkExprConstEval")
	ra := c.LookupFn(pkgHIRAn, "rememberAssigned")
	cw := c.LookupFn(pkgHIRAn, "collectWithin")
	if !r.Anchor(rule, wn != nil && we != nil && ra != nil && cw != nil, "hir/analysis walkNodeConstEval / walkExprConstEval / rememberAssigned / collectWithin") {
		return
	}
	clauseOfType := func(fn *Fn, tn string) *ast.CaseClause {
		var cc *ast.CaseClause
		ast.Inspect(fn.Decl.Body, func(x ast.Node) bool {
			if cl, ok := x.(*ast.CaseClause); ok && cc == nil {
				for _, t := range caseTypes(fn.Info(), cl) {
					if nt := namedOf(t); nt != nil && nt.Obj().Name() == tn {
						cc = cl
					}
				}
			}
			return true
		})
		return cc
	}
	// (a)
	if cc := clauseOfType(wn, "IfStmt"); r.Anchor(rule, cc != nil, "walkNodeConstEval: case *hir.IfStmt") {
		covers := map[string]bool{}
		for _, st := range cc.Body {
			for _, cl := range callsIn(st, false) {
				if !isCallTo(wn.Info(), cl, cw.Obj) {
					continue
				}
				// one call has to name both branches, or there is a call for each under complementary nil tests
				names := map[string]bool{}
				for _, a := range cl.Args {
					s := exprStr(a)
					if strings.HasSuffix(s, ".Body") {
						names["Body"] = true
					}
					if strings.HasSuffix(s, ".Else") {
						names["Else"] = true
					}
				}
				if names["Body"] && !names["Else"] {
					covers["bodyOnly"] = true
				}
				if names["Body"] && names["Else"] {
					covers["both"] = true
				}
			}
		}
		r.Check(covers["both"] && !covers["bodyOnly"], rule, wn.Name(), "case IfStmt: both branches are collected", c.pos(cc.Pos()),
			"what the else-branch assigns is not collected, so the then-branch starts from — and the code after the statement keeps — a value only the else-branch gives: after `if c { … } else { x = 2; }` an index x is folded to 2 although the then-branch ran")
	}
	// (b)
	{
		info := ra.Info()
		uncond, cond := 0, 0
		walkWithStack(ra.Decl.Body, func(x ast.Node, stack []ast.Node) bool {
			as, ok := x.(*ast.AssignStmt)
			if !ok || len(as.Lhs) != 1 {
				return true
			}
			ix, ok := ast.Unparen(as.Lhs[0]).(*ast.IndexExpr)
			if !ok {
				return true
			}
			sel, ok := ast.Unparen(ix.X).(*ast.SelectorExpr)
			if !ok || sel.Sel.Name != "values" {
				return true
			}
			_ = info
			inIf := false
			for _, a := range stack {
				if _, isIf := a.(*ast.IfStmt); isIf {
					inIf = true
				}
			}
			if inIf {
				cond++
			} else {
				uncond++
			}
			return true
		})
		r.Check(uncond >= 1 && cond == 0, rule, ra.Name(), "every collected symbol is snapshotted, with or without a value", c.pos(ra.Decl.Pos()),
			"a symbol that has no value before the statement is left out of the snapshot, so restore does not take away the value the first branch gave it: the else-branch is analysed as if the then-branch had run (`if c { i = 2; } else { a[i] }` reads a[2])")
	}
	// (c)
	if cc := clauseOfType(we, "FuncLit"); r.Anchor(rule, cc != nil, "walkExprConstEval: case *hir.FuncLit") {
		info := we.Info()
		walked := false
		for _, st := range cc.Body {
			walkWithStack(st, func(x ast.Node, stack []ast.Node) bool {
				cl, ok := x.(*ast.CallExpr)
				if !ok {
					return true
				}
				f := callee(info, cl)
				if f == nil || !(strings.HasPrefix(f.Name(), "walk")) {
					return true
				}
				bodyArg := false
				for _, a := range cl.Args {
					if strings.HasSuffix(exprStr(a), ".Body") {
						bodyArg = true
					}
				}
				if !bodyArg {
					return true
				}
				// reachable with a collector: not nested (only) under `collector == nil`
				blocked := false
				for i, a := range stack {
					ifs, isIf := a.(*ast.IfStmt)
					if !isIf {
						continue
					}
					var next ast.Node = cl
					if i+1 < len(stack) {
						next = stack[i+1]
					}
					inThen := containsNode(ifs.Body, next)
					for _, cj := range conjuncts(ifs.Cond) {
						if b, ok := isBinOp(cj, token.EQL); ok && exprStr(b.X) == "collector" && exprStr(b.Y) == "nil" && inThen {
							blocked = true
						}
					}
					if b, ok := isBinOp(ifs.Cond, token.NEQ); ok && exprStr(b.X) == "collector" && exprStr(b.Y) == "nil" && !inThen {
						blocked = true
					}
				}
				if !blocked {
					walked = true
				}
				return true
			})
		}
		r.Check(walked, rule, we.Name(), "case FuncLit: a collecting walk descends into the closure body", c.pos(cc.Pos()),
			"the walk that collects what a statement can change skips closure bodies: an `append(&'a, x)` inside a closure no longer marks a as shared, its literal length stays recorded, and `a[2]` after the closure has grown the array is rejected as out of bounds")
	}
}

// ---- C02.R17 ----------------------------------------------------------------------------------------------

func c02R17(c *Ctx, r *Report) {
	const rule = "C02.R17"
	r.Describe(rule, "runtime/wasm/runtime.js (text lint): the body of ferret_string_len mentions neither readCString nor a decoder")
	data, err := os.ReadFile(filepath.Join(c.RepoDir, "runtime/wasm/runtime.js"))
	if !r.Anchor(rule, err == nil, "runtime/wasm/runtime.js") {
		return
	}
	body, _ := jsFuncBody(string(data), "ferret_string_len")
	if !r.Anchor(rule, body != "", "runtime.js: ferret_string_len") {
		return
	}
	decodes := strings.Contains(body, "readCString") || strings.Contains(body, "decode(") || strings.Contains(body, "TextDecoder")
	r.Check(!decodes, rule, "runtime.js:ferret_string_len", "counts bytes, does not decode", "runtime/wasm/runtime.js",
		"the length of a string is taken from its decoded JavaScript form (UTF-16 units): for \"naïve café\" len is 10 on wasm and 12 natively, s[-2] selects another byte and s[11] panics on one target only")
}

// ---- C03.R21 ----------------------------------------------------------------------------------------------

func c03R21(c *Ctx, r *Report) {
	const rule = "C03.R21"
	r.Describe(rule, "typechecker.analyzeStructCompatibility: every value appended to the mismatched-fields result is fmt.Sprintf(\"%s (…\", <field>.Name, …) and every value appended to the missing-fields result is <field>.Name; validateStructLiteral looks entries up by their first space-separated word")
	fn := c.LookupFn(pkgTC, "analyzeStructCompatibility")
	cons := c.LookupFn(pkgTC, "validateStructLiteral")
	if !r.Anchor(rule, fn != nil && cons != nil && fn.Decl.Body != nil, "typechecker analyzeStructCompatibility / validateStructLiteral") {
		return
	}
	info := fn.Info()
	sig := fn.Obj.Type().(*types.Signature)
	results := map[types.Object]string{}
	for i := 0; i < sig.Results().Len(); i++ {
		results[sig.Results().At(i)] = sig.Results().At(i).Name()
	}
	isNameSel := func(e ast.Expr) bool {
		sel, ok := ast.Unparen(e).(*ast.SelectorExpr)
		return ok && sel.Sel.Name == "Name" && fieldOf(info, sel) != nil
	}
	n := 0
	ast.Inspect(fn.Decl.Body, func(x ast.Node) bool {
		cl, ok := x.(*ast.CallExpr)
		if !ok {
			return true
		}
		id, ok := cl.Fun.(*ast.Ident)
		if !ok || id.Name != "append" || len(cl.Args) != 2 {
			return true
		}
		which := results[objOf(info, cl.Args[0])]
		if which == "" {
			return true
		}
		n++
		v := ast.Unparen(cl.Args[1])
		good := false
		if strings.Contains(strings.ToLower(which), "mismatch") {
			if sp, ok := v.(*ast.CallExpr); ok {
				if f := callee(info, sp); f != nil && f.Name() == "Sprintf" && len(sp.Args) >= 2 {
					if cv := constOf(info, sp.Args[0]); cv != nil {
						if s, ok := strOf(cv); ok && strings.HasPrefix(s, "%s (") && isNameSel(sp.Args[1]) {
							good = true
						}
					}
				}
			}
		} else {
			good = isNameSel(v)
		}
		r.Check(good, rule, fn.Name(), "entry appended to "+which+": "+exprStr(v), c.pos(cl.Pos()),
			"the entry does not begin with the bare name of a field of the target struct: validateStructLiteral takes the first word of an entry as the field name, finds no initialiser under `In.X` and reports nothing — `let o: Outer = { .In = other };` with a mistyped inner field compiles")
		return true
	})
	r.Floor(rule, n, 2, "entries produced by analyzeStructCompatibility")
	// the consumer splits on a blank
	usesSplit := false
	for _, cl := range callsIn(cons.Decl.Body, true) {
		if f := callee(cons.Info(), cl); f != nil && f.Pkg() != nil && f.Pkg().Path() == "strings" && (f.Name() == "Split" || f.Name() == "SplitN" || f.Name() == "Fields" || f.Name() == "Cut") {
			usesSplit = true
		}
	}
	r.Check(usesSplit, rule, cons.Name(), "looks mismatch entries up by their first word", c.pos(cons.Decl.Pos()), "the consumer no longer parses the entries the way the producer's format is checked for")
}

// ---- C07.R14 ----------------------------------------------------------------------------------------------

func c07R14(c *Ctx, r *Report) {
	const rule = "C07.R14"
	r.Describe(rule, "hir/analysis.removeBorrowEntry: a loop over the entries contains a return (one entry is removed per call) and the function calls no slices.DeleteFunc / slices.Delete / filtering helper over the whole list")
	fn := c.LookupFn(pkgHIRAn, "removeBorrowEntry")
	if !r.Anchor(rule, fn != nil && fn.Decl.Body != nil, "hir/analysis.removeBorrowEntry") {
		return
	}
	returnsInLoop := false
	ast.Inspect(fn.Decl.Body, func(x ast.Node) bool {
		switch l := x.(type) {
		case *ast.ForStmt:
			ast.Inspect(l.Body, func(y ast.Node) bool {
				if _, ok := y.(*ast.ReturnStmt); ok {
					returnsInLoop = true
				}
				return true
			})
		case *ast.RangeStmt:
			ast.Inspect(l.Body, func(y ast.Node) bool {
				if _, ok := y.(*ast.ReturnStmt); ok {
					returnsInLoop = true
				}
				return true
			})
		}
		return true
	})
	filters := ""
	for _, cl := range callsIn(fn.Decl.Body, true) {
		if f := callee(fn.Info(), cl); f != nil && f.Pkg() != nil && f.Pkg().Path() == "slices" && strings.HasPrefix(f.Name(), "Delete") {
			filters = "slices." + f.Name()
		}
	}
	r.Check(returnsInLoop && filters == "", rule, fn.Name(), "one loan entry is released per call", c.pos(fn.Decl.Pos()),
		"every entry that matches is removed ("+filters+"): a loan that was handed on (`let r2: &'i32 = pass(r)`) is recorded once per holder, and the end of the first holder now releases both — `i = 1` is accepted while r2 can still write i, and the index folded from the recorded 1 reads the wrong element")
}

// ---- C10.R12 ----------------------------------------------------------------------------------------------

func c10R12(c *Ctx, r *Report) {
	const rule = "C10.R12"
	r.Describe(rule, "typechecker: for every function with `mod.F = v` (F a field of context_v2.Module) and a deferred function literal that assigns mod.F, no return statement stands between the assignment and the defer statement")
	modT := c.lookupType("internal/context_v2", "Module")
	if !r.Anchor(rule, modT != nil, "context_v2.Module") {
		return
	}
	n := 0
	for _, fn := range c.AllFns(pkgTC) {
		if fn.Decl.Body == nil {
			continue
		}
		info := fn.Info()
		isModField := func(e ast.Expr) *types.Var {
			sel, ok := ast.Unparen(e).(*ast.SelectorExpr)
			if !ok {
				return nil
			}
			f := fieldOf(info, sel)
			if f == nil {
				return nil
			}
			if nt := namedOf(info.TypeOf(sel.X)); nt == nil || nt.Obj() != modT {
				return nil
			}
			return f
		}
		// deferred restores
		type restore struct {
			field *types.Var
			pos   token.Pos
		}
		var restores []restore
		inspectOuter := func(f func(ast.Node) bool) {
			ast.Inspect(fn.Decl.Body, func(x ast.Node) bool {
				if _, isLit := x.(*ast.FuncLit); isLit {
					return false
				}
				return f(x)
			})
		}
		ast.Inspect(fn.Decl.Body, func(x ast.Node) bool {
			d, ok := x.(*ast.DeferStmt)
			if !ok {
				return true
			}
			if lit, ok := ast.Unparen(d.Call.Fun).(*ast.FuncLit); ok {
				ast.Inspect(lit.Body, func(y ast.Node) bool {
					if as, ok := y.(*ast.AssignStmt); ok {
						for _, l := range as.Lhs {
							if f := isModField(l); f != nil {
								restores = append(restores, restore{f, d.Pos()})
							}
						}
					}
					return true
				})
			}
			return true
		})
		if len(restores) == 0 {
			continue
		}
		inspectOuter(func(x ast.Node) bool {
			as, ok := x.(*ast.AssignStmt)
			if !ok {
				return true
			}
			for _, l := range as.Lhs {
				f := isModField(l)
				if f == nil {
					continue
				}
				for _, rs := range restores {
					if rs.field != f || rs.pos < as.Pos() {
						continue
					}
					n++
					bad := token.NoPos
					inspectOuter(func(y ast.Node) bool {
						if ret, ok := y.(*ast.ReturnStmt); ok && ret.Pos() > as.Pos() && ret.Pos() < rs.pos && bad == token.NoPos {
							bad = ret.Pos()
						}
						return true
					})
					pos := as.Pos()
					if bad != token.NoPos {
						pos = bad
					}
					r.Check(bad == token.NoPos, rule, fn.Name(), "mod."+f.Name()+" is restored on every exit after it was replaced", c.pos(pos),
						"the function can return after it has replaced mod."+f.Name()+" and before the restoring defer is registered: the enclosing function is then checked with the literal's state — after an immediately invoked `fn(x: i32) -> i32 {…}(21)` a `return 300;` in a `-> u8` function is fitted to i32 and accepted, and the caller sees 44")
				}
			}
			return true
		})
	}
	r.Floor(rule, n, 1, "replace-and-restore pairs of module checking state")
}

// ---- C11.R18 ----------------------------------------------------------------------------------------------

func c11R18(c *Ctx, r *Report) {
	const rule = "C11.R18"
	r.Describe(rule, "typechecker (compatibility): in functions that return TypeCompatibility, no `return ImplicitCastable` / `return Identical` is guarded by `<call returning TypeCompatibility> != Incompatible`")
	tcT := c.lookupType(pkgTC, "TypeCompatibility")
	if !r.Anchor(rule, tcT != nil, "typechecker.TypeCompatibility") {
		return
	}
	n := 0
	for _, fn := range c.AllFns(pkgTC) {
		if fn.Decl.Body == nil {
			continue
		}
		sig := fn.Obj.Type().(*types.Signature)
		if sig.Results().Len() != 1 || namedOf(sig.Results().At(0).Type()) == nil || namedOf(sig.Results().At(0).Type()).Obj() != tcT {
			continue
		}
		info := fn.Info()
		n++
		walkWithStack(fn.Decl.Body, func(x ast.Node, stack []ast.Node) bool {
			ret, ok := x.(*ast.ReturnStmt)
			if !ok || len(ret.Results) != 1 {
				return true
			}
			co := constObj(info, ret.Results[0])
			if co == nil || !(co.Name() == "ImplicitCastable" || co.Name() == "Identical") {
				return true
			}
			for _, a := range stack {
				ifs, isIf := a.(*ast.IfStmt)
				if !isIf || !containsNode(ifs.Body, ret) {
					continue
				}
				for _, cj := range conjuncts(ifs.Cond) {
					b, ok := isBinOp(cj, token.NEQ)
					if !ok {
						continue
					}
					if o := constObj(info, b.Y); o == nil || o.Name() != "Incompatible" {
						continue
					}
					if cl, ok := ast.Unparen(b.X).(*ast.CallExpr); ok {
						if nt := namedOf(info.TypeOf(cl)); nt != nil && nt.Obj() == tcT {
							r.Fail(rule, fn.Name(), "return "+co.Name()+" under `"+exprStr(cj)+"`", c.pos(ret.Pos()),
								"'not Incompatible' includes ExplicitCastable: a conversion that needs `as` is accepted without one — `type Id i32; let x: Id = big;` with an i64 big compiles and 5000000000 becomes 705032704")
						}
					}
				}
			}
			return true
		})
	}
	r.Floor(rule, n, 1, "functions returning TypeCompatibility")
	r.OK(rule, "typechecker", "no promotion of 'not Incompatible' to an accepting result", "-", "scanned")
}

// ---- C12.R14 ----------------------------------------------------------------------------------------------

func c12R14(c *Ctx, r *Report) {
	const rule = "C12.R14"
	r.Describe(rule, "typechecker.checkAssignStmt: every return that precedes the first checkExpr(…, stmt.Lhs, …) stands in an if whose condition is a call of reportMutabilityError, or whose condition does not mention the MutabilityInfo variable")
	fn := c.LookupFn(pkgTC, "checkAssignStmt")
	rep := c.LookupFn(pkgTC, "reportMutabilityError")
	chk := c.LookupFn(pkgTC, "checkExpr")
	if !r.Anchor(rule, fn != nil && rep != nil && chk != nil && fn.Decl.Body != nil, "typechecker checkAssignStmt / reportMutabilityError / checkExpr") {
		return
	}
	info := fn.Info()
	var lhsCheck token.Pos
	for _, cl := range callsIn(fn.Decl.Body, false) {
		if isCallTo(info, cl, chk.Obj) && len(cl.Args) >= 3 && strings.HasSuffix(exprStr(cl.Args[2]), ".Lhs") && lhsCheck == token.NoPos {
			lhsCheck = cl.Pos()
		}
	}
	if !r.Anchor(rule, lhsCheck != token.NoPos, "checkAssignStmt: checkExpr(ctx, mod, stmt.Lhs, …)") {
		return
	}
	// the MutabilityInfo variable(s)
	mutVars := map[types.Object]bool{}
	ast.Inspect(fn.Decl.Body, func(x ast.Node) bool {
		if id, ok := x.(*ast.Ident); ok {
			if o := info.Defs[id]; o != nil {
				if nt := namedOf(o.Type()); nt != nil && nt.Obj().Name() == "MutabilityInfo" {
					mutVars[o] = true
				}
			}
		}
		return true
	})
	n := 0
	walkWithStack(fn.Decl.Body, func(x ast.Node, stack []ast.Node) bool {
		ret, ok := x.(*ast.ReturnStmt)
		if !ok || ret.Pos() > lhsCheck {
			return true
		}
		for _, a := range stack {
			if _, isLit := a.(*ast.FuncLit); isLit {
				return true
			}
		}
		n++
		bad := ""
		for _, a := range stack {
			ifs, isIf := a.(*ast.IfStmt)
			if !isIf || !containsNode(ifs.Body, ret) {
				continue
			}
			if cl, ok := ast.Unparen(ifs.Cond).(*ast.CallExpr); ok && isCallTo(info, cl, rep.Obj) {
				continue
			}
			mentions := false
			ast.Inspect(ifs.Cond, func(y ast.Node) bool {
				if id, ok := y.(*ast.Ident); ok && mutVars[info.Uses[id]] {
					mentions = true
				}
				return true
			})
			if mentions {
				bad = exprStr(ifs.Cond)
			}
		}
		r.Check(bad == "", rule, fn.Name(), "early return #"+itoa(n)+" before the target is checked", c.pos(ret.Pos()),
			"the statement is abandoned under `"+bad+"` before its target has been type-checked: for a warning-only result (assignment through a value receiver) the selectors of the target never reach the private-field rule — `fn (h: Holder) Tamper() { h.V.secret = 99; }` compiles with a warning")
		return true
	})
	r.Floor(rule, n, 1, "early returns of checkAssignStmt")
}

// ---- C14.R11 ----------------------------------------------------------------------------------------------

func c14R11(c *Ctx, r *Report) {
	const rule = "C14.R11"
	r.Describe(rule, "concurrent region (functions that run on parser goroutines, internal/diagnostics itself excepted): no call of a DiagnosticBag method that reports how much the bag holds (ErrorCount, WarningCount, HasErrors, HasWarnings, Count, Len, Diagnostics)")
	region, sites := c.concurrentRegion()
	if !r.Anchor(rule, len(sites) > 0, "go statements of the module") {
		return
	}
	readers := map[string]bool{"ErrorCount": true, "WarningCount": true, "HasErrors": true, "HasWarnings": true, "Count": true, "Len": true, "Diagnostics": true, "Errors": true}
	n := 0
	for f := range region {
		fn := c.fnOfSSA(f)
		if fn == nil || f.Parent() != nil {
			continue
		}
		if strings.HasSuffix(fn.Obj.Pkg().Path(), "internal/diagnostics") {
			continue
		}
		n++
		info := fn.Info()
		for _, cl := range callsIn(fn.Decl.Body, true) {
			g := callee(info, cl)
			if g == nil || !readers[g.Name()] {
				continue
			}
			sig, _ := g.Type().(*types.Signature)
			if sig == nil || sig.Recv() == nil {
				continue
			}
			if nt := namedOf(sig.Recv().Type()); nt == nil || nt.Obj().Name() != "DiagnosticBag" {
				continue
			}
			r.Fail(rule, fn.Name(), "reads the shared bag: "+exprStr(cl.Fun), c.pos(cl.Pos()),
				"a function that runs concurrently with the other parsers asks the shared diagnostic bag how much it holds: the answer includes whatever other goroutines reported in the meantime — comparing ErrorCount() before and after tokenizing marks a cleanly lexed module as failed when a sibling reported an error in between, and its parser diagnostics are dropped (13 to 15 different outputs in 16 runs)")
		}
	}
	r.Floor(rule, n, 3, "declared functions in the concurrent region")
	r.OK(rule, "concurrent region", "no reader of the shared bag's counts", "-", "scanned")
}

// ---- C20.R8 -----------------------------------------------------------------------------------------------

func c20R8(c *Ctx, r *Report) {
	const rule = "C20.R8"
	r.Describe(rule, "package toml: no package-level variable whose type is (or contains at top level) a map, slice, pointer, channel, function or a struct with a sync field; constants and values of basic type are allowed")
	n := 0
	for _, p := range c.Pkgs {
		if relOf(p.PkgPath) != "toml" {
			continue
		}
		scope := p.Types.Scope()
		for _, name := range scope.Names() {
			v, ok := scope.Lookup(name).(*types.Var)
			if !ok {
				continue
			}
			n++
			stateful := ""
			switch t := v.Type().Underlying().(type) {
			case *types.Map, *types.Slice, *types.Pointer, *types.Chan, *types.Signature, *types.Interface:
				stateful = t.String()
			case *types.Struct:
				stateful = "struct " + v.Type().String()
			}
			// a regexp or replacer built once is state that parsing does not change
			if nt := namedOf(v.Type()); nt != nil && nt.Obj().Pkg() != nil && (nt.Obj().Pkg().Path() == "regexp" || nt.Obj().Pkg().Path() == "strings") {
				stateful = ""
			}
			r.Check(stateful == "", rule, "toml", "package-level variable "+name, c.pos(v.Pos()),
				"package toml keeps state between calls ("+stateful+"): a parse is no longer a function of the file's bytes — with a cache of parsed files the maps handed to the first caller are handed out again, so what that caller changed is 'read back' by the next parse of the unchanged file")
		}
	}
	r.Note("C20.R8: %d package-level variables in package toml", n)
	r.OK(rule, "toml", "package-level state scanned", "-", "scanned")
}

// ---- C13.R24 ----------------------------------------------------------------------------------------------

func c13R24(c *Ctx, r *Report) {
	const rule = "C13.R24"
	r.Describe(rule, "typechecker: in every function that calls rootIdentifierOfPlace on one of its ast.Expression parameters and returns when it yields nil, a call that reaches inferExprType with that parameter (directly or through a same-package helper that is handed the parameter) is reached only after that test")
	root := c.LookupFn(pkgTC, "rootIdentifierOfPlace")
	infer := c.LookupFn(pkgTC, "inferExprType")
	if !r.Anchor(rule, root != nil && infer != nil, "typechecker rootIdentifierOfPlace / inferExprType") {
		return
	}
	n := 0
	for _, fn := range c.AllFns(pkgTC) {
		if fn.Decl.Body == nil || fn.Obj == root.Obj {
			continue
		}
		info := fn.Info()
		sig := fn.Obj.Type().(*types.Signature)
		for i := 0; i < sig.Params().Len(); i++ {
			pv := sig.Params().At(i)
			if nt := namedOf(pv.Type()); nt == nil || nt.Obj().Name() != "Expression" {
				continue
			}
			// the guard: a statement whose condition contains rootIdentifierOfPlace(pv) == nil (possibly via a local) and returns
			guarded := false
			for _, cl := range callsIn(fn.Decl.Body, false) {
				if isCallTo(info, cl, root.Obj) && len(cl.Args) == 1 && objOf(info, cl.Args[0]) == pv {
					guarded = true
				}
			}
			if !guarded {
				continue
			}
			n++
			infers := func(x ast.Node) bool {
				hit := false
				inspectShallow(x, func(y ast.Node) bool {
					cl, ok := y.(*ast.CallExpr)
					if !ok {
						return true
					}
					passes := false
					for _, a := range cl.Args {
						if objOf(info, a) == pv {
							passes = true
						}
					}
					if !passes {
						return true
					}
					g := callee(info, cl)
					if g == nil || g == root.Obj {
						return true
					}
					if g == infer.Obj || (g.Pkg() == fn.Obj.Pkg() && reachesAdd(c, g, infer.Obj, 1)) {
						hit = true
					}
					return true
				})
				return hit
			}
			hits := mustFlow(c.CFG(fn), FlowSpec{
				Gate:   func(x ast.Node) bool { return nodeCalls(info, x, root.Obj) != nil },
				Target: infers,
			})
			pos := fn.Decl.Pos()
			if len(hits) > 0 {
				pos = hits[0].Pos
			}
			r.Check(len(hits) == 0, rule, fn.Name(), "the type of "+pv.Name()+" is asked for only after the place test", c.pos(pos),
				"the value's type is inferred before the syntactic test that it names a place: for a function literal inferring the type means type-checking its body, so every `let f := fn() {…}` checks the body twice and literals nested n deep take 2^n passes — depth 24 takes 46 s, depth 40 does not finish")
		}
	}
	r.Floor(rule, n, 2, "alias checks guarded by rootIdentifierOfPlace")
}

// ---- C16.R14 / C10.R12: a pending group of digits is flushed whenever digits are pending ----------------------------

func init() {
	lateInits = append(lateInits, func() {
		props["C16"].Quick = append(props["C16"].Quick, c16R14)
		props["C10"].Quick = append(props["C10"].Quick, c16R14)
		props["C16"].Explanation += " (R14) in the C runtime, where a loop gathers digits into a pair (group, scale) — `group = group * b + d; scale *= b` — and folds it with a call that is repeated after the loop for the digits left over, that final call is not guarded by a test of the group alone: a pending group of zeros is zero, but its scale is not 1 (expected count of such pairs on the pinned tree: 0; the rule exists because two independent changes introduced exactly this slip)."
	})
}

func c16R14(c *Ctx, r *Report) {
	const rule = "C16.R14"
	r.Describe(rule, "runtime/core/*.c: for every call f(…, S, …, A, …) that occurs inside a loop and again after it, where the loop updates A additively (`A = A * k + d`) and S multiplicatively (`S *= k` / `S = S * k`): an if-guard of the call after the loop mentions S (or the call is unguarded)")
	n, pairs := 0, 0
	for _, rel := range c.CRuntimeFiles() {
		cf := cLoad(c, r, rule, rel)
		if cf == nil {
			continue
		}
		for _, name := range cf.Order {
			fn := cf.Funcs[name]
			body := fn.Body()
			if body == nil {
				continue
			}
			n++
			var loops []*CNode
			fn.Walk(func(x *CNode) bool {
				if x.Kind == "ForStmt" || x.Kind == "WhileStmt" || x.Kind == "DoStmt" {
					loops = append(loops, x)
				}
				return true
			})
			for _, loop := range loops {
				// accumulators updated in the loop
				mult, add := map[string]bool{}, map[string]bool{}
				loop.Walk(func(x *CNode) bool {
					switch x.Kind {
					case "CompoundAssignOperator":
						if x.Opcode == "*=" && len(x.Inner) == 2 {
							mult[x.Inner[0].Src()] = true
						}
					case "BinaryOperator":
						if x.Opcode == "=" && len(x.Inner) == 2 {
							lhs := x.Inner[0].Src()
							rhs := x.Inner[1].strip()
							for rhs != nil && rhs.Kind == "CStyleCastExpr" && len(rhs.Inner) == 1 {
								rhs = rhs.Inner[0].strip()
							}
							if rhs != nil && rhs.Kind == "BinaryOperator" && len(rhs.Inner) == 2 {
								l := rhs.Inner[0].strip()
								if rhs.Opcode == "*" && strings.Contains(rhs.Src(), lhs) {
									mult[lhs] = true
								}
								if rhs.Opcode == "+" && l != nil && l.Kind == "BinaryOperator" && l.Opcode == "*" && strings.Contains(l.Src(), lhs) {
									add[lhs] = true
								}
							}
						}
					}
					return true
				})
				if len(mult) == 0 || len(add) == 0 {
					continue
				}
				// calls inside the loop that take one of each
				type flush struct{ callee, s, a string }
				var inLoop []flush
				loop.Walk(func(x *CNode) bool {
					if x.Kind != "CallExpr" {
						return true
					}
					s, a := "", ""
					for _, arg := range x.Args() {
						t := arg.Src()
						if mult[t] && !add[t] {
							s = t
						}
						if add[t] {
							a = t
						}
					}
					if s != "" && a != "" {
						inLoop = append(inLoop, flush{x.Callee(), s, a})
					}
					return true
				})
				if len(inLoop) == 0 {
					continue
				}
				// the same call after the loop
				fn.Walk(func(x *CNode) bool {
					if x.Kind != "CallExpr" || x.Line <= loop.Line {
						return true
					}
					inside := false
					loop.Walk(func(y *CNode) bool {
						if y == x {
							inside = true
						}
						return true
					})
					if inside {
						return true
					}
					for _, fl := range inLoop {
						if x.Callee() != fl.callee {
							continue
						}
						hasS, hasA := false, false
						for _, arg := range x.Args() {
							if arg.Src() == fl.s {
								hasS = true
							}
							if arg.Src() == fl.a {
								hasA = true
							}
						}
						if !hasS || !hasA {
							continue
						}
						pairs++
						// innermost enclosing if between the call and the function body
						guard := ""
						for p := x.Parent; p != nil && p != fn; p = p.Parent {
							if p.Kind == "IfStmt" && len(p.Inner) >= 2 {
								guard = p.Inner[0].Src()
								break
							}
						}
						ok := guard == "" || strings.Contains(guard, fl.s)
						r.Check(ok, rule, rel+":"+name, "the final fold of ("+fl.a+", "+fl.s+") is not skipped on "+fl.a+" alone", c.cpos(cf, x),
							"the digits left over after the last full group are folded in only `if "+guard+"`: a pending group of zero digits has the value 0 and a scale of base^k, so the final multiplication is skipped and the number comes out divided by base^k — the i128 literal 10000000000 is read as 100000000")
					}
					return true
				})
			}
		}
	}
	r.Floor(rule, n, 50, "runtime C functions scanned for grouped accumulation")
	r.Note("C16.R14 scanned %d C functions; (group, scale) flush pairs found: %d (expected on the pinned tree: 0)", n, pairs)
	r.OK(rule, "runtime/core", "grouped-digit accumulation scanned", "-", "scanned")
}

// ---- C18.R16: a union passed by value is the callee's own copy --------------------------------------------------

func init() {
	lateInits = append(lateInits, func() {
		props["C18"].Quick = append(props["C18"].Quick, c18R16)
		props["C06"].Quick = append(props["C06"].Quick, c18R16)
		props["C18"].Explanation += " (R16) buildFuncBody copies a by-value union parameter into storage of the callee (memcpy from the incoming pointer) and registers a slot for it: fields of a narrowed variant are addressed inside the union, so without the copy the callee's stores land in the caller's variable."
		props["C11"].Explanation += " (R16b) a plain value stored into an optional place is wrapped (OptionalSome) after it was converted to the payload type: payload and presence flag are stored together (`if a != none { b = a; }` with both i32?)."
		props["C11"].Quick = append(props["C11"].Quick, c11R16b)
	})
}

func c18R16(c *Ctx, r *Report) {
	const rule = "C18.R16"
	r.Describe(rule, "mir/gen.buildFuncBody: in the loop that fills b.paramSlots a branch on the parameter type being a *types.UnionType calls emitMemcpy with the parameter's incoming value as source and assigns b.paramSlots for the parameter")
	fn := c.LookupFn(pkgMIRGen, "(*functionBuilder).buildFuncBody")
	if !r.Anchor(rule, fn != nil && fn.Decl.Body != nil, "mir/gen.buildFuncBody") {
		return
	}
	info := fn.Info()
	found := false
	var pos token.Pos = fn.Decl.Pos()
	ast.Inspect(fn.Decl.Body, func(x ast.Node) bool {
		ifs, ok := x.(*ast.IfStmt)
		if !ok || ifs.Init == nil {
			return true
		}
		init, ok := ifs.Init.(*ast.AssignStmt)
		if !ok || len(init.Rhs) != 1 {
			return true
		}
		ta, ok := ast.Unparen(init.Rhs[0]).(*ast.TypeAssertExpr)
		if !ok || ta.Type == nil {
			return true
		}
		if nt := namedOf(info.TypeOf(ta.Type)); nt == nil || nt.Obj().Name() != "UnionType" {
			return true
		}
		if _, negated := ast.Unparen(ifs.Cond).(*ast.UnaryExpr); negated {
			return true
		}
		copies, slots := false, false
		ast.Inspect(ifs.Body, func(y ast.Node) bool {
			switch z := y.(type) {
			case *ast.CallExpr:
				if f := callee(info, z); f != nil && f.Name() == "emitMemcpy" && len(z.Args) >= 2 && strings.HasSuffix(exprStr(z.Args[1]), ".ID") {
					copies = true
				}
			case *ast.AssignStmt:
				for _, l := range z.Lhs {
					if ix, ok := ast.Unparen(l).(*ast.IndexExpr); ok {
						if f := fieldOf(info, ix.X); f != nil && f.Name() == "paramSlots" {
							slots = true
						}
					}
				}
			}
			return true
		})
		if copies && slots {
			found, pos = true, ifs.Pos()
		}
		return true
	})
	r.Check(found, rule, fn.Name(), "a by-value union parameter is copied on entry", c.pos(pos),
		"a union parameter is used through the pointer it arrives as, which is the caller's storage: `fn poke(u: U) -> i32 { if u is A { u.X = 99; return u.X; } return 0; }` called with a constant changes the constant (prints 99 and 99)")
}

func c11R16b(c *Ctx, r *Report) {
	const rule = "C11.R16b"
	r.Describe(rule, "mir/gen.coerceValueForAssign: the branch that converts a non-optional value for an optional destination builds a mir.OptionalSome after the call of widenNumericValue")
	fn := c.LookupFn(pkgMIRGen, "(*functionBuilder).coerceValueForAssign")
	widen := c.LookupFn(pkgMIRGen, "(*functionBuilder).widenNumericValue")
	if !r.Anchor(rule, fn != nil && widen != nil && fn.Decl.Body != nil, "mir/gen coerceValueForAssign / widenNumericValue") {
		return
	}
	info := fn.Info()
	var widenPos, somePos token.Pos
	ast.Inspect(fn.Decl.Body, func(x ast.Node) bool {
		switch y := x.(type) {
		case *ast.CallExpr:
			if isCallTo(info, y, widen.Obj) && widenPos == token.NoPos {
				widenPos = y.Pos()
			}
		case *ast.CompositeLit:
			if isNamed(info.TypeOf(y), Mod+"/"+pkgMIR, "OptionalSome") {
				somePos = y.Pos()
			}
		}
		return true
	})
	r.Check(widenPos != token.NoPos && somePos > widenPos, rule, fn.Name(), "a value for an optional place is wrapped with its presence flag", c.pos(fn.Decl.Pos()),
		"a plain value assigned to an optional place is stored as the payload only: `let a: i32? = 5; let b: i32? = none; if a != none { b = a; } io::Println(b ?? -1);` prints -1, and a struct assigned to a narrowed `P?` is stored as its address")
}

// ---- C13.R25: a float literal is not evaluated in arbitrary precision before its exponent was bounded ------------

func init() {
	lateInits = append(lateInits, func() {
		props["C13"].Quick = append(props["C13"].Quick, c13R25)
		props["C13"].Explanation += " (R25) math/big parses a float (big.ParseFloat, Float.SetString, Float.Parse) only in a function that has first compared the length of the exponent's digits with a constant and returned: the cost of the arbitrary-precision parse grows with the exponent's value, so `1e400000000` must not reach it."
	})
}

func c13R25(c *Ctx, r *Report) {
	const rule = "C13.R25"
	r.Describe(rule, "all non-test packages: every call of big.ParseFloat, (*big.Float).SetString or (*big.Float).Parse is preceded in its function by an if statement that compares a len(…) with a constant and returns")
	n := 0
	for _, p := range c.Pkgs {
		rel := relOf(p.PkgPath)
		if strings.HasPrefix(rel, "tools") {
			continue
		}
		for _, fn := range c.AllFns(rel) {
			if fn.Decl.Body == nil {
				continue
			}
			info := fn.Info()
			for _, cl := range callsIn(fn.Decl.Body, true) {
				f := callee(info, cl)
				if f == nil || f.Pkg() == nil || f.Pkg().Path() != "math/big" {
					continue
				}
				isFloatParse := f.Name() == "ParseFloat"
				if recv, ok := isBigMethod(f); ok && recv == "Float" && (f.Name() == "SetString" || f.Name() == "Parse") {
					isFloatParse = true
				}
				if !isFloatParse {
					continue
				}
				n++
				bounded := false
				ast.Inspect(fn.Decl.Body, func(x ast.Node) bool {
					ifs, ok := x.(*ast.IfStmt)
					if !ok || ifs.Pos() > cl.Pos() || !thenTerminates(ifs) {
						return true
					}
					for _, cj := range conjuncts(ifs.Cond) {
						b, ok := cj.(*ast.BinaryExpr)
						if !ok || !(b.Op == token.GTR || b.Op == token.GEQ) {
							continue
						}
						if lc, ok := ast.Unparen(b.X).(*ast.CallExpr); ok {
							if id, ok := lc.Fun.(*ast.Ident); ok && id.Name == "len" && constOf(info, b.Y) != nil {
								bounded = true
							}
						}
					}
					return true
				})
				r.Check(bounded, rule, fn.Name(), "math/big float parse after an exponent bound", c.pos(cl.Pos()),
					"a float literal is handed to math/big as written: parsing `1e400000000` computes a power of ten with four hundred million digits — `let x: f64 = 1e4000000;` takes 4 s, one more digit in the exponent ten times as long, with no output")
			}
		}
	}
	r.Floor(rule, n, 1, "arbitrary-precision float parses")
}

// ---- C01.R21: the converted operand is the one that is passed on ------------------------------------------------

func init() {
	lateInits = append(lateInits, func() {
		props["C01"].Quick = append(props["C01"].Quick, c01R21)
		props["C11"].Quick = append(props["C11"].Quick, c01R21)
		props["C01"].Explanation += " (R21) in emitStringConcat every switch clause that converts the right operand (`right = b.castValue(right, …)`) rebuilds the argument list from the converted value: the run-time function is not handed the operand in its old representation."
	})
}

func c01R21(c *Ctx, r *Report) {
	const rule = "C01.R21"
	r.Describe(rule, "mir/gen.emitStringConcat: in each case clause that assigns `right` from castValue, an assignment to the argument list that mentions right follows in the same clause")
	fn := c.LookupFn(pkgMIRGen, "(*functionBuilder).emitStringConcat")
	cast := c.LookupFn(pkgMIRGen, "(*functionBuilder).castValue")
	if !r.Anchor(rule, fn != nil && cast != nil && fn.Decl.Body != nil, "mir/gen emitStringConcat / castValue") {
		return
	}
	info := fn.Info()
	right := fn.ParamNamed("right")
	if !r.Anchor(rule, right != nil, "emitStringConcat(left, right, …)") {
		return
	}
	n := 0
	ast.Inspect(fn.Decl.Body, func(x ast.Node) bool {
		cc, ok := x.(*ast.CaseClause)
		if !ok {
			return true
		}
		var castPos token.Pos
		for _, st := range cc.Body {
			ast.Inspect(st, func(y ast.Node) bool {
				if as, ok := y.(*ast.AssignStmt); ok && len(as.Lhs) == 1 && len(as.Rhs) == 1 && objOf(info, as.Lhs[0]) == right {
					if cl, ok := ast.Unparen(as.Rhs[0]).(*ast.CallExpr); ok && isCallTo(info, cl, cast.Obj) {
						castPos = as.Pos()
					}
				}
				return true
			})
		}
		if castPos == token.NoPos {
			return true
		}
		n++
		rebuilt := false
		for _, st := range cc.Body {
			ast.Inspect(st, func(y ast.Node) bool {
				if as, ok := y.(*ast.AssignStmt); ok && as.Pos() > castPos && len(as.Lhs) == 1 {
					if id, ok := as.Lhs[0].(*ast.Ident); ok && id.Name == "args" && mentionsVar(info, as.Rhs[0], right) {
						rebuilt = true
					}
				}
				return true
			})
		}
		label := "default"
		if len(cc.List) > 0 {
			label = exprStr(cc.List[0])
		}
		r.Check(rebuilt, rule, fn.Name(), "case "+label+": the argument list is rebuilt after the conversion", c.pos(cc.Pos()),
			"the right operand is converted but the call still receives the unconverted value: `let f: f32 = 1.5; io::Println(\"v=\" + f);` hands the f32 bit pattern to the f64 concat function and prints garbage")
		return true
	})
	r.Floor(rule, n, 3, "converting clauses of emitStringConcat")
}

// ---- C02.R18: a comparison's MIR type is bool ---------------------------------------------------------------------

func init() {
	lateInits = append(lateInits, func() {
		props["C02"].Quick = append(props["C02"].Quick, c02R18)
		props["C02"].Explanation += " (R18) every mir.Binary that is built with a constant comparison operator — as a composite literal or through emitBinary — carries the result type bool: both back ends read the operands' type off the left operand and size the result from Binary.Type (an i64 there makes the wasm module invalid)."
	})
}

func c02R18(c *Ctx, r *Report) {
	const rule = "C02.R18"
	r.Describe(rule, "internal/mir and mir/gen: for every mir.Binary literal whose Op is one of the comparison tokens, and every emitBinary call whose operator argument is one, the type operand is types.TypeBool")
	cmp := map[string]bool{"DOUBLE_EQUAL_TOKEN": true, "NOT_EQUAL_TOKEN": true, "LESS_TOKEN": true, "LESS_EQUAL_TOKEN": true, "GREATER_TOKEN": true, "GREATER_EQUAL_TOKEN": true}
	isCmp := func(info *types.Info, e ast.Expr) bool {
		o := constObj(info, e)
		return o != nil && cmp[o.Name()]
	}
	isBool := func(info *types.Info, e ast.Expr) bool {
		sel, ok := ast.Unparen(e).(*ast.SelectorExpr)
		return ok && sel.Sel.Name == "TypeBool"
	}
	n := 0
	for _, rel := range []string{pkgMIR, pkgMIRGen} {
		for _, fn := range c.AllFns(rel) {
			if fn.Decl.Body == nil {
				continue
			}
			info := fn.Info()
			ast.Inspect(fn.Decl.Body, func(x ast.Node) bool {
				switch y := x.(type) {
				case *ast.CompositeLit:
					if !isNamed(info.TypeOf(y), Mod+"/"+pkgMIR, "Binary") {
						return true
					}
					var op, typ ast.Expr
					for _, el := range y.Elts {
						if kv, ok := el.(*ast.KeyValueExpr); ok {
							if id, ok := kv.Key.(*ast.Ident); ok {
								if id.Name == "Op" {
									op = kv.Value
								}
								if id.Name == "Type" {
									typ = kv.Value
								}
							}
						}
					}
					if op == nil || !isCmp(info, op) {
						return true
					}
					n++
					r.Check(typ != nil && isBool(info, typ), rule, fn.Name(), "mir.Binary{Op: "+exprStr(op)+"} has Type: types.TypeBool", c.pos(y.Pos()),
						"a comparison is given the type of its operands as its result type: the wasm back end declares the result local with it, and for an i64 scrutinee the module does not validate (`local.set expected type i64, found i64.eq of type i32`) — `match v { 7 => … }` with an i64 v runs natively and cannot be loaded on wasm")
				case *ast.CallExpr:
					f := callee(info, y)
					if f == nil || f.Name() != "emitBinary" || len(y.Args) < 4 || !isCmp(info, y.Args[0]) {
						return true
					}
					n++
					r.Check(isBool(info, y.Args[3]), rule, fn.Name(), "emitBinary("+exprStr(y.Args[0])+", …) has the type bool", c.pos(y.Pos()),
						"a comparison built through emitBinary is typed with its operands' type instead of bool")
				}
				return true
			})
		}
	}
	r.Floor(rule, n, 5, "comparisons built with a constant operator")
}

// ---- C02.R19: float negation flips the sign -----------------------------------------------------------------------

func init() {
	lateInits = append(lateInits, func() {
		props["C02"].Quick = append(props["C02"].Quick, c02R19)
		props["C02"].Explanation += " (R19) the QBE emitter negates a float by a product with -1 in a branch of its own; `0 - x` (which is +0 for x == 0, where the wasm target's f64.neg gives -0) is emitted for integers only."
	})
}

func c02R19(c *Ctx, r *Report) {
	const rule = "C02.R19"
	r.Describe(rule, "qbe.emitUnary, case MINUS_TOKEN: an `if g.isFloat(…)` branch emits a `mul` by a -1 constant; no `sub` template stands inside it")
	fn := c.LookupFn(pkgQBE, "(*Generator).emitUnary")
	if !r.Anchor(rule, fn != nil && fn.Decl.Body != nil, "qbe.(*Generator).emitUnary") {
		return
	}
	info := fn.Info()
	var clause *ast.CaseClause
	ast.Inspect(fn.Decl.Body, func(x ast.Node) bool {
		if cc, ok := x.(*ast.CaseClause); ok {
			for _, e := range cc.List {
				if o := constObj(info, e); o != nil && o.Name() == "MINUS_TOKEN" {
					clause = cc
				}
			}
		}
		return true
	})
	if !r.Anchor(rule, clause != nil, "emitUnary: case tokens.MINUS_TOKEN") {
		return
	}
	good := false
	var chain []*ast.IfStmt
	for _, st := range clause.Body {
		ast.Inspect(st, func(y ast.Node) bool {
			if ifs, ok := y.(*ast.IfStmt); ok {
				chain = append(chain, ifs)
			}
			return true
		})
	}
	for _, ifs := range chain {
		cl, ok := ast.Unparen(ifs.Cond).(*ast.CallExpr)
		if !ok {
			continue
		}
		if f := callee(info, cl); f == nil || f.Name() != "isFloat" {
			continue
		}
		hasMul, hasSub, hasMinusOne := false, false, false
		ast.Inspect(ifs.Body, func(y ast.Node) bool {
			if bl, ok := y.(*ast.BasicLit); ok && bl.Kind == token.STRING {
				if strings.Contains(bl.Value, " mul ") {
					hasMul = true
				}
				if strings.Contains(bl.Value, " sub ") {
					hasSub = true
				}
				if strings.Contains(bl.Value, "_-1") {
					hasMinusOne = true
				}
			}
			return true
		})
		if hasMul && hasMinusOne && !hasSub {
			good = true
		}
	}
	r.Check(good, rule, fn.Name(), "a float is negated by a product with -1", c.pos(clause.Pos()),
		"the negation of a float is emitted as `0 - x`: for x == 0.0 that is +0.0, so `1.0 / -z` prints inf natively and -inf on wasm (f64.neg)")
}

// ---- C18.R17: an element that already is the expected optional is not wrapped again --------------------------------

func init() {
	lateInits = append(lateInits, func() {
		props["C18"].Quick = append(props["C18"].Quick, c18R17)
		props["C18"].Explanation += " (R17) hir/lower wrapOptional returns an index expression whose type already is the expected optional as it is, before the branch that builds an OptionalSome: the element of a fixed array of optionals keeps its payload and its flag."
	})
}

func c18R17(c *Ctx, r *Report) {
	const rule = "C18.R17"
	r.Describe(rule, "hir/lower.wrapOptional: before the first hir.OptionalSome literal an if statement whose condition tests the expression for *hir.IndexExpr and its type for equality with the expected type returns the expression unchanged")
	fn := c.LookupFn("internal/hir/lower", "(*Lowerer).wrapOptional")
	if !r.Anchor(rule, fn != nil && fn.Decl.Body != nil, "hir/lower.(*Lowerer).wrapOptional") {
		return
	}
	info := fn.Info()
	expr, expected := fn.ParamNamed("expr"), fn.ParamNamed("expected")
	if !r.Anchor(rule, expr != nil && expected != nil, "wrapOptional(expr, expected)") {
		return
	}
	var somePos token.Pos
	ast.Inspect(fn.Decl.Body, func(x ast.Node) bool {
		if cl, ok := x.(*ast.CompositeLit); ok && somePos == token.NoPos && isNamed(info.TypeOf(cl), Mod+"/internal/hir", "OptionalSome") {
			somePos = cl.Pos()
		}
		return true
	})
	if !r.Anchor(rule, somePos != token.NoPos, "wrapOptional: hir.OptionalSome literal") {
		return
	}
	good := false
	for _, st := range fn.Decl.Body.List {
		ifs, ok := st.(*ast.IfStmt)
		if !ok || ifs.Pos() > somePos || !thenTerminates(ifs) {
			continue
		}
		isIndex, sameType := false, false
		check := func(n ast.Node) {
			ast.Inspect(n, func(y ast.Node) bool {
				switch z := y.(type) {
				case *ast.TypeAssertExpr:
					if z.Type != nil {
						if nt := namedOf(info.TypeOf(z.Type)); nt != nil && nt.Obj().Name() == "IndexExpr" && objOf(info, z.X) == expr {
							isIndex = true
						}
					}
				case *ast.CallExpr:
					if sel, ok := z.Fun.(*ast.SelectorExpr); ok && sel.Sel.Name == "Equals" && len(z.Args) == 1 && objOf(info, z.Args[0]) == expected {
						sameType = true
					}
				}
				return true
			})
		}
		if ifs.Init != nil {
			check(ifs.Init)
		}
		check(ifs.Cond)
		returnsExpr := false
		ast.Inspect(ifs.Body, func(y ast.Node) bool {
			if ret, ok := y.(*ast.ReturnStmt); ok && len(ret.Results) == 1 && objOf(info, ret.Results[0]) == expr {
				returnsExpr = true
			}
			return true
		})
		if isIndex && sameType && returnsExpr {
			good = true
		}
	}
	r.Check(good, rule, fn.Name(), "an index expression of the expected optional type is not wrapped", c.pos(fn.Decl.Pos()),
		"every expression whose type is an optional is wrapped in OptionalSome, also one that denotes an optional in memory: `let arr: [2]i32? = [1, none]; let x: i32? = arr[1]; io::Println(x == none);` prints false, and `arr[0]` read the same way is the element's address")
}

// ---- C03.R22: a local used above its declaration is reported --------------------------------------------------------

func init() {
	lateInits = append(lateInits, func() {
		props["C03"].Quick = append(props["C03"].Quick, c03R22)
		props["C12"].Quick = append(props["C12"].Quick, c03R22)
		props["C03"].Explanation += " (R22) the use-before-declaration check that runs for every identifier does not stop at symbols declared outside the module scope: for locals it goes on for variables and constants (the collector enters a block's declarations before the block is checked, so a use above the `let` resolves to a symbol without a type, which several checks — the private-field rule among them — let pass)."
	})
}

func c03R22(c *Ctx, r *Report) {
	const rule = "C03.R22"
	r.Describe(rule, "typechecker.checkModuleScopeUseBeforeDecl: the branch taken for a symbol whose DeclaredScope is not the module scope is not a bare return — it tests the symbol kind against SymbolVariable / SymbolConstant and falls through for those; the function is called from checkExpr's identifier clause")
	fn := c.LookupFn(pkgTC, "checkModuleScopeUseBeforeDecl")
	chk := c.LookupFn(pkgTC, "checkExpr")
	if !r.Anchor(rule, fn != nil && chk != nil && fn.Decl.Body != nil, "typechecker checkModuleScopeUseBeforeDecl / checkExpr") {
		return
	}
	info := fn.Info()
	var guard *ast.IfStmt
	ast.Inspect(fn.Decl.Body, func(x ast.Node) bool {
		ifs, ok := x.(*ast.IfStmt)
		if !ok || guard != nil {
			return true
		}
		s := exprStr(ifs.Cond)
		if strings.Contains(s, "DeclaredScope") && strings.Contains(s, "ModuleScope") {
			guard = ifs
		}
		return true
	})
	if guard == nil {
		// no scope test at all: every symbol is checked
		r.OK(rule, fn.Name(), "locals are covered", c.pos(fn.Decl.Pos()), "no scope restriction")
	} else {
		kinds := map[string]bool{}
		ast.Inspect(guard.Body, func(x ast.Node) bool {
			if id, ok := x.(*ast.Ident); ok {
				if o, ok := info.Uses[id].(*types.Const); ok {
					kinds[o.Name()] = true
				}
			}
			return true
		})
		bare := len(guard.Body.List) == 1
		if bare {
			_, bare = guard.Body.List[0].(*ast.ReturnStmt)
		}
		r.Check(!bare && kinds["SymbolVariable"] && kinds["SymbolConstant"], rule, fn.Name(), "locals are covered", c.pos(guard.Pos()),
			"the check returns for every symbol that is not declared at module level: `if b.V == 10 { … } let b := { .V = 10 } as T;` is accepted — b resolves to the symbol the collector entered for the later `let`, its type is unknown, and neither the comparison nor the private-field rule objects")
	}
	called := false
	for _, cl := range callsIn(chk.Decl.Body, false) {
		if isCallTo(chk.Info(), cl, fn.Obj) {
			called = true
		}
	}
	r.Check(called, rule, chk.Name(), "identifiers are checked for use before declaration", c.pos(chk.Decl.Pos()), "checkExpr no longer runs the use-before-declaration check for identifiers")
}
