package main

import (
	"fmt"
	"go/ast"
	"go/constant"
	"go/token"
	"go/types"
	"sort"
)

const pkgTC = "internal/semantics/typechecker"
const pkgTypes = "internal/types"

func init() {
	register("C11", &propSpec{
		Explanation: "Decides the structural core of C11: (R1) every (source,target) pair of the lossless-widening table read from the source is value-preserving by exact integer-range / IEEE significand facts, exhaustively over the table and all 17x17 ordered pairs; (R2) in checkTypeCompatibility the table is the only road from a numeric-numeric pair to an implicit classification; (R3) assignment-like sites consult the classification; (R4) in MIR lowering every position where an implicit conversion is accepted (initialiser, assignment, argument, return, struct field, array element, optional/result payload) runs a numeric coercion helper before the value is stored or passed, and the helpers reach the cast instructions; (C03.R5) arithmetic and compound assignment accept two typed operands only when their types are identical, so `x op= y` never narrows y; (C02.R3) widening casts extend by the signedness of the source type in both back ends. Does not decide untyped-literal contextualisation (C10) or named wrappers.",
		Quick:       []ruleFn{c11R1, c11R2, c11R3, c11R4, c03R5, c02R3},
		Assumptions: []string{"f128/f256 are IEEE binary128/binary256 (113/237-bit significands), as documented in runtime/core/bigint.h"},
	})
}

// readLosslessTable extracts the map literal of isLosslessNumericConversion.
func readLosslessTable(c *Ctx, r *Report, rule string) (fn *Fn, pairs map[[2]string]token.Pos, lit *ast.CompositeLit) {
	fn = c.LookupFn(pkgTC, "isLosslessNumericConversion")
	if !r.Anchor(rule, fn != nil, "typechecker.isLosslessNumericConversion") {
		return nil, nil, nil
	}
	info := fn.Info()
	pairs = map[[2]string]token.Pos{}
	ast.Inspect(fn.Decl.Body, func(n ast.Node) bool {
		cl, ok := n.(*ast.CompositeLit)
		if !ok || lit != nil {
			return true
		}
		mt, ok := info.TypeOf(cl).Underlying().(*types.Map)
		if !ok {
			return true
		}
		if _, ok := mt.Elem().Underlying().(*types.Slice); !ok {
			return true
		}
		lit = cl
		for _, el := range cl.Elts {
			kv, ok := el.(*ast.KeyValueExpr)
			if !ok {
				continue
			}
			k := constOf(info, kv.Key)
			vl, ok := kv.Value.(*ast.CompositeLit)
			if k == nil || !ok {
				r.Fail(rule, fn.Name(), "table entry "+exprStr(kv.Key), c.pos(kv.Pos()), "table entry is not constant; cannot be read statically")
				continue
			}
			for _, t := range vl.Elts {
				tv := constOf(info, t)
				if tv == nil {
					r.Fail(rule, fn.Name(), "table target "+exprStr(t), c.pos(t.Pos()), "table target is not constant")
					continue
				}
				pairs[[2]string{constant.StringVal(k), constant.StringVal(tv)}] = t.Pos()
			}
		}
		return false
	})
	return
}

// C11.R1: every table entry is value-preserving; all 17x17 ordered pairs enumerated.
func c11R1(c *Ctx, r *Report) {
	const rule = "C11.R1"
	r.Describe(rule, "lossless table entries vs exact range/significand facts (all ordered pairs)")
	fn, pairs, lit := readLosslessTable(c, r, rule)
	if fn == nil {
		return
	}
	if !r.Anchor(rule, lit != nil, "map literal in isLosslessNumericConversion") {
		return
	}
	n := 0
	for _, s := range numTypes {
		for _, t := range numTypes {
			sf, _ := factsOf(s)
			tf, _ := factsOf(t)
			pos, inTable := pairs[[2]string{s, t}]
			n++
			if !inTable {
				continue
			}
			construct := s + "->" + t
			if s == t {
				r.OK(rule, fn.Name(), construct, c.pos(pos), "identity")
				continue
			}
			if losslessOracle(sf, tf) {
				r.OK(rule, fn.Name(), construct, c.pos(pos), "value-preserving")
			} else {
				r.Fail(rule, fn.Name(), construct, c.pos(pos), fmt.Sprintf("table allows implicit %s -> %s but not every %s value is representable in %s", s, t, s, t))
			}
		}
	}
	// entries naming unknown types
	var keys [][2]string
	for k := range pairs {
		keys = append(keys, k)
	}
	sort.Slice(keys, func(i, j int) bool { return keys[i][0]+keys[i][1] < keys[j][0]+keys[j][1] })
	for _, k := range keys {
		_, ok1 := factsOf(k[0])
		_, ok2 := factsOf(k[1])
		if !ok1 || !ok2 {
			r.Fail(rule, fn.Name(), k[0]+"->"+k[1], c.pos(pairs[k]), "table names a type the oracle does not know")
		}
	}
	r.Floor(rule, len(pairs), 40, "table pairs")
	r.Note("C11.R1 enumerated %d ordered pairs, %d in table", n, len(pairs))
	r.Exhaust[rule] = true

	// the function's only `return true` must be the table hit
	info := fn.Info()
	trues := 0
	walkWithStack(fn.Decl.Body, func(nd ast.Node, stack []ast.Node) bool {
		ret, ok := nd.(*ast.ReturnStmt)
		if !ok || len(ret.Results) != 1 {
			return true
		}
		v := constOf(info, ret.Results[0])
		if v != nil && !boolVal(v) {
			return true
		}
		trues++
		inRange := false
		for _, a := range stack {
			if rs, ok := a.(*ast.RangeStmt); ok && containsNode(rs.Body, ret) {
				inRange = true
			}
		}
		r.Check(inRange && v != nil, rule, fn.Name(), fmt.Sprintf("accepting return #%d", trues), c.pos(ret.Pos()),
			"a `return true` (or non-constant return) outside the table scan accepts pairs the table does not list")
		return true
	})
}

// C11.R2: in checkTypeCompatibility the table is the only road to an implicit classification for
// numeric pairs.
func c11R2(c *Ctx, r *Report) {
	const rule = "C11.R2"
	r.Describe(rule, "checkTypeCompatibility: numeric pairs reach ImplicitCastable only through isLosslessNumericConversion(source,target)")
	fn := c.LookupFn(pkgTC, "checkTypeCompatibility")
	lossless := c.LookupFn(pkgTC, "isLosslessNumericConversion")
	isNumT := c.LookupFn(pkgTypes, "IsNumericType")
	if !r.Anchor(rule, fn != nil && lossless != nil && isNumT != nil, "checkTypeCompatibility / isLosslessNumericConversion / types.IsNumericType") {
		return
	}
	info := fn.Info()
	implicit, _ := c.lookupObj(pkgTC, "ImplicitCastable").(*types.Const)
	identical, _ := c.lookupObj(pkgTC, "Identical").(*types.Const)
	explicit, _ := c.lookupObj(pkgTC, "ExplicitCastable").(*types.Const)
	incompat, _ := c.lookupObj(pkgTC, "Incompatible").(*types.Const)
	if !r.Anchor(rule, implicit != nil && identical != nil && explicit != nil && incompat != nil, "TypeCompatibility constants") {
		return
	}
	src, tgt := fn.Param(0), fn.Param(1)

	// locate the numeric block: if IsNumericType(source) && IsNumericType(target) { ... }
	var block *ast.IfStmt
	for _, st := range fn.Decl.Body.List {
		ifs, ok := st.(*ast.IfStmt)
		if !ok {
			continue
		}
		cj := conjuncts(ifs.Cond)
		if len(cj) != 2 {
			continue
		}
		c0, ok0 := cj[0].(*ast.CallExpr)
		c1, ok1 := cj[1].(*ast.CallExpr)
		if ok0 && ok1 && isCallTo(info, c0, isNumT.Obj) && isCallTo(info, c1, isNumT.Obj) &&
			usesVar(info, c0.Args[0], src) && usesVar(info, c1.Args[0], tgt) {
			block = ifs
		}
	}
	if !r.Anchor(rule, block != nil, "numeric block `if IsNumericType(source) && IsNumericType(target)` at top level of checkTypeCompatibility") {
		return
	}
	// (a) the block cannot fall through: last statement is a return and there is no else
	last := block.Body.List[len(block.Body.List)-1]
	_, endsInReturn := last.(*ast.ReturnStmt)
	r.Check(endsInReturn && block.Else == nil, rule, fn.Name(), "numeric block is closed", c.pos(block.Pos()),
		"numeric block must end in a return so that numeric pairs never reach later (named/struct/optional) acceptance paths")

	// (b) every return inside the block
	nret := 0
	walkWithStack(block.Body, func(nd ast.Node, stack []ast.Node) bool {
		ret, ok := nd.(*ast.ReturnStmt)
		if !ok {
			return true
		}
		nret++
		if len(ret.Results) != 1 {
			return true
		}
		co := constObj(info, ret.Results[0])
		switch co {
		case explicit, incompat:
			r.OK(rule, fn.Name(), fmt.Sprintf("numeric block return #%d (%s)", nret, co.Name()), c.pos(ret.Pos()), "not an implicit acceptance")
			return true
		}
		// implicit / identical / anything else: must be in the then-branch of lossless(source,target)
		guarded := false
		for _, a := range stack {
			ifs, ok := a.(*ast.IfStmt)
			if !ok || !containsNode(ifs.Body, ret) {
				continue
			}
			for _, cj := range conjuncts(ifs.Cond) {
				if call, ok := cj.(*ast.CallExpr); ok && isCallTo(info, call, lossless.Obj) && len(call.Args) == 2 &&
					usesVar(info, call.Args[0], src) && usesVar(info, call.Args[1], tgt) {
					guarded = true
				}
			}
		}
		name := exprStr(ret.Results[0])
		r.Check(guarded, rule, fn.Name(), fmt.Sprintf("numeric block return #%d (%s)", nret, name), c.pos(ret.Pos()),
			"returns "+name+" for a numeric pair without being dominated by isLosslessNumericConversion(source, target) in that argument order")
		return true
	})
	r.Floor(rule, nret, 4, "returns in numeric block")

	// (c) between function entry and the numeric block, source/target are not reassigned to
	// anything but dereferenceType(x) of themselves (so the table sees the types being converted)
	deref := c.LookupFn(pkgTC, "dereferenceType")
	for _, st := range fn.Decl.Body.List {
		if st == ast.Stmt(block) {
			break
		}
		ast.Inspect(st, func(n ast.Node) bool {
			as, ok := n.(*ast.AssignStmt)
			if !ok {
				return true
			}
			for i, l := range as.Lhs {
				var v *types.Var
				if usesVar(info, l, src) {
					v = src
				} else if usesVar(info, l, tgt) {
					v = tgt
				} else {
					continue
				}
				okAssign := false
				if i < len(as.Rhs) {
					if call, ok := as.Rhs[i].(*ast.CallExpr); ok && deref != nil && isCallTo(info, call, deref.Obj) && usesVar(info, call.Args[0], v) {
						okAssign = true
					}
				}
				r.Check(okAssign, rule, fn.Name(), "reassignment of "+v.Name()+" before numeric block", c.pos(as.Pos()),
					"source/target is rewritten before the lossless test by something other than dereferenceType of itself")
			}
			return true
		})
	}

	// (d) pre-block acceptances: every return of a non-{Incompatible,ExplicitCastable} value that
	// precedes the numeric block must sit under a guard that cannot hold for two distinct numeric
	// primitives. Recognised guard classes (semantic, not textual):
	//   G1 type assertion / type switch of a value to a SemType implementation other than *PrimitiveType
	//   G2 X.Equals(Y) between (derivatives of) source and target         -> identical types
	//   G3 types.IsUntyped*(source)                                       -> literal, C10's domain
	//   G4 source.Equals(types.TypeNone) / TypeUnknown
	//   G5 `v != Incompatible` on the result of checkCompositeTypeCompatibility (its own returns are all under G1)
	primT := c.lookupType(pkgTypes, "PrimitiveType")
	semT := c.lookupType(pkgTypes, "SemType")
	if !r.Anchor(rule, primT != nil && semT != nil, "types.PrimitiveType / types.SemType") {
		return
	}
	composite := c.LookupFn(pkgTC, "checkCompositeTypeCompatibility")
	guardClass := func(cond ast.Expr, init ast.Stmt) string {
		// type assertion in init: x, ok := E.(*T)
		if as, ok := init.(*ast.AssignStmt); ok && len(as.Rhs) == 1 {
			if ta, ok := ast.Unparen(as.Rhs[0]).(*ast.TypeAssertExpr); ok && ta.Type != nil {
				if n := namedOf(info.TypeOf(ta.Type)); n != nil && n.Obj() != primT {
					return "G1"
				}
			}
			// compat := checkCompositeTypeCompatibility(..); compat != Incompatible
			if call, ok := ast.Unparen(as.Rhs[0]).(*ast.CallExpr); ok && composite != nil && isCallTo(info, call, composite.Obj) {
				return "G5"
			}
		}
		for _, cj := range conjuncts(cond) {
			for _, dj := range disjuncts(cj) {
				call, ok := ast.Unparen(dj).(*ast.CallExpr)
				if !ok {
					continue
				}
				f := callee(info, call)
				if f == nil {
					continue
				}
				switch {
				case f.Name() == "Equals" && isNamed(f.Type().(*types.Signature).Recv().Type(), Mod+"/"+pkgTypes, "SemType"):
					return "G2/G4"
				case f.Pkg() != nil && f.Pkg().Path() == Mod+"/"+pkgTypes && (f.Name() == "IsUntyped" || f.Name() == "IsUntypedInt" || f.Name() == "IsUntypedFloat"):
					return "G3"
				}
			}
		}
		return ""
	}
	npre := 0
	for _, st := range fn.Decl.Body.List {
		if st == ast.Stmt(block) {
			break
		}
		walkWithStack(st, func(nd ast.Node, stack []ast.Node) bool {
			ret, ok := nd.(*ast.ReturnStmt)
			if !ok || len(ret.Results) != 1 {
				return true
			}
			co := constObj(info, ret.Results[0])
			if co == explicit || co == incompat {
				return true
			}
			npre++
			cls := ""
			chain := append(append([]ast.Node{}, stack...), st)
			for _, a := range chain {
				if ifs, ok := a.(*ast.IfStmt); ok && containsNode(ifs.Body, ret) {
					if g := guardClass(ifs.Cond, ifs.Init); g != "" {
						cls = g
					}
				}
				if rs, ok := a.(*ast.RangeStmt); ok {
					_ = rs
				}
			}
			r.Check(cls != "", rule, fn.Name(), fmt.Sprintf("pre-numeric acceptance #%d returns %s", npre, exprStr(ret.Results[0])), c.pos(ret.Pos()),
				"an accepting return before the numeric block is not under a guard that excludes two distinct numeric primitive types (type assertion to a non-primitive SemType, Equals, IsUntyped*)")
			return true
		})
	}
	r.Floor(rule, npre, 8, "accepting returns before the numeric block")

	// (e) checkCompositeTypeCompatibility: every return is under a G1 type assertion
	if r.Anchor(rule, composite != nil, "checkCompositeTypeCompatibility") {
		cinfo := composite.Info()
		walkWithStack(composite.Decl.Body, func(nd ast.Node, stack []ast.Node) bool {
			ret, ok := nd.(*ast.ReturnStmt)
			if !ok || len(ret.Results) != 1 {
				return true
			}
			if co := constObj(cinfo, ret.Results[0]); co == incompat {
				return true
			}
			under := false
			for _, a := range stack {
				if ifs, ok := a.(*ast.IfStmt); ok && containsNode(ifs.Body, ret) {
					if as, ok := ifs.Init.(*ast.AssignStmt); ok && len(as.Rhs) == 1 {
						if ta, ok := ast.Unparen(as.Rhs[0]).(*ast.TypeAssertExpr); ok && ta.Type != nil {
							if n := namedOf(cinfo.TypeOf(ta.Type)); n != nil && n.Obj() != primT {
								under = true
							}
						}
					}
				}
			}
			r.Check(under, rule, composite.Name(), "accepting return "+exprStr(ret.Results[0])+" under composite type assertion", c.pos(ret.Pos()),
				"checkCompositeTypeCompatibility accepts outside a composite-type assertion (would classify primitive pairs)")
			return true
		})
	}

	// (f) isImplicitlyCompatible is exactly Identical || ImplicitCastable
	iic := c.LookupFn(pkgTC, "isImplicitlyCompatible")
	if r.Anchor(rule, iic != nil, "isImplicitlyCompatible") {
		okShape := false
		var got []string
		if res := trailingReturn(iic); len(res) == 1 {
			okShape = true
			for _, d := range disjuncts(res[0]) {
				b, isEq := isBinOp(d, token.EQL)
				if !isEq {
					okShape = false
					break
				}
				co := constObj(iic.Info(), b.Y)
				if co == nil {
					co = constObj(iic.Info(), b.X)
				}
				if co != identical && co != implicit {
					okShape = false
				}
				if co != nil {
					got = append(got, co.Name())
				}
			}
		}
		r.Check(okShape && len(iic.Decl.Body.List) == 1, rule, iic.Name(), "accept set", c.pos(iic.Decl.Pos()),
			fmt.Sprintf("isImplicitlyCompatible must accept exactly {Identical, ImplicitCastable}; found comparison set %v", got))
	}
}

// C11.R3: assignment-like sites consult the classification before accepting.
func c11R3(c *Ctx, r *Report) {
	const rule = "C11.R3"
	r.Describe(rule, "assignment-like sites call checkTypeCompatibility* and branch on its result")
	compat := c.LookupFn(pkgTC, "checkTypeCompatibility")
	compatCtx := c.LookupFn(pkgTC, "checkTypeCompatibilityWithContext")
	if !r.Anchor(rule, compat != nil && compatCtx != nil, "checkTypeCompatibility[WithContext]") {
		return
	}
	// checkTypeCompatibilityWithContext must start from the basic classification and only upgrade
	// Incompatible (interfaces): its first statement computes checkTypeCompatibility(source,target)
	// and returns it when != Incompatible.
	{
		info := compatCtx.Info()
		okFirst := false
		if len(compatCtx.Decl.Body.List) >= 2 {
			if as, ok := compatCtx.Decl.Body.List[0].(*ast.AssignStmt); ok && len(as.Rhs) == 1 {
				if call, ok := as.Rhs[0].(*ast.CallExpr); ok && isCallTo(info, call, compat.Obj) &&
					usesVar(info, call.Args[0], compatCtx.ParamNamed("source")) && usesVar(info, call.Args[1], compatCtx.ParamNamed("target")) {
					okFirst = true
				}
			}
		}
		r.Check(okFirst, rule, compatCtx.Name(), "delegates to checkTypeCompatibility(source,target) first", c.pos(compatCtx.Decl.Pos()),
			"context-aware classification no longer starts from the basic classification")
		// all other accepting returns must be under implementsInterface(...)
		impl := c.LookupFn(pkgTC, "implementsInterface")
		n := 0
		walkWithStack(compatCtx.Decl.Body, func(nd ast.Node, stack []ast.Node) bool {
			ret, ok := nd.(*ast.ReturnStmt)
			if !ok || len(ret.Results) != 1 {
				return true
			}
			co := constObj(info, ret.Results[0])
			if co == nil || co.Name() == "Incompatible" {
				return true // `return compatibility` (the delegated result) or rejection
			}
			n++
			under := false
			for _, a := range stack {
				if ifs, ok := a.(*ast.IfStmt); ok && containsNode(ifs.Body, ret) {
					for _, call := range callsIn(ifs.Cond, false) {
						if impl != nil && isCallTo(info, call, impl.Obj) {
							under = true
						}
					}
				}
			}
			r.Check(under, rule, compatCtx.Name(), fmt.Sprintf("constant acceptance #%d", n), c.pos(ret.Pos()),
				"accepting return outside implementsInterface guard")
			return true
		})
	}
	// sites: each listed function must contain a call to a classification function whose result
	// flows into isImplicitlyCompatible / a comparison with the constants.
	sites := []string{"(*TypeChecker).checkAssignLike", "checkAssignLike", "validateCallArgumentTypes", "checkNode"}
	_ = sites
	// Generic rule over the package: every call of checkTypeCompatibility* whose result is discarded
	// (ExprStmt or assigned to _) is a violation; count call sites.
	p := c.ByPath[Mod+"/"+pkgTC]
	ncalls := 0
	for _, fn := range c.AllFns(pkgTC) {
		info := p.TypesInfo
		walkWithStack(fn.Decl.Body, func(nd ast.Node, stack []ast.Node) bool {
			call, ok := nd.(*ast.CallExpr)
			if !ok || !(isCallTo(info, call, compat.Obj) || isCallTo(info, call, compatCtx.Obj)) {
				return true
			}
			ncalls++
			parent := stack[len(stack)-1]
			discarded := false
			switch pp := parent.(type) {
			case *ast.ExprStmt:
				discarded = true
			case *ast.AssignStmt:
				for i, rhs := range pp.Rhs {
					if rhs == ast.Expr(call) && i < len(pp.Lhs) {
						if id, ok := pp.Lhs[i].(*ast.Ident); ok && id.Name == "_" {
							discarded = true
						}
					}
				}
			}
			if discarded {
				r.Fail(rule, fn.Name(), "classification result discarded", c.pos(call.Pos()), "result of checkTypeCompatibility* is discarded")
			}
			return true
		})
	}
	r.Floor(rule, ncalls, 15, "classification call sites in typechecker")
}
