package main

import (
	"fmt"
	"go/ast"
	"go/token"
	"go/types"
	"regexp/syntax"
	"sort"
	"strings"
)

func init() {
	register("C19", &propSpec{
		Explanation: "Structural necessary conditions of layout independence: (R1) whitespace produces no token and every other handler pushes exactly one token per match; (R2) the parser reads its token stream only through the comment-skipping accessors, the raw accessors are used only to collect doc comments; (R3) comment text and doc comments are read only by the parser's doc attachment and by documentation consumers, never by semantic phases (one recorded exception: the @extern marker); (R4) line/column values are compared only in diagnostics, source and the parser's doc-attachment logic; (R5) every handler takes start before and end after advancing by exactly the matched text, and Position.Advance moves the byte index by the bytes consumed. Does not decide tab-width column arithmetic or the emitter's rendering.",
		Quick:       []ruleFn{c19R1, c19R2, c19R3, c19R4, c19R5},
	})
}

func lexerHandlers(c *Ctx) (named map[string]*Fn, lits []struct {
	Fn   *Fn
	Lit  *ast.FuncLit
	Name string
}) {
	named = map[string]*Fn{}
	hT := c.lookupType(pkgLexer, "regexHandler")
	if hT == nil {
		return
	}
	sigStr := hT.Type().Underlying().String()
	for _, fn := range c.AllFns(pkgLexer) {
		if fn.Obj.Type().(*types.Signature).Recv() == nil && fn.Obj.Type().Underlying().String() == sigStr {
			named[fn.Obj.Name()] = fn
		}
		ast.Inspect(fn.Decl.Body, func(nd ast.Node) bool {
			if fl, ok := nd.(*ast.FuncLit); ok && fn.Info().TypeOf(fl).Underlying().String() == sigStr {
				lits = append(lits, struct {
					Fn   *Fn
					Lit  *ast.FuncLit
					Name string
				}{fn, fl, fn.Name() + "$lit"})
			}
			return true
		})
	}
	return
}

func c19R1(c *Ctx, r *Report) {
	const rule = "C19.R1"
	r.Describe(rule, "whitespace handler pushes nothing and is bound to whitespace-only patterns; every other handler pushes exactly one token on every path")
	push := c.LookupFn(pkgLexer, "(*Lexer).push")
	newFn := c.LookupFn(pkgLexer, "New")
	if !r.Anchor(rule, push != nil && newFn != nil, "Lexer.push / lexer.New") {
		return
	}
	named, lits := lexerHandlers(c)
	skip := named["skipHandler"]
	if !r.Anchor(rule, skip != nil, "lexer.skipHandler") {
		return
	}
	r.Check(nodeCalls(skip.Info(), skip.Decl.Body, push.Obj) == nil, rule, skip.Name(), "pushes no token", c.pos(skip.Decl.Pos()), "the whitespace handler emits a token: inserting blanks changes the token stream")
	checkOnce := func(name string, info *types.Info, body *ast.BlockStmt, pos token.Pos) {
		g := c.CFGOfBody(body)
		isPush := func(n ast.Node) bool { return nodeCalls(info, n, push.Obj) != nil }
		atLeast := mustFlow(g, FlowSpec{AtReturn: true, Gate: isPush})
		atMost := mustFlow(g, FlowSpec{InitTrue: true, Kill: isPush, Target: isPush})
		r.Check(len(atLeast) == 0, rule, name, "pushes a token on every path", c.pos(pos), "a path through the handler consumes input without producing a token")
		r.Check(len(atMost) == 0, rule, name, "pushes at most one token", c.pos(pos), "a path through the handler pushes two tokens for one match")
	}
	n := 0
	for _, nm := range sortedKeys(named) {
		if nm == "skipHandler" {
			continue
		}
		n++
		checkOnce(named[nm].Name(), named[nm].Info(), named[nm].Decl.Body, named[nm].Decl.Pos())
	}
	for _, l := range lits {
		n++
		checkOnce(l.Name, l.Fn.Info(), l.Lit.Body, l.Lit.Pos())
	}
	r.Floor(rule, n, 5, "token-producing handlers")
	// patterns bound to skipHandler match whitespace only; whitespace is bound to skipHandler
	info := newFn.Info()
	nskip := 0
	ast.Inspect(newFn.Decl.Body, func(nd ast.Node) bool {
		ecl, ok := nd.(*ast.CompositeLit)
		if !ok || !isNamed(info.TypeOf(ecl), Mod+"/"+pkgLexer, "regexPattern") || len(ecl.Elts) < 2 {
			return true
		}
		h := ecl.Elts[1]
		if kv, ok := h.(*ast.KeyValueExpr); ok {
			h = kv.Value
		}
		isSkip := objOf(info, h) == types.Object(skip.Obj)
		var pat string
		if call, ok := ast.Unparen(ecl.Elts[0]).(*ast.CallExpr); ok && len(call.Args) == 1 {
			if v := constOf(info, call.Args[0]); v != nil {
				pat, _ = strOf(v)
			}
		}
		if pat == "" {
			return true
		}
		re, err := syntax.Parse(pat, syntax.Perl)
		if err != nil {
			return true
		}
		wsOnly := regexOnlyWhitespace(re)
		if isSkip {
			nskip++
			r.Check(wsOnly, rule, newFn.Name(), "skipHandler pattern "+pat+" matches whitespace only", c.pos(ecl.Pos()), "a pattern bound to the skipping handler can match non-blank text: that text silently disappears from the program")
		} else if wsOnly {
			r.Fail(rule, newFn.Name(), "whitespace pattern "+pat+" bound to a token-producing handler", c.pos(ecl.Pos()), "blank text produces a token")
		}
		return true
	})
	r.Check(nskip >= 1, rule, newFn.Name(), "a whitespace pattern is bound to skipHandler", c.pos(newFn.Decl.Pos()), "no pattern skips whitespace")
}

func regexOnlyWhitespace(re *syntax.Regexp) bool {
	switch re.Op {
	case syntax.OpCharClass:
		for i := 0; i+1 < len(re.Rune); i += 2 {
			for ch := re.Rune[i]; ch <= re.Rune[i+1]; ch++ {
				switch ch {
				case ' ', '\t', '\n', '\r', '\f', '\v':
				default:
					return false
				}
				if ch-re.Rune[i] > 16 {
					return false
				}
			}
		}
		return len(re.Rune) > 0
	case syntax.OpLiteral:
		for _, ch := range re.Rune {
			if !strings.ContainsRune(" \t\n\r\f\v", ch) {
				return false
			}
		}
		return len(re.Rune) > 0
	case syntax.OpPlus, syntax.OpStar, syntax.OpQuest, syntax.OpCapture, syntax.OpRepeat:
		return regexOnlyWhitespace(re.Sub[0])
	case syntax.OpConcat, syntax.OpAlternate:
		for _, s := range re.Sub {
			if !regexOnlyWhitespace(s) {
				return false
			}
		}
		return len(re.Sub) > 0
	}
	return false
}

func c19R2(c *Ctx, r *Report) {
	const rule = "C19.R2"
	r.Describe(rule, "Parser.tokens / Parser.current are touched only by the accessor set; raw (comment-seeing) accessors are used only for doc-comment collection; skipping accessors go through nextNonCommentIndex")
	toks := c.fieldObj(pkgParserRel, "Parser", "tokens")
	cur := c.fieldObj(pkgParserRel, "Parser", "current")
	if !r.Anchor(rule, toks != nil && cur != nil, "Parser.tokens / Parser.current") {
		return
	}
	accessors := map[string]string{
		"peek": "skipping", "next": "skipping", "advance": "skipping", "isAtEnd": "skipping", "nextNonCommentIndex": "core",
		"previous": "index-1", "peekRaw": "raw", "advanceRaw": "raw", "matchRaw": "raw",
		"isCompositeLiteral": "look-ahead with save/restore of current", "Parse": "constructor",
	}
	n := 0
	for _, fn := range c.AllFns(pkgParserRel) {
		info := fn.Info()
		touches := false
		ast.Inspect(fn.Decl.Body, func(nd ast.Node) bool {
			if s, ok := nd.(*ast.SelectorExpr); ok {
				if f := fieldOf(info, s); f == toks || f == cur {
					touches = true
				}
			}
			if kv, ok := nd.(*ast.KeyValueExpr); ok {
				if id, ok := kv.Key.(*ast.Ident); ok && (info.Uses[id] == toks || info.Uses[id] == cur) {
					touches = true
				}
			}
			return true
		})
		if !touches {
			continue
		}
		n++
		_, ok := accessors[fn.Obj.Name()]
		r.Check(ok, rule, fn.Name(), "touches the token stream", c.pos(fn.Decl.Pos()), "the token slice / cursor is accessed outside the accessor set: comment tokens are visible to grammar code, so inserting a comment can change how the program parses")
	}
	r.Floor(rule, n, 8, "functions touching the token stream")
	// skipping accessors call nextNonCommentIndex
	core := c.LookupFn(pkgParserRel, "(*Parser).nextNonCommentIndex")
	if r.Anchor(rule, core != nil, "Parser.nextNonCommentIndex") {
		for _, nm := range []string{"peek", "next", "advance", "isAtEnd"} {
			fn := c.LookupFn(pkgParserRel, "(*Parser)."+nm)
			if !r.Anchor(rule, fn != nil, "Parser."+nm) {
				continue
			}
			r.Check(nodeCalls(fn.Info(), fn.Decl.Body, core.Obj) != nil, rule, fn.Name(), "skips comments through nextNonCommentIndex", c.pos(fn.Decl.Pos()), "a grammar-facing accessor no longer skips comment tokens")
		}
		// nextNonCommentIndex skips exactly COMMENT tokens
		commentTok, _ := c.lookupObj(pkgTokens, "COMMENT_TOKEN").(*types.Const)
		ok := false
		ast.Inspect(core.Decl.Body, func(nd ast.Node) bool {
			if b, isB := nd.(*ast.BinaryExpr); isB && b.Op == token.EQL && (constObj(core.Info(), b.Y) == commentTok || constObj(core.Info(), b.X) == commentTok) {
				ok = true
			}
			return true
		})
		r.Check(ok && commentTok != nil, rule, core.Name(), "skips tokens of kind COMMENT_TOKEN", c.pos(core.Decl.Pos()), "the comment-skipping loop no longer tests for COMMENT_TOKEN")
	}
	// every subscript of the token slice outside the raw accessors uses an index that came from
	// nextNonCommentIndex, or is the last token / the token before the cursor
	if core != nil {
		for _, fn := range c.AllFns(pkgParserRel) {
			nm := fn.Obj.Name()
			if nm == "peekRaw" || nm == "advanceRaw" || nm == "nextNonCommentIndex" {
				continue
			}
			info := fn.Info()
			fromCore := map[types.Object]bool{}
			tainted := map[types.Object]bool{}
			ast.Inspect(fn.Decl.Body, func(nd ast.Node) bool {
				as, ok := nd.(*ast.AssignStmt)
				if !ok {
					return true
				}
				for i, l := range as.Lhs {
					id, ok := l.(*ast.Ident)
					if !ok || i >= len(as.Rhs) {
						continue
					}
					o := info.Defs[id]
					if o == nil {
						o = info.Uses[id]
					}
					if call, ok := ast.Unparen(as.Rhs[i]).(*ast.CallExpr); ok && isCallTo(info, call, core.Obj) {
						fromCore[o] = true
					} else {
						tainted[o] = true
					}
				}
				return true
			})
			ast.Inspect(fn.Decl.Body, func(nd ast.Node) bool {
				ix, ok := nd.(*ast.IndexExpr)
				if !ok || fieldOf(info, ix.X) != toks {
					return true
				}
				okIdx := false
				switch e := ast.Unparen(ix.Index).(type) {
				case *ast.Ident:
					o := info.Uses[e]
					okIdx = fromCore[o] && !tainted[o]
				case *ast.BinaryExpr:
					s := exprStr(e)
					okIdx = e.Op == token.SUB && (strings.HasPrefix(s, "len(") || (nm == "previous" && fieldOf(info, e.X) == cur))
				}
				r.Check(okIdx, rule, fn.Name(), "subscript "+exprStr(ix), c.pos(ix.Pos()), "the token slice is indexed with a position that did not come from nextNonCommentIndex: the token read can be a comment, so a comment at that place changes the parse")
				return true
			})
		}
	}
	// raw accessors are called only from the doc-comment collector (and from each other)
	rawOK := map[string]bool{"collectCommentGroup": true, "matchRaw": true, "peekRaw": true, "advanceRaw": true}
	for _, nm := range []string{"peekRaw", "advanceRaw", "matchRaw"} {
		raw := c.LookupFn(pkgParserRel, "(*Parser)."+nm)
		if !r.Anchor(rule, raw != nil, "Parser."+nm) {
			continue
		}
		for _, fn := range c.AllFns(pkgParserRel) {
			for _, call := range callsIn(fn.Decl.Body, true) {
				if isCallTo(fn.Info(), call, raw.Obj) {
					r.Check(rawOK[fn.Obj.Name()], rule, fn.Name(), "calls "+nm, c.pos(call.Pos()), "a comment-seeing accessor is used outside doc-comment collection: grammar decisions could depend on comments")
				}
			}
		}
	}
}

func c19R3(c *Ctx, r *Report) {
	const rule = "C19.R3"
	r.Describe(rule, "CommentGroup.Text and Doc fields are read only in the parser and documentation consumers, never in semantics/hir/mir/codegen")
	ap := c.ByPath[Mod+"/"+pkgAST]
	if !r.Anchor(rule, ap != nil, "package ast") {
		return
	}
	text := c.fieldObj(pkgAST, "CommentGroup", "Text")
	if !r.Anchor(rule, text != nil, "ast.CommentGroup.Text") {
		return
	}
	// Doc fields: any field named Doc of type *ast.CommentGroup
	docFields := map[*types.Var]bool{}
	for _, nm := range ap.Types.Scope().Names() {
		if tn, ok := ap.Types.Scope().Lookup(nm).(*types.TypeName); ok {
			if st, ok := tn.Type().Underlying().(*types.Struct); ok {
				for i := 0; i < st.NumFields(); i++ {
					if f := st.Field(i); f.Name() == "Doc" && isNamed(f.Type(), Mod+"/"+pkgAST, "CommentGroup") {
						docFields[f] = true
					}
				}
			}
		}
	}
	r.Floor(rule, len(docFields), 2, "Doc fields in ast")
	n := 0
	for _, p := range c.Pkgs {
		rel := relOf(p.PkgPath)
		semantic := strings.HasPrefix(rel, "internal/semantics") || strings.HasPrefix(rel, "internal/hir") || strings.HasPrefix(rel, "internal/mir") || strings.HasPrefix(rel, "internal/codegen") || strings.HasPrefix(rel, "internal/pipeline")
		for _, fn := range c.AllFns(rel) {
			info := fn.Info()
			ast.Inspect(fn.Decl.Body, func(nd ast.Node) bool {
				s, ok := nd.(*ast.SelectorExpr)
				if !ok {
					return true
				}
				f := fieldOf(info, s)
				if f == nil || !(f == text || docFields[f]) {
					return true
				}
				n++
				what := "reads comment text (" + exprStr(s) + ")"
				if docFields[f] {
					what = "reads doc comment (" + exprStr(s) + ")"
				}
				if semantic {
					r.Fail(rule, fn.Name(), what, c.pos(s.Pos()), "a semantic phase reads the content of a comment: inserting or editing a comment can change whether the program is accepted")
				}
				return true
			})
		}
	}
	if n > 0 {
		r.OK(rule, "module", "comment/doc reads scanned", "-", itoa(n)+" reads")
	}
	r.Floor(rule, n, 3, "reads of comment text / doc fields")
}

func c19R4(c *Ctx, r *Report) {
	const rule = "C19.R4"
	r.Describe(rule, "Position.Line/Column and Location.Start/End take part in comparisons only in diagnostics, source and the parser's doc-attachment logic")
	line := c.fieldObj(pkgSource, "Position", "Line")
	col := c.fieldObj(pkgSource, "Position", "Column")
	if !r.Anchor(rule, line != nil && col != nil, "source.Position.Line / Column") {
		return
	}
	allowedPkg := func(rel string) bool {
		return rel == "internal/diagnostics" || rel == "internal/source" || rel == "internal/tokens"
	}
	allowedFn := map[string]string{
		"frontend/parser.(*Parser).takeDocComment":      "doc attachment: a comment group documents the declaration on the next line",
		"frontend/parser.(*Parser).collectCommentGroup": "doc attachment: consecutive comment lines form one group",
	}
	n := 0
	for _, p := range c.Pkgs {
		rel := relOf(p.PkgPath)
		if allowedPkg(rel) || rel == "tools" {
			continue
		}
		for _, fn := range c.AllFns(rel) {
			info := fn.Info()
			ast.Inspect(fn.Decl.Body, func(nd ast.Node) bool {
				b, ok := nd.(*ast.BinaryExpr)
				if !ok {
					return true
				}
				switch b.Op {
				case token.EQL, token.NEQ, token.LSS, token.LEQ, token.GTR, token.GEQ:
				default:
					return true
				}
				uses := false
				for _, side := range []ast.Expr{b.X, b.Y} {
					ast.Inspect(side, func(x ast.Node) bool {
						if s, ok := x.(*ast.SelectorExpr); ok {
							if f := fieldOf(info, s); f == line || f == col {
								uses = true
							}
						}
						return true
					})
				}
				if !uses {
					return true
				}
				n++
				if reason, ok := allowedFn[fn.Name()]; ok {
					r.OK(rule, fn.Name(), "compares "+exprStr(b), c.pos(b.Pos()), "reviewed: "+reason)
					return true
				}
				r.Fail(rule, fn.Name(), "compares "+exprStr(b), c.pos(b.Pos()), "a line/column value decides something outside diagnostics: re-flowing the source text can change the result")
				return true
			})
		}
	}
	r.Note("C19.R4: %d position comparisons outside diagnostics/source", n)
}

func c19R5(c *Ctx, r *Report) {
	const rule = "C19.R5"
	r.Describe(rule, "handlers: start := Position before, end := Position after advancing by exactly the matched text; Position.Advance moves Index by the bytes consumed")
	adv := c.LookupFn(pkgLexer, "(*Lexer).advance")
	posField := c.fieldObj(pkgLexer, "Lexer", "Position")
	if !r.Anchor(rule, adv != nil && posField != nil, "Lexer.advance / Lexer.Position") {
		return
	}
	named, lits := lexerHandlers(c)
	type body struct {
		name string
		info *types.Info
		b    *ast.BlockStmt
		pos  token.Pos
	}
	var bodies []body
	for _, nm := range sortedKeys(named) {
		bodies = append(bodies, body{named[nm].Name(), named[nm].Info(), named[nm].Decl.Body, named[nm].Decl.Pos()})
	}
	for _, l := range lits {
		bodies = append(bodies, body{l.Name, l.Fn.Info(), l.Lit.Body, l.Lit.Pos()})
	}
	for _, bd := range bodies {
		info := bd.info
		// the matched text: local defined from regex.FindString(lex.remainder()) or string(token)
		var advCalls []*ast.CallExpr
		for _, cl := range callsIn(bd.b, false) {
			if isCallTo(info, cl, adv.Obj) {
				advCalls = append(advCalls, cl)
			}
		}
		r.Check(len(advCalls) == 1, rule, bd.name, "advances exactly once", c.pos(bd.pos), fmt.Sprintf("%d advance calls: position and input would diverge", len(advCalls)))
		if len(advCalls) != 1 {
			continue
		}
		arg := advCalls[0].Args[0]
		matchedOK := false
		switch a := ast.Unparen(arg).(type) {
		case *ast.Ident:
			// defined as <regex>.FindString(lex.remainder())
			ast.Inspect(bd.b, func(nd ast.Node) bool {
				as, ok := nd.(*ast.AssignStmt)
				if !ok || len(as.Lhs) != 1 || len(as.Rhs) != 1 {
					return true
				}
				if id, ok := as.Lhs[0].(*ast.Ident); ok && info.Defs[id] == info.Uses[a] {
					if call, ok := as.Rhs[0].(*ast.CallExpr); ok {
						if f := callee(info, call); f != nil && f.Pkg() != nil && f.Pkg().Path() == "regexp" && f.Name() == "FindString" {
							matchedOK = true
						}
					}
				}
				return true
			})
		case *ast.CallExpr:
			// string(token): the literal text of a fixed token
			if tv, ok := info.Types[a.Fun]; ok && tv.IsType() {
				matchedOK = true
			}
		}
		r.Check(matchedOK, rule, bd.name, "advances by the matched text", c.pos(advCalls[0].Pos()), "the handler advances by something other than the text the pattern matched")
		// start before, end after
		var startPos, endPos token.Pos
		ast.Inspect(bd.b, func(nd ast.Node) bool {
			as, ok := nd.(*ast.AssignStmt)
			if !ok || len(as.Lhs) != 1 || len(as.Rhs) != 1 || fieldOf(info, as.Rhs[0]) != posField {
				return true
			}
			if id, ok := as.Lhs[0].(*ast.Ident); ok {
				if id.Name == "start" {
					startPos = as.Pos()
				}
				if id.Name == "end" {
					endPos = as.Pos()
				}
			}
			return true
		})
		if startPos.IsValid() || endPos.IsValid() { // skipHandler records no positions
			r.Check(startPos.IsValid() && endPos.IsValid() && startPos < advCalls[0].Pos() && advCalls[0].Pos() < endPos, rule, bd.name, "start taken before and end after the advance", c.pos(bd.pos),
				"token start/end positions are not taken around the advance: diagnostics point at the wrong text")
		}
	}
	r.Floor(rule, len(bodies), 6, "lexer handlers")
	// Position.Advance: Index advances by the decoded size / a constant 1 per byte case, never by len(string(rune))
	pa := c.LookupFn(pkgSource, "(*Position).Advance")
	idx := c.fieldObj(pkgSource, "Position", "Index")
	if r.Anchor(rule, pa != nil && idx != nil, "source.Position.Advance / Index") {
		info := pa.Info()
		bad := ""
		n := 0
		ast.Inspect(pa.Decl.Body, func(nd ast.Node) bool {
			switch x := nd.(type) {
			case *ast.IncDecStmt:
				if fieldOf(info, x.X) == idx {
					n++
				}
			case *ast.AssignStmt:
				for i, l := range x.Lhs {
					if fieldOf(info, l) != idx || i >= len(x.Rhs) {
						continue
					}
					n++
					// forbidden: len(string(<rune>)) / utf8.RuneLen(<rune>)
					ast.Inspect(x.Rhs[i], func(y ast.Node) bool {
						call, ok := y.(*ast.CallExpr)
						if !ok {
							return true
						}
						if id, ok := ast.Unparen(call.Fun).(*ast.Ident); ok && id.Name == "len" && len(call.Args) == 1 {
							if conv, ok := ast.Unparen(call.Args[0]).(*ast.CallExpr); ok {
								if tv, ok := info.Types[conv.Fun]; ok && tv.IsType() {
									bad = "len(" + exprStr(call.Args[0]) + ")"
								}
							}
						}
						if f := callee(info, call); f != nil && f.Pkg() != nil && f.Pkg().Path() == "unicode/utf8" && f.Name() == "RuneLen" {
							bad = "utf8.RuneLen"
						}
						return true
					})
				}
			}
			return true
		})
		r.Check(bad == "" && n >= 2, rule, pa.Name(), "Index advances by bytes consumed", c.pos(pa.Decl.Pos()), "the byte index is advanced by the re-encoded length of a decoded rune ("+bad+"): an invalid byte counts 3 although it occupied 1, so later positions drift")
	}
	// the lexer's fallback advances by a slice of the input, not by string(byte)
	tok := c.LookupFn(pkgLexer, "(*Lexer).Tokenize")
	if r.Anchor(rule, tok != nil, "Lexer.Tokenize") {
		info := tok.Info()
		bad := false
		for _, cl := range callsIn(tok.Decl.Body, false) {
			if !isCallTo(info, cl, adv.Obj) {
				continue
			}
			if conv, ok := ast.Unparen(cl.Args[0]).(*ast.CallExpr); ok {
				if tv, ok := info.Types[conv.Fun]; ok && tv.IsType() && len(conv.Args) == 1 {
					if b, ok := info.TypeOf(conv.Args[0]).Underlying().(*types.Basic); ok && (b.Kind() == types.Byte || b.Kind() == types.Uint8 || b.Kind() == types.Rune || b.Kind() == types.Int32) {
						bad = true
					}
				}
			}
		}
		r.Check(!bad, rule, tok.Name(), "fallback advances by input bytes", c.pos(tok.Decl.Pos()), "string(byte) re-encodes a byte >= 0x80 as two bytes: the character after a stray byte is skipped")
	}
	_ = sort.Strings
}
