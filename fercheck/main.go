// fercheck: repository-specific static checks for the Ferret compiler (see /verif/DESIGN.md).
// Nothing here executes code from /repo: the Go sources are loaded and type-checked with
// go/packages, the C runtime is parsed by clang (AST dump only).
package main

import (
	"flag"
	"fmt"
	"os"
	"path/filepath"
	"runtime/debug"
	"sort"
	"time"
)

type ruleFn func(c *Ctx, r *Report)

type propSpec struct {
	Explanation string
	Quick       []ruleFn
	Thorough    []ruleFn // run in addition to Quick in the thorough tier
	Trusted     []string
	Assumptions []string
}

var props = map[string]*propSpec{}

func register(id string, s *propSpec) { props[id] = s }

var baseTrusted = []string{"go/types, go/packages (go1.26.8)", "golang.org/x/tools v0.50.0 go/cfg, go/ssa, callgraph/vta", "oracle tables written into the checker", "reading of the property into clauses (DESIGN.md §3)"}

// lateInits run after every init(): cross-property aliases that need all properties registered.
var lateInits []func()

func main() {
	for _, f := range lateInits {
		f()
	}
	prop := flag.String("property", "", "property id (C01..C20) or 'all'")
	tier := flag.String("tier", "quick", "quick|thorough")
	repo := flag.String("repo", "/repo", "repository root")
	verif := flag.String("verif", "/verif", "verif root (evidence, known findings, fixtures)")
	list := flag.Bool("list", false, "list properties")
	flag.Parse()
	if *list {
		var ids []string
		for k := range props {
			ids = append(ids, k)
		}
		sort.Strings(ids)
		for _, k := range ids {
			fmt.Println(k)
		}
		return
	}
	start := time.Now()
	var ids []string
	if *prop == "all" {
		for k := range props {
			ids = append(ids, k)
		}
		sort.Strings(ids)
	} else {
		if props[*prop] == nil {
			fmt.Fprintf(os.Stderr, "unknown property %q\n", *prop)
			os.Exit(2)
		}
		ids = []string{*prop}
	}
	known, err := loadKnown(filepath.Join(*verif, "known_findings.json"))
	if err != nil {
		fmt.Println("cannot read known_findings.json:", err)
		os.Exit(2)
	}
	c, err := loadRepo(*repo, nil)
	if err != nil {
		// A tree that does not load cannot be analysed; report as a violation of every asked property.
		for _, id := range ids {
			fmt.Printf("VIOLATION property=%s replay=%s\n  load failed: %v\n", id, filepath.Join(*verif, "evidence", id+".json"), err)
		}
		os.Exit(1)
	}
	c.Tier = *tier
	c.cache["verif"] = *verif
	fmt.Printf("loaded %d packages of module %q from %s (%.1fs)\n", len(c.Pkgs), Mod, *repo, time.Since(start).Seconds())
	exit := 0
	var c2 *Ctx
	var err2 error
	for _, id := range ids {
		spec := props[id]
		pstart := time.Now()
		if len(ids) == 1 {
			pstart = start
		}
		r := newReport(id, *tier)
		rules := append([]ruleFn{}, spec.Quick...)
		if *tier == "thorough" {
			rules = append(rules, spec.Thorough...)
		}
		for _, f := range rules {
			runRule(f, c, r)
		}
		if *tier == "thorough" {
			// second build configuration: the files behind `js && wasm` / `!cgo` tags (main_wasm.go,
			// embedded_builtins_wasm.go, qbe_nocgo.go). Same rules, same obligation keys: an obligation that
			// exists only there is added, one that fails in either configuration fails.
			if c2 == nil {
				c2, err2 = loadRepo(*repo, []string{"GOOS=js", "GOARCH=wasm", "CGO_ENABLED=0"})
				if err2 == nil {
					c2.Tier = *tier
					c2.cache["verif"] = *verif
				}
			}
			if err2 != nil {
				r.Fail("engine", "load", "GOOS=js GOARCH=wasm configuration", "-", "the js/wasm build configuration does not load: "+err2.Error())
			} else {
				r.Note("thorough: rules also run on the GOOS=js GOARCH=wasm CGO_ENABLED=0 configuration (%d packages)", len(c2.Pkgs))
				for _, f := range rules {
					runRule(f, c2, r)
				}
			}
		}
		code := r.finish(*verif, known, pstart, append(append([]string{}, baseTrusted...), spec.Trusted...), spec.Assumptions, spec.Explanation)
		if code > exit {
			exit = code
		}
	}
	os.Exit(exit)
}

// runRule converts a panic inside a rule into a failed obligation (never a silent pass).
func runRule(f ruleFn, c *Ctx, r *Report) {
	defer func() {
		if e := recover(); e != nil {
			r.Fail("engine", "panic", fmt.Sprint(e), "-", "checker rule panicked: "+fmt.Sprint(e)+"\n"+string(debug.Stack()))
		}
	}()
	f(c, r)
}
