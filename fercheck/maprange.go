package main

import (
	"go/ast"
	"go/token"
	"go/types"
	"strings"
)

// A6: map-iteration classifier. Go randomises map iteration order, so a `range` over a map whose
// body's effect depends on the order makes the compiler's output differ between two runs on the
// same input. Every such loop is classified from its AST:
//
//	keyed      the body only writes map/set entries, deletes, or fields of the ranged value
//	fold       commutative accumulation (counter, max/min, bool any/all with constant result)
//	sorted     values are appended to a slice that is sorted before any other use
//	sensitive  anything else (appends to an escaping slice, writes output, returns a loop value, calls)
type mapRangeSite struct {
	Fn    *Fn
	Stmt  *ast.RangeStmt
	Class string
	Why   string
	Key   string // function | ranged expression
}

func isMapType(t types.Type) bool {
	if t == nil {
		return false
	}
	_, ok := t.Underlying().(*types.Map)
	return ok
}

func findMapRanges(c *Ctx, pkgFilter func(rel string) bool) []*mapRangeSite {
	var out []*mapRangeSite
	for _, p := range c.Pkgs {
		rel := strings.TrimPrefix(p.PkgPath, Mod+"/")
		if p.PkgPath == Mod {
			rel = "."
		}
		if pkgFilter != nil && !pkgFilter(rel) {
			continue
		}
		for _, fn := range c.AllFns(rel) {
			info := fn.Info()
			ast.Inspect(fn.Decl.Body, func(n ast.Node) bool {
				rs, ok := n.(*ast.RangeStmt)
				if !ok || !isMapType(info.TypeOf(rs.X)) {
					return true
				}
				s := &mapRangeSite{Fn: fn, Stmt: rs, Key: fn.Name() + " | range " + exprStr(rs.X)}
				s.Class, s.Why = classifyMapRange(c, fn, rs)
				out = append(out, s)
				return true
			})
		}
	}
	return out
}

type mrCtx struct {
	c           *Ctx
	fn          *Fn
	info        *types.Info
	rs          *ast.RangeStmt
	keyObj      types.Object
	valObj      types.Object
	appended    map[types.Object]bool // slices appended to in the body
	locals      map[types.Object]bool // variables declared inside the loop body
	why         string
	conds       []ast.Expr
	appendedSel map[string]bool
}

func classifyMapRange(c *Ctx, fn *Fn, rs *ast.RangeStmt) (string, string) {
	m := &mrCtx{c: c, fn: fn, info: fn.Info(), rs: rs, appended: map[types.Object]bool{}, locals: map[types.Object]bool{}}
	if id, ok := rs.Key.(*ast.Ident); ok && id.Name != "_" {
		m.keyObj = m.info.Defs[id]
		if m.keyObj == nil {
			m.keyObj = m.info.Uses[id]
		}
	}
	if id, ok := rs.Value.(*ast.Ident); ok && id.Name != "_" {
		m.valObj = m.info.Defs[id]
		if m.valObj == nil {
			m.valObj = m.info.Uses[id]
		}
	}
	ast.Inspect(rs.Body, func(n ast.Node) bool {
		switch x := n.(type) {
		case *ast.AssignStmt:
			if x.Tok == token.DEFINE {
				for _, l := range x.Lhs {
					if id, ok := l.(*ast.Ident); ok {
						if o := m.info.Defs[id]; o != nil {
							m.locals[o] = true
						}
					}
				}
			}
		case *ast.ValueSpec:
			for _, id := range x.Names {
				if o := m.info.Defs[id]; o != nil {
					m.locals[o] = true
				}
			}
		case *ast.RangeStmt:
			for _, e := range []ast.Expr{x.Key, x.Value} {
				if id, ok := e.(*ast.Ident); ok {
					if o := m.info.Defs[id]; o != nil {
						m.locals[o] = true
					}
				}
			}
		}
		return true
	})
	kind := "keyed"
	for _, st := range rs.Body.List {
		k := m.stmt(st)
		kind = mergeKind(kind, k)
		if kind == "sensitive" {
			return "sensitive", m.why
		}
	}
	for sel := range m.appendedSel {
		if !m.sortedAfterExpr(sel) {
			return "sensitive", "appends to " + sel + " which is used without being sorted first"
		}
	}
	if len(m.appendedSel) > 0 && len(m.appended) == 0 {
		return "sorted", "collects into a slice that is sorted before use"
	}
	if len(m.appended) > 0 {
		// every appended slice must be sorted after the loop before any other use
		for obj := range m.appended {
			if !m.sortedAfter(obj) {
				return "sensitive", "appends to " + obj.Name() + " which is used without being sorted first"
			}
		}
		return "sorted", "collects into a slice that is sorted before use"
	}
	return kind, ""
}

func mergeKind(a, b string) string {
	if a == "sensitive" || b == "sensitive" {
		return "sensitive"
	}
	if a == "fold" || b == "fold" {
		return "fold"
	}
	return "keyed"
}

func (m *mrCtx) sens(why string, n ast.Node) string {
	if m.why == "" {
		m.why = why + " at " + m.c.pos(n.Pos())
	}
	return "sensitive"
}

// pureExpr: expression without calls that could have order-dependent effects. Calls to methods /
// functions are allowed only when they are known pure readers (len, type conversions, Equals, String,
// map lookups, strings.* predicates).
func (m *mrCtx) pureExpr(e ast.Expr) bool {
	ok := true
	inspectShallow(e, func(n ast.Node) bool {
		call, isCall := n.(*ast.CallExpr)
		if !isCall {
			if _, isLit := n.(*ast.FuncLit); isLit {
				ok = false
			}
			return ok
		}
		if tv, found := m.info.Types[call.Fun]; found && tv.IsType() {
			return true
		}
		if id, isId := ast.Unparen(call.Fun).(*ast.Ident); isId {
			if b, isB := m.info.Uses[id].(*types.Builtin); isB {
				switch b.Name() {
				case "len", "cap", "min", "max", "make", "new":
					return true
				}
				ok = false
				return false
			}
		}
		f := callee(m.info, call)
		if f == nil {
			ok = false
			return false
		}
		if m.pureCallee(f) {
			return true
		}
		ok = false
		return false
	})
	return ok
}

func (m *mrCtx) pureCallee(f *types.Func) bool {
	if f.Pkg() == nil {
		return false
	}
	switch f.Pkg().Path() {
	case "strings":
		switch f.Name() {
		case "HasPrefix", "HasSuffix", "Contains", "TrimPrefix", "TrimSuffix", "ToLower", "ToUpper", "TrimSpace", "Index", "EqualFold":
			return true
		}
	case "path/filepath":
		switch f.Name() {
		case "ToSlash", "Base", "Dir", "Clean", "Ext":
			return true
		}
	case "fmt":
		return f.Name() == "Sprintf" || f.Name() == "Sprint"
	}
	// repository readers: side-effect-free by inspection of their SSA-free AST: no assignment to
	// non-local state, no calls except other pure callees (depth 2).
	if fn := m.c.FnOf(f); fn != nil {
		return m.c.isPureFn(fn, 3)
	}
	// reader methods of the repository's interfaces (types.SemType, hir/ast nodes)
	if sig := f.Type().(*types.Signature); sig.Recv() != nil && strings.HasPrefix(f.Pkg().Path(), Mod+"/") {
		switch f.Name() {
		case "Equals", "String", "Size", "Loc", "IsConstant", "Unwrap":
			return true
		}
	}
	return false
}

// isPureFn: the function assigns only to its own locals and calls only pure functions.
func (c *Ctx) isPureFn(fn *Fn, depth int) bool {
	key := "pure:" + fn.Obj.FullName()
	if v, ok := c.cache[key]; ok {
		return v.(bool)
	}
	if depth == 0 {
		return false
	}
	c.cache[key] = true // greatest fixpoint: a self-recursive reader is pure if the rest of its body is
	info := fn.Info()
	locals := map[types.Object]bool{}
	sig := fn.Obj.Type().(*types.Signature)
	for i := 0; i < sig.Params().Len(); i++ {
		locals[sig.Params().At(i)] = true
	}
	for i := 0; i < sig.Results().Len(); i++ {
		locals[sig.Results().At(i)] = true
	}
	ast.Inspect(fn.Decl.Body, func(n ast.Node) bool {
		if id, ok := n.(*ast.Ident); ok {
			if o := info.Defs[id]; o != nil {
				locals[o] = true
			}
		}
		return true
	})
	pure := true
	ast.Inspect(fn.Decl.Body, func(n ast.Node) bool {
		if !pure {
			return false
		}
		switch x := n.(type) {
		case *ast.AssignStmt:
			for _, l := range x.Lhs {
				id, ok := ast.Unparen(l).(*ast.Ident)
				if !ok {
					pure = false // writes through field / index / pointer
					return false
				}
				if id.Name == "_" {
					continue
				}
				o := info.Uses[id]
				if o == nil {
					o = info.Defs[id]
				}
				if !locals[o] {
					pure = false
				}
			}
		case *ast.IncDecStmt:
			id, ok := ast.Unparen(x.X).(*ast.Ident)
			if !ok || !locals[info.Uses[id]] {
				pure = false
			}
		case *ast.GoStmt, *ast.SendStmt, *ast.DeferStmt:
			pure = false
		case *ast.CallExpr:
			if tv, found := info.Types[x.Fun]; found && tv.IsType() {
				return true
			}
			if id, isId := ast.Unparen(x.Fun).(*ast.Ident); isId {
				if b, isB := info.Uses[id].(*types.Builtin); isB {
					switch b.Name() {
					case "len", "cap", "min", "max", "make", "new", "append", "copy":
						return true
					}
					pure = false
					return false
				}
			}
			f := callee(info, x)
			if f == nil {
				pure = false
				return false
			}
			if f.Pkg() != nil && (f.Pkg().Path() == "strings" || f.Pkg().Path() == "path/filepath" || f.Pkg().Path() == "strconv" || f.Pkg().Path() == "unicode" || f.Pkg().Path() == "unicode/utf8") {
				return true
			}
			if f.Pkg() != nil && f.Pkg().Path() == "fmt" && strings.HasPrefix(f.Name(), "Sprint") {
				return true
			}
			if callee := c.FnOf(f); callee != nil {
				if !c.isPureFn(callee, depth-1) {
					pure = false
				}
				return pure
			}
			// interface method of the repository's type interfaces: Equals/String/Size/Loc are readers
			if sig := f.Type().(*types.Signature); sig.Recv() != nil {
				switch f.Name() {
				case "Equals", "String", "Size", "Loc", "Error", "IsConstant", "Unwrap":
					return true
				}
			}
			pure = false
		}
		return pure
	})
	c.cache[key] = pure
	return pure
}

func (m *mrCtx) stmt(s ast.Stmt) string {
	switch st := s.(type) {
	case *ast.EmptyStmt:
		return "keyed"
	case *ast.BranchStmt:
		if st.Tok == token.CONTINUE {
			return "keyed"
		}
		if st.Tok == token.BREAK {
			return m.sens("break out of a map range (which entry stops the loop depends on order)", st)
		}
		return m.sens("goto/fallthrough", st)
	case *ast.BlockStmt:
		k := "keyed"
		for _, x := range st.List {
			k = mergeKind(k, m.stmt(x))
		}
		return k
	case *ast.IfStmt:
		if st.Init != nil {
			if k := m.stmt(st.Init); k == "sensitive" {
				return k
			}
		}
		if !m.pureExpr(st.Cond) {
			return m.sens("condition with a call of unknown effect", st.Cond)
		}
		m.conds = append(m.conds, st.Cond)
		k := m.stmt(st.Body)
		m.conds = m.conds[:len(m.conds)-1]
		if st.Else != nil {
			k = mergeKind(k, m.stmt(st.Else))
		}
		return k
	case *ast.ForStmt:
		if st.Init != nil {
			if m.stmt(st.Init) == "sensitive" {
				return "sensitive"
			}
		}
		if st.Cond != nil && !m.pureExpr(st.Cond) {
			return m.sens("loop condition with a call of unknown effect", st.Cond)
		}
		if st.Post != nil {
			if m.stmt(st.Post) == "sensitive" {
				return "sensitive"
			}
		}
		return m.innerLoop(st.Body)
	case *ast.RangeStmt:
		if !m.pureExpr(st.X) {
			return m.sens("range operand with a call of unknown effect", st.X)
		}
		if isMapType(m.info.TypeOf(st.X)) {
			// nested map range is classified on its own; its effect on us is its own class
		}
		return m.innerLoop(st.Body)
	case *ast.DeclStmt:
		return "keyed"
	case *ast.SwitchStmt, *ast.TypeSwitchStmt:
		var body *ast.BlockStmt
		if sw, ok := st.(*ast.SwitchStmt); ok {
			if sw.Init != nil && m.stmt(sw.Init) == "sensitive" {
				return "sensitive"
			}
			if sw.Tag != nil && !m.pureExpr(sw.Tag) {
				return m.sens("switch tag with a call of unknown effect", sw.Tag)
			}
			body = sw.Body
		} else {
			body = st.(*ast.TypeSwitchStmt).Body
		}
		k := "keyed"
		for _, cc := range caseClauses(body) {
			for _, x := range cc.Body {
				k = mergeKind(k, m.stmtInner(x))
			}
		}
		return k
	case *ast.IncDecStmt:
		return m.assignTarget(st.X, true, st)
	case *ast.ReturnStmt:
		for _, r := range st.Results {
			if tv, ok := m.info.Types[r]; ok && (tv.Value != nil || tv.IsNil()) {
				continue
			}
			return m.sens("returns a loop-dependent value from inside a map range (first match wins; order decides which)", st)
		}
		return "fold"
	case *ast.ExprStmt:
		call, ok := st.X.(*ast.CallExpr)
		if !ok {
			return m.sens("expression statement", st)
		}
		if id, ok := ast.Unparen(call.Fun).(*ast.Ident); ok {
			if b, ok := m.info.Uses[id].(*types.Builtin); ok && b.Name() == "delete" {
				return "keyed"
			}
		}
		if f := callee(m.info, call); f != nil {
			if fn := m.c.FnOf(f); fn != nil && m.c.isKeyedWriter(fn, 2) {
				for _, a := range call.Args {
					if !m.pureExpr(a) {
						return m.sens("argument with a call of unknown effect", a)
					}
				}
				return "keyed"
			}
		}
		return m.sens("call "+exprStr(call.Fun)+" with possible order-dependent effect (output, diagnostics, emission)", st)
	case *ast.AssignStmt:
		k := "keyed"
		for i, l := range st.Lhs {
			var rhs ast.Expr
			if len(st.Rhs) == len(st.Lhs) {
				rhs = st.Rhs[i]
			} else if len(st.Rhs) == 1 {
				rhs = st.Rhs[0]
			}
			// x = append(x, ...)
			if call, ok := ast.Unparen(rhs).(*ast.CallExpr); ok && rhs != nil {
				if id, ok := ast.Unparen(call.Fun).(*ast.Ident); ok {
					if b, ok := m.info.Uses[id].(*types.Builtin); ok && b.Name() == "append" {
						lid, lok := ast.Unparen(l).(*ast.Ident)
						if lok && len(call.Args) >= 1 && usesSameObj(m.info, call.Args[0], lid) {
							o := m.info.Uses[lid]
							if o == nil {
								o = m.info.Defs[lid]
							}
							if m.locals[o] {
								continue // slice local to one iteration
							}
							for _, a := range call.Args[1:] {
								if !m.pureExpr(a) {
									return m.sens("append argument with a call of unknown effect", a)
								}
							}
							m.appended[o] = true
							continue
						}
						// x.F = append(x.F, ...): accepted when x.F is sorted right after the loop
						if sel, ok := ast.Unparen(l).(*ast.SelectorExpr); ok && len(call.Args) >= 1 && exprStr(call.Args[0]) == exprStr(sel) {
							for _, a := range call.Args[1:] {
								if !m.pureExpr(a) {
									return m.sens("append argument with a call of unknown effect", a)
								}
							}
							if m.appendedSel == nil {
								m.appendedSel = map[string]bool{}
							}
							m.appendedSel[exprStr(sel)] = true
							continue
						}
						return m.sens("append into a non-local place", st)
					}
				}
			}
			if rhs != nil && !m.pureExpr(rhs) {
				return m.sens("assignment from a call of unknown effect", rhs)
			}
			fold := st.Tok != token.ASSIGN && st.Tok != token.DEFINE
			tk := m.assignTarget(l, fold, st)
			if strings.HasPrefix(tk, "foldassign:") {
				tk = m.foldAssign(l, rhs, st)
			}
			k = mergeKind(k, tk)
		}
		return k
	}
	return m.sens("statement kind not recognised as order-insensitive", s)
}

// foldAssign: `outer = rhs` inside a map range is order-insensitive when rhs is a constant (flag)
// or when it is a running max/min: guarded by a comparison between rhs and outer.
func (m *mrCtx) foldAssign(l, rhs ast.Expr, at ast.Node) string {
	if rhs != nil {
		if tv, ok := m.info.Types[rhs]; ok && (tv.Value != nil || tv.IsNil()) {
			return "fold"
		}
		lid := ast.Unparen(l).(*ast.Ident)
		for _, c := range m.conds {
			var atoms []ast.Expr
			for _, cj := range conjuncts(c) {
				atoms = append(atoms, disjuncts(cj)...)
			}
			for _, cj := range atoms {
				if b, ok := isBinOp(cj, token.LSS, token.GTR, token.LEQ, token.GEQ); ok {
					xs, ys := exprStr(b.X), exprStr(b.Y)
					if (xs == exprStr(rhs) && ys == lid.Name) || (ys == exprStr(rhs) && xs == lid.Name) {
						return "fold"
					}
					// min/max by a key projection: rhs.K < outer.K
					rs := exprStr(rhs)
					if strings.ReplaceAll(xs, rs, "$") == strings.ReplaceAll(ys, lid.Name, "$") && strings.Contains(xs, rs) ||
						strings.ReplaceAll(ys, rs, "$") == strings.ReplaceAll(xs, lid.Name, "$") && strings.Contains(ys, rs) {
						return "fold"
					}
				}
			}
		}
	}
	return m.sens("plain assignment to outer variable "+exprStr(l)+" (last iteration wins; order decides)", at)
}

func usesSameObj(info *types.Info, e ast.Expr, id *ast.Ident) bool {
	eid, ok := ast.Unparen(e).(*ast.Ident)
	if !ok {
		return false
	}
	a, b := info.Uses[eid], info.Uses[id]
	if b == nil {
		b = info.Defs[id]
	}
	return a != nil && a == b
}

func (m *mrCtx) innerLoop(body *ast.BlockStmt) string {
	k := "keyed"
	for _, x := range body.List {
		if br, ok := x.(*ast.BranchStmt); ok && br.Tok == token.BREAK {
			continue // breaks the inner loop only
		}
		k = mergeKind(k, m.stmtInner(x))
	}
	return k
}

// stmtInner is stmt, except that `break` refers to the inner loop.
func (m *mrCtx) stmtInner(s ast.Stmt) string {
	switch st := s.(type) {
	case *ast.BranchStmt:
		if st.Tok == token.BREAK && st.Label == nil {
			return "keyed"
		}
	case *ast.IfStmt:
		if st.Init != nil {
			if k := m.stmt(st.Init); k == "sensitive" {
				return k
			}
		}
		if !m.pureExpr(st.Cond) {
			return m.sens("condition with a call of unknown effect", st.Cond)
		}
		k := "keyed"
		for _, x := range st.Body.List {
			k = mergeKind(k, m.stmtInner(x))
		}
		if st.Else != nil {
			k = mergeKind(k, m.stmtInner(st.Else))
		}
		return k
	case *ast.BlockStmt:
		k := "keyed"
		for _, x := range st.List {
			k = mergeKind(k, m.stmtInner(x))
		}
		return k
	}
	return m.stmt(s)
}

// assignTarget classifies a write to l.
func (m *mrCtx) assignTarget(l ast.Expr, compound bool, at ast.Node) string {
	l = ast.Unparen(l)
	switch x := l.(type) {
	case *ast.Ident:
		if x.Name == "_" {
			return "keyed"
		}
		o := m.info.Uses[x]
		if o == nil {
			o = m.info.Defs[x]
		}
		if m.locals[o] || o == m.keyObj || o == m.valObj {
			return "keyed"
		}
		// write to a variable living outside the loop
		if compound {
			if b, ok := o.Type().Underlying().(*types.Basic); ok && b.Info()&(types.IsInteger|types.IsBoolean) != 0 {
				return "fold" // n += c / n++ on integers commutes
			}
			return m.sens("compound assignment to non-integer outer variable "+x.Name+" (string/float accumulation depends on order)", at)
		}
		// plain assignment of an outer variable: constant (flag) or guarded max/min
		return "foldassign:" + x.Name
	case *ast.IndexExpr:
		if isMapType(m.info.TypeOf(x.X)) {
			return "keyed"
		}
		return m.sens("write to a slice/array element inside a map range", at)
	case *ast.SelectorExpr:
		// field of the ranged value / of a loop-local: keyed by the entry
		root := rootIdent(x)
		if root != nil {
			o := m.info.Uses[root]
			if m.locals[o] || o == m.valObj || o == m.keyObj {
				return "keyed"
			}
		}
		return m.sens("write to field "+exprStr(x)+" of an object living outside the loop", at)
	case *ast.StarExpr:
		return m.sens("write through pointer", at)
	}
	return m.sens("unrecognised assignment target", at)
}

func rootIdent(e ast.Expr) *ast.Ident {
	for {
		switch x := ast.Unparen(e).(type) {
		case *ast.Ident:
			return x
		case *ast.SelectorExpr:
			e = x.X
		case *ast.IndexExpr:
			e = x.X
		case *ast.StarExpr:
			e = x.X
		case *ast.CallExpr:
			return nil
		default:
			return nil
		}
	}
}

// sortedAfter: in the statements following the range loop (same block), the first use of obj is as
// the argument of a sort call.
func (m *mrCtx) sortedAfter(obj types.Object) bool {
	// find the enclosing block statement list containing the range
	var list []ast.Stmt
	ast.Inspect(m.fn.Decl.Body, func(n ast.Node) bool {
		var l []ast.Stmt
		switch b := n.(type) {
		case *ast.BlockStmt:
			l = b.List
		case *ast.CaseClause:
			l = b.Body
		}
		for i, s := range l {
			if s == ast.Stmt(m.rs) {
				list = l[i+1:]
				return false
			}
		}
		return true
	})
	for _, s := range list {
		if !mentionsVar(m.info, s, obj) {
			continue
		}
		// first mention: must be a sort call on obj
		isSort := false
		inspectShallow(s, func(n ast.Node) bool {
			call, ok := n.(*ast.CallExpr)
			if !ok || len(call.Args) == 0 || !mentionsVar(m.info, call.Args[0], obj) {
				return true
			}
			if f := callee(m.info, call); f != nil && f.Pkg() != nil {
				switch f.Pkg().Path() {
				case "sort":
					switch f.Name() {
					case "Strings", "Ints", "Slice", "SliceStable", "Sort", "Stable":
						isSort = true
					}
				case "slices":
					if strings.HasPrefix(f.Name(), "Sort") {
						isSort = true
					}
				default:
					if fn := m.c.FnOf(f); fn != nil && fn.Obj.Name() == "sortStrings" && m.c.isSelectionSort(fn) {
						isSort = true
					}
				}
			}
			return true
		})
		return isSort
	}
	return false // never used again in this block: may escape through an enclosing construct
}

// isSelectionSort accepts the repository's own helper `sortStrings` only while it has the shape of
// an in-place comparison sort: two nested index loops and a conditional swap on `<`/`>`.
func (c *Ctx) isSelectionSort(fn *Fn) bool {
	loops, swaps := 0, 0
	ast.Inspect(fn.Decl.Body, func(n ast.Node) bool {
		switch x := n.(type) {
		case *ast.ForStmt:
			loops++
		case *ast.AssignStmt:
			if len(x.Lhs) == 2 && len(x.Rhs) == 2 {
				swaps++
			}
		}
		return true
	})
	return loops == 2 && swaps == 1
}

// isKeyedWriter: the function's only effects are writes to map entries (m[k] = v, delete(m,k)),
// lazy initialisation of such maps, and calls to other keyed writers or pure functions. Calling
// it once per map entry with distinct keys commutes.
func (c *Ctx) isKeyedWriter(fn *Fn, depth int) bool {
	key := "keyedw:" + fn.Obj.FullName()
	if v, ok := c.cache[key]; ok {
		return v.(bool)
	}
	if depth == 0 {
		return false
	}
	c.cache[key] = true
	info := fn.Info()
	locals := map[types.Object]bool{}
	ast.Inspect(fn.Decl.Body, func(n ast.Node) bool {
		if id, ok := n.(*ast.Ident); ok {
			if o := info.Defs[id]; o != nil {
				locals[o] = true
			}
		}
		return true
	})
	ok := true
	ast.Inspect(fn.Decl.Body, func(n ast.Node) bool {
		if !ok {
			return false
		}
		switch x := n.(type) {
		case *ast.AssignStmt:
			for i, l := range x.Lhs {
				switch t := ast.Unparen(l).(type) {
				case *ast.Ident:
					o := info.Uses[t]
					if o == nil {
						o = info.Defs[t]
					}
					if t.Name != "_" && !locals[o] {
						ok = false
					}
				case *ast.IndexExpr:
					if !isMapType(info.TypeOf(t.X)) {
						ok = false
					}
				case *ast.SelectorExpr:
					// lazy init of a map field: x.m = make(map...)
					if i < len(x.Rhs) && isMapType(info.TypeOf(x.Rhs[i])) {
						continue
					}
					if root := rootIdent(t); root != nil && locals[info.Uses[root]] {
						continue
					}
					ok = false
				default:
					ok = false
				}
			}
		case *ast.IncDecStmt, *ast.GoStmt, *ast.SendStmt, *ast.DeferStmt:
			ok = false
		case *ast.CallExpr:
			if tv, found := info.Types[x.Fun]; found && tv.IsType() {
				return true
			}
			if id, isId := ast.Unparen(x.Fun).(*ast.Ident); isId {
				if b, isB := info.Uses[id].(*types.Builtin); isB {
					switch b.Name() {
					case "len", "cap", "make", "new", "delete", "min", "max":
						return true
					}
					ok = false
					return false
				}
			}
			f := callee(info, x)
			if f == nil {
				ok = false
				return false
			}
			if cal := c.FnOf(f); cal != nil {
				if !(c.isPureFn(cal, 3) || c.isKeyedWriter(cal, depth-1)) {
					ok = false
				}
				return ok
			}
			if f.Pkg() != nil && (f.Pkg().Path() == "strings" || f.Pkg().Path() == "fmt" && strings.HasPrefix(f.Name(), "Sprint") || f.Pkg().Path() == "fmt" && f.Name() == "Errorf") {
				return true
			}
			if sig := f.Type().(*types.Signature); sig.Recv() != nil {
				switch f.Name() {
				case "Equals", "String", "Size", "Loc":
					return true
				}
			}
			ok = false
		}
		return ok
	})
	c.cache[key] = ok
	return ok
}

// sortedAfterExpr: like sortedAfter for a selector expression (compared by its printed form). The
// range may be nested in an if; the enclosing statement lists are searched outward.
func (m *mrCtx) sortedAfterExpr(sel string) bool {
	mentions := func(n ast.Node) bool {
		found := false
		ast.Inspect(n, func(x ast.Node) bool {
			if e, ok := x.(*ast.SelectorExpr); ok && exprStr(e) == sel {
				found = true
			}
			return !found
		})
		return found
	}
	var path []ast.Node
	walkWithStack(m.fn.Decl.Body, func(n ast.Node, stack []ast.Node) bool {
		if n == ast.Node(m.rs) {
			path = append(append([]ast.Node{}, stack...), n)
			return false
		}
		return true
	})
	for i := len(path) - 2; i >= 0; i-- {
		var l []ast.Stmt
		switch b := path[i].(type) {
		case *ast.BlockStmt:
			l = b.List
		case *ast.CaseClause:
			l = b.Body
		default:
			continue
		}
		idx := -1
		for j, s := range l {
			if containsNode(s, path[i+1]) {
				idx = j
			}
		}
		if idx < 0 {
			continue
		}
		for _, s := range l[idx+1:] {
			if !mentions(s) {
				continue
			}
			isSort := false
			inspectShallow(s, func(n ast.Node) bool {
				call, ok := n.(*ast.CallExpr)
				if !ok || len(call.Args) == 0 || exprStr(call.Args[0]) != sel {
					return true
				}
				if f := callee(m.info, call); f != nil && f.Pkg() != nil {
					if f.Pkg().Path() == "sort" || f.Pkg().Path() == "slices" && strings.HasPrefix(f.Name(), "Sort") {
						isSort = true
					}
				}
				return true
			})
			return isSort
		}
	}
	return false
}
