package main

import (
	"go/ast"
	"go/token"
	"go/types"

	"golang.org/x/tools/go/cfg"
)

// A3: must-pass-through / domination on go/cfg.

func (c *Ctx) CFG(fn *Fn) *cfg.CFG {
	key := "cfg:" + fn.Obj.FullName()
	if g, ok := c.cache[key]; ok {
		return g.(*cfg.CFG)
	}
	info := fn.Info()
	g := cfg.New(fn.Decl.Body, func(call *ast.CallExpr) bool {
		if id, ok := ast.Unparen(call.Fun).(*ast.Ident); ok {
			if b, ok := info.Uses[id].(*types.Builtin); ok && b.Name() == "panic" {
				return false
			}
		}
		if f := callee(info, call); f != nil && f.Pkg() != nil {
			switch f.Pkg().Path() + "." + f.Name() {
			case "os.Exit", "log.Fatal", "log.Fatalf", "log.Fatalln", "runtime.Goexit":
				return false
			}
		}
		return true
	})
	c.cache[key] = g
	return g
}

// CFGOfLit builds a CFG for a function literal body.
func (c *Ctx) CFGOfBody(body *ast.BlockStmt) *cfg.CFG {
	return cfg.New(body, func(*ast.CallExpr) bool { return true })
}

// inspectShallow visits n without descending into function literals.
func inspectShallow(n ast.Node, f func(ast.Node) bool) {
	ast.Inspect(n, func(x ast.Node) bool {
		if _, ok := x.(*ast.FuncLit); ok {
			return false
		}
		if x == nil {
			return true
		}
		return f(x)
	})
}

// nodeCalls reports whether node n (shallow) contains a call resolving to one of fns.
func nodeCalls(info *types.Info, n ast.Node, fns ...*types.Func) *ast.CallExpr {
	var hit *ast.CallExpr
	inspectShallow(n, func(x ast.Node) bool {
		if hit != nil {
			return false
		}
		if call, ok := x.(*ast.CallExpr); ok && isCallTo(info, call, fns...) {
			hit = call
			return false
		}
		return true
	})
	return hit
}

// nodeCallsPred: contains a call satisfying pred.
func nodeCallsPred(n ast.Node, pred func(*ast.CallExpr) bool) *ast.CallExpr {
	var hit *ast.CallExpr
	inspectShallow(n, func(x ast.Node) bool {
		if hit != nil {
			return false
		}
		if call, ok := x.(*ast.CallExpr); ok && pred(call) {
			hit = call
			return false
		}
		return true
	})
	return hit
}

// FlowSpec describes a forward must-analysis: a boolean fact ("gate passed") that starts false at
// entry (or at Start nodes), becomes true after a Gate node or along a gated edge, and is
// required at Target nodes.
type FlowSpec struct {
	Gate     func(n ast.Node) bool             // node establishes the fact
	Kill     func(n ast.Node) bool             // node destroys the fact (optional)
	EdgeGate func(b *cfg.Block, succ int) bool // fact established along edge b -> b.Succs[succ]
	Target   func(n ast.Node) bool             // fact required here
	AtReturn bool                              // fact required at every return / fall-off-end
	InitTrue bool                              // fact holds at entry (use with Kill)
}

type FlowHit struct {
	Node ast.Node // offending target (or return statement / nil for fall-off-end)
	Pos  token.Pos
}

// mustFlow runs the analysis and returns the targets reachable with the fact false.
func mustFlow(g *cfg.CFG, spec FlowSpec) []FlowHit {
	n := len(g.Blocks)
	in := make([]bool, n)
	for i := range in {
		in[i] = true
	}
	if n == 0 {
		return nil
	}
	in[0] = spec.InitTrue
	preds := make([][][2]int, n) // pred block index, succ slot
	for _, b := range g.Blocks {
		for si, s := range b.Succs {
			preds[s.Index] = append(preds[s.Index], [2]int{int(b.Index), si})
		}
	}
	outOf := func(b *cfg.Block, start bool) bool {
		cur := start
		for _, nd := range b.Nodes {
			if spec.Kill != nil && spec.Kill(nd) {
				cur = false
			}
			if spec.Gate != nil && spec.Gate(nd) {
				cur = true
			}
		}
		return cur
	}
	changed := true
	for iter := 0; changed && iter < 1000; iter++ {
		changed = false
		for _, b := range g.Blocks {
			if !b.Live {
				continue
			}
			if b.Index == 0 {
				continue
			}
			v := true
			any := false
			for _, p := range preds[b.Index] {
				pb := g.Blocks[p[0]]
				if !pb.Live {
					continue
				}
				any = true
				o := outOf(pb, in[pb.Index])
				if spec.EdgeGate != nil && spec.EdgeGate(pb, p[1]) {
					o = true
				}
				v = v && o
			}
			if !any {
				v = true
			}
			if v != in[b.Index] {
				in[b.Index] = v
				changed = true
			}
		}
	}
	var hits []FlowHit
	for _, b := range g.Blocks {
		if !b.Live {
			continue
		}
		cur := in[b.Index]
		for _, nd := range b.Nodes {
			if spec.Target != nil && spec.Target(nd) && !cur {
				hits = append(hits, FlowHit{Node: nd, Pos: nd.Pos()})
			}
			if spec.Kill != nil && spec.Kill(nd) {
				cur = false
			}
			if spec.Gate != nil && spec.Gate(nd) {
				cur = true
			}
			if spec.AtReturn {
				if rs, ok := nd.(*ast.ReturnStmt); ok && !cur {
					hits = append(hits, FlowHit{Node: rs, Pos: rs.Pos()})
				}
			}
		}
		if spec.AtReturn && len(b.Succs) == 0 && !cur {
			// block without successors that does not end in a return: fall off end (or panic)
			endsInReturn := false
			if len(b.Nodes) > 0 {
				_, endsInReturn = b.Nodes[len(b.Nodes)-1].(*ast.ReturnStmt)
			}
			if !endsInReturn && b.Kind != cfg.KindUnreachable && !blockEndsInNoReturn(b) {
				hits = append(hits, FlowHit{Node: nil, Pos: token.NoPos})
			}
		}
	}
	return hits
}

func blockEndsInNoReturn(b *cfg.Block) bool {
	if len(b.Nodes) == 0 {
		return false
	}
	if es, ok := b.Nodes[len(b.Nodes)-1].(*ast.ExprStmt); ok {
		if call, ok := es.X.(*ast.CallExpr); ok {
			if id, ok := call.Fun.(*ast.Ident); ok && id.Name == "panic" {
				return true
			}
		}
	}
	return false
}

// condEdge: block b ends with condition `cond`; returns (cond, true) when b is a 2-way branch.
func condOf(b *cfg.Block) ast.Expr {
	if len(b.Succs) != 2 || len(b.Nodes) == 0 {
		return nil
	}
	e, _ := b.Nodes[len(b.Nodes)-1].(ast.Expr)
	return e
}

// stmtListReturnsOnTrue: helper for `if cond { ...; return }` gates — the then-branch of ifs
// terminates (last statement is a return), so code after the if is dominated by !cond.
func thenTerminates(ifs *ast.IfStmt) bool {
	if len(ifs.Body.List) == 0 {
		return false
	}
	switch s := ifs.Body.List[len(ifs.Body.List)-1].(type) {
	case *ast.ReturnStmt:
		return true
	case *ast.BranchStmt:
		return s.Tok == token.CONTINUE || s.Tok == token.BREAK || s.Tok == token.GOTO
	case *ast.ExprStmt:
		if call, ok := s.X.(*ast.CallExpr); ok {
			if id, ok := call.Fun.(*ast.Ident); ok && id.Name == "panic" {
				return true
			}
		}
	}
	return false
}

// mustFlowStates runs the same analysis as mustFlow and returns the fact's value immediately
// before every node.
func mustFlowStates(g *cfg.CFG, spec FlowSpec) map[ast.Node]bool {
	out := map[ast.Node]bool{}
	t := spec.Target
	spec.Target = func(n ast.Node) bool { return false }
	spec.AtReturn = false
	// reuse mustFlow's fixpoint by recording states through a Target probe: every node is a target,
	// hits are the nodes reached with the fact false.
	all := map[ast.Node]bool{}
	for _, b := range g.Blocks {
		if b.Live {
			for _, nd := range b.Nodes {
				all[nd] = true
			}
		}
	}
	spec.Target = func(n ast.Node) bool { return true }
	hits := mustFlow(g, spec)
	falseAt := map[ast.Node]bool{}
	for _, h := range hits {
		falseAt[h.Node] = true
	}
	for n := range all {
		out[n] = !falseAt[n]
	}
	_ = t
	return out
}

// mustFlowNilAware: number of exits of g reached without a gate node and without leaving through an edge accepted by edgeOK.
func mustFlowNilAware(g *cfg.CFG, gate func(ast.Node) bool, edgeOK func(cond ast.Expr, succ int) bool) int {
	hits := mustFlow(g, FlowSpec{
		Gate: gate,
		EdgeGate: func(b *cfg.Block, succ int) bool {
			cond := condOf(b)
			return cond != nil && edgeOK(cond, succ)
		},
		AtReturn: true,
	})
	return len(hits)
}
