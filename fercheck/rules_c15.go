package main

import (
	"fmt"
	"go/ast"
	"go/constant"
	"go/token"
	"go/types"
	"sort"
	"strings"

	"golang.org/x/tools/go/cfg"
)

const pkgCtx = "internal/context_v2"
const pkgPipe = "internal/pipeline"
const pkgPhase = "internal/phase"

func init() {
	register("C15", &propSpec{
		Explanation: "Structural necessary conditions of import-graph handling under all schedules: (R1) cycle check and edge insertion form one critical section under the write lock, check before insert, edge direction (imported, importer); (R2) the error of AddDependency is turned into an Error diagnostic at every call site; (R3) exactly-once scheduling shape of processModule and wg.Wait() before every sequential phase; (R4) Module.Phase is written only by SetModulePhase and the prerequisite table is a chain over all phases; (R5) topological order sorts every frontier. Does not decide the DFS / Kahn algorithms themselves.",
		Quick:       []ruleFn{c15R1, c15R2, c15R3, c15R4, c15R5},
	})
}

// isMutexCall reports a call x.<name>() where x is field `field` (a sync mutex) of the receiver.
func isMutexCall(info *types.Info, n ast.Node, field *types.Var, names ...string) bool {
	call, ok := n.(*ast.CallExpr)
	if !ok {
		return false
	}
	sel, ok := ast.Unparen(call.Fun).(*ast.SelectorExpr)
	if !ok {
		return false
	}
	f := callee(info, call)
	if f == nil || f.Pkg() == nil || f.Pkg().Path() != "sync" {
		return false
	}
	okName := false
	for _, nm := range names {
		if f.Name() == nm {
			okName = true
		}
	}
	if !okName {
		return false
	}
	return field == nil || fieldOf(info, sel.X) == field
}

// shallowHas: node (not a defer, not a func literal) contains a node satisfying pred.
func shallowHas(n ast.Node, pred func(ast.Node) bool) bool {
	if _, isDefer := n.(*ast.DeferStmt); isDefer {
		return false
	}
	found := false
	inspectShallow(n, func(x ast.Node) bool {
		if found {
			return false
		}
		if _, isDefer := x.(*ast.DeferStmt); isDefer {
			return false
		}
		if pred(x) {
			found = true
		}
		return !found
	})
	return found
}

func c15R1(c *Ctx, r *Report) {
	const rule = "C15.R1"
	r.Describe(rule, "AddDependency: cycle check and edge insertion in one write-locked critical section, check first, direction (imported, importer)")
	fn := c.LookupFn(pkgCtx, "(*CompilerContext).AddDependency")
	findCycle := c.LookupFn(pkgCtx, "(*CompilerContext).findCycle")
	mu := c.fieldObj(pkgCtx, "CompilerContext", "mu")
	dep := c.fieldObj(pkgCtx, "CompilerContext", "DepGraph")
	if !r.Anchor(rule, fn != nil && findCycle != nil && mu != nil && dep != nil, "context_v2.CompilerContext.{AddDependency,findCycle,mu,DepGraph}") {
		return
	}
	info := fn.Info()
	g := c.CFG(fn)
	isLock := func(n ast.Node) bool {
		return shallowHas(n, func(x ast.Node) bool { return isMutexCall(info, x, mu, "Lock") })
	}
	isUnlock := func(n ast.Node) bool {
		return shallowHas(n, func(x ast.Node) bool { return isMutexCall(info, x, mu, "Unlock", "RUnlock") })
	}
	isCheck := func(n ast.Node) bool {
		return shallowHas(n, func(x ast.Node) bool {
			call, ok := x.(*ast.CallExpr)
			return ok && isCallTo(info, call, findCycle.Obj)
		})
	}
	isInsert := func(n ast.Node) bool {
		as, ok := n.(*ast.AssignStmt)
		if !ok {
			return false
		}
		for _, l := range as.Lhs {
			if ix, ok := ast.Unparen(l).(*ast.IndexExpr); ok && fieldOf(info, ix.X) == dep {
				return true
			}
			if fieldOf(info, l) == dep {
				return true
			}
		}
		return false
	}
	nCheck, nInsert := 0, 0
	for _, b := range g.Blocks {
		for _, nd := range b.Nodes {
			if isCheck(nd) {
				nCheck++
			}
			if isInsert(nd) {
				nInsert++
			}
		}
	}
	r.Check(nCheck >= 1 && nInsert >= 1, rule, fn.Name(), "has cycle check and edge insertion", c.pos(fn.Decl.Pos()),
		fmt.Sprintf("found %d findCycle calls and %d DepGraph writes", nCheck, nInsert))
	// (a) both under the write lock, with no unlock in between
	hits := mustFlow(g, FlowSpec{Gate: isLock, Kill: isUnlock, Target: func(n ast.Node) bool { return isCheck(n) || isInsert(n) }})
	if len(hits) == 0 {
		r.OK(rule, fn.Name(), "check and insert hold ctx.mu (write lock)", c.pos(fn.Decl.Pos()), "every path")
	}
	for _, h := range hits {
		what := "DepGraph insertion"
		if isCheck(h.Node) {
			what = "cycle check"
		}
		r.Fail(rule, fn.Name(), what+" outside the write lock", c.pos(h.Pos),
			what+" can run without ctx.mu.Lock() held (read lock or no lock): two goroutines can both pass the check and both insert the closing edges of a cycle")
	}
	// (b) one critical section: between the check and the insertion no Unlock
	hits = mustFlow(g, FlowSpec{Gate: isCheck, Kill: isUnlock, Target: isInsert})
	if len(hits) == 0 {
		r.OK(rule, fn.Name(), "insertion follows the check without releasing the lock", c.pos(fn.Decl.Pos()), "every path")
	}
	for _, h := range hits {
		r.Fail(rule, fn.Name(), "check-then-insert not atomic", c.pos(h.Pos),
			"the edge is inserted on a path where the cycle check did not run in the same critical section (lock released between check and insert, or insert before check)")
	}
	// (c) unlock must be deferred right after Lock or be on every exit: require a `defer ctx.mu.Unlock()`
	hasDefer := false
	ast.Inspect(fn.Decl.Body, func(n ast.Node) bool {
		if d, ok := n.(*ast.DeferStmt); ok && isMutexCall(info, d.Call, mu, "Unlock") {
			hasDefer = true
		}
		return true
	})
	if !hasDefer {
		// explicit unlocking is fine when every return happens with the lock released
		held := mustFlow(g, FlowSpec{InitTrue: true, Kill: isLock, Gate: isUnlock, AtReturn: true})
		hasDefer = len(held) == 0
	}
	r.Check(hasDefer, rule, fn.Name(), "lock released on every exit", c.pos(fn.Decl.Pos()), "ctx.mu can still be held at a return (no deferred Unlock and a path without Unlock): later AddDependency calls deadlock")
	// (d) direction and error result
	importer, imported := fn.ParamNamed("importer"), fn.ParamNamed("imported")
	if r.Anchor(rule, importer != nil && imported != nil, "AddDependency(importer, imported) parameters") {
		ast.Inspect(fn.Decl.Body, func(n ast.Node) bool {
			ifs, ok := n.(*ast.IfStmt)
			if !ok {
				return true
			}
			var call *ast.CallExpr
			if as, ok := ifs.Init.(*ast.AssignStmt); ok && len(as.Rhs) == 1 {
				if cl, ok := as.Rhs[0].(*ast.CallExpr); ok && isCallTo(info, cl, findCycle.Obj) {
					call = cl
				}
			}
			if call == nil {
				return true
			}
			r.Check(len(call.Args) == 2 && usesVar(info, call.Args[0], imported) && usesVar(info, call.Args[1], importer), rule, fn.Name(),
				"findCycle(imported, importer)", c.pos(call.Pos()), "the cycle search must look for a path from the imported module back to the importer")
			// then-branch returns a non-nil error
			retErr := false
			if len(ifs.Body.List) > 0 {
				if ret, ok := ifs.Body.List[len(ifs.Body.List)-1].(*ast.ReturnStmt); ok && len(ret.Results) == 1 {
					if tv := info.Types[ret.Results[0]]; !tv.IsNil() {
						retErr = true
					}
				}
			}
			b, isNeq := isBinOp(ifs.Cond, token.NEQ)
			r.Check(retErr && isNeq && info.Types[b.Y].IsNil(), rule, fn.Name(), "cycle found => error returned", c.pos(ifs.Pos()),
				"a detected cycle must make AddDependency return a non-nil error before inserting the edge")
			return true
		})
	}
	// (e) findCycle / hasCyclePath are called only with the lock held: their only callers are AddDependency / each other
	has := c.LookupFn(pkgCtx, "(*CompilerContext).hasCyclePath")
	if r.Anchor(rule, has != nil, "hasCyclePath") {
		allowed := map[*types.Func]bool{fn.Obj: true, findCycle.Obj: true, has.Obj: true}
		for _, p := range c.Pkgs {
			for _, f := range p.Syntax {
				var cur *types.Func
				ast.Inspect(f, func(n ast.Node) bool {
					if fd, ok := n.(*ast.FuncDecl); ok {
						cur, _ = p.TypesInfo.Defs[fd.Name].(*types.Func)
					}
					if call, ok := n.(*ast.CallExpr); ok && (isCallTo(p.TypesInfo, call, findCycle.Obj) || isCallTo(p.TypesInfo, call, has.Obj)) {
						r.Check(allowed[cur], rule, funcKey(cur), "calls "+callee(p.TypesInfo, call).Name(), c.pos(call.Pos()),
							"the DepGraph walk is reachable from a function that does not hold ctx.mu")
					}
					return true
				})
			}
		}
	}
}

func c15R2(c *Ctx, r *Report) {
	const rule = "C15.R2"
	r.Describe(rule, "every AddDependency call site turns a non-nil error into an Error diagnostic — directly, or by recording the import (same importer/imported arguments) for a replay function that Run calls after wg.Wait(), that tests each recorded import for a cycle and reports it, and whose positive result makes Run return an error")
	add := c.LookupFn(pkgCtx, "(*CompilerContext).AddDependency")
	report := c.LookupFn(pkgCtx, "(*CompilerContext).ReportError")
	bagAdd := c.LookupFn("internal/diagnostics", "(*DiagnosticBag).Add")
	if !r.Anchor(rule, add != nil && report != nil && bagAdd != nil, "AddDependency / ReportError / DiagnosticBag.Add") {
		return
	}
	n := 0
	for _, p := range c.Pkgs {
		info := p.TypesInfo
		for _, fn := range c.AllFns(relOf(p.PkgPath)) {
			walkWithStack(fn.Decl.Body, func(nd ast.Node, stack []ast.Node) bool {
				call, ok := nd.(*ast.CallExpr)
				if !ok || !isCallTo(info, call, add.Obj) {
					return true
				}
				n++
				// expected idiom: if err := AddDependency(..); err != nil { ...ReportError(err.Error(), loc)... }
				okSite := false
				for i := len(stack) - 1; i >= 0; i-- {
					if ifs, ok := stack[i].(*ast.IfStmt); ok && ifs.Init != nil && containsNode(ifs.Init, call) {
						if b, isNeq := isBinOp(ifs.Cond, token.NEQ); isNeq && info.Types[b.Y].IsNil() {
							for _, cl := range callsIn(ifs.Body, false) {
								if isCallTo(info, cl, report.Obj) || isCallTo(info, cl, bagAdd.Obj) {
									okSite = true
								}
							}
						}
						break
					}
				}
				if !okSite && recordedAndReplayed(c, fn, info, call, stack, report.Obj, bagAdd.Obj) {
					okSite = true
				}
				r.Check(okSite, rule, fn.Name(), fmt.Sprintf("AddDependency call #%d", n), c.pos(call.Pos()),
					"the circular-import error returned here is not reported as a diagnostic (the cycle would be dropped silently)")
				return true
			})
		}
	}
	r.Floor(rule, n, 2, "AddDependency call sites")
	// ReportError builds an Error-severity diagnostic
	sevErr, _ := c.lookupObj("internal/diagnostics", "Error").(*types.Const)
	okSev := false
	ast.Inspect(report.Decl.Body, func(nd ast.Node) bool {
		if kv, ok := nd.(*ast.KeyValueExpr); ok {
			if id, ok := kv.Key.(*ast.Ident); ok && id.Name == "Severity" && constObj(report.Info(), kv.Value) == sevErr && sevErr != nil {
				okSev = true
			}
		}
		return true
	})
	r.Check(okSev, rule, report.Name(), "Severity: Error", c.pos(report.Decl.Pos()), "ReportError must create an Error-severity diagnostic (exit status and code-generation gates count errors)")
}

// recordedAndReplayed: the AddDependency call is preceded, in its block, by a call recording the same
// (importer, imported) pair; the recorder appends to a Pipeline field; a replay function ranges over a copy of
// that field (or the field), reports through ReportError / DiagnosticBag.Add and is called by Run after wg.Wait()
// in the condition of an if whose body returns a non-nil error.
func recordedAndReplayed(c *Ctx, fn *Fn, info *types.Info, call *ast.CallExpr, stack []ast.Node, report, bagAdd *types.Func) bool {
	if len(call.Args) != 2 {
		return false
	}
	a0, a1 := exprStr(call.Args[0]), exprStr(call.Args[1])
	var recorder *Fn
	for i := len(stack) - 1; i >= 0 && recorder == nil; i-- {
		blk, ok := stack[i].(*ast.BlockStmt)
		if !ok {
			continue
		}
		for _, st := range blk.List {
			if st.Pos() >= call.Pos() {
				break
			}
			for _, cl := range callsIn(st, false) {
				if cl != call && len(cl.Args) >= 2 && exprStr(cl.Args[0]) == a0 && exprStr(cl.Args[1]) == a1 {
					if rf := c.FnOf(callee(info, cl)); rf != nil && rf.Decl != nil && rf.Decl.Body != nil {
						recorder = rf
					}
				}
			}
		}
	}
	if recorder == nil {
		return false
	}
	// the field the recorder appends to
	var store *types.Var
	rinfo := recorder.Info()
	ast.Inspect(recorder.Decl.Body, func(x ast.Node) bool {
		if as, ok := x.(*ast.AssignStmt); ok && len(as.Lhs) == 1 && len(as.Rhs) == 1 {
			if cl, ok := as.Rhs[0].(*ast.CallExpr); ok && exprStr(cl.Fun) == "append" {
				if fv := fieldOf(rinfo, as.Lhs[0]); fv != nil {
					store = fv
				}
			}
		}
		return true
	})
	if store == nil {
		return false
	}
	run := c.LookupFn(pkgPipe, "(*Pipeline).Run")
	if run == nil {
		return false
	}
	for _, rf := range c.AllFns(pkgPipe) {
		if rf.Obj == recorder.Obj {
			continue
		}
		finfo := rf.Info()
		reads, reports := false, false
		ast.Inspect(rf.Decl.Body, func(x ast.Node) bool {
			if e, ok := x.(ast.Expr); ok && fieldOf(finfo, e) == store {
				reads = true
			}
			return true
		})
		reports = nodeCallsDeep(finfo, rf.Decl.Body, report) || nodeCallsDeep(finfo, rf.Decl.Body, bagAdd)
		if !reads || !reports {
			continue
		}
		// Run: `wg.Wait()` … `if p.replay() { return <non-nil> }`
		runInfo := run.Info()
		var waitPos token.Pos
		for _, cl := range callsIn(run.Decl.Body, false) {
			if f := callee(runInfo, cl); f != nil && f.Name() == "Wait" && f.Pkg() != nil && f.Pkg().Path() == "sync" {
				waitPos = cl.Pos()
			}
		}
		okRun := false
		ast.Inspect(run.Decl.Body, func(x ast.Node) bool {
			ifs, ok := x.(*ast.IfStmt)
			if !ok || ifs.Pos() < waitPos || nodeCalls(runInfo, ifs.Cond, rf.Obj) == nil {
				return true
			}
			for _, st := range ifs.Body.List {
				if ret, ok := st.(*ast.ReturnStmt); ok && len(ret.Results) == 1 && exprStr(ret.Results[0]) != "nil" {
					okRun = true
				}
			}
			return true
		})
		if okRun && waitPos != token.NoPos {
			return true
		}
	}
	return false
}

func relOf(pkgPath string) string {
	if pkgPath == Mod {
		return "."
	}
	return pkgPath[len(Mod)+1:]
}

func c15R3(c *Ctx, r *Report) {
	const rule = "C15.R3"
	r.Describe(rule, "processModule schedules each module exactly once; Run waits for all parsers before any sequential phase")
	pm := c.LookupFn(pkgPipe, "(*Pipeline).processModule")
	run := c.LookupFn(pkgPipe, "(*Pipeline).Run")
	parse := c.LookupFn(pkgPipe, "(*Pipeline).parseModule")
	wg := c.fieldObj(pkgPipe, "Pipeline", "wg")
	if !r.Anchor(rule, pm != nil && run != nil && parse != nil && wg != nil, "pipeline.Pipeline.{processModule,Run,parseModule,wg}") {
		return
	}
	info := pm.Info()
	// the once-only set: whichever sync.Map field of the pipeline processModule test-and-sets
	var seen *types.Var
	ast.Inspect(pm.Decl.Body, func(n ast.Node) bool {
		if call, ok := n.(*ast.CallExpr); ok {
			if sel, ok := ast.Unparen(call.Fun).(*ast.SelectorExpr); ok && sel.Sel.Name == "LoadOrStore" {
				if f := callee(info, call); f != nil && f.Pkg() != nil && f.Pkg().Path() == "sync" {
					if fv := fieldOf(info, sel.X); fv != nil && seen == nil {
						seen = fv
					}
				}
			}
		}
		return true
	})
	if seen == nil {
		r.Fail(rule, pm.Name(), "go statement only on the not-yet-seen branch of seen.LoadOrStore", c.pos(pm.Decl.Pos()),
			"processModule no longer decides \"first time this module is requested\" with one atomic sync.Map.LoadOrStore: with a separate look-up and insert (even if each is locked) two importers of the same module can both see it as new, the module is parsed twice and the compile fails or differs from run to run")
		return
	}
	isSyncCall := func(n ast.Node, field *types.Var, name string) bool {
		call, ok := n.(*ast.CallExpr)
		if !ok {
			return false
		}
		sel, ok := ast.Unparen(call.Fun).(*ast.SelectorExpr)
		if !ok || fieldOf(info, sel.X) != field {
			return false
		}
		f := callee(info, call)
		return f != nil && f.Pkg() != nil && f.Pkg().Path() == "sync" && f.Name() == name
	}
	g := c.CFG(pm)
	var goStmt *ast.GoStmt
	ast.Inspect(pm.Decl.Body, func(n ast.Node) bool {
		if gs, ok := n.(*ast.GoStmt); ok {
			goStmt = gs
		}
		return true
	})
	if !r.Anchor(rule, goStmt != nil, "go statement in processModule") {
		return
	}
	isGo := func(n ast.Node) bool { return n == ast.Node(goStmt) }
	// (a) go dominated by the not-loaded outcome of seen.LoadOrStore: the branch on `loaded` returns
	loadedGate := func(b *cfg.Block, succ int) bool {
		cond := condOf(b)
		if cond == nil {
			return false
		}
		id, ok := ast.Unparen(cond).(*ast.Ident)
		if !ok {
			return false
		}
		// `if _, loaded := p.seen.LoadOrStore(..); loaded { return }` : false edge (succ 1) is the gate
		obj := info.Uses[id]
		def := false
		ast.Inspect(pm.Decl.Body, func(n ast.Node) bool {
			as, ok := n.(*ast.AssignStmt)
			if !ok || len(as.Rhs) != 1 || len(as.Lhs) != 2 {
				return true
			}
			if cl, ok := as.Rhs[0].(*ast.CallExpr); ok && isSyncCall(cl, seen, "LoadOrStore") {
				if lid, ok := as.Lhs[1].(*ast.Ident); ok && info.Defs[lid] == obj {
					def = true
				}
			}
			return true
		})
		return def && succ == 1
	}
	hits := mustFlow(g, FlowSpec{EdgeGate: loadedGate, Target: isGo})
	r.Check(len(hits) == 0, rule, pm.Name(), "go statement only on the not-yet-seen branch of seen.LoadOrStore", c.pos(goStmt.Pos()),
		"a module can be scheduled for parsing more than once (or the once-only test is not an atomic LoadOrStore)")
	// (b) wg.Add(1) dominates go
	hits = mustFlow(g, FlowSpec{Gate: func(n ast.Node) bool {
		return shallowHas(n, func(x ast.Node) bool { return isSyncCall(x, wg, "Add") })
	}, Target: isGo})
	r.Check(len(hits) == 0, rule, pm.Name(), "wg.Add before go", c.pos(goStmt.Pos()), "goroutine started before wg.Add: Run's wg.Wait() can return while a parser is still running")
	// (c) goroutine body: first statement defer wg.Done(); calls parseModule
	lit, _ := goStmt.Call.Fun.(*ast.FuncLit)
	okBody, callsParse := false, false
	if lit != nil && len(lit.Body.List) > 0 {
		if d, ok := lit.Body.List[0].(*ast.DeferStmt); ok && isSyncCall(d.Call, wg, "Done") {
			okBody = true
		}
		for _, cl := range callsIn(lit.Body, true) {
			if isCallTo(info, cl, parse.Obj) {
				callsParse = true
			}
		}
	}
	r.Check(okBody, rule, pm.Name(), "goroutine starts with defer wg.Done()", c.pos(goStmt.Pos()), "wg.Done is not deferred first: a panic or early return in the parser would hang wg.Wait()")
	r.Check(callsParse, rule, pm.Name(), "goroutine calls parseModule", c.pos(goStmt.Pos()), "goroutine body does not parse the module")
	// (d) exactly one go statement in the module (the concurrent region is what C14 analyses)
	nGo := 0
	for _, p := range c.Pkgs {
		for _, f := range p.Syntax {
			ast.Inspect(f, func(n ast.Node) bool {
				if _, ok := n.(*ast.GoStmt); ok {
					nGo++
				}
				return true
			})
		}
	}
	r.Check(nGo == 1, rule, "module", "single go statement", c.pos(goStmt.Pos()), fmt.Sprintf("%d go statements in the compiler; the schedule-independence argument covers only pipeline.processModule", nGo))

	// (e) Run: wg.Wait() dominates ComputeTopologicalOrder and every run*Phase
	rinfo := run.Info()
	rg := c.CFG(run)
	isWait := func(n ast.Node) bool {
		return shallowHas(n, func(x ast.Node) bool {
			call, ok := x.(*ast.CallExpr)
			if !ok {
				return false
			}
			sel, ok := ast.Unparen(call.Fun).(*ast.SelectorExpr)
			if !ok || fieldOf(rinfo, sel.X) != wg {
				return false
			}
			f := callee(rinfo, call)
			return f != nil && f.Name() == "Wait"
		})
	}
	nSeq := 0
	isSeqPhase := func(n ast.Node) bool {
		return shallowHas(n, func(x ast.Node) bool {
			call, ok := x.(*ast.CallExpr)
			if !ok {
				return false
			}
			f := callee(rinfo, call)
			if f == nil {
				return false
			}
			nm := f.Name()
			if nm == "ComputeTopologicalOrder" || (len(nm) > 3 && nm[:3] == "run" && isMethod(f, Mod+"/"+pkgPipe, "Pipeline", nm)) {
				return true
			}
			return false
		})
	}
	for _, b := range rg.Blocks {
		for _, nd := range b.Nodes {
			if isSeqPhase(nd) {
				nSeq++
			}
		}
	}
	hits = mustFlow(rg, FlowSpec{Gate: isWait, Target: isSeqPhase})
	r.Check(len(hits) == 0, rule, run.Name(), "wg.Wait() before every sequential phase", c.pos(run.Decl.Pos()),
		"a sequential phase (or the topological sort) can start while parser goroutines are still running")
	r.Floor(rule, nSeq, 9, "sequential phase calls in Run")

	// (f) parseModule: imports are scheduled only after this module's dependency edges were registered
	pinfo := parse.Info()
	pg := c.CFG(parse)
	add := c.LookupFn(pkgCtx, "(*CompilerContext).AddDependency")
	var importsVar types.Object
	ast.Inspect(parse.Decl.Body, func(n ast.Node) bool {
		if rs, ok := n.(*ast.RangeStmt); ok {
			for _, cl := range callsIn(rs.Body, false) {
				if isCallTo(pinfo, cl, pm.Obj) {
					if id, ok := ast.Unparen(rs.X).(*ast.Ident); ok {
						importsVar = pinfo.Uses[id]
					}
				}
			}
		}
		return true
	})
	if r.Anchor(rule, add != nil && importsVar != nil, "parseModule: loop scheduling imports") {
		// the scheduling loop must come after a loop over the same slice that calls AddDependency
		sawAddLoop := false
		okOrder := false
		for _, st := range parse.Decl.Body.List {
			rs, ok := st.(*ast.RangeStmt)
			if !ok {
				continue
			}
			id, ok := ast.Unparen(rs.X).(*ast.Ident)
			if !ok || pinfo.Uses[id] != importsVar {
				continue
			}
			for _, cl := range callsIn(rs.Body, false) {
				if isCallTo(pinfo, cl, add.Obj) {
					sawAddLoop = true
				}
				if isCallTo(pinfo, cl, pm.Obj) && sawAddLoop {
					okOrder = true
				}
			}
		}
		r.Check(okOrder, rule, parse.Name(), "edges registered before imports are scheduled", c.pos(parse.Decl.Pos()),
			"imports are scheduled before (or without) registering this module's dependency edges: an importee could finish and close a cycle unseen")
	}
	_ = pg
}

func c15R4(c *Ctx, r *Report) {
	const rule = "C15.R4"
	r.Describe(rule, "Module.Phase is written only by SetModulePhase; AdvanceModulePhase requires the prerequisite; prerequisites form a chain over all phases")
	phaseField := c.fieldObj(pkgCtx, "Module", "Phase")
	set := c.LookupFn(pkgCtx, "(*CompilerContext).SetModulePhase")
	can := c.LookupFn(pkgCtx, "(*CompilerContext).CanProcessPhase")
	adv := c.LookupFn(pkgCtx, "(*CompilerContext).AdvanceModulePhase")
	if !r.Anchor(rule, phaseField != nil && set != nil && can != nil && adv != nil, "Module.Phase / SetModulePhase / CanProcessPhase / AdvanceModulePhase") {
		return
	}
	// who-may-write
	nw := 0
	for _, p := range c.Pkgs {
		info := p.TypesInfo
		for _, fn := range c.AllFns(relOf(p.PkgPath)) {
			ast.Inspect(fn.Decl.Body, func(n ast.Node) bool {
				as, ok := n.(*ast.AssignStmt)
				if !ok {
					return true
				}
				for _, l := range as.Lhs {
					if fieldOf(info, l) == phaseField {
						nw++
						r.Check(fn.Obj == set.Obj, rule, fn.Name(), "writes Module.Phase", c.pos(as.Pos()),
							"Module.Phase is assigned outside SetModulePhase (bypasses the lock and the monotone phase protocol)")
					}
				}
				return true
			})
		}
	}
	r.Floor(rule, nw, 1, "writes of Module.Phase")
	// SetModulePhase holds module.Mu while writing
	{
		info := set.Info()
		muField := c.fieldObj(pkgCtx, "Module", "Mu")
		g := c.CFG(set)
		hits := mustFlow(g, FlowSpec{
			Gate: func(n ast.Node) bool {
				return shallowHas(n, func(x ast.Node) bool { return isMutexCall(info, x, muField, "Lock") })
			},
			Kill: func(n ast.Node) bool {
				return shallowHas(n, func(x ast.Node) bool { return isMutexCall(info, x, muField, "Unlock") })
			},
			Target: func(n ast.Node) bool {
				as, ok := n.(*ast.AssignStmt)
				if !ok {
					return false
				}
				for _, l := range as.Lhs {
					if fieldOf(info, l) == phaseField {
						return true
					}
				}
				return false
			}})
		r.Check(len(hits) == 0, rule, set.Name(), "Phase written under module.Mu", c.pos(set.Decl.Pos()), "Module.Phase written without module.Mu held")
	}
	// CanProcessPhase: returns currentPhase == prerequisite
	{
		info := can.Info()
		okShape := false
		if res := trailingReturn(can); len(res) == 1 {
			if b, ok := isBinOp(res[0], token.EQL); ok {
				_, ok1 := ast.Unparen(b.X).(*ast.Ident)
				_, ok2 := ast.Unparen(b.Y).(*ast.Ident)
				okShape = ok1 && ok2
			}
		}
		_ = info
		r.Check(okShape, rule, can.Name(), "current == prerequisite", c.pos(can.Decl.Pos()), "a phase may be entered only from exactly its prerequisite phase")
	}
	// AdvanceModulePhase: SetModulePhase dominated by CanProcessPhase true
	{
		info := adv.Info()
		g := c.CFG(adv)
		hits := mustFlow(g, FlowSpec{
			EdgeGate: func(b *cfg.Block, succ int) bool {
				cond := condOf(b)
				if cond == nil {
					return false
				}
				// if !CanProcessPhase(..) { return false } : false edge; if CanProcessPhase(..) {..}: true edge
				neg := false
				e := ast.Unparen(cond)
				if u, ok := e.(*ast.UnaryExpr); ok && u.Op == token.NOT {
					neg, e = true, ast.Unparen(u.X)
				}
				call, ok := e.(*ast.CallExpr)
				if !ok || !isCallTo(info, call, can.Obj) {
					return false
				}
				return (neg && succ == 1) || (!neg && succ == 0)
			},
			Target: func(n ast.Node) bool {
				return shallowHas(n, func(x ast.Node) bool { cl, ok := x.(*ast.CallExpr); return ok && isCallTo(info, cl, set.Obj) })
			}})
		r.Check(len(hits) == 0, rule, adv.Name(), "SetModulePhase only after CanProcessPhase", c.pos(adv.Decl.Pos()), "AdvanceModulePhase can set a phase whose prerequisite is not met")
	}
	// prerequisites chain
	pp := c.ByPath[Mod+"/"+pkgPhase]
	if !r.Anchor(rule, pp != nil, "package phase") {
		return
	}
	var phases []*types.Const
	for _, n := range pp.Types.Scope().Names() {
		if co, ok := pp.Types.Scope().Lookup(n).(*types.Const); ok && isNamed(co.Type(), Mod+"/"+pkgPhase, "ModulePhase") {
			phases = append(phases, co)
		}
	}
	sort.Slice(phases, func(i, j int) bool { return intVal(phases[i].Val()) < intVal(phases[j].Val()) })
	prereq := map[int64]int64{}
	var litPos token.Pos
	for _, f := range pp.Syntax {
		ast.Inspect(f, func(n ast.Node) bool {
			vs, ok := n.(*ast.ValueSpec)
			if !ok || len(vs.Names) != 1 || vs.Names[0].Name != "PhasePrerequisites" || len(vs.Values) != 1 {
				return true
			}
			cl, ok := vs.Values[0].(*ast.CompositeLit)
			if !ok {
				return true
			}
			litPos = cl.Pos()
			for _, el := range cl.Elts {
				if kv, ok := el.(*ast.KeyValueExpr); ok {
					k, v := constOf(pp.TypesInfo, kv.Key), constOf(pp.TypesInfo, kv.Value)
					if k != nil && v != nil {
						prereq[intVal(k)] = intVal(v)
					}
				}
			}
			return true
		})
	}
	if r.Anchor(rule, len(prereq) > 0 && len(phases) >= 11, "phase.PhasePrerequisites literal and >= 11 phases") {
		for i, ph := range phases {
			v := intVal(ph.Val())
			r.Check(v == int64(i), rule, "phase", "phase values are consecutive: "+ph.Name(), c.pos(ph.Pos()), "phase constants must be 0..n-1 (run*Phase skip tests compare with <)")
			if i == 0 {
				_, has := prereq[v]
				r.Check(!has, rule, "phase.PhasePrerequisites", ph.Name()+" has no prerequisite", c.pos(litPos), "the initial phase must not have a prerequisite")
				continue
			}
			got, has := prereq[v]
			r.Check(has && got == intVal(phases[i-1].Val()), rule, "phase.PhasePrerequisites", ph.Name()+" <- "+phases[i-1].Name(), c.pos(litPos),
				fmt.Sprintf("prerequisite of %s must be %s (chain over all phases); found %v (present=%v)", ph.Name(), phases[i-1].Name(), got, has))
		}
		r.Exhaust[rule] = true
	}
	_ = constant.MakeBool
}

func c15R5(c *Ctx, r *Report) {
	const rule = "C15.R5"
	r.Describe(rule, "ComputeTopologicalOrder: map ranges are order-insensitive (frontiers sorted), runs under the lock, stores the order once")
	fn := c.LookupFn(pkgCtx, "(*CompilerContext).ComputeTopologicalOrder")
	sorted := c.fieldObj(pkgCtx, "CompilerContext", "sortedModules")
	if !r.Anchor(rule, fn != nil && sorted != nil, "ComputeTopologicalOrder / sortedModules") {
		return
	}
	n := 0
	ast.Inspect(fn.Decl.Body, func(nd ast.Node) bool {
		rs, ok := nd.(*ast.RangeStmt)
		if !ok || !isMapType(fn.Info().TypeOf(rs.X)) {
			return true
		}
		n++
		cls, why := classifyMapRange(c, fn, rs)
		r.Check(cls != "sensitive", rule, fn.Name(), fmt.Sprintf("map range #%d over %s", n, exprStr(rs.X)), c.pos(rs.Pos()),
			"module order would depend on map iteration order: "+why)
		return true
	})
	r.Floor(rule, n, 4, "map ranges in ComputeTopologicalOrder")
	// the dependency-ordered slice is not reordered by an unstable sort before it is stored
	info0 := fn.Info()
	var orderVar types.Object
	ast.Inspect(fn.Decl.Body, func(nd ast.Node) bool {
		if as, ok := nd.(*ast.AssignStmt); ok && len(as.Lhs) == 1 && len(as.Rhs) == 1 && fieldOf(info0, as.Lhs[0]) == sorted {
			orderVar = objOf(info0, as.Rhs[0])
		}
		return true
	})
	if r.Anchor(rule, orderVar != nil, "ComputeTopologicalOrder: sortedModules = <local>") {
		reorder := ""
		for _, cl := range callsIn(fn.Decl.Body, true) {
			uses := false
			for _, a := range cl.Args {
				if mentionsVar(info0, a, orderVar) {
					uses = true
				}
			}
			if !uses {
				continue
			}
			f := callee(info0, cl)
			if f == nil || f.Pkg() == nil {
				continue // builtins (append, len)
			}
			if f.Pkg().Path() == "sort" || f.Pkg().Path() == "slices" {
				if !strings.Contains(f.Name(), "Stable") {
					reorder = f.Pkg().Name() + "." + f.Name()
				}
			}
		}
		r.Check(reorder == "", rule, fn.Name(), "the dependency order is not re-sorted with an unstable sort", c.pos(fn.Decl.Pos()),
			"the topologically ordered slice is passed to "+reorder+": elements that compare equal (all project modules) may be permuted — for more than 12 modules pdqsort does — and a module is then processed before a module it imports (its dependency's types are still unknown)")
	}
	// sortedModules written only here (and by nothing in the concurrent region)
	for _, p := range c.Pkgs {
		info := p.TypesInfo
		for _, f := range c.AllFns(relOf(p.PkgPath)) {
			ast.Inspect(f.Decl.Body, func(nd ast.Node) bool {
				if as, ok := nd.(*ast.AssignStmt); ok {
					for _, l := range as.Lhs {
						if fieldOf(info, l) == sorted {
							r.Check(f.Obj == fn.Obj, rule, f.Name(), "writes sortedModules", c.pos(as.Pos()), "module order is written outside ComputeTopologicalOrder")
						}
					}
				}
				return true
			})
		}
	}
}

func init() { props["C15"].Quick = append(props["C15"].Quick, c15R6) }

// C15.R6: an import alias means what the *importing* module says. Call-target resolution in both back ends
// may consult generator-level tables only with a key that involves the importing module.
func c15R6(c *Ctx, r *Report) {
	const rule = "C15.R6"
	r.Describe(rule, "resolveCallTarget (wasm, QBE): the alias is looked up in the importing module's ImportAliasMap, and no generator-level map is indexed by the bare target/alias text")
	n := 0
	for _, rel := range []string{pkgWasm, pkgQBE} {
		fn := c.LookupFn(rel, "(*Generator).resolveCallTarget")
		if !r.Anchor(rule, fn != nil, rel+".(*Generator).resolveCallTarget") {
			continue
		}
		n++
		info := fn.Info()
		recv := fn.Obj.Type().(*types.Signature).Recv()
		usesAliasMap := false
		var bad []string
		where := c.pos(fn.Decl.Pos())
		defs := localDefs(fn)
		// "module-dependent" expressions: mention the receiver's mod field / a *Module parameter, or a local defined from one
		var modDep func(e ast.Expr, depth int) bool
		modDep = func(e ast.Expr, depth int) bool {
			dep := false
			ast.Inspect(e, func(x ast.Node) bool {
				switch y := x.(type) {
				case *ast.SelectorExpr:
					if y.Sel.Name == "ImportAliasMap" || y.Sel.Name == "ImportPath" || y.Sel.Name == "mod" {
						dep = true
					}
				case *ast.Ident:
					if v, ok := info.Uses[y].(*types.Var); ok {
						if nt := namedOf(v.Type()); nt != nil && nt.Obj().Name() == "Module" {
							dep = true
						}
						if depth < 3 {
							for _, d := range defs[v] {
								if modDep(d, depth+1) {
									dep = true
								}
							}
						}
					}
				}
				return !dep
			})
			return dep
		}
		ast.Inspect(fn.Decl.Body, func(x ast.Node) bool {
			ix, ok := x.(*ast.IndexExpr)
			if !ok {
				return true
			}
			if _, isMap := info.TypeOf(ix.X).Underlying().(*types.Map); !isMap {
				return true
			}
			if sel, ok := ix.X.(*ast.SelectorExpr); ok {
				if sel.Sel.Name == "ImportAliasMap" {
					usesAliasMap = true
					return true
				}
				if objOf(info, sel.X) == recv {
					// generator-level table
					if !modDep(ix.Index, 0) {
						bad = append(bad, exprStr(ix))
						where = c.pos(ix.Pos())
					}
				}
			}
			return true
		})
		r.Check(usesAliasMap, rule, fn.Name(), "alias resolved through the importing module's ImportAliasMap", c.pos(fn.Decl.Pos()), "qualified call targets are no longer resolved with the alias table of the module that contains the call")
		r.Check(len(bad) == 0, rule, fn.Name(), "no program-wide table keyed by alias text", where,
			fmt.Sprintf("%v is shared by all modules but keyed without the importing module: two importers that bind the same alias to different modules get each other's function", bad))
	}
	r.Floor(rule, n, 2, "resolveCallTarget implementations")
}
