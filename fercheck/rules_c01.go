package main

func init() {
	register("C01", &propSpec{
		Explanation: "Structural necessary conditions of native-code correctness: QBE instruction-selection tables agree with the QBE IL reference for every operator x scalar type (R2). Does not decide semantic preservation of the lowerings.",
		Quick:       []ruleFn{c01R2},
	})
	register("C02", &propSpec{
		Explanation: "Structural necessary conditions of back-end agreement: wasm encoding constants match the WebAssembly binary format (R1); wasm selection tables pick the spec instruction for every operator x value type x signedness (R2).",
		Quick:       []ruleFn{c02R1, c02R2},
	})
}
