package main

import (
	"fmt"
	"os"
	"testing"
)

func TestDumpCFG(t *testing.T) {
	name := os.Getenv("DUMP_FN")
	if name == "" {
		t.Skip()
	}
	c, err := loadRepo("/repo", nil)
	if err != nil {
		t.Fatal(err)
	}
	fn := c.LookupFn(os.Getenv("DUMP_PKG"), name)
	g := c.CFG(fn)
	fmt.Println(g.Format(c.Fset))
}
