package main

import (
	"fmt"
	"go/ast"
	"go/token"
	"go/types"
	"strings"
)

const pkgSymbols = "internal/semantics/symbols"
const pkgTable = "internal/semantics/table"

func init() {
	register("C12", &propSpec{
		Explanation: "Structural necessary conditions of capitalisation-based visibility: (R1) every lookup of a name in another module's scope performed by a semantic phase tests Symbol.Exported before using the symbol (or is a reviewed site whose node is proven to reach a testing site); (R3) Symbol.Exported is only ever assigned from utils.IsExported(name) or false, and the private-field gate in checkSelectorExpr has the receiver-only shape.",
		Quick:       []ruleFn{c12R1, c12R3},
	})
}

// crossModuleLookups: calls S.GetSymbol(..)/S.Lookup(..) where S is `<m>.ModuleScope` and <m> is a local
// variable assigned from ctx.GetModule(..) (i.e. a module other than the one being compiled).
func c12R1(c *Ctx, r *Report) {
	const rule = "C12.R1"
	r.Describe(rule, "cross-module symbol lookups in semantic phases test Symbol.Exported")
	getModule := c.LookupFn(pkgCtx, "(*CompilerContext).GetModule")
	modScope := c.fieldObj(pkgCtx, "Module", "ModuleScope")
	exported := c.fieldObj(pkgSymbols, "Symbol", "Exported")
	if !r.Anchor(rule, getModule != nil && modScope != nil && exported != nil, "CompilerContext.GetModule / Module.ModuleScope / Symbol.Exported") {
		return
	}
	reviewed := map[string]string{
		"semantics/typechecker.inferScopeResolutionExprType": "the same ScopeResolutionExpr node is checked by resolver.resolveStaticAccess in the preceding phase, which reports non-exported symbols (C12.R2 traversal); inference only maps the symbol to a type",
		"semantics/collector.collectMethodDeclSignature":     "looks up the receiver *type* to attach a method; methods on types of other modules are rejected outright (TestCrossModuleMethodRestriction)",
		"semantics/typechecker.lookupNamedTypeSymbol":        "resolves the declaration of a NamedType an expression already has through the module the type records (C12.R9); never called with a name written by the user",
		"semantics/typechecker.lookupTypeSymbol":             "called only with the name of a NamedType an expression already has (method lookup, interface satisfaction), never with a name written by the user; a value of a private type can legitimately arrive through an exported function",
	}
	n := 0
	for _, p := range c.Pkgs {
		rel := relOf(p.PkgPath)
		if !strings.HasPrefix(rel, "internal/semantics/") {
			continue
		}
		for _, fn := range c.AllFns(rel) {
			info := fn.Info()
			// locals bound to another module
			other := map[types.Object]bool{}
			ast.Inspect(fn.Decl.Body, func(nd ast.Node) bool {
				as, ok := nd.(*ast.AssignStmt)
				if !ok || len(as.Rhs) != 1 {
					return true
				}
				if call, ok := as.Rhs[0].(*ast.CallExpr); ok && isCallTo(info, call, getModule.Obj) {
					if id, ok := as.Lhs[0].(*ast.Ident); ok {
						if o := info.Defs[id]; o != nil {
							other[o] = true
						} else if o := info.Uses[id]; o != nil {
							other[o] = true
						}
					}
				}
				return true
			})
			if len(other) == 0 {
				continue
			}
			// lookups through <other>.ModuleScope
			for _, call := range callsIn(fn.Decl.Body, true) {
				sel, ok := ast.Unparen(call.Fun).(*ast.SelectorExpr)
				if !ok || (sel.Sel.Name != "GetSymbol" && sel.Sel.Name != "Lookup") {
					continue
				}
				if fieldOf(info, sel.X) != modScope {
					continue
				}
				root := rootIdent(sel.X)
				if root == nil || !other[info.Uses[root]] {
					continue
				}
				n++
				// the symbol variable receiving the result
				var symObj types.Object
				walkWithStack(fn.Decl.Body, func(x ast.Node, stack []ast.Node) bool {
					if as, ok := x.(*ast.AssignStmt); ok && len(as.Rhs) == 1 && as.Rhs[0] == ast.Expr(call) {
						if id, ok := as.Lhs[0].(*ast.Ident); ok {
							symObj = info.Defs[id]
							if symObj == nil {
								symObj = info.Uses[id]
							}
						}
					}
					return true
				})
				tested := false
				if symObj != nil {
					// accepted shapes: `if !sym.Exported { <report>; return }`  or  `if sym.Exported {..} else { <report> }`
					isExportedOf := func(e ast.Expr) bool {
						s, ok := ast.Unparen(e).(*ast.SelectorExpr)
						if !ok || fieldOf(info, s) != exported {
							return false
						}
						id, ok := ast.Unparen(s.X).(*ast.Ident)
						return ok && info.Uses[id] == symObj
					}
					ast.Inspect(fn.Decl.Body, func(x ast.Node) bool {
						ifs, ok := x.(*ast.IfStmt)
						if !ok {
							return true
						}
						cond := ast.Unparen(ifs.Cond)
						if u, ok := cond.(*ast.UnaryExpr); ok && u.Op == token.NOT && isExportedOf(u.X) {
							if thenTerminates(ifs) && nodeCallsPred(ifs.Body, func(cl *ast.CallExpr) bool {
								f := callee(info, cl)
								return f != nil && f.Name() == "Add" && isMethod(f, Mod+"/internal/diagnostics", "DiagnosticBag", "Add")
							}) != nil {
								tested = true
							}
						}
						if isExportedOf(cond) && ifs.Else != nil && nodeCallsPred(ifs.Else, func(cl *ast.CallExpr) bool {
							f := callee(info, cl)
							return f != nil && isMethod(f, Mod+"/internal/diagnostics", "DiagnosticBag", "Add")
						}) != nil {
							tested = true
						}
						return true
					})
				}
				construct := fmt.Sprintf("%s.ModuleScope.%s(%s)", root.Name, sel.Sel.Name, exprStr(call.Args[0]))
				if tested {
					r.OK(rule, fn.Name(), construct, c.pos(call.Pos()), "tests .Exported")
					continue
				}
				if reason, ok := reviewed[fn.Name()]; ok {
					r.OK(rule, fn.Name(), construct, c.pos(call.Pos()), "reviewed: "+reason)
					continue
				}
				r.Fail(rule, fn.Name(), construct, c.pos(call.Pos()),
					"a symbol of another module is looked up and used without testing Symbol.Exported: a lowercase (private) name of that module can be named from here")
			}
		}
	}
	r.Floor(rule, n, 4, "cross-module lookups in semantic phases")
}

// C12.R3: gate shape.
func c12R3(c *Ctx, r *Report) {
	const rule = "C12.R3"
	r.Describe(rule, "Symbol.Exported is assigned only from utils.IsExported(<declared name>) or false; IsExported tests the first rune for upper case")
	exported := c.fieldObj(pkgSymbols, "Symbol", "Exported")
	isExp := c.LookupFn("internal/utils", "IsExported")
	if !r.Anchor(rule, exported != nil && isExp != nil, "Symbol.Exported / utils.IsExported") {
		return
	}
	n := 0
	for _, p := range c.Pkgs {
		info := p.TypesInfo
		for _, fn := range c.AllFns(relOf(p.PkgPath)) {
			ast.Inspect(fn.Decl.Body, func(nd ast.Node) bool {
				var val ast.Expr
				switch x := nd.(type) {
				case *ast.KeyValueExpr:
					if id, ok := x.Key.(*ast.Ident); ok && info.Uses[id] == exported {
						val = x.Value
					}
				case *ast.AssignStmt:
					for i, l := range x.Lhs {
						if fieldOf(info, l) == exported && i < len(x.Rhs) {
							val = x.Rhs[i]
						}
					}
				}
				if val == nil {
					return true
				}
				n++
				ok := false
				if v := constOf(info, val); v != nil && !boolVal(v) {
					ok = true // false: never exported
				}
				if v := constOf(info, val); v != nil && boolVal(v) && fn.Name() == "context_v2.registerBuiltins" {
					ok = true // universe symbols (builtin types and functions) are visible everywhere by definition
				}
				if call, isCall := ast.Unparen(val).(*ast.CallExpr); isCall && isCallTo(info, call, isExp.Obj) {
					ok = true
				}
				// copying another symbol's flag (enum variants inherit the enum's flag)
				if fieldOf(info, val) == exported {
					ok = true
				}
				r.Check(ok, rule, fn.Name(), fmt.Sprintf("Exported = %s", exprStr(val)), c.pos(val.Pos()),
					"Symbol.Exported is set from something other than utils.IsExported(name), false, or another symbol's flag")
				return true
			})
		}
	}
	r.Floor(rule, n, 6, "assignments of Symbol.Exported")
	// IsExported: unicode.IsUpper on the first rune
	usesUpper := false
	for _, call := range callsIn(isExp.Decl.Body, false) {
		if f := callee(isExp.Info(), call); f != nil && f.Pkg() != nil && f.Pkg().Path() == "unicode" && f.Name() == "IsUpper" {
			usesUpper = true
		}
	}
	if !usesUpper {
		// one level of delegation (utils.IsExported -> strings.IsCapitalized)
		for _, call := range callsIn(isExp.Decl.Body, false) {
			if f := callee(isExp.Info(), call); f != nil {
				if inner := c.FnOf(f); inner != nil {
					ast.Inspect(inner.Decl.Body, func(nd ast.Node) bool {
						if bl, ok := nd.(*ast.BasicLit); ok && (bl.Value == "'A'" || bl.Value == "'Z'") {
							usesUpper = true
						}
						if cl, ok := nd.(*ast.CallExpr); ok {
							if g := callee(inner.Info(), cl); g != nil && g.Pkg() != nil && g.Pkg().Path() == "unicode" && g.Name() == "IsUpper" {
								usesUpper = true
							}
						}
						return true
					})
				}
			}
		}
	}
	if !usesUpper {
		// accept an explicit 'A' <= c && c <= 'Z' comparison
		src := false
		ast.Inspect(isExp.Decl.Body, func(nd ast.Node) bool {
			if bl, ok := nd.(*ast.BasicLit); ok && (bl.Value == "'A'" || bl.Value == "'Z'") {
				src = true
			}
			return true
		})
		usesUpper = src
	}
	c12FieldGate(c, r, isExp)
	r.Check(usesUpper, rule, isExp.Name(), "first character upper case", c.pos(isExp.Decl.Pos()), "IsExported no longer decides by the case of the first character")
}

func init() { props["C12"].Quick = append(props["C12"].Quick, c12R2) }

// C12.R2: every syntactic position reaches an export gate. Expressions: module::name is checked only by
// resolver.resolveStaticAccess, so the resolver's walk must reach every value child. Types: module::Type
// is checked where TypeFromTypeNodeWithContext resolves it, so every type-node child must reach that function.
func c12R2(c *Ctx, r *Report) {
	const rule = "C12.R2"
	r.Describe(rule, "every expression position reaches the resolver (export gate for module::name); every type position reaches TypeFromTypeNodeWithContext (export gate for module::Type)")
	rExpr, rNode, rBlock := c.LookupFn(pkgResolver, "resolveExpr"), c.LookupFn(pkgResolver, "resolveNode"), c.LookupFn(pkgResolver, "resolveBlock")
	static := c.LookupFn(pkgResolver, "resolveStaticAccess")
	if !r.Anchor(rule, rExpr != nil && rNode != nil && rBlock != nil && static != nil, "resolver walkers / resolveStaticAccess") {
		return
	}
	// the ScopeResolutionExpr case of resolveExpr delegates to resolveStaticAccess, which tests Exported
	exported := c.fieldObj(pkgSymbols, "Symbol", "Exported")
	tests := false
	ast.Inspect(static.Decl.Body, func(nd ast.Node) bool {
		if ifs, ok := nd.(*ast.IfStmt); ok {
			ast.Inspect(ifs.Cond, func(x ast.Node) bool {
				if s, ok := x.(*ast.SelectorExpr); ok && fieldOf(static.Info(), s) == exported {
					if len(ifs.Body.List) > 0 && thenTerminates(ifs) {
						tests = true
					}
				}
				return true
			})
		}
		return true
	})
	r.Check(tests, rule, static.Name(), "if !sym.Exported { report; return }", c.pos(static.Decl.Pos()), "resolveStaticAccess no longer rejects non-exported symbols")
	delegates := false
	for _, ts := range typeSwitchesOn(rExpr.Info(), rExpr.Decl.Body, rExpr.ParamNamed("expr")) {
		for _, cc := range caseClauses(ts.Body) {
			for _, t := range caseTypes(rExpr.Info(), cc) {
				if n := namedOf(t); n != nil && n.Obj().Name() == "ScopeResolutionExpr" {
					for _, s := range cc.Body {
						if nodeCalls(rExpr.Info(), s, static.Obj) != nil {
							delegates = true
						}
					}
				}
			}
		}
	}
	r.Check(delegates, rule, rExpr.Name(), "case *ast.ScopeResolutionExpr -> resolveStaticAccess", c.pos(rExpr.Decl.Pos()), "qualified names in expressions no longer reach the export check")

	fa := newFlow(c, []string{pkgResolver}, []string{pkgAST}, []*Fn{rExpr, rNode, rBlock})
	fa.run()
	paths := map[string]bool{}
	for _, pp := range []map[string]bool{fa.paramPaths(rExpr, "expr"), fa.paramPaths(rNode, "node"), fa.paramPaths(rBlock, "block")} {
		for p := range pp {
			paths[p] = true
		}
	}
	visited := lastFieldPairs(paths)
	u := buildASTUniverse(c)
	set := c.fieldsSet(pkgAST, pkgParser)
	n := 0
	for _, k := range sortedKeys(u.fields) {
		if _, built := u.kinds[k]; (!built && !u.conduit[k]) || k == "Module" {
			continue
		}
		for _, f := range u.fields[k] {
			pair := k + "." + f
			if !set[pair] {
				continue
			}
			if reason, ok := c03R2Exempt[pair]; ok {
				r.OK(rule, "resolver traversal", pair, "-", "exempt: "+reason)
				continue
			}
			n++
			r.Check(visited[pair], rule, "resolver traversal", pair, "-",
				fmt.Sprintf("expressions stored in %s are never resolved, so `module::private` written there skips the export check", pair))
		}
	}
	r.Floor(rule, n, 38, "AST (kind, value child) pairs")

	// type positions
	tft := c.LookupFn(pkgTC, "TypeFromTypeNodeWithContext")
	if !r.Anchor(rule, tft != nil, "TypeFromTypeNodeWithContext") {
		return
	}
	ft := newFlow(c, []string{pkgTC, "internal/semantics/collector"}, []string{pkgAST}, []*Fn{tft})
	ft.run()
	tvisited := map[string]bool{}
	for _, m := range ft.summary {
		for _, ps := range m {
			for p := range anyFieldPairs(ps) { // a type field may be a conduit (FuncLit.Type -> FuncType.Params[*].Type)
				tvisited[p] = true
			}
		}
	}
	// TypeFromTypeNodeWithContext's own recursion over composite type nodes
	for p := range lastFieldPairs(ft.paramPaths(tft, "typeNode")) {
		tvisited[p] = true
	}
	nt := 0
	for _, k := range sortedKeys(u.typeFields) {
		for _, f := range u.typeFields[k] {
			pair := k + "." + f
			if !set[pair] {
				continue
			}
			nt++
			r.Check(tvisited[pair], rule, "type-position traversal", pair, "-",
				fmt.Sprintf("the type stored in %s never reaches TypeFromTypeNodeWithContext in the collector/type checker, so `module::private` written there is not checked for export", pair))
		}
	}
	r.Floor(rule, nt, 8, "AST (kind, type child) pairs")
	r.Note("C12.R2 type pairs visited: %s", strings.Join(sortedSet(tvisited), " "))
}

// c12FieldGate: checkSelectorExpr rejects access to a lowercase field unless the base is the receiver.
func c12FieldGate(c *Ctx, r *Report, isExp *Fn) {
	const rule = "C12.R3"
	fn := c.LookupFn(pkgTC, "checkSelectorExpr")
	recvKind, _ := c.lookupObj(pkgSymbols, "SymbolReceiver").(*types.Const)
	if !r.Anchor(rule, fn != nil && recvKind != nil, "checkSelectorExpr / symbols.SymbolReceiver") {
		return
	}
	info := fn.Info()
	ok := false
	var pos token.Pos = fn.Decl.Pos()
	ast.Inspect(fn.Decl.Body, func(nd ast.Node) bool {
		ifs, isIf := nd.(*ast.IfStmt)
		if !isIf {
			return true
		}
		u, isNot := ast.Unparen(ifs.Cond).(*ast.UnaryExpr)
		if !isNot || u.Op != token.NOT {
			return true
		}
		call, isCall := ast.Unparen(u.X).(*ast.CallExpr)
		if !isCall || !isCallTo(info, call, isExp.Obj) {
			return true
		}
		pos = ifs.Pos()
		// inside: flag set true only under Kind == SymbolReceiver; `if !flag { report; return }`
		var flag types.Object
		setOK := true
		walkWithStack(ifs.Body, func(x ast.Node, stack []ast.Node) bool {
			as, isAs := x.(*ast.AssignStmt)
			if !isAs || len(as.Lhs) != 1 || len(as.Rhs) != 1 {
				return true
			}
			v := constOf(info, as.Rhs[0])
			id, isID := as.Lhs[0].(*ast.Ident)
			if v == nil || !isID || !boolVal(v) || as.Tok == token.DEFINE {
				return true
			}
			flag = info.Uses[id]
			guarded := false
			for _, a := range stack {
				if g, isIf := a.(*ast.IfStmt); isIf && containsNode(g.Body, as) {
					// the guard may be strengthened (`… && receiverDeclaredAs(…)`): one conjunct is the kind test
					for _, cj := range conjuncts(g.Cond) {
						if b, isEq := isBinOp(cj, token.EQL); isEq && (constObj(info, b.Y) == recvKind || constObj(info, b.X) == recvKind) {
							guarded = true
						}
					}
				}
			}
			if !guarded {
				setOK = false
			}
			return true
		})
		reports := false
		ast.Inspect(ifs.Body, func(x ast.Node) bool {
			g, isIf := x.(*ast.IfStmt)
			if !isIf || flag == nil {
				return true
			}
			if n, isNot := ast.Unparen(g.Cond).(*ast.UnaryExpr); isNot && n.Op == token.NOT {
				if id, isID := ast.Unparen(n.X).(*ast.Ident); isID && info.Uses[id] == flag && thenTerminates(g) {
					reports = true
				}
			}
			return true
		})
		if flag != nil && setOK && reports {
			ok = true
		}
		return true
	})
	r.Check(ok, rule, fn.Name(), "private field: only through a receiver symbol", c.pos(pos),
		"the private-field gate must be `if !IsExported(field) { isReceiver only when the base symbol's Kind == SymbolReceiver; if !isReceiver { report; return } }`")
}
